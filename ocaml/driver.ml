(* driver.ml — runs the extracted Coq model on a case file and prints one canonical result line per
   case, in the same format as the C++ drivers.  Glue only: token parsing and printing. *)
module ZZ = Z
open Model

(* ---- conversions between decimal tokens and the extracted Z (via Zarith, bit by bit) ------------- *)
let rec pos_of_zz (n : ZZ.t) : positive =
  if ZZ.equal n ZZ.one then XH
  else if ZZ.is_even n then XO (pos_of_zz (ZZ.shift_right n 1))
  else XI (pos_of_zz (ZZ.shift_right n 1))
let z_of_zz (n : ZZ.t) : z =
  if ZZ.sign n = 0 then Z0 else if ZZ.sign n > 0 then Zpos (pos_of_zz n) else Zneg (pos_of_zz (ZZ.neg n))
let rec zz_of_pos (p : positive) : ZZ.t =
  match p with
  | XH -> ZZ.one
  | XO q -> ZZ.shift_left (zz_of_pos q) 1
  | XI q -> ZZ.succ (ZZ.shift_left (zz_of_pos q) 1)
let zz_of_z (x : z) : ZZ.t = match x with Z0 -> ZZ.zero | Zpos p -> zz_of_pos p | Zneg p -> ZZ.neg (zz_of_pos p)
let z_of_string s = z_of_zz (ZZ.of_string s)
let string_of_z x = ZZ.to_string (zz_of_z x)
let rec nat_of_int n : nat = if n <= 0 then O else S (nat_of_int (n - 1))
let rec int_of_nat (n : nat) = match n with O -> 0 | S m -> 1 + int_of_nat m

(* ---- printing -------------------------------------------------------------------------------------- *)
let pr_list l = if l = [] then "-" else String.concat "," (List.map string_of_z l)
let pr_tval v =
  match v with
  | TZ (Ok x) -> string_of_z x
  | TL (Ok l) -> pr_list l
  | TB (Ok l) -> if l = [] then "-" else String.concat "" (List.map (fun b -> if b then "1" else "0") l)
  | TZ UB | TL UB | TB UB -> "UB"
let pr_transcript labels vals =
  let rec go ls vs = match ls, vs with
    | l :: ls', v :: vs' -> (l ^ "=" ^ pr_tval v) :: go ls' vs'
    | [], v :: vs' -> ("?=" ^ pr_tval v) :: go [] vs'
    | _, [] -> [] in
  String.concat " " (go labels vals)

(* ---- token stream ---------------------------------------------------------------------------------- *)
type toks = { a : string array; mutable p : int }
let next tk = let s = tk.a.(tk.p) in tk.p <- tk.p + 1; s
let next_int tk = int_of_string (next tk)
let next_z tk = z_of_string (next tk)
let rec take_n tk n f = if n <= 0 then [] else let x = f tk in x :: take_n tk (n - 1) f
let opt_of_tok s = if s = "-1" then None else Some (z_of_string s)

(* family M: inst ity layout pv R pat*R ctor e*R [s*R | dpv] nidx (idx*R)*nidx *)
let run_M caseno tk =
  let _inst = next_int tk in
  let ity = ity_of_nat (nat_of_int (next_int tk)) in
  let lay = next_int tk in
  let pv = opt_of_tok (next tk) in
  let r = next_int tk in
  let pat = take_n tk r (fun tk -> opt_of_tok (next tk)) in
  let ctor = next_int tk in
  let es = take_n tk r next_z in
  let ss = if lay = 2 || ctor = 4 then take_n tk r next_z else [] in
  let dpv = if ctor = 2 then next_z tk else Z0 in
  let nidx = next_int tk in
  let idxs = if nidx < 0 then None else Some (take_n tk nidx (fun tk -> take_n tk r next_z)) in
  let tr = map_transcript ity (nat_of_int lay) pv pat (nat_of_int ctor) es ss dpv idxs in
  Printf.printf "M %d %s\n" caseno (pr_transcript ["ext"; "span"; "st"; "strides"; "fl"; "mfl"; "sz"; "emp"; "mext"; "mst"; "rk"; "sext"; "offs"] tr)

(* mapping value tokens: ity layout pv R pat*R ctor e*R [s*R | dpv] *)
let read_mval tk =
  let ity = ity_of_nat (nat_of_int (next_int tk)) in
  let lay = next_int tk in
  let pv = opt_of_tok (next tk) in
  let r = next_int tk in
  let pat = take_n tk r (fun tk -> opt_of_tok (next tk)) in
  let ctor = next_int tk in
  let es = take_n tk r next_z in
  let ss = if lay = 2 then take_n tk r next_z else [] in
  let dpv = if ctor = 2 then next_z tk else Z0 in
  ({ mv_t = ity; mv_lay = nat_of_int lay; mv_pv = pv; mv_pat = pat; mv_ctor = nat_of_int ctor; mv_vals = es; mv_ss = ss; mv_dpv = dpv }, r)
let read_points tk r =
  let nidx = next_int tk in
  if nidx < 0 then None else Some (take_n tk nidx (fun tk -> take_n tk r next_z))

(* family V: prog kind ... *)
let run_V caseno tk =
  let _prog = next_int tk in
  let kind = next_int tk in
  if kind = 0 then begin
    let (sv, r) = read_mval tk in
    let tt = ity_of_nat (nat_of_int (next_int tk)) in
    let lay = next_int tk in
    let pv = opt_of_tok (next tk) in
    let r2 = next_int tk in
    let pat = take_n tk r2 (fun tk -> opt_of_tok (next tk)) in
    let tgt = { mt_t = tt; mt_pat = pat; mt_kind = lkind_of_nat (nat_of_int lay); mt_pv = pv } in
    let idxs = read_points tk r in
    Printf.printf "V %d %s\n" caseno (pr_transcript ["ext"; "span"; "st"; "offs"; "soffs"; "eqts"; "nets"; "eqst"; "nest"; "cp"; "rt"] (v_conv sv tgt idxs))
  end else begin
    let (av, ra) = read_mval tk in
    let (bv, _) = read_mval tk in
    let idxs = if tk.p < Array.length tk.a then read_points tk ra else Some [] in
    Printf.printf "V %d %s\n" caseno (pr_transcript ["eq"; "ne"; "exteq"; "aext"; "aspan"; "ast"; "bext"; "bspan"; "bst"; "aoffs"; "boffs"] (v_cmp av bv idxs))
  end

(* family K: prog <src mapping tokens> <tgt type tokens> *)
let read_mtype tk =
  let tt = ity_of_nat (nat_of_int (next_int tk)) in
  let lay = next_int tk in
  let pv = opt_of_tok (next tk) in
  let r2 = next_int tk in
  let pat = take_n tk r2 (fun tk -> opt_of_tok (next tk)) in
  { mt_t = tt; mt_pat = pat; mt_kind = lkind_of_nat (nat_of_int lay); mt_pv = pv }
let run_K caseno tk =
  let _prog = next_int tk in
  let (sv, _) = read_mval tk in
  let tgt = read_mtype tk in
  Printf.printf "K %d %s\n" caseno (pr_transcript ["ab"; "abn"; "ext"] (k_dbgconv sv tgt))

(* family S: prog <src mapping tokens> nlevels (R (slice tokens)*R)*nlevels *)
let read_slice tk =
  let k = next_int tk in
  match k with
  | 0 -> let _u = next_int tk in let v = next_z tk in SIdx (Dyn v)
  | 1 -> let v = next_z tk in SIdx (Const v)
  | 2 | 3 -> let b = next_z tk in let e = next_z tk in SRange (Dyn b, Dyn e)
  | 4 -> let b = next_z tk in let e = next_z tk in SRange (Const b, Const e)
  | 5 -> SFull
  | _ -> let mask = next_int tk in let o = next_z tk in let x = next_z tk in let s = next_z tk in
         let mk bit v = if mask land bit <> 0 then Const v else Dyn v in
         SStrided (mk 1 o, mk 2 x, mk 4 s)
let run_S caseno tk =
  let _prog = next_int tk in
  let (sv, _) = read_mval tk in
  let nl = next_int tk in
  let levels = take_n tk nl (fun tk -> let r = next_int tk in take_n tk r read_slice) in
  let labels = "sp0" :: List.concat (List.init nl (fun l -> let s = string_of_int (l + 1) in
     List.map (fun x -> x ^ s) ["rk"; "ly"; "se"; "e"; "st"; "of"; "sp"; "h"; "ad"; "sa"; "ac"])) in
  Printf.printf "S %d %s\n" caseno (pr_transcript labels (s_chain sv levels))

(* family A: prog <mapping value tokens> nidx idx... *)
let run_A caseno tk =
  let _prog = next_int tk in
  let (sv, r) = read_mval tk in
  let idxs = read_points tk r in
  match a_access sv idxs with
  | [pk; ar; sp; heap; rb] ->
    Printf.printf "A %d %s\n" caseno (pr_transcript ["dir"; "ppk"; "par"; "psp"; "bpk"; "b1"; "bar"; "bsp"; "lg"; "heap"; "rb"]
      [pk; pk; ar; sp; pk; pk; ar; sp; pk; heap; rb])
  | l -> Printf.printf "A %d %s\n" caseno (pr_transcript ["err"] l)

(* family P: prog ntypes (t lay R pat*R acc)*ntypes R es*R ss*R nops (op tokens)*nops *)
let run_P caseno tk =
  let _prog = next_int tk in
  let nt = next_int tk in
  let tys = take_n tk nt (fun tk ->
    let t = ity_of_nat (nat_of_int (next_int tk)) in let lay = next_int tk in let r = next_int tk in
    let pat = take_n tk r (fun tk -> opt_of_tok (next tk)) in let acc = next_int tk in
    { pt_t = t; pt_lay = nat_of_int lay; pt_pat = pat; pt_acc = nat_of_int acc }) in
  let r = next_int tk in
  let es = take_n tk r next_z in
  let ss = take_n tk r next_z in
  let es2 = take_n tk r next_z in
  let ss2 = take_n tk r next_z in
  let nops = next_int tk in
  let ni tk = nat_of_int (next_int tk) in
  let ops = take_n tk nops (fun tk ->
    match next_int tk with
    | 0 -> let ty = ni tk in let kind = ni tk in let h = next_z tk in PCtor (ty, kind, h)
    | 1 -> PCopy (ni tk)
    | 2 -> PMove (ni tk)
    | 3 -> let a = ni tk in let b = ni tk in PAssign (a, b)
    | 4 -> let a = ni tk in let b = ni tk in PMoveAssign (a, b)
    | 5 -> let a = ni tk in let b = ni tk in PSwap (a, b)
    | 6 -> let i = ni tk in let ty = ni tk in PConv (i, ty)
    | _ -> let a = ni tk in let b = ni tk in PAssignConv (a, b)) in
  let labels = List.init nops (fun k -> "o" ^ string_of_int (k + 1)) in
  Printf.printf "P %d %s\n" caseno (pr_transcript labels (p_program tys es ss es2 ss2 ops))

(* family R: prog <mapping value tokens> arrN nops (op tokens)* ; ops: 0 ctor-from-mapping kind | 1 ctor-from-container kind n | 2 copy i | 3 move i
   | 4 assign i j | 5 write i R idx* x | 6 write-view i R idx* x *)
let run_R caseno tk =
  let _prog = next_int tk in
  let (sv, _) = read_mval tk in
  let arrn = opt_of_tok (next tk) in
  let nops = next_int tk in
  let ni tk = nat_of_int (next_int tk) in
  let ops = take_n tk nops (fun tk ->
    match next_int tk with
    | 0 -> let k = ni tk in RCtorMap k
    | 1 -> let _k = next_int tk in let n = ni tk in RCtorCtr n
    | 2 -> RCopy (ni tk)
    | 3 -> RMove (ni tk)
    | 4 -> let a = ni tk in let b = ni tk in RAssign (a, b)
    | 5 -> let i = ni tk in let r = next_int tk in let idx = take_n tk r next_z in let x = next_z tk in RWrite (i, idx, x)
    | _ -> let i = ni tk in let r = next_int tk in let idx = take_n tk r next_z in let x = next_z tk in RWriteView (i, idx, x)) in
  let labels = List.init nops (fun k -> "o" ^ string_of_int (k + 1)) in
  Printf.printf "R %d %s\n" caseno (pr_transcript labels (r_program sv arrn ops))

(* family T: prog <mapping value tokens> acc nder (nlev (r slice*r)*nlev)*nder nthreads (nact (kind der form nidx idx* x)*nact)*nthreads seed *)
let run_T caseno tk =
  let _prog = next_int tk in
  let (sv, _) = read_mval tk in
  let _acc = next_int tk in
  let nder = next_int tk in
  let ders = take_n tk nder (fun tk -> let nl = next_int tk in take_n tk nl (fun tk -> let r = next_int tk in take_n tk r read_slice)) in
  let nt = next_int tk in
  let ni tk = nat_of_int (next_int tk) in
  let progs = take_n tk nt (fun tk -> let na = next_int tk in take_n tk na (fun tk ->
    let kind = ni tk in let der = ni tk in let form = ni tk in let nidx = next_int tk in
    let idx = take_n tk nidx next_z in let x = next_z tk in TA (kind, der, form, idx, x))) in
  let labels = "rf" :: "heap" :: (List.init nt (fun k -> "log" ^ string_of_int k)) @ ["obs"] in
  Printf.printf "T %d %s\n" caseno (pr_transcript labels (t_threads sv ders progs))

(* family L: prog ity lay pv R pat*R acc *)
let run_L caseno tk =
  let _prog = next_int tk in
  let t = ity_of_nat (nat_of_int (next_int tk)) in
  let lay = next_int tk in
  let pv = opt_of_tok (next tk) in
  let r = next_int tk in
  let pat = take_n tk r (fun tk -> opt_of_tok (next tk)) in
  let acc = next_int tk in
  Printf.printf "L %d %s\n" caseno (pr_transcript ["sz"; "tc"] (l_layout t (nat_of_int lay) pat pv (nat_of_int acc)))

(* family Q: prog kind ...; descriptors: ext = t R pat*R ; map = lay pv <ext> ; acc = k base const id ; mds = <map> <acc>; arg = code [t] *)
let run_Q caseno tk =
  let _prog = next_int tk in
  let ni tk = nat_of_int (next_int tk) in
  let r_ext tk = let t = ity_of_nat (ni tk) in let r = next_int tk in let pat = take_n tk r (fun tk -> opt_of_tok (next tk)) in { x_t = t; x_pat = pat } in
  let r_map tk = let l = next_int tk in let pv = opt_of_tok (next tk) in let e = r_ext tk in
    { m_lay = (match l with 0 -> LL | 1 -> LR | 2 -> LS | 3 -> LLP pv | _ -> LRP pv); m_ext = e } in
  let r_acc tk = let k = next_int tk in let b = ni tk in let c = next_int tk in let id = ni tk in
    let e = { el_base = b; el_const = (c <> 0) } in if k = 0 then ADefault e else AUser (e, id) in
  let r_mds tk = let m = r_map tk in let a = r_acc tk in { md_map = m; md_acc = a } in
  let r_arg tk = match next_int tk with 0 -> AInt (ity_of_nat (ni tk)) | 1 -> AFloat | 2 -> AClassNt | 3 -> AClassThrow | 5 -> AClassExplicit | _ -> ANone in
  let r_args tk = let n = next_int tk in take_n tk n r_arg in
  let r_desc tk = match next_int tk with 0 -> QE (r_ext tk) | 1 -> QM (r_map tk) | 2 -> QA (r_acc tk) | _ -> QD (r_mds tk) in
  let q = match next_int tk with
    | 0 -> let s = r_desc tk in let d = r_desc tk in QPair (s, d)
    | 1 -> let e = r_ext tk in QExtPack (e, r_args tk)
    | 2 -> let e = r_ext tk in let a = r_arg tk in QExtArr (e, a, ni tk)
    | 3 -> let m = r_mds tk in QMdsPack (m, r_args tk)
    | 4 -> let m = r_mds tk in let a = r_arg tk in QMdsArr (m, a, ni tk)
    | 5 -> QMdsParts (r_mds tk)
    | 6 -> let m = r_mds tk in QCall (m, r_args tk)
    | _ -> let m = r_mds tk in let a = r_arg tk in QIndexArr (m, a, ni tk) in
  Printf.printf "Q %d %s\n" caseno (pr_transcript ["r17"; "r20"] (q_query q))

(* family G: prog kind ... (descriptors as in family Q; elt = base const) *)
let run_G caseno tk =
  let _prog = next_int tk in
  let ni tk = nat_of_int (next_int tk) in
  let r_ity tk = ity_of_nat (ni tk) in
  let r_ext tk = let t = r_ity tk in let r = next_int tk in let pat = take_n tk r (fun tk -> opt_of_tok (next tk)) in { x_t = t; x_pat = pat } in
  let r_map tk = let l = next_int tk in let pv = opt_of_tok (next tk) in let e = r_ext tk in
    { m_lay = (match l with 0 -> LL | 1 -> LR | 2 -> LS | 3 -> LLP pv | _ -> LRP pv); m_ext = e } in
  let r_elt tk = let b = ni tk in let c = next_int tk in { el_base = b; el_const = (c <> 0) } in
  let r_acc tk = let k = next_int tk in let e = r_elt tk in let id = ni tk in if k = 0 then ADefault e else AUser (e, id) in
  let r_mds tk = let m = r_map tk in let a = r_acc tk in { md_map = m; md_acc = a } in
  let r_itys tk = let n = next_int tk in take_n tk n r_ity in
  let q = match next_int tk with
    | 0 -> GCtad (match next_int tk with
             | 0 -> FExtentsPack (r_itys tk)
             | 1 -> let el = r_elt tk in FMdsPack (el, r_itys tk)
             | 2 -> FMdsPtr (r_elt tk)
             | 3 -> let el = r_elt tk in FMdsCArray (el, next_z tk)
             | 4 -> let el = r_elt tk in let t = r_ity tk in FMdsArray (el, t, ni tk)
             | 5 -> let el = r_elt tk in FMdsExtents (el, r_ext tk)
             | 6 -> let el = r_elt tk in FMdsMapping (el, r_map tk)
             | 7 -> let m = r_map tk in FMdsMappingAcc (m, r_acc tk)
             | _ -> let m = r_map tk in FMapping (m.m_lay, m.m_ext))
    | 1 -> let t = r_ity tk in GDextents (t, ni tk)
    | 2 -> GMembersExt (r_ext tk)
    | 3 -> GMembersMap (r_map tk)
    | 4 -> GMembersMds (r_mds tk)
    | _ -> let k = ni tk in GNoexcept (k, ni tk) in
  Printf.printf "G %d %s\n" caseno (pr_transcript ["r"] (g_query q))

(* family X: prog kind ... *)
let run_X caseno tk =
  let _prog = next_int tk in
  let kind = next_int tk in
  let read_type tk = let t = ity_of_nat (nat_of_int (next_int tk)) in let r = next_int tk in
    let pat = take_n tk r (fun tk -> opt_of_tok (next tk)) in (t, r, pat) in
  if kind = 0 then begin
    let (t, r, pat) = read_type tk in
    let _path = next_int tk in let _u = next_int tk in let mode = next_int tk in let n = next_int tk in
    let vals = take_n tk n next_z in
    Printf.printf "X %d %s\n" caseno (pr_transcript ["rk"; "sext"; "ext"] (x_ctor t pat (nat_of_int mode) vals))
  end else if kind = 1 then begin
    let (ts, r, pats) = read_type tk in
    let tt = ity_of_nat (nat_of_int (next_int tk)) in
    let patt = take_n tk r (fun tk -> opt_of_tok (next tk)) in
    let vals = take_n tk r next_z in
    Printf.printf "X %d %s\n" caseno (pr_transcript ["rk"; "sext"; "ext"] (x_conv ts pats tt patt vals))
  end else if kind = 3 then begin
    let (t, r, pat) = read_type tk in
    let vals = take_n tk r next_z in
    Printf.printf "X %d %s\n" caseno (pr_transcript ["sz"; "emp"; "ext"; "fw"] (x_view t pat vals))
  end else begin
    let (ta, ra, pata) = read_type tk in
    let (tb, rb, patb) = read_type tk in
    let va = take_n tk ra next_z in let vb = take_n tk rb next_z in
    Printf.printf "X %d %s\n" caseno (pr_transcript ["eq"; "ne"] (x_cmp ta pata tb patb va vb))
  end

let () =
  let ic = open_in Sys.argv.(1) in
  let caseno = ref 0 in
  (try
     while true do
       let line = input_line ic in
       let a = Array.of_list (List.filter (fun s -> s <> "") (String.split_on_char ' ' line)) in
       if Array.length a > 0 then begin
         let tk = { a; p = 1 } in
         (match a.(0) with
          | "M" -> run_M !caseno tk
          | "X" -> run_X !caseno tk
          | "V" -> run_V !caseno tk
          | "K" -> run_K !caseno tk
          | "S" -> run_S !caseno tk
          | "A" -> run_A !caseno tk
          | "P" -> run_P !caseno tk
          | "R" -> run_R !caseno tk
          | "T" -> run_T !caseno tk
          | "L" -> run_L !caseno tk
          | "Q" -> run_Q !caseno tk
          | "G" -> run_G !caseno tk
          | f -> Printf.printf "%s %d unknown-family\n" f !caseno);
         incr caseno
       end
     done
   with End_of_file -> ());
  close_in ic
