// F6 (C14): construct_sub_strides multiplies stride(k) * slice.stride for every strided_slice, also when
// the slice selects at most one element (stride >= extent), where [mdspan.sub.map] uses stride(k)
// unchanged.  A valid slice with a large stride then overflows although every resulting offset is
// representable.
// build: g++ -std=c++17 -fsanitize=undefined -fno-sanitize-recover=all -I/repo/include F6_substride_overflow.cpp
#include <mdspan/mdspan.hpp>
#include <cstdio>
int main() {
  setvbuf(stdout, nullptr, _IONBF, 0);
  using E = Kokkos::dextents<int, 2>;
  Kokkos::layout_right::mapping<E> m(E(5, 2));                     // strides (2, 1)
  // one selected element in dimension 0: offset 4, extent 1, stride 2^30  (valid: 4 + 1 <= 5)
  auto r = submdspan_mapping(m, Kokkos::strided_slice<int, int, int>{4, 1, 1 << 30}, Kokkos::full_extent);
  std::printf("sub extents (%d,%d) strides (%d,%d) offset %zu\n", r.mapping.extents().extent(0), r.mapping.extents().extent(1),
              r.mapping.stride(0), r.mapping.stride(1), r.offset);
  // [mdspan.sub.map]: stride = map.stride(0) since slice.stride >= slice.extent
  return (r.mapping.stride(0) == 2 && r.mapping(0, 1) + r.offset == m(4, 1)) ? 0 : 1;
}
