// F5 (C15): submdspan_extents hands the extents constructor `extent / stride` as the run-time value of a
// *static* strided extent whose static value is 1 + (extent-1)/stride.  With _MDSPAN_DEBUG and
// assertions enabled the constructor's own precondition check aborts on this valid input.
// build: g++ -std=c++17 -D_MDSPAN_DEBUG -UNDEBUG -I/repo/include F5_debug_static_strided.cpp
#include <cassert>
#include <mdspan/mdspan.hpp>
#include <cstdio>
int main() {
  int buf[40] = {};
  Kokkos::mdspan<int, Kokkos::dextents<int, 2>> m(buf, 20, 2);
  using IC5 = std::integral_constant<int, 5>; using IC2 = std::integral_constant<int, 2>;
  // rows 3, 5, 7 (static extent 3) x all columns (dynamic extent): the result extents mix static and dynamic
  auto s = Kokkos::submdspan(m, Kokkos::strided_slice<int, IC5, IC2>{3, IC5{}, IC2{}}, Kokkos::full_extent);
  std::printf("extent %d (static %zu)\n", s.extent(0), (size_t)decltype(s)::static_extent(0));
  return (s.extent(0) == 3 && &s(2, 1) == &m(7, 1)) ? 0 : 1;
}
