// F4 (C14, C02, C01): detail::find_next_multiple evaluates `offset + alignment - 1`, which overflows
// (signed: UB; unsigned: wraps to a wrong padded stride) although the least multiple is representable.
// build: g++ -std=c++17 -fsanitize=undefined -fno-sanitize-recover=all -I/repo/include F4_find_next_multiple.cpp
#include <mdspan/mdspan.hpp>
#include <climits>
#include <cstdio>
namespace KE = Kokkos::Experimental;
int main() {
  int bad = 0;
  { // unsigned: extents (4294967295, 1), padding 3 -> least multiple 4294967295 is representable
    using E = Kokkos::dextents<unsigned, 2>;
    KE::layout_left_padded<3>::mapping<E> m(E(4294967295u, 1u));
    std::printf("u32 stride(1)=%u span=%u (expected 4294967295 4294967295)\n", m.stride(1), m.required_span_size());
    if (m.stride(1) != 4294967295u || m.required_span_size() != 4294967295u) bad = 1;
  }
  { // signed: extents (INT_MAX, 1), padding 1 -> INT_MAX + 1 - 1 is signed overflow
    using E = Kokkos::dextents<int, 2>;
    KE::layout_left_padded<1>::mapping<E> m(E(INT_MAX, 1));
    std::printf("i32 stride(1)=%d span=%d (expected %d %d)\n", m.stride(1), m.required_span_size(), INT_MAX, INT_MAX);
    if (m.stride(1) != INT_MAX) bad = 1;
  }
  return bad;
}
