// F8 (C16, C08): the layout_left_padded <-> layout_right_padded converting constructor (rank <= 1) takes
// part in overload resolution whenever extents_type is constructible from the other extents type, but
// its body passes other.extents() where a `const extents_type&` is expected, so it is ill-formed (hard
// error, not SFINAE) whenever that extents conversion is explicit (narrower index type, dynamic->static).
// build: g++ -std=c++20 -fsyntax-only -I/repo/include F8_padded_lr_conversion.cpp
#include <mdspan/mdspan.hpp>
namespace KE = Kokkos::Experimental;
using Src = KE::layout_right_padded<4>::mapping<Kokkos::extents<long, Kokkos::dynamic_extent>>;
using Dst = KE::layout_left_padded<4>::mapping<Kokkos::extents<int, 7>>;
static_assert(std::is_constructible<Dst, const Src&>::value, "advertised as constructible");
int main() {
  Src s(Kokkos::extents<long, Kokkos::dynamic_extent>(7));
  Dst d(s);                                  // must compile: explicit conversion, rank 1
  return (d.extents().extent(0) == 7 && d(3) == s(3)) ? 0 : 1;
}
