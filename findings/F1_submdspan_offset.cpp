// F1 (C10, C14): submdspan_mapping computes the offset as mapping(first_of(slices)...) also when a slice
// starts at the end of its extent (an empty slice, which is valid): the lower bounds are then not a
// valid multi-index and the offset overshoots required_span_size() (LWG 4060) or overflows.
// build: g++ -std=c++17 -I/repo/include F1_submdspan_offset.cpp
#include <mdspan/mdspan.hpp>
#include <cstdio>
int main() {
  int bad = 0;
  using E = Kokkos::dextents<int, 2>;
  { Kokkos::layout_right::mapping<E> m(E(3, 4));
    auto r = submdspan_mapping(m, std::pair<int, int>{3, 3}, 2);
    std::printf("layout_right (3,4), ([3,3), 2): offset %zu, span %d\n", r.offset, m.required_span_size());
    if (r.offset > (size_t)m.required_span_size()) bad = 1; }
  { Kokkos::layout_left::mapping<E> m(E(4, 0));
    auto r = submdspan_mapping(m, 3, Kokkos::full_extent);
    std::printf("layout_left (4,0), (3, full): offset %zu, span %d\n", r.offset, m.required_span_size());
    if (r.offset > (size_t)m.required_span_size()) bad = 1; }
  return bad;
}
