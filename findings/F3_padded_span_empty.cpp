// F3 (C05): layout_left_padded / layout_right_padded::required_span_size() has no empty-index-space
// case: a padded mapping obtained by conversion keeps a non-zero padded stride although the padded
// extent is 0, and reports a non-zero span for an empty index space.
// build: g++ -std=c++17 -I/repo/include F3_padded_span_empty.cpp
#include <mdspan/mdspan.hpp>
#include <cstdio>
namespace KE = Kokkos::Experimental;
int main() {
  int bad = 0;
  using E = Kokkos::dextents<int, 2>;
  { Kokkos::layout_stride::mapping<E> s(E(0, 3), std::array<int, 2>{1, 7});
    KE::layout_left_padded<Kokkos::dynamic_extent>::mapping<E> m(s);
    std::printf("left_padded from stride (0,3)/(1,7): span=%d (expected 0)\n", (int)m.required_span_size());
    if (m.required_span_size() != 0) bad = 1; }
  { Kokkos::layout_stride::mapping<E> s(E(3, 0), std::array<int, 2>{5, 1});
    KE::layout_right_padded<Kokkos::dynamic_extent>::mapping<E> m(s);
    std::printf("right_padded from stride (3,0)/(5,1): span=%d (expected 0)\n", (int)m.required_span_size());
    if (m.required_span_size() != 0) bad = 1; }
  return bad;
}
