// F2 (C12): mdarray::size() returns container().size() instead of the product of the extents: wrong
// whenever the mapping is not exhaustive (padded / strided layouts) or the container is larger than
// required (std::array<T,N> with N > required_span_size()).
// build: g++ -std=c++17 -I/repo/include F2_mdarray_size.cpp
#include <mdspan/mdarray.hpp>
#include <cstdio>
namespace KE = Kokkos::Experimental;
int main() {
  int bad = 0;
  { KE::mdarray<int, Kokkos::dextents<int, 2>, KE::layout_left_padded<4>> a(3, 2);
    std::printf("left_padded<4> (3,2): size() = %d, product of extents 6, container %zu\n", (int)a.size(), a.container().size());
    if (a.size() != 6) bad = 1; }
  { Kokkos::layout_stride::mapping<Kokkos::dextents<int, 2>> m(Kokkos::dextents<int, 2>(3, 2), std::array<int, 2>{1, 10});
    KE::mdarray<int, Kokkos::dextents<int, 2>, Kokkos::layout_stride> a(m);
    std::printf("layout_stride (3,2)/(1,10): size() = %d, product of extents 6\n", (int)a.size());
    if (a.size() != 6) bad = 1; }
  { KE::mdarray<int, Kokkos::extents<int, 2, 3>, Kokkos::layout_right, std::array<int, 10>> a(Kokkos::extents<int, 2, 3>{});
    std::printf("std::array<int,10> container, extents (2,3): size() = %d, product of extents 6\n", (int)a.size());
    if (a.size() != 6) bad = 1; }
  return bad;
}
