// F7 (C15, C04): detail::construct_sub_strides brace-initialises std::array<index_type, N> with products
// of promoted type, so for 8- and 16-bit index types every submdspan with a layout_stride result is
// ill-formed (narrowing in list-initialisation): clang rejects it, gcc only warns.
// build: clang++ -std=c++17 -fsyntax-only -I/repo/include F7_substrides_narrowing.cpp
#include <mdspan/mdspan.hpp>
int main() {
  short buf[12] = {};
  Kokkos::mdspan<short, Kokkos::dextents<short, 2>> m(buf, 3, 4);
  auto s = Kokkos::submdspan(m, std::pair<short, short>{0, 2}, Kokkos::strided_slice<short, short, short>{0, 4, 2});
  return (s.extent(0) == 2 && s.extent(1) == 2 && &s(1, 1) == &m(1, 2)) ? 0 : 1;
}
