"""progdrv.py — generic sharded driver runner: a family is a set of *programs* (C++ template
instantiations, each a call expression taking (caseno, tk)) and *cases* (program id + tokens).
Programs are distributed over shards (one TU each), built per configuration, and run on the same case
file as the extracted model."""
import os
from common import *
from mapgen import parse_line, run_resilient


class Prog:
    __slots__ = ("id", "call", "desc", "cfg_ok", "body", "group")

    def __init__(self, call, desc, cfg_ok=None):
        self.id, self.call, self.desc, self.cfg_ok, self.group = None, call, desc, cfg_ok, ""


def tu_source(header, fam, progs, prelude=""):
    lines = ['#include "%s"' % header, prelude, "int main(int argc, char** argv) {",
             "  if (argc < 2) return 2;",
             "  return drv::for_each_case(argv[1], [](long caseno, const std::string& fam, drv::Toks& tk) {",
             "    long prog = (long)drv::parse_i128(tk.a.at(1));",
             "    switch (prog) {"]
    for p in progs:
        lines.append("      case %d: { %s; } break;" % (p.id, p.call))
    lines += ['      default: std::printf("%s %%ld no-such-program\\n", caseno);' % fam, "    }", "  });", "}"]
    return "\n".join(lines) + "\n"


def run_programs(fam, header, progs, cases, configs, workdir, model_exe, nshards=16, prelude="", name=None):
    """cases: list of (prog, tokens(list, first = prog id), meta).  Returns (records, build_fail).
    record: dict(prog, toks, meta, model{}, model_line, impl{cfg: {}|None}, impl_line{cfg}, crash{cfg})"""
    os.makedirs(workdir, exist_ok=True)
    name = name or ("fam" + fam)
    for n, p in enumerate(progs):
        if p.id is None:
            p.id = n
    import common as _c
    if _c.CFG_OVERRIDE:
        nshards = min(nshards, 6)      # configuration matrix: fewer, larger translation units per cell
    nshards = max(1, min(nshards, len(progs)))
    if any(getattr(p, "group", "") for p in progs):
        # programs of one group share shards (contiguous blocks): when one kind of program stops compiling, the others still run
        order = sorted(progs, key=lambda p: (getattr(p, "group", "") or "", p.id))
        shard_of = {p.id: min(nshards - 1, (k * nshards) // len(order)) for k, p in enumerate(order)}
    else:
        shard_of = {p.id: (k % nshards) for k, p in enumerate(progs)}
    records, build_fail = [], []
    by_shard = {}
    for c in cases:
        by_shard.setdefault(shard_of[c[0].id], []).append(c)
    jobs, jobmeta = [], []
    for sh_, cs in sorted(by_shard.items()):
        used = sorted(set(c[0] for c in cs), key=lambda p: p.id)
        for cfg in configs:
            ok = [p for p in used if p.cfg_ok is None or p.cfg_ok(cfg)]
            if not ok:
                continue
            jobs.append(("%s%d" % (name, sh_), tu_source(header, fam, ok, prelude(ok) if callable(prelude) else prelude), cfg))
            jobmeta.append((sh_, cfg, set(p.id for p in ok)))
    built = compile_many(jobs)
    exes = {}          # (shard, cfg) -> list of (exe, ids)
    pending = []       # failed translation units to bisect: (shard, cfg, [programs])
    progs_by_id = {p.id: p for p in progs}
    for (sh_, cfg, ids), (exe, log) in zip(jobmeta, built):
        if exe is None:
            if not log.startswith("COMPILER-CRASH"):
                build_fail.append((sh_, cfg, log))
                pending.append((sh_, cfg, sorted((progs_by_id[i] for i in ids), key=lambda p: p.id)))
            exes[(sh_, cfg)] = []
        else:
            exes[(sh_, cfg)] = [(exe, ids)]
    # salvage: when a translation unit stops compiling, bisect it (down to single programs, at most two configurations and 500 extra builds) so that the
    # programs that still compile are run and can yield a concrete failing input
    keep_cfgs = []
    for (_, cfg, _) in pending:
        if cfg not in keep_cfgs:
            keep_cfgs.append(cfg)
    pending = [x for x in pending if x[1] in keep_cfgs[:2]]
    budget = 500
    for level in range(6):
        if not pending or budget <= 0:
            break
        pending = pending[: max(1, budget // 2)]
        budget -= 2 * len(pending)
        sjobs, smeta = [], []
        for (sh_, cfg, plist) in pending:
            if len(plist) < 2:
                continue
            mid = len(plist) // 2
            for part in (plist[:mid], plist[mid:]):
                sjobs.append(("%s%ds" % (name, sh_), tu_source(header, fam, part, prelude(part) if callable(prelude) else prelude), cfg))
                smeta.append((sh_, cfg, part))
        pending = []
        for (sh_, cfg, part), (exe, log) in zip(smeta, compile_many(sjobs)):
            if exe is not None:
                exes[(sh_, cfg)].append((exe, set(p.id for p in part)))
            elif not log.startswith("COMPILER-CRASH"):
                pending.append((sh_, cfg, part))
    for sh_, cs in sorted(by_shard.items()):
        lines = [fam + " " + " ".join(str(x) for x in toks) for (_, toks, _) in cs]
        cf = os.path.join(workdir, "cases-%s-%d.txt" % (name, sh_))
        with open(cf, "w") as f:
            f.write("\n".join(lines) + "\n")
        rc, mlines, merr = run_lines([model_exe, cf])
        recs = []
        for n, (prog, toks, meta) in enumerate(cs):
            ml = mlines[n] if n < len(mlines) else ""
            _, md = parse_line(ml)
            recs.append({"prog": prog, "toks": toks, "meta": meta, "model": md, "model_line": ml, "impl": {}, "impl_line": {},
                         "case_line": lines[n]})
        for cfg in configs:
            for r in recs:
                r["impl"].setdefault(cfg, None)
            for part_no, (exe, ids) in enumerate(exes.get((sh_, cfg), [])):
                sel = [n for n, r in enumerate(recs) if r["prog"].id in ids]
                if not sel:
                    continue
                outs, crashes = run_resilient(exe, [lines[n] for n in sel], workdir, "%s-%d-%s-%d" % (name, sh_, cfg, part_no))
                for k, n in enumerate(sel):
                    r = recs[n]
                    il = outs[k] if outs[k] is not None else ""
                    _, idd = parse_line(il)
                    if outs[k] is None:
                        r["impl"][cfg] = None
                    elif "skip" in il.split()[2:3]:
                        r["impl"][cfg] = None
                    else:
                        r["impl"][cfg] = idd
                    r["impl_line"][cfg] = il
                for k, info in crashes.items():
                    r = recs[sel[k]]
                    r["impl"][cfg] = {}
                    r.setdefault("crash", {})[cfg] = info
        records += recs
    return records, build_fail
