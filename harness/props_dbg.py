"""props_dbg.py — C20: debug builds reject layout_stride -> layout_left/right conversions with wrong
strides (family K; process exit status is the observable)."""
import collections, itertools, json, os, random
from common import *
import mapgen
from mapgen import Inst, DYN, prod1
from progdrv import Prog, run_programs
from props_conv import MV, left_strides, right_strides, type_tokens, rand_pattern, rand_exts

ASSERT_CFGS = ["gcc23-assert", "clang17-assert"]
NDEBUG_CFGS = ["gcc23"]


def gen(rng, tier):
    progs, cases = [], []
    hist = collections.Counter()
    n = 500 if tier == "quick" else 4000
    tries = 0
    while len(cases) < n and tries < n * 20:
        tries += 1
        R = rng.choice([0, 1, 1, 2, 2, 3, 3, 4])
        ts, tt = rng.randrange(8), rng.randrange(8)
        M = min(imax(ts), imax(tt))
        left = rng.random() < 0.5
        es = rand_exts(rng, ts if imax(ts) <= imax(tt) else tt, R, small=rng.random() < 0.8)
        if 0 in es and rng.random() < 0.8:
            es = [max(e, 1) for e in es]
        canon = left_strides(es) if left else right_strides(es)
        kind = rng.choice(["canonical", "canonical", "off_by_one", "permuted", "scaled", "last_only", "first_only", "congruent", "congruent"])
        ss = list(canon)
        if R > 0:
            if kind == "off_by_one":
                k = rng.randrange(R); ss[k] = max(1, ss[k] + rng.choice([-1, 1]))
            elif kind == "permuted":
                rng.shuffle(ss)
            elif kind == "scaled":
                ss = [s * 2 for s in ss]
            elif kind == "last_only":
                ss[-1] += 1
            elif kind == "first_only":
                ss[0] += 1
            elif kind == "congruent":
                # differs from the canonical stride by a multiple of 2^width(target index type): equal after a
                # narrowing cast to the target type, different in the common type (needs a wider source type)
                k = rng.randrange(R); ss[k] += (1 << BITS[tt]) * rng.choice([1, 1, 2])
        smax = imax(ts) if kind == "congruent" else M
        if any(s <= 0 or s > smax for s in ss) or any(e > M for e in es) or prod1(es) > M:
            continue
        src = MV(Inst(ts, 2, DYN, rand_pattern(rng, es)), 1, es, ss)
        tinst = Inst(tt, 0 if left else 1, DYN, rand_pattern(rng, es))
        pr = Prog("drv::run_dbgconv<%s, %s>(caseno, tk)" % (src.inst.cpp_type(), tinst.cpp_type()),
                  "dbgconv %s -> %s" % (src.inst.desc(), tinst.desc()))
        progs.append(pr)
        wrong = ss != canon
        cases.append((pr, [None] + src.tokens() + type_tokens(tinst),
                      {"kind": kind, "wrong": wrong, "rank": R, "es": es, "ss": ss, "canon": canon, "left": left, "ts": ts, "tt": tt}))
        hist["%s%s" % (kind, " (differs)" if wrong else " (canonical)")] += 1
        hist["rank=%d" % R] += 1
    for k, p in enumerate(progs):
        p.id = k
    for c in cases:
        c[1][0] = c[0].id
    return progs, cases, hist


def judge(r, cfg):
    md, im, meta = r["model"], r["impl"].get(cfg), r["meta"]
    if im is None:
        return []
    ndebug = cfg in NDEBUG_CFGS
    expect_abort = (md.get("abn") if ndebug else md.get("ab")) == "1"
    crashed = "crash" in r and cfg in r["crash"]
    aborted = crashed          # the property says "terminates the program": std::abort, a failed assert, a trap ... all count
    # the property, evaluated directly on the generated input
    should = (meta["wrong"] and meta["rank"] > 0) and not ndebug
    out = []
    if crashed and not aborted:
        out.append(("crash", "conversion died with status %s, not std::abort: %s" % (r["crash"][cfg]["rc"], r["crash"][cfg]["stderr"]), True))
    elif aborted and not should:
        out.append(("abort", "program terminated although %s" % ("NDEBUG is defined" if ndebug else "all strides are canonical / rank is 0"), True))
    elif not aborted and should:
        out.append(("abort", "conversion with non-canonical strides %s (canonical %s) was not rejected in a build without NDEBUG" % (meta["ss"], meta["canon"]), True))
    elif aborted != expect_abort:
        out.append(("model", "model predicts abort=%s, implementation aborted=%s" % (expect_abort, aborted), False))
    return out


def run_property(prop, tier, seed, replay=None):
    rep = Report(prop, tier, seed)
    rng = random.Random(seed * 32452843 + 3)
    prove_section(rep, prop)
    exe, log = build_model()
    if exe is None:
        rep.violation("the Coq model or its extraction no longer builds", {"obligation": "build:model", "log": log[-3000:], "signature": "build:model"}, True)
        return rep.finish()
    configs = ASSERT_CFGS + NDEBUG_CFGS if tier == "quick" else ASSERT_CFGS + NDEBUG_CFGS + ["gcc17-assert", "clang20-assert"]
    if replay:
        rp = json.load(open(replay))
        pr = Prog(rp["call"], rp["program"]); pr.id = rp["case_tokens"][0]
        progs, cases, hist = [pr], [(pr, rp["case_tokens"], rp.get("meta", {}))], {}
        configs = [rp["config"]]
    else:
        progs, cases, hist = gen(rng, tier)
    os.environ["VERIF_MAX_RESTARTS"] = "100000"
    work = os.path.join(CACHE, "work", "%s-%s" % (prop, tier))
    records, build_fail = run_programs("K", "drv_dbg.hpp", progs, cases, configs, work, exe, nshards=16, name="dbg")
    import incoq
    incoq_n = incoq.sample_check(rep, prop, "K", records, tier, seed, work, replay)
    os.environ.pop("VERIF_MAX_RESTARTS", None)
    for (sh_, cfg, blog) in {c: (s_, c, l) for (s_, c, l) in reversed(build_fail)}.values():
        rep.violation("debug-check driver shard %d no longer builds in configuration %s" % (sh_, cfg),
                      {"obligation": "corr:dbg/build/%d/%s" % (sh_, cfg), "log": blog[-3000:], "signature": "build:dbg:%s" % cfg}, True)
    evaluations, flagged, nontriv = 0, [], set()
    for r in records:
        for cfg in configs:
            if r["impl"].get(cfg) is None:
                continue
            evaluations += 1
            iss = judge(r, cfg)
            if iss:
                flagged.append((r, cfg, iss))
        m = r["meta"]
        if m.get("rank", 0) >= 2:
            nontriv.add((m["ts"], m["tt"], m["left"], tuple(m["es"]), tuple(m["ss"])))
    flagged.sort(key=lambda x: len(x[0]["toks"]))
    seen = set()
    for (r, cfg, iss) in flagged:
        key = (iss[0][0], cfg in NDEBUG_CFGS, r["meta"].get("left"))
        if key in seen:
            continue
        seen.add(key)
        rep.violation(iss[0][1], {"family": "K", "config": cfg, "program": r["prog"].desc, "call": r["prog"].call,
                                  "case_tokens": r["toks"], "meta": r["meta"], "model_line": r["model_line"],
                                  "impl_line": r["impl_line"].get(cfg, ""), "issues": [{"field": f, "message": m} for (f, m, _) in iss],
                                  "signature": "K:%s:%s" % (r["prog"].desc, iss[0][0])}, no_failing_input=not any(x[2] for x in iss))
        if len(seen) >= 6:
            break
    if getattr(rep, "proof_broken", False):
        rep.violation("theorem(s) of %s no longer check: %s" % (prop, ", ".join(rep.broken_theorems) or "Properties file"),
                      {"obligation": "proof:Properties_%s" % prop, "theorems": rep.broken_theorems, "log": rep.proof_log,
                       "signature": "proof:%s" % prop}, no_failing_input=not any(not nf for (_, nf) in rep.violations))
    rep.cov.update({
        "evaluations": evaluations, "distinct_nontrivial": len(nontriv), "evaluated_inside_coq_too": incoq_n,
        "rule": "conversions layout_stride<src index type, pattern> -> layout_left/right<target index type, pattern> over ranks 0..4, extents incl. zeros, "
                "stride tuples {canonical, one stride off by +-1, permuted, scaled, first/last only}; run as child processes in builds without NDEBUG "
                "(abort expected iff a stride differs and rank > 0) and with NDEBUG (never). non-trivial = rank >= 2, distinct (types, extents, strides)",
        "programs": len(progs) * len(configs), "configurations": configs, "disagreements_checked": len(flagged),
        "input_distribution": dict(sorted(hist.items())) if hist else {},
        "samples": [{"case": r["case_line"], "program": r["prog"].desc, "model": r["model_line"][:300], "expected_abort": r["meta"].get("wrong") and r["meta"].get("rank", 0) > 0}
                    for r in records[:: max(1, len(records) // 5)][:5]],
        "exhaustive": False,
    })
    rep.assumptions = ["std::abort is observed as exit status SIGABRT of the driver process"]
    prune_cache()
    return rep.finish()
