"""props_cfg.py — C15: identical results in every configuration (language mode x compiler x emulation x
optimisation x assertions x operator spelling).  The families of the other properties are re-run, on a
scaled-down case set, in the cells of the configuration matrix; every transcript must equal the one model
transcript, and no valid-input case may abort (debug checks)."""
import itertools, json, os, random
import common
from common import *
import props_map, props_sub, props_acc, props_pool, props_arr, props_conv, props_dbg
from progdrv import run_programs
from props_map import finish_common

AXES = {
    "compiler": ["g++", "clang++"],
    "std": ["14", "17", "20", "23"],
    "emu": [False, True],
    "opt": ["O0", "O2"],
    "dbg": [False, True],
    "paren": [False, True],
}


def supported(cell):
    comp, std, emu, opt, dbg, paren = cell
    if paren and not (comp == "g++" and std == "23"):
        return False          # elsewhere operator() is the only spelling anyway (no multidimensional subscript)
    return True


def all_cells():
    return [c for c in itertools.product(*AXES.values()) if supported(c)]


def pairwise_subset(cells, rng):
    """greedy pairwise cover of the axis values"""
    names = list(AXES)
    need = set()
    for c in cells:
        for i in range(len(names)):
            for j in range(i + 1, len(names)):
                need.add((i, c[i], j, c[j]))
    chosen = []
    pool = list(cells)
    rng.shuffle(pool)
    while need:
        best = max(pool, key=lambda c: sum(1 for i in range(len(names)) for j in range(i + 1, len(names)) if (i, c[i], j, c[j]) in need))
        gain = [(i, best[i], j, best[j]) for i in range(len(names)) for j in range(i + 1, len(names)) if (i, best[i], j, best[j]) in need]
        if not gain:
            break
        chosen.append(best)
        need -= set(gain)
    return chosen


FAMILIES = [
    ("M", "mappings: extents, offsets, strides, spans, flags, size/empty, mdspan observers", lambda rep, tier, seed, exe, rp: props_map.collect(rep, "C15", tier, seed, exe, None, rp), True),
    ("S", "submdspan chains: result types, extents, strides, offsets, aliasing", lambda rep, tier, seed, exe, rp: props_sub.collect(rep, "C15", tier, seed, exe, rp), False),
    ("A", "element access forms", lambda rep, tier, seed, exe, rp: props_acc.collect(rep, "C15", tier, seed, exe, rp), False),
    ("P", "view construction / copy / move / assign / swap / conversion", lambda rep, tier, seed, exe, rp: props_pool.collect(rep, "C15", tier, seed, exe, rp), False),
    ("R", "mdarray", lambda rep, tier, seed, exe, rp: props_arr.collect(rep, "C15", tier, seed, exe, rp), False),
    ("V", "mapping conversions (valid inputs of every converting constructor, incl. layout_stride -> left / right with canonical strides) and comparisons",
     lambda rep, tier, seed, exe, rp: props_conv.collect(rep, "C15", tier, seed, exe, rp), False),
]


def collect_debug_valid(rep, tier, seed, exe, cfgs, replay=None):
    """valid inputs aimed at the debug-mode checks: layout_stride -> layout_left / layout_right conversions with exactly
    the canonical strides, ranks 0..4, all index-type pairs, in the cells built with assertions: none may abort"""
    rng = random.Random(seed * 32452843 + 7)
    progs, cases, hist = props_dbg.gen(rng, tier)
    keep = [c for c in cases if not c[2]["wrong"]]
    if replay:
        rp = json.load(open(replay))
        keep = [c for c in keep if c[1][1:] == rp["case_tokens"][1:]] or keep[:1]
    used = {id(c[0]) for c in keep}
    progs = [p for p in progs if id(p) in used]
    for k, p in enumerate(progs):
        p.id = k
    for c in keep:
        c[1][0] = c[0].id
    work = os.path.join(CACHE, "work", "C15-%s-dbgvalid" % tier)
    records, build_fail = run_programs("K", "drv_dbg.hpp", progs, keep, cfgs, work, exe, nshards=16, name="dbgv")
    for (sh_, cfg, blog) in {c: (s_, c, l) for (s_, c, l) in reversed(build_fail)}.values():
        rep.violation("debug-check driver shard %d no longer builds in configuration %s" % (sh_, cfg),
                      {"obligation": "corr:dbgv/build/%d/%s" % (sh_, cfg), "log": blog[-3000:], "signature": "build:dbgv:%s" % cfg}, True)
    evaluations, flagged, nontriv = 0, [], set()
    for r in records:
        for cfg in cfgs:
            if r["impl"].get(cfg) is None:
                continue
            evaluations += 1
            if "crash" in r and cfg in r["crash"]:
                flagged.append((r, cfg))
        if r["meta"]["rank"] >= 2:
            nontriv.add(tuple(str(x) for x in r["toks"][1:]))
    flagged.sort(key=lambda x: len(x[0]["toks"]))
    seen = set()
    for r, cfg in flagged:
        key = (r["meta"]["left"], cfg)
        if key in seen:
            continue
        seen.add(key)
        m = r["meta"]
        rep.violation("in configuration %s a debug-mode check fired on a valid input: layout_stride -> %s conversion of extents %s with the canonical strides %s terminated (status %s)"
                      % (cfg, "layout_left" if m["left"] else "layout_right", m["es"], m["ss"], r["crash"][cfg]["rc"]),
                      {"family": "K", "config": cfg, "program": r["prog"].desc, "call": r["prog"].call, "case_tokens": r["toks"], "meta": m, "model_line": r["model_line"],
                       "crash": r["crash"][cfg], "signature": "K-valid:%s" % r["prog"].desc}, no_failing_input=False)
        if len(seen) >= 4:
            break
    return {"family": "K", "evaluations": evaluations, "distinct_nontrivial": len(nontriv), "programs": len(progs) * len(cfgs), "configurations": cfgs,
            "disagreements_checked": len(flagged), "input_distribution": {"debug-valid " + k: v for k, v in hist.items() if "canonical" in k or k.startswith("rank")},
            "rule": "debug-check stream: canonical-stride layout_stride -> left/right conversions (ranks 0..4, all index-type pairs) in the assertion cells", "samples": [], "exhaustive": False}


def run_property(prop, tier, seed, replay=None):
    rep = Report(prop, tier, seed)
    prove_section(rep, prop)
    exe, log = build_model()
    if exe is None:
        rep.violation("the Coq model or its extraction no longer builds", {"obligation": "build:model", "log": log[-3000:], "signature": "build:model"}, True)
        return rep.finish()
    rng = random.Random(seed * 2236067 + 3)
    cells = all_cells()
    chosen = pairwise_subset(cells, rng) if tier == "quick" else cells
    fam_only = None
    if replay:
        rp = json.load(open(replay))
        fam_only = rp.get("family")
        cfgname = rp.get("config", "")
        chosen = [c for c in cells if common.matrix_config(*c) == cfgname] or chosen[:1]
    names = [common.matrix_config(*c) for c in chosen]
    covs = []
    try:
        common.SCALE = 0.2 if tier == "quick" else 0.5
        for fam, what, fn, cxx14 in FAMILIES:
            if fam_only and fam != fam_only:
                continue
            cfgs = [n for n, c in zip(names, chosen) if cxx14 or c[1] != "14"]
            if not cfgs:
                continue
            common.CFG_OVERRIDE = cfgs
            cov = fn(rep, tier, seed, exe, replay if fam_only else None)
            cov["family"] = fam
            covs.append(cov)
        if not fam_only or fam_only == "K":
            dbg_cfgs = [n for n, c in zip(names, chosen) if c[4] and c[1] != "14"] or [n for n, c in zip(names, chosen) if c[1] != "14"][:1]
            covs.append(collect_debug_valid(rep, tier, seed, exe, dbg_cfgs, replay if fam_only == "K" else None))
    finally:
        common.CFG_OVERRIDE = None
        common.SCALE = 1.0
    finish_common(rep, prop, covs)
    rep.cov["rule"] = ("configuration matrix {g++ 12, clang++ 14} x {C++14, 17, 20, 23/2b} x {[[no_unique_address]], forced base-class emulation} x {-O0, -O2} x {NDEBUG, assertions + _MDSPAN_DEBUG} x "
                       "{operator[] , MDSPAN_USE_PAREN_OPERATOR (g++ C++23 only)}: %d supported cells, %d exercised (%s); in each cell the scenario families %s run on a scaled-down, seeded case set of valid inputs and every "
                       "printed field must equal the model's (hence every other cell's); a non-zero exit on a valid-input case (a debug check firing) is a violation.  C++14 cells run the mapping family only (no submdspan / "
                       "padded layouts / CTAD there, as the README lists).  " % (len(cells), len(chosen), "pairwise cover of the axis values" if tier == "quick" else "all", ", ".join("%s (%s)" % (f, w) for f, w, _, _ in FAMILIES))
                       + rep.cov.get("rule", ""))
    rep.cov["configurations"] = names
    rep.assumptions = ["identity across optimisation levels and compilers is observed on the matrix, not proved; the theorems prove that the alternative source paths compute the same functions and that debug checks pass on valid inputs",
                       "the CUDA / HIP / SYCL / MSVC / Intel branches of config.hpp cannot be built in this sandbox"]
    prune_cache(1500)
    return rep.finish()
