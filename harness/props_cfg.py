"""props_cfg.py — C15: identical results in every configuration (language mode x compiler x emulation x
optimisation x assertions x operator spelling).  The families of the other properties are re-run, on a
scaled-down case set, in the cells of the configuration matrix; every transcript must equal the one model
transcript, and no valid-input case may abort (debug checks)."""
import itertools, json, os, random
import common
from common import *
import props_map, props_sub, props_acc, props_pool, props_arr
from props_map import finish_common

AXES = {
    "compiler": ["g++", "clang++"],
    "std": ["14", "17", "20", "23"],
    "emu": [False, True],
    "opt": ["O0", "O2"],
    "dbg": [False, True],
    "paren": [False, True],
}


def supported(cell):
    comp, std, emu, opt, dbg, paren = cell
    if paren and not (comp == "g++" and std == "23"):
        return False          # elsewhere operator() is the only spelling anyway (no multidimensional subscript)
    return True


def all_cells():
    return [c for c in itertools.product(*AXES.values()) if supported(c)]


def pairwise_subset(cells, rng):
    """greedy pairwise cover of the axis values"""
    names = list(AXES)
    need = set()
    for c in cells:
        for i in range(len(names)):
            for j in range(i + 1, len(names)):
                need.add((i, c[i], j, c[j]))
    chosen = []
    pool = list(cells)
    rng.shuffle(pool)
    while need:
        best = max(pool, key=lambda c: sum(1 for i in range(len(names)) for j in range(i + 1, len(names)) if (i, c[i], j, c[j]) in need))
        gain = [(i, best[i], j, best[j]) for i in range(len(names)) for j in range(i + 1, len(names)) if (i, best[i], j, best[j]) in need]
        if not gain:
            break
        chosen.append(best)
        need -= set(gain)
    return chosen


FAMILIES = [
    ("M", "mappings: extents, offsets, strides, spans, flags, size/empty, mdspan observers", lambda rep, tier, seed, exe, rp: props_map.collect(rep, "C15", tier, seed, exe, None, rp), True),
    ("S", "submdspan chains: result types, extents, strides, offsets, aliasing", lambda rep, tier, seed, exe, rp: props_sub.collect(rep, "C15", tier, seed, exe, rp), False),
    ("A", "element access forms", lambda rep, tier, seed, exe, rp: props_acc.collect(rep, "C15", tier, seed, exe, rp), False),
    ("P", "view construction / copy / move / assign / swap / conversion", lambda rep, tier, seed, exe, rp: props_pool.collect(rep, "C15", tier, seed, exe, rp), False),
    ("R", "mdarray", lambda rep, tier, seed, exe, rp: props_arr.collect(rep, "C15", tier, seed, exe, rp), False),
]


def run_property(prop, tier, seed, replay=None):
    rep = Report(prop, tier, seed)
    prove_section(rep, prop)
    exe, log = build_model()
    if exe is None:
        rep.violation("the Coq model or its extraction no longer builds", {"obligation": "build:model", "log": log[-3000:], "signature": "build:model"}, True)
        return rep.finish()
    rng = random.Random(seed * 2236067 + 3)
    cells = all_cells()
    chosen = pairwise_subset(cells, rng) if tier == "quick" else cells
    fam_only = None
    if replay:
        rp = json.load(open(replay))
        fam_only = rp.get("family")
        cfgname = rp.get("config", "")
        chosen = [c for c in cells if common.matrix_config(*c) == cfgname] or chosen[:1]
    names = [common.matrix_config(*c) for c in chosen]
    covs = []
    try:
        common.SCALE = 0.2 if tier == "quick" else 0.5
        for fam, what, fn, cxx14 in FAMILIES:
            if fam_only and fam != fam_only:
                continue
            cfgs = [n for n, c in zip(names, chosen) if cxx14 or c[1] != "14"]
            if not cfgs:
                continue
            common.CFG_OVERRIDE = cfgs
            cov = fn(rep, tier, seed, exe, replay if fam_only else None)
            cov["family"] = fam
            covs.append(cov)
    finally:
        common.CFG_OVERRIDE = None
        common.SCALE = 1.0
    finish_common(rep, prop, covs)
    rep.cov["rule"] = ("configuration matrix {g++ 12, clang++ 14} x {C++14, 17, 20, 23/2b} x {[[no_unique_address]], forced base-class emulation} x {-O0, -O2} x {NDEBUG, assertions + _MDSPAN_DEBUG} x "
                       "{operator[] , MDSPAN_USE_PAREN_OPERATOR (g++ C++23 only)}: %d supported cells, %d exercised (%s); in each cell the scenario families %s run on a scaled-down, seeded case set of valid inputs and every "
                       "printed field must equal the model's (hence every other cell's); a non-zero exit on a valid-input case (a debug check firing) is a violation.  C++14 cells run the mapping family only (no submdspan / "
                       "padded layouts / CTAD there, as the README lists).  " % (len(cells), len(chosen), "pairwise cover of the axis values" if tier == "quick" else "all", ", ".join("%s (%s)" % (f, w) for f, w, _, _ in FAMILIES))
                       + rep.cov.get("rule", ""))
    rep.cov["configurations"] = names
    rep.assumptions = ["identity across optimisation levels and compilers is observed on the matrix, not proved; the theorems prove that the alternative source paths compute the same functions and that debug checks pass on valid inputs",
                       "the CUDA / HIP / SYCL / MSVC / Intel branches of config.hpp cannot be built in this sandbox"]
    prune_cache(1500)
    return rep.finish()
