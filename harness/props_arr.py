"""props_arr.py — C12: mdarray (family R)."""
import collections, itertools, json, os, random
from common import *
import mapgen
from mapgen import Inst, DYN, LAYOUTS, prod1, ints
from progdrv import Prog, run_programs
from props_conv import MV, rand_pattern
from props_map import finish_common

CTRS = ["vector", "array", "pmr"]
CTOR_DESC = {0: "(extents...)", 1: "(extents)", 2: "(mapping)", 3: "(extents, const container&)", 4: "(mapping, const container&)",
             5: "(extents, container&&)", 6: "(mapping, container&&)", 7: "(extents, alloc)", 8: "(mapping, alloc)",
             9: "(extents, const container&, alloc)", 10: "(mapping, const container&, alloc)", 11: "(extents, container&&, alloc)",
             12: "(mapping, container&&, alloc)"}


def span_of(mv):
    es = mv.es
    if 0 in es:
        return 0
    if mv.inst.lay in (3, 4) and len(es) >= 2:
        return mv.ps * prod1(es[1:] if mv.inst.lay == 3 else es[:-1])
    return 1 + sum((e - 1) * s for e, s in zip(es, mv.strides))


def gen_program(rng, tier):
    t = rng.randrange(8)
    lay = rng.choice([0, 1, 2, 3, 4])
    R = rng.choice([0, 1, 2, 2, 3])
    es = [rng.choice([1, 2, 3, 4]) for _ in range(R)]
    if rng.random() < 0.12 and R > 0:
        es[rng.randrange(R)] = 0
    if prod1(es) > imax(t):
        return None
    pat = rand_pattern(rng, es, 0.5)
    if rng.random() < 0.25:
        pat = tuple(es)           # all-static extents: the product of the extents is a compile-time constant, the required span of a padded / strided mapping is not it
    if lay == 2:
        sts = mapgen.stride_tuples(rng, t, es, 4)
        if not sts:
            return None
        mv = MV(Inst(t, 2, DYN, pat), 1, es, rng.choice(sts))
    elif lay in (3, 4):
        inst = Inst(t, lay, rng.choice([DYN, DYN, 2, 4]), pat)
        if not inst.instantiable():
            return None
        if inst.pv == DYN and R >= 2 and rng.random() < 0.6:
            # a run-time padding value: the mapping is not determined by its extents
            pad = es[0] if lay == 3 else es[-1]
            mv = MV(inst, 2, es, None, rng.choice([pad + 1, pad + 3, 8]))
        else:
            mv = MV(inst, 0, es)
    else:
        mv = MV(Inst(t, lay, DYN, pat), 0, es)
    if not mv.valid_for(t):
        return None
    span = span_of(mv)
    if span > 60 or span > imax(t):
        return None
    ctr = rng.choice(CTRS)
    extra = rng.choice([0, 0, 2])
    N = span + extra if ctr == "array" else None
    if ctr == "array" and N == 0:
        N = 1
    T = CTYPES[t]
    E = mv.inst.ext_type()
    Lcpp = {0: "Kokkos::layout_left", 1: "Kokkos::layout_right", 2: "Kokkos::layout_stride",
            3: "Kokkos::Experimental::layout_left_padded<%s>" % ("Kokkos::dynamic_extent" if mv.inst.pv == DYN else "%dull" % mv.inst.pv),
            4: "Kokkos::Experimental::layout_right_padded<%s>" % ("Kokkos::dynamic_extent" if mv.inst.pv == DYN else "%dull" % mv.inst.pv)}[lay]
    C = {"vector": "std::vector<int>", "array": "std::array<int, %d>" % (N or 0), "pmr": "std::pmr::vector<int>"}[ctr]
    A = "Kokkos::Experimental::mdarray<int, %s, %s, %s>" % (E, Lcpp, C)
    # operations
    nops = rng.randrange(6, 12) if tier == "quick" else rng.randrange(8, 30)
    ops, code, live = [], [], 0
    all_static = all(p != DYN for p in pat)
    def ctor():
        nonlocal live
        kinds = [2, 4, 6]
        ext_ok = lay != 2 and mv.ctor != 2      # constructors taking extents build the layout's default mapping
        if ext_ok:
            kinds += [1, 3, 5]
            if R > 0:
                kinds.append(0)
        if ctr == "pmr":
            kinds += [8, 10, 12] + ([7, 9, 11] if ext_ok else [])
        if ctr == "vector":
            kinds += [8] + ([7] if ext_ok else [])
        k = rng.choice(kinds)
        v = live; live += 1
        allv = ", ".join("static_cast<T>(es[%d])" % q for q in range(R))
        exts = "E(std::array<T, %d>{%s})" % (R, allv)
        alloc = "std::pmr::polymorphic_allocator<int>(&pool)" if ctr == "pmr" else "std::allocator<int>()"
        n_ctr = span + (extra if ctr != "array" else 0)
        if ctr == "array":
            n_ctr = N
        if ctr == "pmr":
            mk = "drv::mk_ctr<std::vector<int>>::make(%d)" % n_ctr
            ctr_expr = "C(tmp%d.begin(), tmp%d.end())" % (v, v)
            pre = "auto tmp%d = %s; C c%d(tmp%d.begin(), tmp%d.end());" % (v, mk, v, v, v)
        else:
            pre = "C c%d = drv::mk_ctr<C>::make(%d);" % (v, n_ctr)
        if k == 0:
            code.append("A a%d(%s);" % (v, allv) if R > 0 else "A a%d{};" % v if False else ("A a%d(%s);" % (v, allv)))
            ops.append([0, k])
        elif k == 1:
            code.append("A a%d(%s);" % (v, exts)); ops.append([0, k])
        elif k == 2:
            code.append("A a%d(m0);" % v); ops.append([0, k])
        elif k in (3, 4):
            code.append("%s A a%d(%s, c%d);" % (pre, v, exts if k == 3 else "m0", v)); ops.append([1, k, n_ctr])
        elif k in (5, 6):
            code.append("%s A a%d(%s, std::move(c%d));" % (pre, v, exts if k == 5 else "m0", v)); ops.append([1, k, n_ctr])
        elif k in (7, 8):
            code.append("A a%d(%s, %s);" % (v, exts if k == 7 else "m0", alloc)); ops.append([0, k])
        elif k in (9, 10):
            code.append("%s A a%d(%s, c%d, %s);" % (pre, v, exts if k == 9 else "m0", v, alloc)); ops.append([1, k, n_ctr])
        else:
            code.append("%s A a%d(%s, std::move(c%d), %s);" % (pre, v, exts if k == 11 else "m0", v, alloc)); ops.append([1, k, n_ctr])
    ctor()
    if R == 0 and not all_static:
        pass
    moved = set()
    while len(ops) < nops:
        ch = rng.choice(["ctor", "copy", "move", "assign", "write", "write", "wview", "wview"])
        usable = [i for i in range(live) if i not in moved]
        if ch == "ctor" and live < 5:
            ctor()
        elif ch == "copy" and live < 6 and usable:
            i = rng.choice(usable); v = live; live += 1
            ops.append([2, i]); code.append("A a%d(a%d);" % (v, i))
        elif ch == "move" and live < 6 and len(usable) >= 2:
            i = rng.choice(usable); v = live; live += 1
            ops.append([3, i]); code.append("A a%d(std::move(a%d));" % (v, i))
            if ctr != "array":
                moved.add(i)
        elif ch == "assign" and len(usable) >= 2:
            a, b = rng.sample(usable, 2)
            ops.append([4, a, b]); code.append("a%d = a%d;" % (a, b))
        elif ch in ("write", "wview") and usable and 0 not in es:
            i = rng.choice(usable)
            idx = [rng.randrange(e) for e in es]
            x = rng.randrange(1, 99)
            ix = "std::vector<drv::i128>{%s}" % ", ".join(str(q) for q in idx)
            if ch == "write":
                ops.append([5, i, R] + idx + [x]); code.append("drv::arr_at(a%d, %s, std::make_index_sequence<%d>{}) = %d;" % (i, ix, R, x))
            else:
                ops.append([6, i, R] + idx + [x]); code.append("{ auto v_ = a%d.to_mdspan(); drv::md_at(v_, %s, std::make_index_sequence<%d>{}) = %d; }" % (i, ix, R, x))
    return mv, A, E, C, T, ctr, N, ops, code, R, span


def gen(rng, tier):
    progs, cases = [], []
    hist = collections.Counter()
    nprog = scaled(170 if tier == "quick" else 1200)
    tries = 0
    while len(progs) < nprog and tries < nprog * 30:
        tries += 1
        g = gen_program(rng, tier)
        if g is None:
            continue
        mv, A, E, C, T, ctr, N, ops, code, R, span = g
        body = ["tk.next(); std::printf(\"R %ld \", caseno); std::fflush(stdout);",
                "using T = %s; using E = %s; using C = %s; using A = %s; using M = typename A::mapping_type;" % (T, E, C, A),
                "const M m0 = drv::read_mapping<M, %d>(tk);" % mv.inst.lay,
                "std::vector<drv::i128> es; for (size_t k = 0; k < E::rank(); ++k) es.push_back(drv::to_i128(m0.extents().extent(k)));",
                "std::pmr::monotonic_buffer_resource pool; drv::Out o;"]
        live = 0
        for step, (op, line) in enumerate(zip(ops, code), 1):
            body.append(line)
            if op[0] in (0, 1, 2, 3):
                live += 1
            body.append("drv::dumpA(o, %d, %s);" % (step, ", ".join("a%d" % q for q in range(live))))
        body.append("std::printf(\"%s\\n\", o.s.c_str());")
        pr = Prog(None, "mdarray %s container=%s%s ops=%s" % (mv.inst.desc(), ctr, ("<%d>" % N) if N is not None else "", ops))
        pr.body = "\n    ".join(body)
        pr.group = "stride" if mv.inst.lay == 2 else ("padded" if mv.inst.lay in (3, 4) else "lr")
        progs.append(pr)
        toks = [None] + mv.tokens() + [N if N is not None else -1, len(ops)]
        for op in ops:
            toks += op
        cases.append((pr, toks, {"ops": ops, "lay": mv.inst.lay, "es": mv.es, "strides": mv.strides, "ctr": ctr, "rank": R, "span": span, "t": mv.inst.t}))
        hist["container=%s" % ctr] += 1; hist["layout=%s" % LAYOUTS[mv.inst.lay]] += 1; hist["rank=%d" % R] += 1
        for op in ops:
            hist["op=%s" % ["ctor(value-init)", "ctor(container)", "copy", "move", "assign", "write", "write-through-view"][op[0]]] += 1
            if op[0] in (0, 1):
                hist["ctor %s" % CTOR_DESC[op[1]]] += 1
    for n, p in enumerate(progs):
        p.id = n
        p.call = "prog_%d(caseno, tk)" % n
    for c in cases:
        c[1][0] = c[0].id
    return progs, cases, hist


def prelude(progs):
    return "\n".join("static void prog_%d(long caseno, drv::Toks& tk) {\n    %s\n}" % (p.id, p.body) for p in progs)


def split_arrays(v):
    """the per-array records of one dump"""
    out, cur = [], []
    for x in v:
        cur.append(x)
        if x == -9:
            out.append(cur); cur = []
    return out


def judge(r, cfg):
    md, im, meta = r["model"], r["impl"].get(cfg), r["meta"]
    out = []
    if im is None:
        return out
    if "crash" in r and cfg in r["crash"]:
        return [("crash", "implementation terminated abnormally: " + r["crash"][cfg]["stderr"], True)]
    if any(v == "UB" for v in md.values()):
        return [("model", "model reports UB on a generated valid program: " + r["model_line"][:200], False)]
    for k in sorted(md, key=lambda x: int(x[1:]) if x[1:].isdigit() else 0):
        if k not in im:
            out.append((k, "step %s missing in the implementation's output" % k, False)); break
        a, b = ints(im[k]), ints(md[k])
        if a != b:
            step = int(k[1:])
            # explain: which array, which component
            msg = "after operation %d (%s) the arrays are %s, expected %s (per array: container size, size(), consistency flag, extents, -7, elements, -9)" % (step, meta["ops"][step - 1], a, b)
            for n, (x, y) in enumerate(zip(split_arrays(a), split_arrays(b))):
                if x != y:
                    if x[:1] != y[:1]:
                        msg = "after operation %d (%s): array %d owns a container of %s elements, required %s" % (step, meta["ops"][step - 1], n, x[:1], y[:1])
                    elif x[1:2] != y[1:2]:
                        msg = "after operation %d (%s): array %d reports size() %s, product of extents %s" % (step, meta["ops"][step - 1], n, x[1:2], y[1:2])
                    elif x[2:3] != y[2:3]:
                        msg = "after operation %d (%s): array %d: data()/container().data()/to_mdspan()/conversion operators/flags disagree" % (step, meta["ops"][step - 1], n)
                    else:
                        msg = "after operation %d (%s): array %d holds %s, expected %s" % (step, meta["ops"][step - 1], n, x, y)
                    break
            out.append((k, msg, True)); break
    return out


def collect(rep, prop, tier, seed, exe, replay=None):
    rng = random.Random(seed * 31415927 + 3)
    if tier == "quick":
        configs = ["gcc23", "clang17", "gcc23-san"]
    else:
        configs = ["gcc23", "gcc20", "gcc17", "clang17", "clang20", "gcc23-paren", "gcc23-san", "clang20-san", "gcc17-assert"]
    configs = pick_configs(configs)
    if replay:
        rp = json.load(open(replay))
        pr = Prog(rp["call"], rp["program"]); pr.id = rp["case_tokens"][0]; pr.body = rp["body"]
        progs, cases, hist = [pr], [(pr, rp["case_tokens"], rp.get("meta", {}))], {}
        configs = [rp["config"]]
    else:
        progs, cases, hist = gen(rng, tier)
    work = os.path.join(CACHE, "work", "%s-%s" % (prop, tier))
    records, build_fail = run_programs("R", "drv_arr.hpp", progs, cases, configs, work, exe, nshards=16, prelude=prelude, name="arr")
    import incoq
    incoq_n = incoq.sample_check(rep, prop, "R", records, tier, seed, work, replay)
    for (sh_, cfg, blog) in {c: (s_, c, l) for (s_, c, l) in reversed(build_fail)}.values():
        rep.violation("mdarray driver shard %s no longer builds in configuration %s" % (sh_, cfg),
                      {"obligation": "corr:arr/build/%s/%s" % (sh_, cfg), "log": blog[-3000:], "signature": "build:arr:%s" % cfg}, True)
    evaluations, flagged, nontriv = 0, [], set()
    for r in records:
        for cfg in configs:
            if r["impl"].get(cfg) is None:
                continue
            evaluations += 1
            iss = judge(r, cfg)
            if iss:
                flagged.append((r, cfg, iss))
        m = r["meta"]
        if m.get("rank", 0) >= 1 and m["span"] > 1:
            nontriv.add(tuple(str(x) for x in r["toks"][1:]))
    flagged.sort(key=lambda x: len(x[0]["toks"]))
    seen = set()
    for (r, cfg, iss) in flagged:
        key = (iss[0][1][:60], cfg)
        if key in seen:
            continue
        seen.add(key)
        rep.violation(iss[0][1], {"family": "R", "config": cfg, "program": r["prog"].desc, "call": r["prog"].call, "body": r["prog"].body,
                                  "case_tokens": r["toks"], "meta": r["meta"], "model_line": r["model_line"],
                                  "impl_line": r["impl_line"].get(cfg, ""), "issues": [{"field": f, "message": m} for (f, m, _) in iss],
                                  "signature": "R:%s:%s" % (r["prog"].desc, iss[0][0])}, no_failing_input=not any(x[2] for x in iss))
        if len(seen) >= 6:
            break
    return {
        "evaluations": evaluations, "distinct_nontrivial": len(nontriv), "evaluated_inside_coq_too": incoq_n,
        "rule": "programs = straight-line sequences of 6-11 (thorough: up to 30) operations over mdarray<int, extents, layout, container> with layout in {left, right, stride (gapped), "
                "left_padded, right_padded}, container in {std::vector, std::array<int,N> (N >= span, sometimes larger), std::pmr::vector}: the constructors (extents..., extents, mapping, "
                "each with const container& / container&& / allocator / both), copy, move, assign, writes through a(i...) and through to_mdspan(); after every operation, for every live "
                "array: container size, size(), consistency of data()/container().data()/to_mdspan()/conversion operators/flags with the mapping, extents and all elements are compared with the "
                "model; ASan+UBSan configuration included. non-trivial = rank >= 1 and span > 1",
        "programs": len(progs) * len(configs), "configurations": configs, "disagreements_checked": len(flagged),
        "input_distribution": dict(sorted(hist.items())) if hist else {},
        "samples": [{"case": r["case_line"], "program": r["prog"].desc[:300], "model": r["model_line"][:300]} for r in records[:: max(1, len(records) // 5)][:5]],
        "exhaustive": False,
    }


def run_property(prop, tier, seed, replay=None):
    rep = Report(prop, tier, seed)
    prove_section(rep, prop)
    exe, log = build_model()
    if exe is None:
        rep.violation("the Coq model or its extraction no longer builds", {"obligation": "build:model", "log": log[-3000:], "signature": "build:model"}, True)
        return rep.finish()
    cov = collect(rep, prop, tier, seed, exe, replay)
    finish_common(rep, prop, [cov])
    rep.assumptions = ["the standard containers (std::vector, std::array, std::pmr::vector) are trusted; a moved-from vector is observed empty (libstdc++)",
                       "a std::array container smaller than required_span_size() is a caller precondition violation and is not generated"]
    prune_cache()
    return rep.finish()
