import sys, os, random, collections
sys.path.insert(0, os.path.dirname(os.path.abspath(__file__)))
from common import *
import props_conv
from progdrv import run_programs
tier = sys.argv[1] if len(sys.argv) > 1 else "quick"
cfgs = sys.argv[2].split(",") if len(sys.argv) > 2 else ["gcc23"]
seed = int(os.environ.get("VERIF_SEED", "0"))
rng = random.Random(seed)
exe, log = build_model(); assert exe, log
progs, cases, hist = props_conv.gen(rng, tier)
print("progs", len(progs), "cases", len(cases), dict(hist))
recs, bf = run_programs("V", "drv_conv.hpp", progs, cases, cfgs, os.path.join(CACHE, "work", "devconv"), exe, name="conv")
for s, cfg, log in bf[:3]: print("BUILD FAIL", s, cfg, log[-2500:])
cnt = collections.Counter(); shown = 0
for r in recs:
    for cfg in cfgs:
        im = r["impl"].get(cfg)
        if im is None: continue
        if "crash" in r and cfg in r["crash"]:
            cnt["crash"] += 1
            if shown < 10: shown += 1; print("CRASH", r["prog"].desc, r["case_line"], r["crash"][cfg]["stderr"][:300])
            continue
        for k in r["model"]:
            if r["model"][k] != im.get(k) and not (r["model"][k] == "-" or im.get(k) == "-"):
                cnt[(k, r["meta"].get("class", r["meta"].get("fam")))] += 1
                if shown < 10:
                    shown += 1; print("DIFF", cfg, r["prog"].desc, "field", k); print("  case ", r["case_line"][:300]); print("  model", r["model_line"][:400]); print("  impl ", r["impl_line"][cfg][:400])
        iss = props_conv.judge(r, cfg)
        if iss: cnt[("JUDGE", iss[0][0])] += 1
print(cnt)
