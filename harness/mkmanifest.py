#!/usr/bin/env python3
"""mkmanifest.py — regenerates MANIFEST.json from the table below (run from /verif)."""
import json, os
ROOT = os.path.dirname(os.path.dirname(os.path.abspath(__file__)))
props = [json.loads(l)["id"] for l in open(os.path.join(ROOT, "properties.jsonl"))]

NOTE_COMMON = ("Trusted: Coq 8.16.1 kernel; no axioms (Print Assumptions: closed under the global context for every property theorem); "
               "extraction via ExtrOcamlBasic only; OCaml 4.13 + zarith text driver; the hand-written implementation model (coq/MachInt.v, Layouts.v, ...) "
               "is tied to /repo/include only by this check's differential run (generated C++ drivers built against the current working tree with g++ 12 / clang++ 14).")

CLAIMED = {
 "C01": dict(cat="proof", tech="Coq refinement + chain/injectivity theorems (all ranks, all index types); differential correspondence of offsets/span",
   text="Theorems C01_range / C01_injective / C01_buffer_suffices: for every valid mapping of the five layouts and every in-bounds multi-index the implementation model returns an offset in [0, required_span_size) without UB, and offsets are injective (induction over rank, permutation-invariant chain argument for layout_stride). The model is tied to the code by running both on seeded instantiations x extents x strides x paddings incl. the representability boundary; the property's own predicate is also evaluated on the implementation's printed offsets.",
   ref="4/C01"),
 "C02": dict(cat="proof", tech="Coq refinement of every offset/stride/strides/padding function to the specified formulas; exact differential correspondence",
   text="Theorems C02_offset_formula (offset = sum i_r*S_r), C02_{right,left,stride,padded}_strides (what S_r is), C02_least_multiple, C02_stride_fn, C02_strides_fn, C02_default_stride, proved for all ranks/extents/index types on the implementation model that mirrors the C++ evaluation order and integer typing; correspondence compares offsets, stride(r), strides(), extents exactly.",
   ref="4/C02"),
 "C05": dict(cat="proof", tech="Coq theorems: span exact (left/right/stride) and bounded (padded); differential correspondence exact resp. against the proved bounds",
   text="Theorems C05_exact_lrs, C05_largest_offset, C05_left_right_product, C05_padded_left/right. Correspondence: exact comparison for left/right/stride, property bounds (0 for empty, 1 for rank 0, max offset+1 <= span <= padded stride*rest) for the padded layouts evaluated on the implementation's own output.",
   ref="4/C05"),
 "C07": dict(cat="proof", tech="Coq counting theorem (exhaustive <=> covers), strided/unique/always theorems; flag correspondence",
   text="Theorems C07_exhaustive_sound, C07_exhaustive_exact (is_exhaustive() = true <=> every offset below required_span_size is hit, by a counting argument over the enumerated index space, all ranks), C07_covers_iff_count, C07_strided, C07_unique, C07_always_exhaustive_padded, C07_always_flags, C07_forward. Correspondence: is_exhaustive compared exactly on non-empty index spaces, every other flag checked for overstatement only; mdspan's flags compared with its mapping's.",
   ref="4/C07"),
 "C13": dict(cat="proof", tech="Coq theorems on size()/empty() as implemented (size_t fold, modular conversion); observer correspondence incl. C++14 fold emulation builds",
   text="Theorems C13_size_general (size() = product mod 2^width(size_type), computed in size_t), C13_size_representable, C13_size_valid, C13_size_rank0, C13_empty_iff, C13_empty_rank0, C13_forwarders. Correspondence compares size/empty/extent/stride/rank/rank_dynamic/static_extent of an mdspan over every generated mapping, in C++14 (fold emulation), 17 and 23 builds of g++ and clang++.",
   ref="4/C13"),
 "C14": dict(cat="proof", tech="Coq no-UB theorems (every model function returns Ok on admissible input); UBSan/ASan differential runs at the representability boundary",
   text="Theorems C14_operator_call, C14_required_span_size, C14_stride, C14_strides, C14_is_exhaustive, C14_size, C14_find_next_multiple, C14_padded_construction, C14_default_stride: the implementation model, which makes signed overflow / zero divisors / out-of-range internal indexing an explicit UB result, returns Ok on every admissible input. Run-time correspondence under -fsanitize=address,undefined (g++ and clang++) on boundary inputs: a trap on an input the model accepts is a violation with that input as replay.",
   ref="4/C14"),
 "C06": dict(cat="proof", tech="Coq model of maybe_static_array/extents storage (prefix-count map, every constructor loop, converting ctor, comparison) with theorems; differential correspondence over types x construction paths x pairs",
   text="Theorems C06_scan_is_prefix_count (the index_sequence_scan recursion as written = number of dynamic positions before r), C06_from_dynamic, C06_from_all, C06_extent, C06_convert, C06_observers, C06_eq_iff (across index types/patterns, comparison in the common type), C06_neq_is_negation - all ranks and patterns by list induction. Correspondence: all masks for small ranks x seeded static values x pack/array/span x 9 argument element types, ordered pairs for conversion and comparison.",
   ref="4/C06"),
 "C08": dict(cat="proof", tech="Coq theorems on every converting constructor and operator==/!= as implemented; differential correspondence over ordered type pairs",
   text="Theorems C08_conv_correct (whenever a valid target mapping with the source's extents and strides exists - the precondition of each conversion family - the constructor computes exactly it), C08_conv_preserves_offsets, C08_eq_sound(+_offsets), C08_eq_refl_copy, C08_roundtrip_eq, C08_neq_is_negation (synthesised and each hand-written form), C08_not_eq_impl_demorgan (all ranks), C08_lr_eq_iff_extents. Correspondence: seeded (source value, target type) pairs per conversion family and equality pairs per layout family, in C++17 (hand-written !=) and C++20/23 builds; offsets of source and target compared on the implementation's own output.",
   ref="4/C08"),
 "C20": dict(cat="proof", tech="Coq theorem on the debug stride-check loop as written (abort iff some stride non-canonical; no UB before the abort); process-exit-status correspondence in assertion-enabled and NDEBUG builds",
   text="Theorems C20_abort_iff(+_prop), C20_silent_on_canonical, C20_ndebug_unchecked, C20_rank0_unchecked about the model of the loop (running stride in index_type, comparison in the common type, product advanced only after a successful comparison). Correspondence: conversions run as child processes without NDEBUG (SIGABRT expected iff a stride differs and rank>0) and with NDEBUG (never).",
   ref="4/C20"),
 "C04": dict(cat="proof", tech="Coq aliasing theorem over arbitrary strided sources, all ranks and slice kinds, lifted to chains by induction; refinement of submdspan_extents/_mapping; element-address correspondence",
   text="Theorems C04_alias_spec (element j of the view is source element first_k + j*step_k, in bounds), C04_refines (the implementation model - with machine integers, the static/dynamic extent rules, the inverse rank map and the layout-preservation decision - computes exactly the specified extents, strides and offset), C04_alias (handle' + offset'(j) = handle + offset(compose j) on the implementation model), C04_chain_spec / C04_chain (views of views to any depth, by induction over the list of slicings), C04_result_valid, C04_result_dims. Correspondence: generated programs over layout_left/right/stride sources x slice-kind tuples (kinds are C++ types) x chains; for every element of every view its address and the address of the source element it must alias are compared, on the implementation's own output and against the model.",
   ref="4/C04"),
 "C09": dict(cat="proof", tech="Coq rule-model of the submdspan metaprograms proved equivalent to the declarative slicing rules (all ranks); decltype correspondence with g++ and clang++",
   text="Theorems C09_rank, C09_static_iff, C09_preserve_left_iff / C09_preserve_right_iff (the implementation's fold over slice positions <=> 'rank 0, or leading/trailing full_extents with at most one pair/tuple at the boundary and only indices elsewhere'; the implementation never checks the last clause, it follows by counting), C09_result_layout, C09_preserved_is_sound_left/right (a preserved layout has exactly the source strides on the surviving dimensions). Correspondence: rank, static extents and layout tag of decltype(submdspan(...)) printed by the compiled programs vs the evaluated rule-model; index type, element type and offset_policy checked by static_assert in the driver.",
   ref="4/C09", note=NOTE_COMMON + " Partial: that the compilers evaluate the templates as the rule-model does is observed on the generated programs, not proved."),
 "C10": dict(cat="proof", tech="Coq containment theorems (offset <= span; non-empty view inside the source span) on spec and implementation model; boundary-stream correspondence",
   text="Theorems C10_contained (implementation model: 0 <= offset <= source span, and offset + view span <= source span for a non-empty view - empty slices at the end of an extent included), C10_contained_spec, C10_offset_lt_span, C10_chain_sub_valid. Correspondence: the submdspan driver with begin == extent in one/several dimensions, empty strided slices, zero-extent sources; the containment predicate is evaluated on the implementation's printed offsets and spans at every level of a chain.",
   ref="4/C10"),
 "C03": dict(cat="proof", tech="Coq theorems on the access forms of the view model (forms agree, = accessor.access(handle, mapping(idx)), address in span, write frame); per-form address correspondence incl. user layout/accessors, ASan",
   text="Theorems C03_forms_agree (separate indices / std::array / std::span give the accessor the same (handle, offset) - the forms differ in how often arguments are converted to index_type, which is idempotent), C03_access_is_accessor_of_mapping, C03_default_address (inside [handle, handle+span) by C01), C03_distinct_elements, C03_write_frame (a write changes exactly its own heap cell). Correspondence: programs over element types {int, const int, double, struct}, all five layouts plus a user-defined layout, accessors {default, stateful accessor with non-pointer handle that logs its (handle, offset) calls, proxy reference}, index argument types int8..uint64 and a class convertible to index_type; every available form (operator[] / operator() x pack/array/span, rank-1 operator[]) is compared with accessor().access(data_handle(), mapping()(idx...)) and with the model; writes are checked against a canary-padded buffer; one ASan+UBSan configuration.",
   ref="4/C03", note=NOTE_COMMON + " Partial: that a call syntax selects the modelled operator body (overload resolution) is observed on the generated programs, not proved."),
 "C11": dict(cat="proof", tech="Coq operation machine on pools of views with invariant over arbitrary op sequences (induction on the op list); step-by-step correspondence of generated straight-line programs, attribute and emulation builds",
   text="Theorems C11_ctor_components, C11_convert_components, C11_assign_eq, C11_swap_exchanges, C11_swap_involutive, C11_designation_invariant (for every sequence of copy/move/assign/swap/convert operations each pool entry designates the same elements as an initial view; the machine has no heap component, so no operation reads or writes elements), C11_same_view_same_elements. Correspondence: generated programs of 6-12 (thorough up to 40) operations over chains of convertible mdspan types; after every operation (handle, handle tag, accessor state, extents, strides) of all live views and an element-buffer checksum are compared with the model, in [[no_unique_address]] and base-class-emulation builds (hook MDSPAN_VERIF_FORCE_NO_UNIQUE_ADDRESS_EMULATION).",
   ref="4/C11", note=NOTE_COMMON + " Partial: the compressed-pair specialisations / EBO emulation have no model content and are covered by building each configuration; overload resolution is observed."),
 "C12": dict(cat="proof", tech="Coq model of mdarray as owning (mapping, container) with an operation machine over a store of arrays; theorems on sizing, access, view aliasing, copy independence, move, size(); step-by-step correspondence incl. all constructors, pmr, ASan",
   text="Theorems C12_construct_size (value-initialised container of exactly required_span_size() elements; N for std::array), C12_adopts_container, C12_access (a(i...) = container()[mapping()(i...)]), C12_view_aliases (to_mdspan()/conversion operators: same mapping, handle = data(); a write through either is read through the other), C12_copy_independent, C12_write_original_leaves_copy, C12_move_transfers, C12_size_is_product. Correspondence: generated programs over layouts {left, right, stride with gaps, left/right padded} x containers {vector, array<N>, pmr::vector} exercising 13 constructors, copy, move, assign, writes through the array and through views; after every operation container size, size(), data()/to_mdspan()/conversion-operator/flag consistency, extents and all elements of every live array are compared with the model.",
   ref="4/C12", note=NOTE_COMMON + " The standard containers are trusted; moved-from std::vector is observed empty."),
 "C19": dict(cat="proof", tech="Coq interleaving model: every schedule of race-free thread programs equals the sequential composition (induction over the interleaving relation, commutation of compatible actions); distinct multi-indices of the shared view through copies / sub-views are distinct cells (C01 injectivity + C04 aliasing); clang-AST purity audit of the headers; real threads under ThreadSanitizer compared with the model",
   text="Theorems C19_interleaving_is_sequential / C19_schedule_independent (all interleavings, any number of threads and actions), C19_final_cell (each cell holds its only writer's last value, others unchanged), C19_thread_reads_as_alone, C19_disjoint_indices_race_free and C19_shared_view (threads accessing pairwise distinct elements of the shared view through it, copies or sub-views of any depth compile to race-free cell programs), C19_pure_actions (observers / copies / sub-view creation have no effect). Tie to the code: (i) purity audit on every run - clang -ast-dump=json of mdspan.hpp + mdarray.hpp in C++14/17/20/2b: no non-const static-storage variable, thread_local, mutable member or const_cast in namespace Kokkos, plus a token scan of all headers; (ii) generated thread programs (2-8 threads; writes/reads through the shared const mdspan, private copies and sub-views created inside the threads; observers; all access forms; default and proxy accessor; 5 layouts) run with g++/clang++ ThreadSanitizer and plain builds; final buffer, per-thread read logs and observer results compared with the model's sequential composition; the model also runs the verified race-freedom checker race_freeb on every generated case.",
   ref="4/C19", note=NOTE_COMMON + " Partial in one respect: what the C++ memory model calls a data race is delegated to ThreadSanitizer on the executed schedules."),
 "C18": dict(cat="proof", tech="Coq object-layout function (Itanium ABI allocation of data members with [[no_unique_address]]) over transcribed class models; closed-form size theorems for all index types / ranks / patterns; sizeof / is_empty / is_trivially_copyable correspondence on generated instantiations with g++ and clang++, attribute and emulation builds",
   text="Theorems C18_extents (sizeof = rank_dynamic x sizeof(index_type), empty class when none), C18_left_right_add_nothing, C18_stride_adds_rank, C18_padded_at_most_one, C18_mdspan (handle + data of the non-empty mapping and accessor, for any mapping/accessor shapes), C18_mdspan_pointer_sized, C18_mdspan_left_right_stride, trivially-copyable flags. Correspondence: for generated instantiations (8 index types x 5 layouts x ranks 0..6 x static/dynamic/mixed/zero patterns x padding values x 4 accessor kinds) sizeof and is_empty of extents, mapping and mdspan are compared with the layout function in the attribute builds, is_trivially_copyable in all builds including the forced emulation.",
   ref="4/C18", note=NOTE_COMMON + " Partial in one respect: the ABI model is validated by the comparison with the two compilers, not derived from the ABI document."),
 "C16": dict(cat="proof", tech="Coq rule model: decision functions transcribed from the headers' constraint / explicit(...) expressions over type descriptors; theorems relate them to the specification's rules and prove that implicit conversions are total and value-preserving; compile-time correspondence of std::is_constructible / is_convertible / invocability over generated type pairs and argument lists with g++ and clang++ in C++17/20/23",
   text="Theorems C16_extents_rules, C16_implicit_extents_total (an implicit extents conversion has no precondition: every source value satisfies it), C16_dyn_to_static_has_precondition (converse for dynamic->static), C16_left_right_only_rank_le_1 / _exists_, C16_stride_to_left_right_explicit, C16_same_layout_follows_extents, C16_implicit_mapping_total (implicit left->left / right->right conversion yields the same valid mapping), C16_default_accessor, C16_mdspan, C16_extents_pack, C16_call, C16_mdspan_pack. Correspondence: ~2200 (thorough 20000) generated queries - ordered pairs of extents / mapping (5 layouts, padding values) / accessor / mdspan types and argument lists (all integer widths, double, classes with noexcept / throwing / no conversion; counts rank, rank_dynamic, off by one) for every constructor and call operator - is_constructible / is_convertible / invocability compared with the rule model (C++17: conditional explicit off).",
   ref="4/C16", note=NOTE_COMMON + " Partial in one respect: that the compilers implement overload resolution and the traits is trusted; hard-error mandates (static_assert) are not queried; the explicitness of padded-layout conversions is modelled as implemented."),
 "C17": dict(cat="proof", tech="Coq deduction table (which type each CTAD form yields, dextents recursion, member-type and noexcept tables) with consistency theorems; compile-time correspondence: decltype of every CTAD form, member typedefs and noexcept(expr) printed through a canonical type describer and compared with the table, g++ and clang++, C++17/20/23",
   text="Theorems C17_dextents, C17_dextents_rank, C17_pack_deduction (dextents<size_t,N> for any integer argument types), C17_carried, C17_pointer_and_array, C17_size_type_counterpart - consistency facts about the table; the substance of C17 is the comparison. Correspondence: ~900 (thorough 8000) generated queries: every CTAD form over argument-type combinations, dextents<I,N>, member types of extents / mapping / mdspan / mdarray instantiations, noexcept of the operations the C++23 text declares noexcept.",
   ref="4/C17", note=NOTE_COMMON + " Partial: thin theorem content (specification table); CTAD and noexcept evaluation by the compilers are trusted; padded-layout constructors are not in the noexcept table."),
}
PENDING_REASON = "check under construction in this session (Coq theorems and correspondence driver not yet committed); not claimed until both exist"

def main():
    checks = []
    for p in props:
        if p in CLAIMED:
            c = CLAIMED[p]
            checks.append({
                "property_id": p,
                "quick_cmd": "./check %s --tier quick" % p,
                "thorough_cmd": "./check %s --tier thorough" % p,
                "evidence_file": "evidence/%s.json" % p,
                "replay_cmd_template": "./check %s --replay {path}" % p,
                "engine": "coq+correspondence",
                "level_claimed": {"category": c["cat"], "text": c["text"], "design_ref": "DESIGN.md section " + c["ref"]},
                "level_note": c.get("note", NOTE_COMMON),
                "technique": c["tech"],
            })
    m = {
        "version": 1,
        "setup_cmd": "./setup.sh",
        "hooks": {
            "guard": "MDSPAN_VERIF_FORCE_NO_UNIQUE_ADDRESS_EMULATION",
            "enable": "-DMDSPAN_VERIF_FORCE_NO_UNIQUE_ADDRESS_EMULATION on the driver compile line of the *-emu configurations (see harness/common.py CONFIGS)",
            "baseline_off_cmd": "./baseline_off.sh",
            "source_commits": json.load(open(os.path.join(ROOT, "hooks.json")))["source_commits"] if os.path.exists(os.path.join(ROOT, "hooks.json")) else [],
            "add_only": True,
        },
        "engines": [
            {"name": "coq+correspondence", "path": "coq/ harness/ cpp/ ocaml/", "serves_properties": sorted(CLAIMED),
             "kind_free_text": "machine-checked proofs in Coq 8.16 about an executable implementation model + differential execution of the extracted model against generated C++ drivers"}
        ],
        "checks": checks,
        "not_applicable": [{"property_id": p, "reason": PENDING_REASON} for p in props if p not in CLAIMED],
        "notes": "See DESIGN.md. ./check <id> [--tier quick|thorough] [--replay file]; VERIF_SEED selects the PRNG seed.",
    }
    json.dump(m, open(os.path.join(ROOT, "MANIFEST.json"), "w"), indent=1)
    print("claimed:", sorted(CLAIMED))

if __name__ == "__main__":
    main()
