"""props_conv.py — C08: mapping conversions and equality (family V)."""
import collections, itertools, json, os, random
from common import *
import mapgen
from mapgen import Inst, DYN, LAYOUTS, iroot, prod1, lm, ints
from progdrv import Prog, run_programs

L, R_, S, LP, RP = 0, 1, 2, 3, 4


def left_strides(ms):
    out, a = [], 1
    for m in ms:
        out.append(a); a *= m
    return out


def right_strides(ms):
    out, a = [], 1
    for m in reversed(ms):
        out.append(a); a *= m
    return list(reversed(out))


def spec_strides(lay, es, ss=None, ps=None):
    n = len(es)
    if lay == L:
        return left_strides(es)
    if lay == R_:
        return right_strides(es)
    if lay == S:
        return list(ss)
    if lay == LP:
        return left_strides(([ps] + es[1:]) if n >= 2 else es)
    return right_strides((es[:-1] + [ps]) if n >= 2 else es)


def span1z(es, ss):
    return 1 + sum((max(e, 1) - 1) * s for e, s in zip(es, ss))


class MV:
    """a mapping value: instantiation + constructor arguments (+ what it denotes)"""

    def __init__(self, inst, ctor, es, ss=None, dpv=None):
        self.inst, self.ctor, self.es, self.ss, self.dpv = inst, ctor, list(es), list(ss or []), dpv
        n = len(es)
        self.ps = None
        if inst.lay in (LP, RP) and n >= 2:
            pad = es[0] if inst.lay == LP else es[-1]
            pv = dpv if ctor == 2 else inst.pv
            self.ps = pad if pv == DYN else lm(pv, pad)
        self.strides = spec_strides(inst.lay, self.es, self.ss, self.ps)

    def tokens(self):
        i = self.inst
        t = [i.t, i.lay, i.pv, len(i.pat)] + list(i.pat) + [self.ctor] + self.es
        if i.lay == S:
            t += self.ss
        if self.ctor == 2:
            t.append(self.dpv)
        return t

    def valid_for(self, t):
        M = imax(t)
        if any(e > M for e in self.es) or any(s > M for s in self.strides):
            return False
        if self.inst.lay in (L, R_):
            return prod1(self.es) <= M
        if self.inst.lay == S:
            return span1z(self.es, self.ss) <= M
        n = len(self.es)
        if n < 2:
            return prod1(self.es) <= M
        rest = self.es[1:] if self.inst.lay == LP else self.es[:-1]
        return prod1(self.es) <= M and max(self.ps, 1) * prod1(rest) <= M


def type_tokens(i):
    return [i.t, i.lay, i.pv, len(i.pat)] + list(i.pat)


def rand_pattern(rng, es, keep_dyn=0.5):
    return tuple(DYN if (rng.random() < keep_dyn or e > (1 << 64) - 2) else e for e in es)


def rand_exts(rng, t, R, small=True):
    M = imax(t)
    for _ in range(50):
        if small or rng.random() < 0.6:
            es = [rng.choice([0, 1, 1, 2, 3, 4, 5]) for _ in range(R)]
        else:
            root = iroot(M, max(R, 1))
            es = [rng.choice([1, 2, root, max(root - 1, 1), 3]) for _ in range(R)]
        if prod1(es) <= M:
            return es
    return [1] * R


def make_source(rng, lay, t, R, es=None):
    """a random admissible mapping value of the given layout"""
    M = imax(t)
    es = es if es is not None else rand_exts(rng, t, R, small=rng.random() < 0.7)
    pat = rand_pattern(rng, es)
    if lay in (L, R_):
        return MV(Inst(t, lay, DYN, pat), 0, es)
    if lay == S:
        sts = mapgen.stride_tuples(rng, t, es, 4)
        if not sts:
            return None
        return MV(Inst(t, lay, DYN, pat), 1, es, rng.choice(sts))
    pv = rng.choice([DYN, 1, 2, 3, 4, 8])
    inst = Inst(t, lay, pv, pat)
    if not inst.instantiable():
        return None
    if pv == DYN and rng.random() < 0.5:
        mv = MV(inst, 2, es, None, rng.choice([1, 2, 3, 4, 5, 8]))
    else:
        mv = MV(inst, 0, es)
    return mv if mv.valid_for(t) else None


def retype(rng, mv, lay, pv=DYN, need_dyn_pad=False):
    """a target instantiation able to hold mv's extents/strides: (Inst or None)"""
    es = mv.es
    cands = [t for t in range(8) if MV_fits(mv, lay, t)]
    if not cands:
        return None
    t = rng.choice(cands)
    pat = list(rand_pattern(rng, es))
    inst = Inst(t, lay, pv, pat)
    return inst if inst.instantiable() else None


def MV_fits(mv, lay, t):
    M = imax(t)
    if any(e > M for e in mv.es) or any(s > M for s in mv.strides):
        return False
    if lay in (L, R_):
        return prod1(mv.es) <= M
    n = len(mv.es)
    ms = list(mv.es)
    if lay in (LP, RP) and n >= 2:
        ps = mv.strides[1] if lay == LP else mv.strides[n - 2]
        rest = mv.es[1:] if lay == LP else mv.es[:-1]
        return prod1(mv.es) <= M and max(ps, 1) * prod1(rest) <= M
    if lay in (LP, RP):
        return prod1(mv.es) <= M
    return span1z(mv.es, mv.strides) <= M


def mapping_cpp(i):
    return i.cpp_type()


def gen(rng, tier):
    progs, cases = [], []
    hist = collections.Counter()
    npairs = scaled(350 if tier == "quick" else 3000)
    maxR = 3 if tier == "quick" else 4
    tries = 0

    def points_tokens(es):
        n = prod1(es) if 0 not in es else 0
        if 0 in es:
            return [0]
        if n <= 200:
            return [-1]
        pts = mapgen.index_points(rng, es, 5)
        out = [len(pts)]
        for p in pts:
            out += list(p)
        return out

    def add_conv(src, tinst, cls):
        pr = Prog("drv::run_conv<%s, %d, %s>(caseno, tk)" % (src.inst.cpp_type(), src.inst.lay, tinst.cpp_type()),
                  "conv %s -> %s" % (src.inst.desc(), tinst.desc()))
        progs.append(pr)
        cases.append((pr, [None, 0] + src.tokens() + type_tokens(tinst) + points_tokens(src.es),
                      {"kind": "conv", "class": cls, "src": src.inst.desc(), "tgt": tinst.desc(), "es": src.es, "strides": src.strides,
                       "slay": src.inst.lay, "tlay": tinst.lay, "rank": len(src.es)}))
        hist["conv " + cls] += 1

    nconv = 0
    while nconv < npairs and tries < npairs * 60:
        tries += 1
        R = rng.choice([0, 1, 1, 2, 2, 2, 3, 3] + ([4] if maxR >= 4 else []))
        t = rng.randrange(8)
        cls = rng.choice(["same", "same", "lr", "padlr", "to_stride", "to_stride", "stride_to_lr", "stride_to_pad", "pad_to_lr"])
        src = tinst = None
        if cls == "same":
            lay = rng.randrange(5)
            src = make_source(rng, lay, t, R)
            if src is None:
                continue
            pv = DYN
            if lay in (LP, RP):
                pv = rng.choice([DYN, src.inst.pv]) if src.inst.pv != DYN else DYN
            tinst = retype(rng, src, lay, pv)
        elif cls == "lr":
            R = rng.choice([0, 1])
            lay = rng.choice([L, R_])
            src = make_source(rng, lay, t, R)
            tinst = retype(rng, src, R_ if lay == L else L) if src else None
        elif cls == "padlr":
            R = rng.choice([0, 1])
            lay = rng.choice([LP, RP])
            src = make_source(rng, lay, t, R)
            tinst = retype(rng, src, RP if lay == LP else LP, rng.choice([DYN, 2, 4])) if src else None
        elif cls == "to_stride":
            src = make_source(rng, rng.choice([L, R_, LP, RP, S]), t, R)
            tinst = retype(rng, src, S) if src else None
        elif cls == "stride_to_lr":
            lay = rng.choice([L, R_])
            base = make_source(rng, lay, t, R)
            if base is None:
                continue
            src = MV(Inst(t, S, DYN, rand_pattern(rng, base.es)), 1, base.es, base.strides)
            if R > 0 and any(s <= 0 for s in src.ss):
                continue
            tinst = retype(rng, src, lay)
        elif cls == "stride_to_pad":
            lay = rng.choice([LP, RP])
            base = make_source(rng, lay, t, R)
            if base is None:
                continue
            if any(s <= 0 for s in base.strides) or span1z(base.es, base.strides) > imax(t):
                continue
            src = MV(Inst(t, S, DYN, rand_pattern(rng, base.es)), 1, base.es, base.strides)
            # target padding: dynamic, or the static value the strides were built with
            tinst = retype(rng, src, lay, rng.choice([DYN, base.inst.pv]) if base.ctor == 0 else DYN)
            if tinst is not None and tinst.pv != DYN and len(base.es) >= 2:
                pad = base.es[0] if lay == LP else base.es[-1]
                if lm(tinst.pv, pad) != base.ps:
                    continue
        elif cls == "pad_to_lr":
            lay = rng.choice([LP, RP])
            es = rand_exts(rng, t, R)
            pv = rng.choice([DYN, 1, 2, 3])
            if R >= 2:
                k = 0 if lay == LP else R - 1
                if pv not in (DYN, 0) and es[k] % pv != 0:
                    es[k] = lm(pv, es[k])
                if prod1(es) > imax(t):
                    continue
            inst = Inst(t, lay, pv, rand_pattern(rng, es))
            if not inst.instantiable():
                continue
            src = MV(inst, 0, es)
            if not src.valid_for(t):
                continue
            tinst = retype(rng, src, L if lay == LP else R_)
        if src is None or tinst is None:
            continue
        # mandates of the padded <-> left/right constructors (hard errors): keep static extent a multiple
        if not mandates_ok(src.inst, tinst):
            continue
        # every static extent of the target must match, and the target must not force a padded stride != source's
        if not static_ps_ok(src, tinst):
            continue
        add_conv(src, tinst, cls)
        nconv += 1

    # ---- equality pairs
    ncmp = 0
    neq = npairs if tier == "quick" else npairs
    tries = 0
    while ncmp < neq and tries < neq * 60:
        tries += 1
        R = rng.choice([0, 1, 2, 2, 3])
        t = rng.randrange(8)
        fam = rng.choice(["ll", "rr", "ss", "s_other", "s_other", "pp", "cong", "cong"])
        a = b = None
        if fam == "cong":
            # two mappings over index types of different width whose extents agree and whose strides (or one extent) differ by a multiple of
            # 2^width(narrower type): equal after a narrowing cast, different mappings.  operator== must say "not equal".
            R = rng.choice([1, 2, 2, 3])
            t = rng.choice([0, 1, 2, 3, 4, 5])
            t2 = rng.choice([x for x in range(8) if BITS[x] > BITS[t]])
            nb = BITS[t]
            es = [rng.choice([1, 2, 3, 4]) for _ in range(R)]
            kind = rng.choice(["pp", "pp", "ss", "s_other", "ext"])
            bump = (1 << nb) * rng.choice([1, 1, 2])
            if kind == "pp" and R >= 2:
                lay = rng.choice([LP, RP])
                dpv = rng.choice([4, 5, 8])
                instn = Inst(t, lay, DYN, rand_pattern(rng, es)); instw = Inst(t2, lay, DYN, rand_pattern(rng, es))
                if not (instn.instantiable() and instw.instantiable()):
                    continue
                narrow = MV(instn, 2, es, None, dpv); wide = MV(instw, 2, es, None, dpv + bump)
            elif kind == "ss":
                ss = left_strides(es) if rng.random() < 0.5 else right_strides(es)
                k = max(range(R), key=lambda q: (ss[q], q))
                ssw = list(ss); ssw[k] += bump
                narrow = MV(Inst(t, S, DYN, rand_pattern(rng, es)), 1, es, ss); wide = MV(Inst(t2, S, DYN, rand_pattern(rng, es)), 1, es, ssw)
            elif kind == "s_other":
                lay = rng.choice([L, R_])
                ss = left_strides(es) if lay == L else right_strides(es)
                k = max(range(R), key=lambda q: (ss[q], q))
                ssw = list(ss); ssw[k] += bump
                narrow = MV(Inst(t, lay, DYN, rand_pattern(rng, es)), 0, es); wide = MV(Inst(t2, S, DYN, rand_pattern(rng, es)), 1, es, ssw)
            else:
                lay = rng.choice([L, R_, S])
                k = rng.randrange(R)
                esw = list(es); esw[k] += bump
                mk = lambda tt, ee: MV(Inst(tt, lay, DYN, tuple([DYN] * R)), 1 if lay == S else 0, ee, (left_strides(ee) if lay == S else None))
                narrow, wide = mk(t, es), mk(t2, esw)
            if not (narrow.valid_for(t) and wide.valid_for(t2)):
                continue
            a, b = (narrow, wide) if rng.random() < 0.5 else (wide, narrow)
            hist["cmp congruent-mod-width %s" % kind] += 1
        if fam == "cong":
            pass
        elif fam in ("ll", "rr"):
            lay = L if fam == "ll" else R_
            a = make_source(rng, lay, t, R)
            if a is None:
                continue
            es2 = perturb(rng, a.es, imax(t))
            t2 = rng.randrange(8)
            if any(e > imax(t2) for e in es2) or prod1(es2) > imax(t2) or (fam and rng.random() < 0.1 and False):
                continue
            b = MV(Inst(t2, lay, DYN, rand_pattern(rng, es2)), 0, es2)
        elif fam == "ss":
            a = make_source(rng, S, t, R)
            if a is None:
                continue
            es2 = perturb(rng, a.es, imax(t)) if rng.random() < 0.3 else list(a.es)
            sts = mapgen.stride_tuples(rng, t, es2, 3)
            if not sts:
                continue
            ss2 = list(a.ss) if (es2 == a.es and rng.random() < 0.6) else rng.choice(sts)
            t2 = rng.randrange(8)
            b = MV(Inst(t2, S, DYN, rand_pattern(rng, es2)), 1, es2, ss2)
            if not b.valid_for(t2):
                continue
        elif fam == "s_other":
            lay = rng.choice([L, R_, LP, RP])
            b = make_source(rng, lay, t, R)
            if b is None or any(s <= 0 for s in b.strides):
                continue
            ss = list(b.strides)
            es = list(b.es)
            if rng.random() < 0.4 and R > 0:
                k = rng.randrange(R)
                ss[k] += rng.choice([1, 2])
            if rng.random() < 0.2:
                es = perturb(rng, es, imax(t))
            t2 = rng.randrange(8)
            a = MV(Inst(t2, S, DYN, rand_pattern(rng, es)), 1, es, ss)
            if not a.valid_for(t2) or not stride_ok(es, ss):
                continue
        else:
            lay = rng.choice([LP, RP])
            a = make_source(rng, lay, t, R)
            if a is None:
                continue
            b = None
            for _ in range(10):
                es2 = perturb(rng, a.es, imax(t)) if rng.random() < 0.3 else a.es
                b = make_source(rng, lay, rng.randrange(8), R, es=list(es2))
                if b is not None:
                    break
            if b is None:
                continue
        if a is None or b is None:
            continue
        pr = Prog("drv::run_cmp<%s, %d, %s, %d>(caseno, tk)" % (a.inst.cpp_type(), a.inst.lay, b.inst.cpp_type(), b.inst.lay),
                  "cmp %s == %s" % (a.inst.desc(), b.inst.desc()))
        progs.append(pr)
        toks = [None, 1] + a.tokens() + b.tokens() + (points_tokens(a.es) if a.es == b.es else [0])
        cases.append((pr, toks, {"kind": "cmp", "fam": fam, "a": a.inst.desc(), "b": b.inst.desc(), "aes": a.es, "bes": b.es,
                                 "ast": a.strides, "bst": b.strides, "rank": R}))
        hist["cmp %s%s" % (fam, " same" if (a.es == b.es and a.strides == b.strides) else "")] += 1
        ncmp += 1
    for n, p in enumerate(progs):
        p.id = n
    for c in cases:
        c[1][0] = c[0].id
    return progs, cases, hist


def stride_ok(es, ss):
    """the standard's precondition (some ordering with s[p_i] >= s[p_{i-1}] * e[p_{i-1}])"""
    ds = sorted(zip(ss, es))
    return all(ds[i][0] * ds[i][1] <= ds[i + 1][0] for i in range(len(ds) - 1)) and all(s > 0 for s in ss)


def perturb(rng, es, M):
    es = list(es)
    if es and rng.random() < 0.5:
        k = rng.randrange(len(es))
        es[k] = max(0, es[k] + rng.choice([-1, 1]))
    return es


def mandates_ok(sinst, tinst):
    """static_assert-level requirements of the padded converting constructors, both directions (the round
    trip instantiates the reverse constructor)"""
    for (a, b) in ((sinst, tinst), (tinst, sinst)):
        R = len(a.pat)
        # left/right <- padded : static extents and static padding => extent % padding == 0
        if a.lay in (LP, RP) and b.lay in (L, R_) and R > 1 and a.pv != DYN:
            k = 0 if a.lay == LP else R - 1
            if a.pat[k] != DYN and b.pat[k] != DYN:
                if (a.pv == 0 and b.pat[k] != 0) or (a.pv != 0 and b.pat[k] % a.pv != 0):
                    return False
        if a.lay in (LP, RP) and b.lay in (LP, RP) and a.pv != DYN and b.pv != DYN and a.pv != b.pv:
            return False
    return True


def static_ps_ok(src, tinst):
    """if the target type fixes its padded stride statically it must be the source's"""
    R = len(src.es)
    for a, b in zip(tinst.pat, src.es):
        if a != DYN and a != b:
            return False
    if tinst.lay in (LP, RP) and R >= 2 and tinst.pv != DYN:
        k = 0 if tinst.lay == LP else R - 1
        ps = src.strides[1] if tinst.lay == LP else src.strides[R - 2]
        if tinst.pat[k] != DYN:
            if lm(tinst.pv, tinst.pat[k]) != ps:
                return False
        elif lm(tinst.pv, src.es[k]) != ps:
            return False
    if tinst.lay in (LP, RP) and R >= 2:
        k = 0 if tinst.lay == LP else R - 1
        ps = src.strides[1] if tinst.lay == LP else src.strides[R - 2]
        if ps < src.es[k]:
            return False
    return True


def judge(r, cfg):
    md, im, meta = r["model"], r["impl"].get(cfg), r["meta"]
    out = []
    if im is None:
        return out
    if "crash" in r and cfg in r["crash"]:
        return [("crash", "implementation terminated abnormally: " + r["crash"][cfg]["stderr"], True)]
    if any(v == "UB" for v in md.values()):
        return [("model", "model reports UB on a generated valid input: " + r["model_line"][:200], False)]
    if meta["kind"] == "conv":
        # the property's own predicate on the implementation's output
        if im.get("offs") != im.get("soffs"):
            out.append(("offs", "converted mapping maps multi-indices to different offsets: %s vs source %s" % (im.get("offs", "")[:120], im.get("soffs", "")[:120]), True))
        if ints(im.get("ext")) != [int(x) for x in meta["es"]]:
            out.append(("ext", "converted mapping has extents %s, source %s" % (im.get("ext"), meta["es"]), True))
        for f in ("eqts", "eqst", "cp", "rt"):
            if im.get(f) == "0":
                out.append((f, "%s: a mapping does not equal its conversion / copy / round trip" % f, True))
        for e, n in (("eqts", "nets"), ("eqst", "nest")):
            if im.get(e) in ("0", "1") and im.get(n) in ("0", "1") and im.get(e) == im.get(n):
                out.append((n, "operator!= is not the negation of operator==", True))
        for f in ("ext", "span", "st"):
            if md.get(f) != im.get(f) and not out:
                out.append((f, "%s: implementation %s, model %s" % (f, im.get(f), md.get(f)), False))
    else:
        eq, ne = im.get("eq"), im.get("ne")
        if eq in ("0", "1") and ne in ("0", "1") and eq == ne:
            out.append(("ne", "operator!= is not the negation of operator==", True))
        if eq == "1":
            if im.get("exteq") != "1" or im.get("aoffs") != im.get("boffs"):
                out.append(("eq", "a == b although extents or offsets differ", True))
        fam = meta.get("fam")
        if fam in ("ll", "rr") and eq in ("0", "1") and (eq == "1") != (im.get("exteq") == "1"):
            out.append(("eq", "layout_left/right mappings must be equal exactly when their extents are", True))
        for f in ("eq", "ne"):
            if md.get(f) not in (None, "-") and im.get(f) not in (None, "-") and md.get(f) != im.get(f) and not out:
                # equal mappings reported unequal: not a soundness violation by itself, but the model differs
                same = meta["aes"] == meta["bes"] and meta["ast"] == meta["bst"]
                out.append((f, "%s: implementation %s, model %s" % (f, im.get(f), md.get(f)), same and f == "eq"))
    return out


def collect(rep, prop, tier, seed, exe, replay=None):
    rng = random.Random(seed * 15485863 + 11)
    configs = ["gcc23", "clang17"] if tier == "quick" else ["gcc23", "clang17", "gcc20", "clang20", "gcc17", "clang17-emu"]
    configs = pick_configs(configs)
    if replay:
        rp = json.load(open(replay))
        pr = Prog(rp["call"], rp["program"]); pr.id = rp["case_tokens"][0]
        progs, cases, hist = [pr], [(pr, rp["case_tokens"], rp.get("meta", {}))], {}
        configs = [rp["config"]]
    else:
        progs, cases, hist = gen(rng, tier)
    work = os.path.join(CACHE, "work", "%s-%s" % (prop, tier))
    records, build_fail = run_programs("V", "drv_conv.hpp", progs, cases, configs, work, exe, nshards=16, name="conv")
    import incoq
    incoq_n = incoq.sample_check(rep, prop, "V", records, tier, seed, work, replay)
    for (sh_, cfg, blog) in {c: (s_, c, l) for (s_, c, l) in reversed(build_fail)}.values():
        rep.violation("conversion driver shard %d no longer builds in configuration %s" % (sh_, cfg),
                      {"obligation": "corr:conv/build/%d/%s" % (sh_, cfg), "log": blog[-3000:], "signature": "build:conv:%s" % cfg}, True)
    evaluations, flagged, nontriv = 0, [], set()
    for r in records:
        for cfg in configs:
            if r["impl"].get(cfg) is None:
                continue
            evaluations += 1
            iss = judge(r, cfg)
            if iss:
                flagged.append((r, cfg, iss))
        m = r["meta"]
        if m.get("rank", 0) >= 1:
            nontriv.add(tuple(str(x) for x in r["toks"][1:]))
    # cases that are failing inputs of the property itself first (then the smallest); within a case the failing issue first
    flagged = [(r, cfg, sorted(iss, key=lambda i: not i[2])) for (r, cfg, iss) in flagged]
    flagged.sort(key=lambda x: (not any(i[2] for i in x[2]), len(x[0]["toks"])))
    seen = set()
    for (r, cfg, iss) in flagged:
        key = (r["meta"].get("kind"), r["meta"].get("class", r["meta"].get("fam")), iss[0][0])
        if key in seen:
            continue
        seen.add(key)
        rep.violation(iss[0][1], {"family": "V", "config": cfg, "program": r["prog"].desc, "call": r["prog"].call,
                                  "case_tokens": r["toks"], "meta": r["meta"], "model_line": r["model_line"],
                                  "impl_line": r["impl_line"].get(cfg, ""), "issues": [{"field": f, "message": m} for (f, m, _) in iss],
                                  "signature": "V:%s:%s" % (r["prog"].desc, iss[0][0])}, no_failing_input=not any(x[2] for x in iss))
        if len(seen) >= 6:
            break
    return {
        "evaluations": evaluations, "distinct_nontrivial": len(nontriv), "evaluated_inside_coq_too": incoq_n,
        "rule": "programs = ordered pairs (source mapping type, target mapping type) over layout x index type x pattern x padding, by conversion family "
                "(same layout, left<->right / padded<->padded for rank<=1, anything->stride, stride->left/right/padded with canonical strides, padded->left/right with "
                "padded stride = extent), values satisfying that conversion's precondition; plus equality pairs per family with equal and perturbed "
                "extents/strides/padding. non-trivial = rank >= 1, distinct by full case",
        "programs": len(progs) * len(configs), "configurations": configs, "disagreements_checked": len(flagged),
        "input_distribution": dict(sorted(hist.items())) if hist else {},
        "samples": [{"case": r["case_line"], "program": r["prog"].desc, "model": r["model_line"][:300]} for r in records[:: max(1, len(records) // 5)][:5]],
        "exhaustive": False,
    }


def run_property(prop, tier, seed, replay=None):
    rep = Report(prop, tier, seed)
    prove_section(rep, prop)
    exe, log = build_model()
    if exe is None:
        rep.violation("the Coq model or its extraction no longer builds", {"obligation": "build:model", "log": log[-3000:], "signature": "build:model"}, True)
        return rep.finish()
    cov = collect(rep, prop, tier, seed, exe, replay)
    from props_map import finish_common
    finish_common(rep, prop, [cov])
    rep.assumptions = ["comparisons with layout_stride on the right-hand side exist only through C++20 rewritten candidates and are not compared"]
    prune_cache()
    return rep.finish()
