import sys, os, random, collections
sys.path.insert(0, os.path.dirname(os.path.abspath(__file__)))
from common import *
import props_sub
tier = sys.argv[1] if len(sys.argv) > 1 else "quick"
cfgs = sys.argv[2].split(",") if len(sys.argv) > 2 else ["gcc23"]
seed = int(os.environ.get("VERIF_SEED", "0"))
rng = random.Random(seed)
exe, log = build_model(); assert exe, log
progs, cases, hist = props_sub.gen(rng, tier)
print("progs", len(progs), "cases", len(cases), dict(hist))
t0=time.time()
recs, bf = props_sub.run_sharded(progs, cases, cfgs, os.path.join(CACHE, "work", "devsub"), exe)
print("ran", time.time()-t0)
for s, cfg, log in bf[:3]: print("BUILD FAIL", s, cfg, log[-2500:])
cnt = collections.Counter(); shown = 0
for r in recs:
    for cfg in cfgs:
        im = r["impl"].get(cfg)
        if im is None: continue
        if "crash" in r and cfg in r["crash"]:
            cnt["crash"] += 1
            if shown < 10: shown += 1; print("CRASH", r["prog"].desc, r["case_line"], r["crash"][cfg]["stderr"][:300])
            continue
        for k in r["model"]:
            if r["model"][k] != im.get(k):
                cnt[(k[:2], "UB" if r["model"][k]=="UB" else "val")] += 1
                if shown < 12:
                    shown += 1; print("DIFF", cfg, r["prog"].desc, "field", k); print("  case ", r["case_line"][:300]); print("  model", r["model_line"][:500]); print("  impl ", r["impl_line"][cfg][:500])
                break
print(cnt)
