#!/bin/bash
# dev helper: mutate.sh <file under /repo> <sed expr> <checks...>  — applies, runs the checks, restores
f=$1; expr=$2; shift 2
cd /repo && cp "$f" /tmp/mut.bak && sed -i "$expr" "$f" && git diff --stat | tail -1
if git diff --quiet; then echo "MUTATION DID NOT APPLY"; exit 3; fi
cd /verif
for c in "$@"; do echo "--- $c"; ./check $c 2>&1 | grep -E "VIOLATION|KNOWN" | head -3; echo "rc=${PIPESTATUS[0]}"; done
cd /repo && git checkout -- . && git status --short | grep -v _build
