"""props_acc.py — C03: element access in every form (family A)."""
import collections, itertools, json, os, random
from common import *
import mapgen
from mapgen import Inst, DYN, LAYOUTS, prod1, ints
from progdrv import Prog, run_programs
from props_conv import MV, rand_pattern, rand_exts
from props_map import finish_common

ETS = ["int", "const int", "double", "drv::Pod"]
ACCS = ["default", "tag(non-pointer handle, logging)", "proxy reference"]
FORM_FIELDS = ["dir", "ppk", "par", "psp", "bpk", "b1", "bar", "bsp", "lg"]


def gen(rng, tier):
    progs, cases = [], []
    hist = collections.Counter()
    nprog = scaled(220 if tier == "quick" else 1500)
    tries = 0
    while len(progs) < nprog and tries < nprog * 30:
        tries += 1
        t = rng.randrange(8)
        lay = rng.choice([0, 1, 2, 3, 4, 5])           # 5: user layout (column major), modelled as layout_left
        R = rng.choice([0, 1, 1, 2, 2, 3, 3, 4])
        es = [rng.choice([1, 2, 3, 4, 5]) for _ in range(R)]
        if rng.random() < 0.15 and R > 0:
            es[rng.randrange(R)] = 0
        if prod1(es) > imax(t) or prod1(es) > 300:
            continue
        pat = rand_pattern(rng, es, 0.6)
        if lay == 2:
            sts = mapgen.stride_tuples(rng, t, es, 4)
            if not sts:
                continue
            mv = MV(Inst(t, 2, DYN, pat), 1, es, rng.choice(sts))
        elif lay in (3, 4):
            pv = rng.choice([DYN, 2, 4])
            inst = Inst(t, lay, pv, pat)
            if not inst.instantiable():
                continue
            mv = MV(inst, 0, es)
        else:
            mv = MV(Inst(t, 0 if lay == 5 else lay, DYN, pat), 0, es)
        if not mv.valid_for(t):
            continue
        span = 1 + sum((e - 1) * s for e, s in zip(es, mv.strides)) if 0 not in es else 0
        if mv.inst.lay in (3, 4) and R >= 2:
            span = mv.ps * prod1(es[1:] if mv.inst.lay == 3 else es[:-1]) if 0 not in es else 0
        if span > 2000:
            continue
        et = rng.choice(ETS)
        acc = rng.choice([0, 0, 1, 2])
        if et == "const int" and acc == 2:
            acc = 0
        # index argument type: every value must be representable in it
        mx = max(es + [1]) - 1
        ucands = [u for u in range(8) if imax(u) >= mx] + [8]
        u = rng.choice(ucands)
        U = CTYPES[u] if u < 8 else "drv::ConvTo<%s>" % CTYPES[t]
        mtype = mv.inst.cpp_type() if lay != 5 else "drv::layout_user::mapping<%s>" % mv.inst.ext_type()
        pr = Prog("drv::run_acc<%s, %s, %d, %d, %s>(caseno, tk)" % (et, mtype, mv.inst.lay, acc, U),
                  "acc ET=%s %s%s acc=%s U=%s" % (et, "user-layout " if lay == 5 else "", mv.inst.desc(), ACCS[acc], U))
        progs.append(pr)
        toks = [None] + mv.tokens() + ([0] if 0 in es else [-1])
        cases.append((pr, toks, {"et": et, "acc": acc, "lay": lay, "t": t, "es": es, "strides": mv.strides, "u": u, "rank": R, "span": span}))
        hist["ET=%s" % et] += 1; hist["accessor=%s" % ACCS[acc]] += 1
        hist["layout=%s" % (LAYOUTS + ["user"])[lay]] += 1; hist["rank=%d" % R] += 1
        hist["argtype=%s" % ("class" if u == 8 else ITYS[u])] += 1
    # huge offsets: spans above 2^31 elements (unsigned char elements over a lazily committed mapping); only element
    # identities are compared.  A truncation of the offset to 32 bits anywhere on the access path shows here.
    nbig = scaled(28 if tier == "quick" else 120)
    tries = 0
    while nbig > 0 and tries < 2000:
        tries += 1
        t = rng.choice([5, 6, 7, 6, 7])
        lay = rng.choice([0, 1, 2, 3, 4])
        R = rng.choice([1, 2, 2, 3])
        target = rng.choice([(1 << 31) + rng.randrange(1, 1 << 20), 3 * (1 << 30) + rng.randrange(1 << 20), (1 << 32) + rng.randrange(1 << 24), 5 * (1 << 30)])
        if R == 1:
            es = [target]
        elif R == 2:
            a = rng.choice([3, 40000, 65536, 70001]); es = [a, target // a + 1]
        else:
            a, b = rng.choice([(2, 3), (1000, 1000), (7, 65536)]); es = [a, b, target // (a * b) + 1]
        rng.shuffle(es)
        if prod1(es) > imax(t) or any(e > imax(t) for e in es):
            continue
        pat = rand_pattern(rng, es, 0.8)
        pat = tuple(DYN if (p != DYN and p > 100000) else p for p in pat)
        if lay == 2:
            ss = mapgen.stride_tuples(rng, t, es, 2)
            if not ss:
                continue
            mv = MV(Inst(t, 2, DYN, pat), 1, es, ss[0])
        elif lay in (3, 4):
            inst = Inst(t, lay, rng.choice([DYN, 4]), pat)
            if not inst.instantiable():
                continue
            mv = MV(inst, 0, es)
        else:
            mv = MV(Inst(t, lay, DYN, pat), 0, es)
        if not mv.valid_for(t):
            continue
        span = 1 + sum((e - 1) * s for e, s in zip(es, mv.strides))
        if mv.inst.lay in (3, 4) and R >= 2:
            span = mv.ps * prod1(es[1:] if mv.inst.lay == 3 else es[:-1])
        if not ((1 << 31) < span <= (1 << 33)):
            continue
        acc = rng.choice([0, 0, 2])
        u = rng.choice([t, 6, 7])
        if imax(u) < max(es):
            continue
        U = CTYPES[u]
        pts = [[0] * R, [e - 1 for e in es]] + [[rng.randrange(e) for e in es] for _ in range(4)]
        pr = Prog("drv::run_acc_big<%s, %d, %d, %s>(caseno, tk)" % (mv.inst.cpp_type(), mv.inst.lay, acc, U),
                  "acc-big ET=unsigned char %s acc=%s U=%s" % (mv.inst.desc(), ACCS[acc], U), cfg_ok=lambda cfg: "san" not in cfg)
        progs.append(pr)
        toks = [None] + mv.tokens() + [len(pts)] + [x for p in pts for x in p]
        cases.append((pr, toks, {"et": "unsigned char", "acc": acc, "lay": mv.inst.lay, "t": t, "es": es, "strides": mv.strides, "u": u, "rank": R, "span": span, "big": True}))
        hist["huge-offset stream (span > 2^31)"] += 1
        nbig -= 1
    for n, p in enumerate(progs):
        p.id = n
    for c in cases:
        c[1][0] = c[0].id
    return progs, cases, hist


def judge(r, cfg):
    md, im, meta = r["model"], r["impl"].get(cfg), r["meta"]
    out = []
    if im is None:
        return out
    if "crash" in r and cfg in r["crash"]:
        return [("crash", "implementation terminated abnormally (ASan/UBSan or signal): " + r["crash"][cfg]["stderr"], True)]
    if any(v == "UB" for v in md.values()):
        return [("model", "model reports UB on a generated valid input", False)]
    # the property on the implementation's own output: every form = accessor.access(handle, mapping(idx))
    d = im.get("dir")
    for f in FORM_FIELDS[1:]:
        if f in im and im[f] != d:
            out.append((f, "access form '%s' designates %s but accessor().access(data_handle(), mapping()(idx...)) designates %s" % (f, im[f][:120], (d or "")[:120]), True))
    # against the model: offsets, heap after writes (only own cells touched), read-back
    for f in ("dir", "heap", "rb"):
        if f in im and f in md and im[f] != md[f] and not out:
            out.append((f, "%s: implementation %s, specified %s" % (f, im[f][:160], md[f][:160]), True))
    if im.get("wr") == "0" and not out:
        out.append(("wr", "a write through the view did not land in data_handle()[mapping()(idx...)] (huge offset)", True))
    if "heap" in im and not out:
        h = ints(im["heap"])
        if any(v != -1 for v in h[:8] + h[len(h) - 8:]):
            out.append(("heap", "a write through the view touched storage outside [data_handle(), data_handle()+required_span_size())", True))
    return out


def collect(rep, prop, tier, seed, exe, replay=None):
    rng = random.Random(seed * 86028121 + 7)
    if tier == "quick":
        configs = ["gcc23", "gcc23-paren", "clang17", "gcc23-san"]
    else:
        configs = ["gcc23", "gcc23-paren", "clang17", "clang20", "gcc20", "gcc17", "gcc20-emu", "clang17-emu", "gcc23-san", "clang20-san"]
    configs = pick_configs(configs)
    if replay:
        rp = json.load(open(replay))
        pr = Prog(rp["call"], rp["program"]); pr.id = rp["case_tokens"][0]
        progs, cases, hist = [pr], [(pr, rp["case_tokens"], rp.get("meta", {}))], {}
        configs = [rp["config"]]
    else:
        progs, cases, hist = gen(rng, tier)
    work = os.path.join(CACHE, "work", "%s-%s" % (prop, tier))
    records, build_fail = run_programs("A", "drv_acc.hpp", progs, cases, configs, work, exe, nshards=16, name="acc")
    import incoq
    incoq_n = incoq.sample_check(rep, prop, "A", records, tier, seed, work, replay)
    for (sh_, cfg, blog) in {c: (s_, c, l) for (s_, c, l) in reversed(build_fail)}.values():
        rep.violation("access driver shard %s no longer builds in configuration %s" % (sh_, cfg),
                      {"obligation": "corr:acc/build/%s/%s" % (sh_, cfg), "log": blog[-3000:], "signature": "build:acc:%s" % cfg}, True)
    evaluations, flagged, nontriv = 0, [], set()
    for r in records:
        for cfg in configs:
            if r["impl"].get(cfg) is None:
                continue
            evaluations += 1
            iss = judge(r, cfg)
            if iss:
                flagged.append((r, cfg, iss))
        m = r["meta"]
        if m.get("rank", 0) >= 2 and 0 not in m["es"]:
            nontriv.add((m["et"], m["acc"], m["lay"], m["t"], tuple(m["es"]), tuple(m["strides"]), m["u"]))
    flagged.sort(key=lambda x: len(x[0]["toks"]))
    seen = set()
    for (r, cfg, iss) in flagged:
        key = (iss[0][0], r["meta"].get("acc"), cfg)
        if key in seen:
            continue
        seen.add(key)
        rep.violation(iss[0][1], {"family": "A", "config": cfg, "program": r["prog"].desc, "call": r["prog"].call,
                                  "case_tokens": r["toks"], "meta": r["meta"], "model_line": r["model_line"],
                                  "impl_line": r["impl_line"].get(cfg, ""), "issues": [{"field": f, "message": m} for (f, m, _) in iss],
                                  "signature": "A:%s:%s" % (r["prog"].desc, iss[0][0])}, no_failing_input=not any(x[2] for x in iss))
        if len(seen) >= 6:
            break
    return {
        "evaluations": evaluations, "distinct_nontrivial": len(nontriv), "evaluated_inside_coq_too": incoq_n,
        "rule": "programs = mdspan<ET, extents, layout, accessor> with ET in {int, const int, double, struct}, layouts left/right/stride/padded and a user-defined layout, "
                "accessors {default, stateful accessor with non-pointer data handle that logs (handle, offset), proxy-reference accessor}, index argument type int8..uint64 "
                "or a class convertible to index_type; every multi-index of the shape is accessed through each form available in the configuration (separate indices / std::array / "
                "std::span, operator[] / operator() / rank-1 operator[]) and compared with accessor().access(data_handle(), mapping()(idx...)); then written through "
                "and the canary-padded buffer compared with the model heap. non-trivial = rank >= 2, non-empty, distinct by (types, shape, strides)",
        "programs": len(progs) * len(configs), "configurations": configs, "disagreements_checked": len(flagged),
        "input_distribution": dict(sorted(hist.items())) if hist else {},
        "samples": [{"case": r["case_line"], "program": r["prog"].desc, "model": r["model_line"][:300]} for r in records[:: max(1, len(records) // 5)][:5]],
        "exhaustive": False,
    }


def run_property(prop, tier, seed, replay=None):
    rep = Report(prop, tier, seed)
    prove_section(rep, prop)
    exe, log = build_model()
    if exe is None:
        rep.violation("the Coq model or its extraction no longer builds", {"obligation": "build:model", "log": log[-3000:], "signature": "build:model"}, True)
        return rep.finish()
    cov = collect(rep, prop, tier, seed, exe, replay)
    finish_common(rep, prop, [cov])
    rep.assumptions = ["that a given call syntax selects the modelled operator (overload resolution) is observed on the generated programs, not proved",
                       "element identity = address inside one canary-padded buffer; ASan/UBSan build included"]
    prune_cache()
    return rep.finish()
