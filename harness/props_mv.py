"""props_mv.py — C07 and C13: the mapping family (M) plus mdspan views over user layouts (family X, kind 3): size() / empty() over index
spaces larger than any span, and the forwarding of the six observers from layouts whose answers tell them apart."""
import json
from common import *
import props_map, props_ext


def run_property(prop, tier, seed, replay=None):
    rep = Report(prop, tier, seed)
    prove_section(rep, prop)
    exe, log = build_model()
    if exe is None:
        rep.violation("the Coq model or its extraction no longer builds", {"obligation": "build:model", "log": log[-3000:], "signature": "build:model"}, True)
        return rep.finish()
    fam = json.load(open(replay)).get("family", "M") if replay else None
    covs = []
    if fam in (None, "M"):
        covs.append(props_map.collect(rep, prop, tier, seed, exe, None, replay))
    if fam in (None, "X"):
        covs.append(props_ext.collect_views(rep, prop, tier, seed, exe, replay))
    props_map.finish_common(rep, prop, covs)
    rep.assumptions = ["index arithmetic of C++ (promotion, conversions, overflow) as modelled in coq/MachInt.v",
                       "the generator only produces inputs inside the quantifier domain; inputs it never produces are not tied"]
    prune_cache()
    return rep.finish()
