import sys, os, random, collections
sys.path.insert(0, os.path.dirname(os.path.abspath(__file__)))
from common import *
import mapgen
tier = sys.argv[1] if len(sys.argv) > 1 else "quick"
cfgs = sys.argv[2].split(",") if len(sys.argv) > 2 else ["gcc23"]
seed = int(os.environ.get("VERIF_SEED", "0"))
rng = random.Random(seed)
exe, log = build_model()
assert exe, log
insts = mapgen.gen_insts(rng, tier)
cases = mapgen.gen_cases(rng, insts, tier)
print("insts", len(insts), "cases", len(cases))
t0=time.time()
recs, bf = mapgen.run_family(None, insts, cases, cfgs, os.path.join(CACHE, "work", "dev"), exe)
print("ran in", time.time()-t0)
for t, cfg, log in bf: print("BUILD FAIL", t, cfg, log[-1500:])
cnt = collections.Counter()
shown = 0
for r in recs:
    for cfg in cfgs:
        im = r["impl"].get(cfg)
        if im is None: continue
        if "crash" in r and cfg in r["crash"]:
            cnt["crash"] += 1
            if shown < 15:
                shown += 1; print("CRASH", r["inst"].desc(), r["toks"], r["crash"][cfg]["stderr"][:600])
            continue
        for k in r["model"]:
            if r["model"][k] != im.get(k):
                cnt[(k, mapgen.LAYOUTS[r["inst"].lay], "UB" if r["model"][k]=="UB" else "val")] += 1
                if shown < 15:
                    shown += 1
                    print("DIFF", cfg, r["inst"].desc(), "field", k); print("  case ", " ".join(map(str,r["toks"]))); print("  model", r["model_line"][:300]); print("  impl ", r["impl_line"][cfg][:300])
print(cnt)
