"""props_ext.py — C06: extents construction paths, conversion and comparison (family X)."""
import collections, itertools, json, os, random
from common import *
from mapgen import DYN, iroot, prod1
from progdrv import Prog, run_programs

UNAMES = CTYPES + ["CONV"]


def ext_type(t, pat):
    args = "".join(", " + ("Kokkos::dynamic_extent" if p == DYN else "%dull" % p) for p in pat)
    return "Kokkos::extents<%s%s>" % (CTYPES[t], args)


def elem_type(u, t):
    return CTYPES[u] if u < 8 else "drv::ConvTo<%s>" % CTYPES[t]


def gen_types(rng, tier):
    """extents types: every static/dynamic mask for small ranks, seeded static values in every position"""
    max_rank = 4 if tier == "quick" else 6
    full_masks_upto = 3 if tier == "quick" else 4
    types = []
    for t in range(8):
        M = imax(t)
        for R in range(0, max_rank + 1):
            masks = list(itertools.product([0, 1], repeat=R))
            if R > full_masks_upto:
                masks = rng.sample(masks, 5 if tier == "quick" else 12)
            for mask in masks:
                pat = []
                for k in range(R):
                    if mask[k]:
                        pat.append(DYN)
                    else:
                        pat.append(min(rng.choice([0, 1, 2, 3, 5, 7, 11, M, M // 2, iroot(M, max(R, 1))]), (1 << 64) - 2))
                types.append((t, tuple(pat)))
    return types


def rand_val(rng, t, u=None):
    """a run-time extent value representable in index type t (and in the argument type u)"""
    M = imax(t)
    if u is not None and u < 8:
        M = min(M, imax(u))
    return rng.choice([0, 1, 2, 3, 4, 7, M, M - 1, M // 2, rng.randrange(M + 1)])


def compatible(pa, pb):
    return len(pa) == len(pb) and all(a == DYN or b == DYN or a == b for a, b in zip(pa, pb))


def gen(rng, tier):
    types = gen_types(rng, tier)
    progs, cases = [], []
    hist = collections.Counter()
    nvals = 3 if tier == "quick" else 6
    # ---- construction paths
    for (t, pat) in types:
        R = len(pat)
        nd = sum(1 for p in pat if p == DYN)
        combos = [(path, u) for path in (0, 1, 2) for u in range(9)]
        for (path, u) in rng.sample(combos, 3 if tier == "quick" else 8):
            for mode in (0, 1):
                n = nd if mode == 0 else R
                if mode == 1 and nd == R:
                    continue                   # identical to the dynamic-only path
                if path == 0 and n == 0 and mode == 0:
                    pass                       # E() via empty pack is the default constructor
                E, U = ext_type(t, pat), elem_type(u, t)
                pr = Prog("drv::run_ext_ctor<%s, %d, %s, %d>(caseno, tk)" % (E, path, U, n),
                          "ctor %s path=%d U=%s n=%d" % (E, path, UNAMES[u], n))
                progs.append(pr)
                for _ in range(nvals):
                    if mode == 0:
                        vals = [rand_val(rng, t, u) for _ in range(n)]
                    else:
                        # all values: static positions must be given their static value (precondition)
                        vals = []
                        for p in pat:
                            vals.append(rand_val(rng, t, u) if p == DYN else p)
                        if any((u < 8 and v > imax(u)) or v > imax(t) for v in vals):
                            continue
                    cases.append((pr, [None, 0, t, R] + list(pat) + [path, u, mode, n] + vals,
                                  {"kind": "ctor", "t": t, "pat": pat, "path": path, "u": u, "mode": mode, "vals": vals}))
                    hist["ctor path=%s mode=%s" % (["pack", "array", "span"][path], ["dynamic", "all"][mode])] += 1
    # ---- conversion and comparison over ordered pairs
    npairs = 400 if tier == "quick" else 5000
    by_rank = collections.defaultdict(list)
    for ty in types:
        by_rank[len(ty[1])].append(ty)
    tries = 0
    nconv = ncmp = 0
    while (nconv < npairs or ncmp < npairs) and tries < npairs * 40:
        tries += 1
        R = rng.choice([r for r in by_rank if by_rank[r]])
        (ts, ps), (tt, pt) = rng.choice(by_rank[R]), rng.choice(by_rank[R])
        if nconv < npairs and compatible(ps, pt):
            # values: satisfy the precondition (target static matched, representable in both)
            Mx = min(imax(ts), imax(tt))
            vals = []
            ok = True
            for a, b in zip(ps, pt):
                if a != DYN:
                    v = a
                elif b != DYN:
                    v = b
                else:
                    v = rng.choice([0, 1, 2, 3, Mx, Mx - 1, rng.randrange(Mx + 1)])
                if v > Mx:
                    ok = False
                vals.append(v)
            if ok:
                pr = Prog("drv::run_ext_conv<%s, %s>(caseno, tk)" % (ext_type(ts, ps), ext_type(tt, pt)),
                          "conv %s -> %s" % (ext_type(ts, ps), ext_type(tt, pt)))
                progs.append(pr)
                cases.append((pr, [None, 1, ts, R] + list(ps) + [tt] + list(pt) + vals, {"kind": "conv", "vals": vals, "ts": ts, "tt": tt, "ps": ps, "pt": pt}))
                nconv += 1
                hist["conv"] += 1
        if ncmp < npairs:
            # comparison: any two extents types, also of different rank
            if rng.random() < 0.15:
                R2 = rng.choice([r for r in by_rank if by_rank[r]])
                (tt, pt) = rng.choice(by_rank[R2])
            pr = Prog("drv::run_ext_cmp<%s, %s>(caseno, tk)" % (ext_type(ts, ps), ext_type(tt, pt)),
                      "cmp %s == %s" % (ext_type(ts, ps), ext_type(tt, pt)))
            progs.append(pr)
            for k in range(3):
                va = [(a if a != DYN else rand_val(rng, ts)) for a in ps]
                if k == 0 and len(ps) == len(pt):
                    # aim at equality: copy what is free to copy
                    vb = [(b if b != DYN else min(va[i], imax(tt))) for i, b in enumerate(pt)]
                elif k == 2 and len(ps) == len(pt) and BITS[ts] != BITS[tt]:
                    # aim at the comparison's conversion: values that differ but are congruent modulo the
                    # width of the narrower index type (equal after a narrowing cast, different in the common type)
                    nb = min(BITS[ts], BITS[tt])
                    va = [(a if a != DYN else rng.choice([0, 1, 3, 4, 44])) for a in ps]
                    vb = list(va)
                    wide_is_b = BITS[tt] > BITS[ts]
                    wpat, wv, wt_ = (pt, vb, tt) if wide_is_b else (ps, va, ts)
                    dyn_pos = [i for i, p_ in enumerate(wpat) if p_ == DYN]
                    for i, p_ in enumerate(pt):
                        if p_ != DYN:
                            vb[i] = p_
                    for i, p_ in enumerate(ps):
                        if p_ != DYN:
                            va[i] = p_
                    if not dyn_pos:
                        continue
                    i = rng.choice(dyn_pos)
                    other = va[i] if wide_is_b else vb[i]
                    cand = other + (1 << nb) * rng.choice([1, 1, 2])
                    if cand > imax(wt_):
                        continue
                    wv[i] = cand
                    if any(v > imax(ts) for v in va) or any(v > imax(tt) for v in vb):
                        continue
                    hist["cmp congruent-mod-width"] += 1
                else:
                    vb = [(b if b != DYN else rand_val(rng, tt)) for b in pt]
                cases.append((pr, [None, 2, ts, len(ps)] + list(ps) + [tt, len(pt)] + list(pt) + va + vb,
                              {"kind": "cmp", "va": va, "vb": vb, "ts": ts, "tt": tt, "ps": ps, "pt": pt}))
                hist["cmp%s" % (" equal" if va == vb else "")] += 1
            ncmp += 1
    for n, p in enumerate(progs):
        p.id = n
    for c in cases:
        c[1][0] = c[0].id
    return progs, cases, hist


# ---------------------------------------------------------------------------------------------------------
# kind 3: mdspan over user layouts (C13: size / empty over index spaces larger than any span; C07 / C13: forwarding of the observers)
# ---------------------------------------------------------------------------------------------------------
def gen_views(rng, tier):
    progs, cases = [], []
    hist = collections.Counter()
    n = scaled(90 if tier == "quick" else 600)
    tries = 0
    seen = set()
    while len(cases) < n and tries < n * 40:
        tries += 1
        t = rng.randrange(8)
        B, M = BITS[t], imax(t)
        mode = rng.choice(["wrap0", "wrap0", "above_imax", "small", "zero", "rank0", "wrapk"])
        if mode == "rank0":
            es = []
        elif mode in ("wrap0", "wrapk"):
            # powers of two whose product is exactly 2^B: wraps to 0 in size_type although no extent is 0 (wrap0);
            # with one extent incremented the product wraps to a non-zero value (wrapk)
            R = rng.choice([2, 2, 3, 4])
            cap = B - 2 if t % 2 == 0 else B - 1
            parts = None
            for _ in range(50):
                cuts = sorted(rng.randrange(0, B + 1) for _ in range(R - 1))
                cand = [b - a for a, b in zip([0] + cuts, cuts + [B])]
                if all(x <= cap for x in cand):
                    parts = cand; break
            if parts is None:
                continue
            es = [1 << a for a in parts]
            if mode == "wrapk":
                q = rng.randrange(R)
                if es[q] + 1 > M:
                    continue
                es[q] += 1
        elif mode == "above_imax":
            # product above imax(index_type) but below 2^B: size() needs the unsigned size_type
            R = 2
            a = rng.randrange(1, B - 1)
            es = [1 << a, 1 << (B - 1 - a)] if t % 2 == 0 else [1 << a, (1 << (B - a)) - 1]
        elif mode == "zero":
            R = rng.choice([1, 2, 3])
            es = [rng.choice([0, 1, 2, M]) for _ in range(R)]
            es[rng.randrange(R)] = 0
        else:
            R = rng.choice([1, 2, 3])
            es = [rng.choice([1, 2, 3, 5]) for _ in range(R)]
        if any(e > M for e in es):
            continue
        pat = tuple(e if (rng.random() < 0.35 and e < (1 << 62)) else DYN for e in es)
        key = (t, pat, tuple(es))
        if key in seen:
            continue
        seen.add(key)
        pr = Prog("drv::run_ext_view<%s>(caseno, tk)" % ext_type(t, pat), "view over user layouts, %s" % ext_type(t, pat))
        progs.append(pr)
        prod = 1
        for e in es:
            prod *= e
        cases.append((pr, [None, 3, t, len(es)] + list(pat) + list(es), {"kind": "view", "t": t, "pat": pat, "es": es, "prod": prod, "bits": B}))
        hist["view %s" % mode] += 1
        if es and 0 not in es and prod % (1 << B) == 0:
            hist["view: product of non-zero extents is a multiple of 2^bits(size_type)"] += 1
    for k, p_ in enumerate(progs):
        p_.id = k
    for c in cases:
        c[1][0] = c[0].id
    return progs, cases, hist


def judge_view(r, cfg):
    md, im, meta = r["model"], r["impl"].get(cfg), r["meta"]
    out = []
    if im is None:
        return out
    if "crash" in r and cfg in r["crash"]:
        return [("crash", "implementation terminated abnormally: " + r["crash"][cfg]["stderr"], True)]
    if any(v == "UB" for v in md.values()):
        return [("model", "model reports UB on a generated valid input", False)]
    for f in md:
        if f == "sz" and meta["prod"] >= (1 << meta["bits"]):
            continue            # size() has the precondition that the size of the index space is representable in size_type
        if md[f] != im.get(f):
            what = {"sz": "mdspan::size() is not the product of the extents in size_type", "emp": "mdspan::empty() is not 'some extent is 0'",
                    "ext": "mdspan::extent(r) differs from the extents it was built from",
                    "fw": "mdspan does not forward is_unique / is_exhaustive / is_strided / is_always_* from its mapping (three user layouts x six observers)"}.get(f, f)
            out.append((f, "%s: implementation %s, specified %s (extents %s)" % (what, im.get(f), md[f], meta["es"]), True))
    return out


def collect_views(rep, prop, tier, seed, exe, replay=None):
    rng = random.Random(seed * 7907 + 11)
    configs = pick_configs(["gcc23", "clang17", "gcc14"] if tier == "quick" else ["gcc23", "clang17", "gcc20", "clang20", "gcc17", "gcc14", "clang14", "gcc23-dbg", "clang17-emu"])
    if replay:
        rp = json.load(open(replay))
        pr = Prog(rp["call"], rp["program"]); pr.id = rp["case_tokens"][0]
        progs, cases, hist = [pr], [(pr, rp["case_tokens"], rp.get("meta", {}))], {}
        configs = [rp["config"]]
    else:
        progs, cases, hist = gen_views(rng, tier)
    work = os.path.join(CACHE, "work", "%s-%s-views" % (prop, tier))
    records, build_fail = run_programs("X", "drv_ext.hpp", progs, cases, configs, work, exe, nshards=8, name="view")
    for (sh_, cfg, blog) in {c: (s_, c, l) for (s_, c, l) in reversed(build_fail)}.values():
        rep.violation("user-layout view driver shard %d no longer builds in configuration %s" % (sh_, cfg),
                      {"obligation": "corr:view/build/%d/%s" % (sh_, cfg), "log": blog[-3000:], "signature": "build:view:%s" % cfg}, True)
    evaluations, flagged, nontriv = 0, [], set()
    for r in records:
        for cfg in configs:
            if r["impl"].get(cfg) is None:
                continue
            evaluations += 1
            iss = judge_view(r, cfg)
            if prop == "C07":
                iss = [x for x in iss if x[0] in ("fw", "crash", "model")]
            if iss:
                flagged.append((r, cfg, iss))
        m = r["meta"]
        if len(m.get("es", [])) >= 2:
            nontriv.add((m["t"], tuple(m["pat"]), tuple(m["es"])))
    flagged.sort(key=lambda x: len(x[0]["toks"]))
    seen = set()
    for (r, cfg, iss) in flagged:
        if iss[0][0] in seen:
            continue
        seen.add(iss[0][0])
        rep.violation(iss[0][1], {"family": "X", "config": cfg, "program": r["prog"].desc, "call": r["prog"].call,
                                  "case_tokens": r["toks"], "meta": r["meta"], "model_line": r["model_line"],
                                  "impl_line": r["impl_line"].get(cfg, ""), "issues": [{"field": f, "message": m} for (f, m, _) in iss],
                                  "signature": "X:%s:%s" % (r["prog"].desc, iss[0][0])}, no_failing_input=not any(x[2] for x in iss))
    return {
        "evaluations": evaluations, "distinct_nontrivial": len(nontriv),
        "rule": "views over user layouts: extents types (8 index types, rank 0-5, seeded static/dynamic patterns) with values whose product is a multiple of "
                "2^bits(size_type), exceeds imax(index_type), is small, or contains a zero; size() judged only when the product is representable in size_type; "
                "observers forwarded from three layouts with fixed, pairwise distinguishing answers",
        "programs": len(progs) * len(configs), "configurations": configs, "disagreements_checked": len(flagged),
        "input_distribution": dict(sorted(hist.items())) if hist else {},
        "samples": [{"case": r["case_line"], "program": r["prog"].desc, "model": r["model_line"]} for r in records[:: max(1, len(records) // 3)][:3]],
        "family": "X",
    }


def judge(r, cfg):
    md, im = r["model"], r["impl"].get(cfg)
    out = []
    if im is None:
        return out
    if "crash" in r and cfg in r["crash"]:
        return [("crash", "implementation terminated abnormally: " + r["crash"][cfg]["stderr"], True)]
    if any(v == "UB" for v in md.values()):
        return [("model", "model reports UB on a generated valid input", False)]
    for f in md:
        if md[f] != im.get(f):
            out.append((f, "%s: implementation %s, specified %s" % (f, im.get(f), md[f]), True))
    return out


def run_property(prop, tier, seed, replay=None):
    rep = Report(prop, tier, seed)
    rng = random.Random(seed * 104729 + 5)
    prove_section(rep, prop)
    exe, log = build_model()
    if exe is None:
        rep.violation("the Coq model or its extraction no longer builds", {"obligation": "build:model", "log": log[-3000:], "signature": "build:model"}, True)
        return rep.finish()
    configs = ["gcc23", "clang17"] if tier == "quick" else ["gcc23", "clang17", "gcc20", "clang20", "gcc17", "gcc23-dbg", "clang17-emu"]
    if replay:
        rp = json.load(open(replay))
        pr = Prog(rp["call"], rp["program"]); pr.id = rp["case_tokens"][0]
        progs, cases, hist = [pr], [(pr, rp["case_tokens"], rp.get("meta", {}))], {}
        configs = [rp["config"]]
    else:
        progs, cases, hist = gen(rng, tier)
    work = os.path.join(CACHE, "work", "%s-%s" % (prop, tier))
    records, build_fail = run_programs("X", "drv_ext.hpp", progs, cases, configs, work, exe, nshards=16, name="ext")
    import incoq
    incoq_n = incoq.sample_check(rep, prop, "X", records, tier, seed, work, replay)
    for (sh_, cfg, blog) in {c: (s_, c, l) for (s_, c, l) in reversed(build_fail)}.values():
        rep.violation("extents driver shard %d no longer builds in configuration %s" % (sh_, cfg),
                      {"obligation": "corr:ext/build/%d/%s" % (sh_, cfg), "log": blog[-3000:], "signature": "build:ext:%s" % cfg}, True)
    evaluations, flagged, nontriv = 0, [], set()
    for r in records:
        for cfg in configs:
            if r["impl"].get(cfg) is None:
                continue
            evaluations += 1
            iss = judge(r, cfg)
            if iss:
                flagged.append((r, cfg, iss))
        m = r["meta"]
        if m.get("kind") == "ctor" and len(m["pat"]) >= 2 and DYN in m["pat"] and any(p != DYN for p in m["pat"]):
            nontriv.add(("ctor", m["t"], m["pat"], m["path"], m["u"], m["mode"], tuple(m["vals"])))
        elif m.get("kind") in ("conv", "cmp") and len(m["ps"]) >= 1 and (m["ts"] != m["tt"] or m["ps"] != m["pt"]):
            nontriv.add((m["kind"], m["ts"], m["ps"], m["tt"], m["pt"], tuple(m.get("vals", m.get("va", []))), tuple(m.get("vb", []))))
    flagged.sort(key=lambda x: len(x[0]["toks"]))
    seen = set()
    for (r, cfg, iss) in flagged:
        key = (r["meta"].get("kind"), iss[0][0])
        if key in seen:
            continue
        seen.add(key)
        rep.violation(iss[0][1], {"family": "X", "config": cfg, "program": r["prog"].desc, "call": r["prog"].call,
                                  "case_tokens": r["toks"], "meta": r["meta"], "model_line": r["model_line"],
                                  "impl_line": r["impl_line"].get(cfg, ""), "issues": [{"field": f, "message": m} for (f, m, _) in iss],
                                  "signature": "X:%s:%s" % (r["prog"].desc, iss[0][0])}, no_failing_input=not any(x[2] for x in iss))
        if len(seen) >= 6:
            break
    if getattr(rep, "proof_broken", False):
        rep.violation("theorem(s) of %s no longer check: %s" % (prop, ", ".join(rep.broken_theorems) or "Properties file"),
                      {"obligation": "proof:Properties_%s" % prop, "theorems": rep.broken_theorems, "log": rep.proof_log,
                       "signature": "proof:%s" % prop}, no_failing_input=not any(not nf for (_, nf) in rep.violations))
    rep.cov.update({
        "evaluations": evaluations, "distinct_nontrivial": len(nontriv), "evaluated_inside_coq_too": incoq_n,
        "rule": "programs = extents types (8 index types x ranks x static/dynamic masks with seeded static values incl. imax) x construction path "
                "(pack/array/span x element type int8..uint64 or a class convertible to index_type x dynamic-only/all values), ordered pairs for conversion "
                "(compatible patterns, precondition-satisfying values) and comparison (any two types, also of different rank). non-trivial = mixed static/dynamic "
                "pattern of rank >= 2 (construction) or differing source/target type (conversion, comparison)",
        "programs": len(progs) * len(configs), "configurations": configs, "disagreements_checked": len(flagged),
        "input_distribution": dict(sorted(hist.items())) if hist else {},
        "samples": [{"case": r["case_line"], "program": r["prog"].desc, "model": r["model_line"]} for r in records[:: max(1, len(records) // 5)][:5]],
        "exhaustive": False,
    })
    rep.assumptions = ["std::span paths only in configurations whose standard library has <span>"]
    prune_cache()
    return rep.finish()
