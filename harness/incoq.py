"""incoq.py — cross-check of the extraction: a sample of the cases of a run is evaluated *inside Coq*
(`Eval vm_compute`) and compared with what the extracted OCaml program printed for the same case.
Covers the trusted step model.ml + ocaml/driver.ml for the families M (mappings) and S (submdspan)."""
import os, re, subprocess
from common import *

ITY = ["I8", "U8", "I16", "U16", "I32", "U32", "I64", "U64"]


def zlit(v):
    return "(%d)" % v if v < 0 else str(v)


def zlist(vs):
    return "[" + "; ".join(zlit(int(v)) for v in vs) + "]"


def optz(v):
    return "None" if int(v) == -1 else "(Some %s)" % zlit(int(v))


def coq_call_M(toks):
    """toks: inst ity lay pv R pat*R ctor e*R [s*R | dpv] nidx idx..."""
    p = 1
    t, lay, pv, R = toks[p], toks[p + 1], toks[p + 2], toks[p + 3]; p += 4
    pat = toks[p:p + R]; p += R
    ctor = toks[p]; p += 1
    es = toks[p:p + R]; p += R
    ss = []
    if lay == 2 or ctor == 4:
        ss = toks[p:p + R]; p += R
    dpv = 0
    if ctor == 2:
        dpv = toks[p]; p += 1
    nidx = toks[p]; p += 1
    if nidx < 0:
        idxs = "None"
    else:
        pts = [toks[p + k * R: p + (k + 1) * R] for k in range(nidx)]
        idxs = "(Some [" + "; ".join(zlist(q) for q in pts) + "])"
    return "map_transcript %s %d%%nat %s [%s] %d%%nat %s %s %s %s" % (
        ITY[t], lay, optz(pv), "; ".join(optz(x) for x in pat), ctor, zlist(es), zlist(ss), zlit(dpv), idxs)


def coq_mval(toks, p):
    t, lay, pv, R = toks[p], toks[p + 1], toks[p + 2], toks[p + 3]; p += 4
    pat = toks[p:p + R]; p += R
    ctor = toks[p]; p += 1
    es = toks[p:p + R]; p += R
    ss = []
    if lay == 2:
        ss = toks[p:p + R]; p += R
    dpv = 0
    if ctor == 2:
        dpv = toks[p]; p += 1
    s = "{| mv_t := %s; mv_lay := %d%%nat; mv_pv := %s; mv_pat := [%s]; mv_ctor := %d%%nat; mv_vals := %s; mv_ss := %s; mv_dpv := %s |}" % (
        ITY[t], lay, optz(pv), "; ".join(optz(x) for x in pat), ctor, zlist(es), zlist(ss), zlit(dpv))
    return s, p


def coq_slice(toks, p):
    k = toks[p]; p += 1
    if k == 0:
        return "SIdx (Dyn %s)" % zlit(toks[p + 1]), p + 2
    if k == 1:
        return "SIdx (Const %s)" % zlit(toks[p]), p + 1
    if k in (2, 3):
        return "SRange (Dyn %s) (Dyn %s)" % (zlit(toks[p]), zlit(toks[p + 1])), p + 2
    if k == 4:
        return "SRange (Const %s) (Const %s)" % (zlit(toks[p]), zlit(toks[p + 1])), p + 2
    if k == 5:
        return "SFull", p
    mask, o, x, s = toks[p], toks[p + 1], toks[p + 2], toks[p + 3]
    mk = lambda bit, v: ("(Const %s)" if mask & bit else "(Dyn %s)") % zlit(v)
    return "SStrided %s %s %s" % (mk(1, o), mk(2, x), mk(4, s)), p + 4


def coq_call_S(toks):
    sv, p = coq_mval(toks, 1)
    nl = toks[p]; p += 1
    levels = []
    for _ in range(nl):
        r = toks[p]; p += 1
        sls = []
        for _ in range(r):
            s, p = coq_slice(toks, p)
            sls.append(s)
        levels.append("[" + "; ".join(sls) + "]")
    return "s_chain %s [%s]" % (sv, "; ".join(levels))


def coq_pat(pat):
    return "[" + "; ".join(optz(x) for x in pat) + "]"


def coq_mtype(toks, p):
    tt, lay, pv, r2 = toks[p], toks[p + 1], toks[p + 2], toks[p + 3]; p += 4
    pat = toks[p:p + r2]; p += r2
    return "(mkmt %s %s (lkind_of_nat %d%%nat) %s)" % (ITY[tt], coq_pat(pat), lay, optz(pv)), p


def coq_points(toks, p, R):
    nidx = toks[p]; p += 1
    if nidx < 0:
        return "None", p
    pts = [toks[p + k * R: p + (k + 1) * R] for k in range(nidx)]
    return "(Some [" + "; ".join(zlist(q) for q in pts) + "])", p + nidx * R


def coq_call_V(toks):
    kind = toks[1]
    if kind == 0:
        R = toks[2 + 3]
        sv, p = coq_mval(toks, 2)
        tgt, p = coq_mtype(toks, p)
        idxs, p = coq_points(toks, p, R)
        return "v_conv %s %s %s" % (sv, tgt, idxs)
    R = toks[2 + 3]
    av, p = coq_mval(toks, 2)
    bv, p = coq_mval(toks, p)
    idxs = "(Some [])"
    if p < len(toks):
        idxs, p = coq_points(toks, p, R)
    return "v_cmp %s %s %s" % (av, bv, idxs)


def coq_call_K(toks):
    sv, p = coq_mval(toks, 1)
    tgt, p = coq_mtype(toks, p)
    return "k_dbgconv %s %s" % (sv, tgt)


def coq_call_A(toks):
    R = toks[1 + 3]
    sv, p = coq_mval(toks, 1)
    idxs, p = coq_points(toks, p, R)
    return "a_access %s %s" % (sv, idxs)


def coq_call_X(toks):
    kind = toks[1]
    p = 2

    def rtype(p):
        t, r = toks[p], toks[p + 1]
        return ITY[t], r, toks[p + 2:p + 2 + r], p + 2 + r
    if kind == 0:
        t, r, pat, p = rtype(p)
        mode, n = toks[p + 2], toks[p + 3]; p += 4
        return "x_ctor %s %s %d%%nat %s" % (t, coq_pat(pat), mode, zlist(toks[p:p + n]))
    if kind == 1:
        ts, r, pats, p = rtype(p)
        tt = ITY[toks[p]]; p += 1
        patt = toks[p:p + r]; p += r
        return "x_conv %s %s %s %s %s" % (ts, coq_pat(pats), tt, coq_pat(patt), zlist(toks[p:p + r]))
    ta, ra, pata, p = rtype(p)
    tb, rb, patb, p = rtype(p)
    return "x_cmp %s %s %s %s %s %s" % (ta, coq_pat(pata), tb, coq_pat(patb), zlist(toks[p:p + ra]), zlist(toks[p + ra:p + ra + rb]))


def coq_call_R(toks):
    sv, p = coq_mval(toks, 1)
    arrn = optz(toks[p]); p += 1
    nops = toks[p]; p += 1
    ops = []
    for _ in range(nops):
        k = toks[p]; p += 1
        if k == 0:
            ops.append("RCtorMap %d%%nat" % toks[p]); p += 1
        elif k == 1:
            ops.append("RCtorCtr %d%%nat" % toks[p + 1]); p += 2
        elif k == 2:
            ops.append("RCopy %d%%nat" % toks[p]); p += 1
        elif k == 3:
            ops.append("RMove %d%%nat" % toks[p]); p += 1
        elif k == 4:
            ops.append("RAssign %d%%nat %d%%nat" % (toks[p], toks[p + 1])); p += 2
        else:
            i, r = toks[p], toks[p + 1]; p += 2
            idx = toks[p:p + r]; p += r
            x = toks[p]; p += 1
            ops.append("%s %d%%nat %s %s" % ("RWrite" if k == 5 else "RWriteView", i, zlist(idx), zlit(x)))
    return "r_program %s %s [%s]" % (sv, arrn, "; ".join(ops))


def coq_call_P(toks):
    p = 1
    nt = toks[p]; p += 1
    tys = []
    for _ in range(nt):
        t, lay, r = toks[p], toks[p + 1], toks[p + 2]; p += 3
        pat = toks[p:p + r]; p += r
        acc = toks[p]; p += 1
        tys.append("(mkptype %s %d%%nat %s %d%%nat)" % (ITY[t], lay, coq_pat(pat), acc))
    r = toks[p]; p += 1
    vecs = []
    for _ in range(4):
        vecs.append(zlist(toks[p:p + r])); p += r
    nops = toks[p]; p += 1
    ops = []
    for _ in range(nops):
        k = toks[p]; p += 1
        if k == 0:
            ops.append("PCtor %d%%nat %d%%nat %s" % (toks[p], toks[p + 1], zlit(toks[p + 2]))); p += 3
        elif k == 1:
            ops.append("PCopy %d%%nat" % toks[p]); p += 1
        elif k == 2:
            ops.append("PMove %d%%nat" % toks[p]); p += 1
        else:
            nm = {3: "PAssign", 4: "PMoveAssign", 5: "PSwap", 6: "PConv"}.get(k, "PAssignConv")
            ops.append("%s %d%%nat %d%%nat" % (nm, toks[p], toks[p + 1])); p += 2
    return "p_program [%s] %s [%s]" % ("; ".join(tys), " ".join(vecs), "; ".join(ops))


def coq_call_T(toks):
    """toks: prog <mval> acc nder { nlevels { r slice*r } } nthreads { nact { kind der form nidx idx... x } } seed"""
    sv, p = coq_mval(toks, 1)
    p += 1                      # accessor kind: the model is accessor-independent (the cell is what is compared)
    nder = toks[p]; p += 1
    ders = []
    for _ in range(nder):
        nl = toks[p]; p += 1
        levels = []
        for _ in range(nl):
            r = toks[p]; p += 1
            sls = []
            for _ in range(r):
                sl, p = coq_slice(toks, p)
                sls.append(sl)
            levels.append("[" + "; ".join(sls) + "]")
        ders.append("[" + "; ".join(levels) + "]")
    nt = toks[p]; p += 1
    progs = []
    for _ in range(nt):
        na = toks[p]; p += 1
        acts = []
        for _ in range(na):
            kind, der, form, nidx = toks[p:p + 4]; p += 4
            idx = toks[p:p + nidx]; p += nidx
            x = toks[p]; p += 1
            acts.append("TA %d%%nat %d%%nat %d%%nat %s %s" % (kind, der, form, zlist(idx), zlit(x)))
        progs.append("[" + "; ".join(acts) + "]")
    return "t_threads %s [%s] [%s]" % (sv, "; ".join(ders), "; ".join(progs))


CALLS = {"M": coq_call_M, "S": coq_call_S, "V": coq_call_V, "K": coq_call_K, "A": coq_call_A, "X": coq_call_X, "R": coq_call_R, "P": coq_call_P, "T": coq_call_T}
# family A: the driver prints the five model values under eleven labels (one per access form); these are the distinct ones, in model order
A_LABELS = ["dir", "par", "psp", "heap", "rb"]


def parse_coq_transcript(text):
    """'= [TZ (Ok 3); TL (Ok [1; 2]); TB (Ok [true]); TZ UB] : list tval' -> list of printed values as the drivers print them"""
    text = " ".join(text.split())
    m = re.search(r"= \[(.*)\]\s*: list tval", text)
    if not m:
        return None
    body = m.group(1)
    out = []
    for tm in re.finditer(r"T([ZLB]) (UB|\(Ok ((?:\[[^\]]*\])|(?:\(-?\d+\))|(?:-?\d+))\))", body):
        kind, ub, val = tm.group(1), tm.group(2), tm.group(3)
        if ub == "UB":
            out.append("UB"); continue
        if kind == "Z":
            out.append(str(int(val.strip("()"))))
        elif kind == "L":
            items = [x.strip() for x in val.strip("[]").split(";") if x.strip()]
            out.append(",".join(str(int(x.strip("()"))) for x in items) if items else "-")
        else:
            items = [x.strip() for x in val.strip("[]").split(";") if x.strip()]
            out.append("".join("1" if x == "true" else "0" for x in items) if items else "-")
    return out


def cross_check(rep, prop, family, samples, workdir):
    """samples: list of (tokens, model_line).  Evaluates each case inside Coq and compares the values, in order, with the
    values of the extracted program's line.  Returns the number of cases compared."""
    if not samples:
        return 0
    os.makedirs(workdir, exist_ok=True)
    call = CALLS[family]
    lines = ["From Coq Require Import ZArith List.", "From MdspanVerif Require Import MachInt ListAux Layouts Extents Convert View MdArray Submdspan Concurrency DriverModel.",
             "Import ListNotations.", "Local Open Scope Z_scope.", "Set Printing Width 1000000.", "Set Printing Depth 1000000."]
    for k, (toks, ml) in enumerate(samples):
        lines.append("Eval vm_compute in (%d%%nat, %s)." % (k, call([int(x) for x in toks])))
    path = os.path.join(workdir, "incoq_%s_%s.v" % (prop, family))
    open(path, "w").write("\n".join(lines) + "\n")
    rc, o, e = sh("timeout 900 coqc -Q %s MdspanVerif %s" % (COQ, path), timeout=1000)
    if rc != 0:
        rep.violation("the in-Coq evaluation of sampled %s cases does not compile" % family,
                      {"obligation": "corr:extraction/%s" % family, "log": (o + e)[-2000:], "signature": "incoq:%s" % family}, True)
        return 0
    chunks = re.split(r"\n\s*= \(", "\n" + o)
    got = {}
    for ch in chunks[1:]:
        m = re.match(r"(\d+)%?n?a?t?\s*,", ch)
        if not m:
            continue
        k = int(m.group(1))
        m2 = re.search(r",\s*(\[.*\])\s*\)\s*:", " ".join(ch.split()))
        if m2:
            got[k] = parse_coq_transcript("= %s : list tval" % m2.group(1))
    n = 0
    for k, (toks, ml) in enumerate(samples):
        vals = [f.split("=", 1)[1] for f in ml.split()[2:] if "=" in f]
        if family == "A":
            d = dict(f.split("=", 1) for f in ml.split()[2:] if "=" in f)
            vals = [d[k] for k in A_LABELS] if all(k in d for k in A_LABELS) else vals
        g = got.get(k)
        if g is None:
            rep.violation("could not read Coq's own evaluation of a sampled %s case" % family,
                          {"obligation": "corr:extraction/%s" % family, "case_tokens": toks, "signature": "incoq-parse:%s" % family}, True)
            break
        n += 1
        if g != vals:
            rep.violation("the extracted program and Coq's own evaluation (vm_compute) of the model differ on a %s case: extraction or the OCaml driver is wrong" % family,
                          {"obligation": "corr:extraction/%s" % family, "case_tokens": toks, "extracted": vals, "in_coq": g, "signature": "incoq-diff:%s" % family}, True)
            break
    return n


def sample_check(rep, prop, family, records, tier, seed, work, replay, n=40):
    """thorough tier only: a seeded sample of a family's cases is evaluated inside Coq as well"""
    import random, common
    if (tier != "thorough" and not os.environ.get("VERIF_INCOQ_ALWAYS")) or replay or common.is_scaled() or common.CFG_OVERRIDE:
        return 0
    smp = [r for r in records if r.get("model_line") and "=" in r["model_line"]]
    smp.sort(key=lambda r: len(r["case_line"]))
    smp = smp[: max(n, (2 * len(smp)) // 3)]          # the longest third (huge enumerations) is left out: vm_compute prints every value
    smp = random.Random(seed + 99).sample(smp, min(n, len(smp)))
    return cross_check(rep, prop, family, [(r["toks"], r["model_line"]) for r in smp], os.path.join(work, "incoq"))
