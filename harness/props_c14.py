"""props_c14.py — C14: no undefined behaviour on admissible inputs.  Run-time half: the mapping and the
submdspan families under ASan+UBSan; constant-evaluation half: static_assert TUs whose expected
values come from the model (props_consteval)."""
import json, os
from common import *
import props_map, props_sub


def run_property(prop, tier, seed, replay=None):
    rep = Report(prop, tier, seed)
    prove_section(rep, prop)
    exe, log = build_model()
    if exe is None:
        rep.violation("the Coq model or its extraction no longer builds", {"obligation": "build:model", "log": log[-3000:], "signature": "build:model"}, True)
        return rep.finish()
    covs = []
    fam = None
    if replay:
        fam = json.load(open(replay)).get("family")
    if fam in (None, "M"):
        covs.append(props_map.collect(rep, prop, tier, seed, exe, None, replay))
    if fam in (None, "S"):
        covs.append(props_sub.collect(rep, prop, tier, seed, exe, replay))
    if fam in (None, "V"):
        # the mapping conversions (every converting constructor on valid inputs) under the sanitizers
        import common as _c, props_conv
        try:
            _c.CFG_OVERRIDE = ["gcc23-san", "clang20-san"]
            _c.SCALE = 0.6 if tier == "quick" else 1.0
            cv = props_conv.collect(rep, prop, tier, seed, exe, replay if fam == "V" else None)
            cv["family"] = "V"
            covs.append(cv)
        finally:
            _c.CFG_OVERRIDE = None
            _c.SCALE = 1.0
    if fam in (None, "CE"):
        try:
            import props_consteval
            covs.append(props_consteval.collect(rep, prop, tier, seed, exe, replay))
        except ImportError:
            pass
    props_map.finish_common(rep, prop, covs)
    rep.assumptions = ["UB is observed through -fsanitize=address,undefined (g++ 12, clang++ 14) at run time and through the compilers' constant evaluators",
                       "only inputs the generators produce are exercised; the theorems cover the rest of the admissible domain on the model"]
    prune_cache()
    return rep.finish()
