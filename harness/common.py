"""common.py — shared machinery of the checks: paths, build cache, Coq / OCaml / C++ builds, running
the model and the implementation on a case file, evidence and violation reporting."""
import hashlib, json, os, re, shutil, subprocess, sys, time, concurrent.futures

ROOT = os.path.dirname(os.path.dirname(os.path.abspath(__file__)))
REPO = os.environ.get("VERIF_REPO", "/repo")
INCLUDE = os.path.join(REPO, "include")
CACHE = os.path.join(ROOT, ".cache")
COQ = os.path.join(ROOT, "coq")
OCAML = os.path.join(ROOT, "ocaml")
CPP = os.path.join(ROOT, "cpp")
EVID = os.path.join(ROOT, "evidence")
REPLAYS = os.path.join(ROOT, "replays")
HOOK_FLAG = "-DMDSPAN_VERIF_FORCE_NO_UNIQUE_ADDRESS_EMULATION"
NCPU = int(os.environ.get("VERIF_JOBS", "16"))

ITYS = ["I8", "U8", "I16", "U16", "I32", "U32", "I64", "U64"]
CTYPES = ["signed char", "unsigned char", "short", "unsigned short", "int", "unsigned int", "long", "unsigned long"]
BITS = [8, 8, 16, 16, 32, 32, 64, 64]
SIGNED = [True, False, True, False, True, False, True, False]


def imax(t):
    return (1 << (BITS[t] - 1)) - 1 if SIGNED[t] else (1 << BITS[t]) - 1


def imin(t):
    return -(1 << (BITS[t] - 1)) if SIGNED[t] else 0


def sh(cmd, timeout=1800, cwd=None, env=None, inp=None):
    """run a command, return (rc, stdout, stderr); never raises on non-zero exit"""
    try:
        p = subprocess.run(cmd, shell=isinstance(cmd, str), cwd=cwd, env=env, input=inp,
                           stdout=subprocess.PIPE, stderr=subprocess.PIPE, timeout=timeout, text=True, errors="replace")
        return p.returncode, p.stdout, p.stderr
    except subprocess.TimeoutExpired as e:
        return 124, (e.stdout or b"").decode(errors="replace") if isinstance(e.stdout, bytes) else (e.stdout or ""), "TIMEOUT"


def file_hash(paths):
    h = hashlib.sha256()
    for p in sorted(paths):
        h.update(p.encode())
        with open(p, "rb") as f:
            h.update(f.read())
    return h.hexdigest()


def tree_files(d, exts=None):
    out = []
    for base, _, files in os.walk(d):
        for f in files:
            if exts is None or os.path.splitext(f)[1] in exts:
                out.append(os.path.join(base, f))
    return out


_include_hash = None


def include_hash():
    """hash of /repo/include as it is now — the cache key that ties every binary to the current tree"""
    global _include_hash
    if _include_hash is None:
        _include_hash = file_hash(tree_files(INCLUDE))
    return _include_hash


# --------------------------------------------------------------------------------------------------
# Coq
# --------------------------------------------------------------------------------------------------
FORBIDDEN = re.compile(r"\b(Admitted|admit|Axiom|Axioms|Parameter|Parameters|Conjecture|Hypothesis|Variable)\b|Unset Guard|bypass_check|type-in-type|impredicative-set|Admit Obligations")


def strip_coq_comments(text):
    """remove (possibly nested) (* ... *) comments, keeping newlines so line numbers survive"""
    out, depth, i, n = [], 0, 0, len(text)
    while i < n:
        if text.startswith("(*", i):
            depth += 1; i += 2
        elif text.startswith("*)", i) and depth > 0:
            depth -= 1; i += 2
        else:
            if depth == 0 or text[i] == "\n":
                out.append(text[i])
            i += 1
    return "".join(out)


def coq_gate():
    """gate over the development: no admits, axioms or disabled checks anywhere (comments ignored).
    `Variable`/`Hypothesis` are accepted only inside a Section."""
    bad = []
    for f in sorted(tree_files(COQ, {".v"})):
        depth = 0
        for n, code in enumerate(strip_coq_comments(open(f).read()).splitlines(), 1):
            if re.match(r"\s*Section\b", code):
                depth += 1
            if re.match(r"\s*End\b", code) and depth > 0:
                depth -= 1
            m = FORBIDDEN.search(code)
            if m:
                if m.group(1) in ("Variable", "Hypothesis") and depth > 0:
                    continue
                bad.append("%s:%d: %s" % (os.path.basename(f), n, code.strip()))
    return bad


def coq_make(targets=None, clean=False):
    """full .vo build through coq_makefile (never -vos/-vok)"""
    if clean and os.path.exists(os.path.join(COQ, "Makefile")):
        sh("make clean", cwd=COQ)
    if not os.path.exists(os.path.join(COQ, "Makefile")) or \
            os.path.getmtime(os.path.join(COQ, "Makefile")) < os.path.getmtime(os.path.join(COQ, "_CoqProject")):
        rc, o, e = sh("coq_makefile -f _CoqProject -o Makefile", cwd=COQ)
        if rc != 0:
            return rc, o + e
    tgt = " ".join(targets) if targets else ""
    rc, o, e = sh("timeout 3000 make -k -j%d %s" % (NCPU, tgt), cwd=COQ, timeout=3100)
    return rc, o + e


def coq_prove(prop):
    """(re)compile Properties_<prop>.v and parse what it proved.
    returns dict(ok, theorems=[(name, closed, assumptions)], log)"""
    fn = "Properties_%s.v" % prop
    path = os.path.join(COQ, fn)
    res = {"ok": False, "theorems": [], "log": "", "file": fn}
    if not os.path.exists(path):
        res["log"] = "missing " + fn
        return res
    # dependencies first (make), then the property file itself is always re-checked by coqc
    deps = [l.split()[-1] for l in open(path) if l.startswith("From MdspanVerif Require")]
    rc, log = coq_make()
    res["log"] = log[-4000:]
    src = open(path).read()
    names = re.findall(r"^(?:Theorem|Corollary)\s+([A-Za-z0-9_']+)", src, re.M)
    rc2, o, e = sh("timeout 1200 coqc -Q . MdspanVerif %s" % fn, cwd=COQ, timeout=1300)
    res["log"] += "\n" + (o + e)[-6000:]
    # Print Assumptions output, in order
    blocks = re.split(r"(?=Closed under the global context|Axioms:)", o)
    verdicts = []
    for b in blocks:
        if b.startswith("Closed under the global context"):
            verdicts.append((True, []))
        elif b.startswith("Axioms:"):
            ax = [l.split(":")[0].strip() for l in b.splitlines()[1:] if l and not l.startswith(" ") and ":" in l]
            verdicts.append((False, ax))
    printed = re.findall(r"^Print Assumptions\s+([A-Za-z0-9_']+)", src, re.M)
    vmap = {}
    if rc2 == 0:
        for n, v in zip(printed, verdicts):
            vmap[n] = v
    for n in names:
        if rc2 == 0 and n in vmap:
            res["theorems"].append((n, vmap[n][0], vmap[n][1]))
        else:
            res["theorems"].append((n, False, ["<not checked>"] if rc2 != 0 else ["<no Print Assumptions>"]))
    res["ok"] = rc2 == 0 and rc == 0 and all(n in vmap for n in names) and len(names) > 0
    res["coqc_rc"] = rc2
    res["make_rc"] = rc
    return res


# --------------------------------------------------------------------------------------------------
# extracted model
# --------------------------------------------------------------------------------------------------
def build_model():
    """make the Coq development (incl. Extract.v), compile the OCaml driver; returns (path|None, log)"""
    rc, log = coq_make(["Extract.vo"])
    if rc != 0 or not os.path.exists(os.path.join(COQ, "model.ml")):
        return None, log
    gen = os.path.join(OCAML, "gen")
    os.makedirs(gen, exist_ok=True)
    srcs = [os.path.join(COQ, "model.ml"), os.path.join(COQ, "model.mli"), os.path.join(OCAML, "driver.ml")]
    key = file_hash(srcs)
    stamp = os.path.join(gen, "stamp")
    exe = os.path.join(gen, "model_driver")
    if os.path.exists(exe) and os.path.exists(stamp) and open(stamp).read() == key:
        return exe, log
    for s in srcs:
        shutil.copy(s, gen)
    rc, o, e = sh("ocamlfind ocamlopt -O2 -w -a -package zarith -linkpkg model.mli model.ml driver.ml -o model_driver", cwd=gen)
    if rc != 0:
        rc, o, e = sh("ocamlfind ocamlopt -w -a -package zarith -linkpkg model.mli model.ml driver.ml -o model_driver", cwd=gen)
    if rc != 0:
        return None, log + o + e
    open(stamp, "w").write(key)
    return exe, log


def run_lines(cmd, timeout=1800):
    rc, o, e = sh(cmd, timeout=timeout)
    return rc, o.splitlines(), e


# --------------------------------------------------------------------------------------------------
# C++ builds
# --------------------------------------------------------------------------------------------------
CONFIGS = {
    # name: (compiler, flags)
    "gcc23": ("g++", "-std=c++23 -O2 -DNDEBUG"),
    "gcc23-O0": ("g++", "-std=c++23 -O0 -DNDEBUG"),
    "gcc20": ("g++", "-std=c++20 -O1 -DNDEBUG"),
    "gcc17": ("g++", "-std=c++17 -O1 -DNDEBUG"),
    "gcc14": ("g++", "-std=c++14 -O1 -DNDEBUG -Wno-c++17-extensions"),
    "clang17": ("clang++", "-std=c++17 -O0 -DNDEBUG"),
    "clang20": ("clang++", "-std=c++20 -O1 -DNDEBUG"),
    "clang2b": ("clang++", "-std=c++2b -O1 -DNDEBUG"),
    "clang14": ("clang++", "-std=c++14 -O1 -DNDEBUG -Wno-c++17-extensions"),
    "clang17-emu": ("clang++", "-std=c++17 -O0 -DNDEBUG " + HOOK_FLAG),
    "gcc20-emu": ("g++", "-std=c++20 -O1 -DNDEBUG " + HOOK_FLAG),
    "gcc23-paren": ("g++", "-std=c++23 -O1 -DNDEBUG -DMDSPAN_USE_PAREN_OPERATOR=1"),
    "gcc23-san": ("g++", "-std=c++23 -O1 -g -DNDEBUG -fsanitize=address,undefined -fno-sanitize-recover=all"),
    "clang20-san": ("clang++", "-std=c++20 -O1 -g -DNDEBUG -fsanitize=address,undefined -fno-sanitize-recover=all"),
    "gcc20-tsan": ("g++", "-std=c++20 -O1 -g -DNDEBUG -fsanitize=thread -pthread"),
    "gcc23-tsan": ("g++", "-std=c++23 -O2 -g -DNDEBUG -fsanitize=thread -pthread"),
    "clang17-tsan": ("clang++", "-std=c++17 -O1 -g -DNDEBUG -fsanitize=thread -pthread"),
    "clang20-tsan": ("clang++", "-std=c++20 -O0 -g -DNDEBUG -fsanitize=thread -pthread"),
    "gcc23-dbg": ("g++", "-std=c++23 -O1 -UNDEBUG -D_MDSPAN_DEBUG"),
    "clang17-dbg": ("clang++", "-std=c++17 -O0 -UNDEBUG -D_MDSPAN_DEBUG"),
    "gcc17-assert": ("g++", "-std=c++17 -O1 -UNDEBUG"),
    "gcc23-assert": ("g++", "-std=c++23 -O1 -UNDEBUG"),
    "clang17-assert": ("clang++", "-std=c++17 -O0 -UNDEBUG"),
    "clang20-assert": ("clang++", "-std=c++20 -O1 -UNDEBUG"),
}


# ---- overrides used by the configuration-matrix check (C15): every family collect() then runs the given
# configurations on a scaled-down case set
CFG_OVERRIDE = None
SCALE = 1.0


def pick_configs(default):
    import common as _c
    return list(_c.CFG_OVERRIDE) if _c.CFG_OVERRIDE else default


def scaled(n):
    import common as _c
    return max(1, int(n * _c.SCALE))


def is_scaled():
    import common as _c
    return _c.SCALE < 1.0


def matrix_config(comp, std, emu, opt, dbg, paren):
    """register (idempotently) and return the name of one cell of the configuration matrix"""
    stdflag = {"14": "-std=c++14 -Wno-c++17-extensions", "17": "-std=c++17", "20": "-std=c++20", "23": "-std=c++23" if comp == "g++" else "-std=c++2b"}[std]
    name = "mx-%s%s%s-%s-%s%s" % ("gcc" if comp == "g++" else "clang", std, "-emu" if emu else "", opt, "dbg" if dbg else "ndebug", "-paren" if paren else "")
    flags = "%s -%s %s%s%s" % (stdflag, opt, "-UNDEBUG -D_MDSPAN_DEBUG" if dbg else "-DNDEBUG", (" " + HOOK_FLAG) if emu else "", " -DMDSPAN_USE_PAREN_OPERATOR=1" if paren else "")
    CONFIGS[name] = (comp, flags)
    return name


TOOL_FAILURES = []      # failures of the tools themselves (compiler crashes): reported in the evidence, never as violations


def compiler_crashed(log):
    return ("frontend command failed due to signal" in log or "internal compiler error" in log or "PLEASE submit a full bug report" in log
            or "PLEASE ATTACH THE FOLLOWING FILES TO THE BUG REPORT" in log)


def compile_cpp(name, src_text, config, extra=""):
    """compile a generated TU against /repo/include (current working tree); cached by content hash.
    returns (exe|None, log)"""
    comp, flags = CONFIGS[config]
    hdrs = tree_files(CPP, {".hpp"})
    key = hashlib.sha256((src_text + comp + flags + extra + include_hash() + file_hash(hdrs)).encode()).hexdigest()[:24]
    d = os.path.join(CACHE, "bin")
    os.makedirs(d, exist_ok=True)
    exe = os.path.join(d, "%s-%s-%s" % (name, config, key))
    if os.path.exists(exe):
        return exe, "cached"
    src = exe + ".cpp"
    with open(src, "w") as f:
        f.write(src_text)
    cmd = "%s %s %s -w -I%s -I%s %s -o %s.tmp" % (comp, flags, extra, INCLUDE, CPP, src, exe)
    rc, o, e = sh("timeout 1500 " + cmd, timeout=1600)
    if rc != 0 and compiler_crashed(o + e):
        # one retry: compiler crashes under memory pressure are not reproducible
        rc, o, e = sh("timeout 1500 " + cmd, timeout=1600)
    if rc != 0:
        if compiler_crashed(o + e):
            TOOL_FAILURES.append("%s: the compiler itself crashed building %s in configuration %s (internal compiler error, twice); that cell is skipped" % (comp, name, config))
            return None, "COMPILER-CRASH " + cmd + "\n" + (o + e)[-3000:]
        return None, cmd + "\n" + (o + e)[-8000:]
    os.rename(exe + ".tmp", exe)
    os.remove(src)
    return exe, "built"


def compile_many(jobs):
    """jobs: list of (name, src, config[, extra]); returns list of (exe, log) in order, built in parallel"""
    with concurrent.futures.ThreadPoolExecutor(max_workers=NCPU) as ex:
        futs = [ex.submit(compile_cpp, *j) for j in jobs]
        return [f.result() for f in futs]


def prune_cache(max_files=400):
    d = os.path.join(CACHE, "bin")
    if not os.path.isdir(d):
        return
    fs = sorted((os.path.getmtime(os.path.join(d, f)), f) for f in os.listdir(d))
    for _, f in fs[:-max_files]:
        try:
            os.remove(os.path.join(d, f))
        except OSError:
            pass


# --------------------------------------------------------------------------------------------------
# reporting
# --------------------------------------------------------------------------------------------------
class Report:
    def __init__(self, prop, tier, seed):
        self.prop, self.tier, self.seed = prop, tier, seed
        self.t0 = time.time()
        self.violations = []      # (replay_path, no_failing_input)
        self.known = []
        self.cov = {"samples": []}
        self.assumptions = []
        self.level = "proof"
        self.known_findings = load_known_findings()

    def violation(self, what, detail, no_failing_input=False):
        """record a violation unless it matches a listed known finding"""
        sig = detail.get("signature", "")
        for kf in self.known_findings:
            if kf.get("property") == self.prop and kf.get("status") == "known" and kf.get("signature") and kf["signature"] == sig:
                msg = "KNOWN-FINDING: property=%s %s" % (self.prop, kf.get("what", what))
                if msg not in self.known:
                    self.known.append(msg)
                    print(msg)
                return
        os.makedirs(REPLAYS, exist_ok=True)
        h = hashlib.sha256(json.dumps(detail, sort_keys=True, default=str).encode()).hexdigest()[:12]
        path = os.path.join(REPLAYS, "%s-%s.json" % (self.prop, h))
        detail = dict(detail)
        detail.update({"property": self.prop, "what": what, "tier": self.tier, "seed": self.seed,
                       "no_failing_input_found": no_failing_input})
        with open(path, "w") as f:
            json.dump(detail, f, indent=1, default=str)
        self.violations.append((path, no_failing_input))
        print("VIOLATION property=%s replay=%s%s" % (self.prop, path, " no-failing-input-found" if no_failing_input else ""))
        sys.stdout.flush()

    def finish(self):
        ev = {
            "property_id": self.prop, "tier": self.tier, "seed": self.seed, "level": self.level,
            "coverage": self.cov, "assumptions": self.assumptions + (["tool failures in this run: " + "; ".join(sorted(set(TOOL_FAILURES)))] if TOOL_FAILURES else []),
            "wall_s": round(time.time() - self.t0, 2), "violations": len(self.violations),
        }
        os.makedirs(EVID, exist_ok=True)
        tmp = os.path.join(EVID, "%s.json.tmp" % self.prop)
        with open(tmp, "w") as f:
            json.dump(ev, f, indent=1, default=str)
        os.rename(tmp, os.path.join(EVID, "%s.json" % self.prop))
        return 1 if self.violations else 0


def load_known_findings():
    p = os.path.join(ROOT, "known_findings.json")
    if not os.path.exists(p):
        return []
    try:
        return json.load(open(p)).get("findings", [])
    except Exception:
        return []


TRUSTED_BASE = [
    "Coq 8.16.1 kernel (coqc; vm_compute used only in Examples / finite sweeps; no native_compute)",
    "no axioms: every property theorem is reported 'Closed under the global context' by Print Assumptions",
    "extraction with ExtrOcamlBasic only (Extract Inductive bool/option/unit/list/prod/sumbool), Z/positive/nat kept as extracted inductives, no Extract Constant",
    "OCaml 4.13.1 + zarith (decimal <-> extracted Z conversion in ocaml/driver.ml)",
    "hand-written implementation model in coq/*.v, tied to /repo/include by this run's differential execution only",
    "harness: Python generators, C++ driver templates under /verif/cpp, g++ 12 / clang++ 14 and their sanitizers",
]


def prove_section(rep, prop):
    """prove step shared by every check; fills coverage keys; reports proof breakage"""
    bad = coq_gate()
    pr = coq_prove(prop)
    obligations = len(pr["theorems"])
    discharged = sum(1 for (_, closed, _) in pr["theorems"] if closed)
    rep.cov["obligations"] = obligations
    rep.cov["discharged"] = discharged
    rep.cov["checker_cmd"] = "make -C coq (coq_makefile, full .vo) && coqc -Q coq MdspanVerif coq/Properties_%s.v" % prop
    rep.cov["trusted_base"] = list(TRUSTED_BASE)
    rep.cov["theorems"] = [{"name": n, "closed": c, "assumptions": a} for (n, c, a) in pr["theorems"]]
    if bad:
        rep.violation("forbidden construct in the Coq development", {"obligation": "gate", "lines": bad, "signature": "gate"}, True)
    if not pr["ok"] or discharged != obligations or obligations == 0:
        failing = [n for (n, c, _) in pr["theorems"] if not c]
        rep.proof_broken = True
        rep.broken_theorems = failing
        rep.proof_log = pr["log"][-3000:]
    else:
        rep.proof_broken = False
        rep.broken_theorems = []
    return pr
