"""props_consteval.py — the constant-evaluation half of C14: generated translation units of
    static_assert(<library call on literal arguments> == <the model's value>)
compiled with -fsyntax-only.  The language rejects undefined behaviour during constant evaluation, so a
case that compiles has no UB on that input, and the asserted literal being the model's value gives "the
same values there as at run time" (the run-time half compares the same model with the executed code)."""
import collections, json, os, random, re, hashlib
import common
from common import *
import mapgen, props_sub
from mapgen import Inst, DYN, LAYOUTS, ints, prod1, parse_line
from props_conv import MV

CE_CONFIGS = {
    "ce-gcc17": ("g++", "-std=c++17"), "ce-gcc20": ("g++", "-std=c++20"), "ce-gcc23": ("g++", "-std=c++23"),
    "ce-clang17": ("clang++", "-std=c++17"), "ce-clang20": ("clang++", "-std=c++20"), "ce-clang2b": ("clang++", "-std=c++2b"),
}


def lit(T, v):
    return "static_cast<%s>(%dull)" % (T, v)


def mapping_literal(inst, ctor, es, ss, dpv):
    T = CTYPES[inst.t]; R = inst.rank()
    M = inst.cpp_type(); E = inst.ext_type()
    if ctor == 3:
        return "%s{}" % M
    ev = "%s(std::array<%s, %d>{%s})" % (E, T, R, ", ".join(lit(T, e) for e in es)) if R > 0 else "%s{}" % E
    if inst.lay == 2:
        return "%s(%s, std::array<%s, %d>{%s})" % (M, ev, T, R, ", ".join(lit(T, s) for s in ss))
    if ctor == 4:
        return "%s(Kokkos::layout_stride::mapping<%s>(%s, std::array<%s, %d>{%s}))" % (M, E, ev, T, R, ", ".join(lit(T, s) for s in ss))
    if ctor == 2:
        return "%s(%s, %s)" % (M, ev, lit(T, dpv))
    return "%s(%s)" % (M, ev)


def gen_map_cases(rng, tier):
    """(inst, tokens with explicit index points, meta) — valid inputs, incl. the boundary lattice"""
    insts = mapgen.gen_insts(rng, tier)
    insts = sorted(rng.sample(insts, min(len(insts), 260 if tier == "quick" else 1200)), key=lambda i: i.id)
    cases = mapgen.gen_cases(rng, insts, tier)
    rng.shuffle(cases)
    # keep every boundary / hidden-product / default-ctor case of the sample and a share of the small-box ones
    keep = [c for c in cases if c[2]["class"] != "box" or rng.random() < 0.25]
    keep = keep[: (900 if tier == "quick" else 6000)]
    out = []
    for inst, toks, meta in keep:
        R = inst.rank()
        es = meta["es"]
        head = [inst.id, inst.t, inst.lay, inst.pv, R] + list(inst.pat) + [meta["ctor"]] + list(es)
        if inst.lay == 2:
            head += list(meta["ss"]) if meta["ctor"] != 3 else list(es)
        elif meta["ctor"] == 4:
            head += list(meta["ss"])
        if meta["ctor"] == 2:
            head.append(meta["dpv"])
        if 0 in es:
            pts = []
        else:
            pts = mapgen.index_points(rng, es, 4) if R > 0 else [[]]
        t2 = head + [len(pts)] + [x for p in pts for x in p]
        m2 = dict(meta); m2["pts"] = [list(p) for p in pts]
        out.append((inst, t2, m2))
    return out


def map_case_code(n, inst, meta, md):
    """constexpr function checking every modelled observable against the model's value; returns 0 when all agree"""
    T = CTYPES[inst.t]; R = inst.rank()
    L = ["constexpr int ce_%d() {" % n,
         "  using M = %s; using T = %s;" % (inst.cpp_type(), T),
         "  const M m = %s;" % mapping_literal(inst, meta["ctor"], meta["es"], meta["ss"], meta["dpv"])]
    k = 1
    def chk(cond):
        nonlocal k
        L.append("  if (!(%s)) return %d;" % (cond, k)); k += 1
    for r, e in enumerate(ints(md["ext"])):
        chk("m.extents().extent(%d) == %s" % (r, lit(T, e)))
    chk("m.required_span_size() == %s" % lit(T, int(md["span"])))
    if R > 0:
        for r, s in enumerate(ints(md["st"])):
            chk("m.stride(%d) == %s" % (r, lit(T, s)))
    fl = md["fl"]
    chk("m.is_unique() == %s && m.is_exhaustive() == %s && m.is_strided() == %s" % tuple("true" if c == "1" else "false" for c in fl[:3]))
    chk("M::is_always_unique() == %s && M::is_always_exhaustive() == %s && M::is_always_strided() == %s" % tuple("true" if c == "1" else "false" for c in fl[3:6]))
    offs = ints(md.get("offs", "-"))
    for p, o in zip(meta["pts"], offs):
        chk("m(%s) == %s" % (", ".join(lit(T, x) for x in p), lit(T, o)))
    L.append("  const Kokkos::mdspan<int, typename M::extents_type, typename M::layout_type> sp(static_cast<int*>(nullptr), m);")
    chk("sp.size() == %dull" % int(md["sz"]))
    chk("sp.empty() == %s" % ("true" if md["emp"] == "1" else "false"))
    L.append("  return 0;")
    L.append("}")
    L.append('static_assert(ce_%d() == 0, "CE %d");' % (n, n))
    return "\n".join(L)


# ---- submdspan_mapping in constant expressions -------------------------------------------------------
def slice_literal(sl, T):
    k = sl.kind
    if k == "I":
        return "static_cast<%s>(%dull)" % (sl.ctype, sl.vals[0])
    if k in ("IC", "PC"):
        return "%s{}" % sl.ctype
    if k in ("P", "T"):
        inner = sl.ctype[sl.ctype.index("<") + 1: sl.ctype.rindex(">")]
        a, b = [x.strip() for x in inner.split(",")]
        return "%s{static_cast<%s>(%dull), static_cast<%s>(%dull)}" % (sl.ctype, a, sl.vals[0], b, sl.vals[1])
    if k == "F":
        return "Kokkos::full_extent"
    comps = [c.strip() for c in split_top(sl.ctype)]
    args = []
    for c, v in zip(comps, sl.vals):
        args.append("%s{}" % c if c.startswith("std::integral_constant") else "static_cast<%s>(%dull)" % (c, v))
    return "Kokkos::strided_slice<%s>{%s}" % (sl.ctype, ", ".join(args))


def split_top(s):
    out, depth, cur = [], 0, ""
    for ch in s:
        if ch == "<":
            depth += 1
        if ch == ">":
            depth -= 1
        if ch == "," and depth == 0:
            out.append(cur); cur = ""
        else:
            cur += ch
    out.append(cur)
    return out


def sub_case_code(n, src, levels, md):
    """src: MV; levels: list of lists of Sl; md: model fields (e<l>, st<l>, of<l>, sp<l>)"""
    inst = src.inst
    T = CTYPES[inst.t]
    L = ["constexpr int ce_%d() {" % n,
         "  using T = %s;" % T,
         "  const auto m0 = %s;" % mapping_literal(inst, src.ctor, src.es, src.ss, src.dpv)]
    k = 1
    def chk(cond):
        nonlocal k
        L.append("  if (!(%s)) return %d;" % (cond, k)); k += 1
    for l, sls in enumerate(levels, 1):
        f = props_sub.level_fields(md, l)
        if not f or any(v == "UB" for v in f.values()):
            break
        L.append("  const auto r%d = submdspan_mapping(m%d, %s);" % (l, l - 1, ", ".join(slice_literal(s, T) for s in sls)))
        L.append("  const auto m%d = r%d.mapping;" % (l, l))
        chk("static_cast<unsigned long long>(r%d.offset) == %dull" % (l, int(f["of"])))
        for r, e in enumerate(ints(f["e"])):
            chk("m%d.extents().extent(%d) == %s" % (l, r, lit(T, e)))
        for r, s in enumerate(ints(f["st"])):
            chk("m%d.stride(%d) == %s" % (l, r, lit(T, s)))
        chk("m%d.required_span_size() == %s" % (l, lit(T, int(f["sp"]))))
    L.append("  return 0;")
    L.append("}")
    L.append('static_assert(ce_%d() == 0, "CE %d");' % (n, n))
    return "\n".join(L)


def compile_tu(name, src, cfg):
    comp, std = CE_CONFIGS[cfg]
    key = hashlib.sha256((src + comp + std + include_hash()).encode()).hexdigest()[:24]
    d = os.path.join(CACHE, "ce")
    os.makedirs(d, exist_ok=True)
    stamp = os.path.join(d, "%s-%s-%s.ok" % (name, cfg, key))
    if os.path.exists(stamp):
        return 0, ""
    path = os.path.join(d, "%s-%s-%s.cpp" % (name, cfg, key))
    open(path, "w").write(src)
    rc, o, e = sh("timeout 1200 %s %s -fsyntax-only -w -ferror-limit=0 -I%s %s" % (comp, std, INCLUDE, path) if comp == "clang++" else
                  "timeout 1200 %s %s -fsyntax-only -w -fmax-errors=0 -I%s %s" % (comp, std, INCLUDE, path), timeout=1300)
    if rc == 0:
        open(stamp, "w").write("ok")
        os.remove(path)
    return rc, (o + e)


def failing_cases(log):
    """case numbers named in the diagnostics, with the first diagnostic line mentioning each"""
    out = {}
    for line in log.splitlines():
        for m in re.finditer(r"CE (\d+)|ce_(\d+)\(\)", line):
            n = int(m.group(1) or m.group(2))
            if n not in out and ("error" in line or "static assertion" in line or "static_assert" in line or "constant" in line):
                out[n] = line.strip()[:400]
    return out


def collect(rep, prop, tier, seed, exe, replay=None):
    rng = random.Random(seed * 5915587 + 41)
    configs = ["ce-gcc23", "ce-clang17", "ce-gcc17", "ce-clang20"] if tier == "quick" else list(CE_CONFIGS)
    work = os.path.join(CACHE, "work", "%s-%s-ce" % (prop, tier))
    os.makedirs(work, exist_ok=True)
    hist = collections.Counter()
    # ---- mappings
    mcases = gen_map_cases(rng, tier)
    if replay:
        rp = json.load(open(replay))
        configs = [rp["config"]]
        if rp.get("ce_kind") == "map":
            inst = props_map_inst(rp["case_tokens"])
            mcases = [(inst, rp["case_tokens"], rp["meta"])]
        else:
            mcases = []
    lines = ["M " + " ".join(str(x) for x in toks) for (_, toks, _) in mcases]
    cf = os.path.join(work, "ce-map.txt")
    open(cf, "w").write("\n".join(lines) + "\n")
    rc, mlines, merr = run_lines([exe, cf])
    units = []     # (n, kind, code, info)
    n = 0
    for (inst, toks, meta), ml in zip(mcases, mlines):
        _, md = parse_line(ml)
        if not md or any(v == "UB" for v in md.values()):
            continue
        units.append((n, "map", map_case_code(n, inst, meta, md), {"case_tokens": toks, "meta": meta, "model_line": ml, "desc": inst.desc()}))
        hist["mapping: layout=%s" % LAYOUTS[inst.lay]] += 1; hist["mapping: class=%s" % meta["class"]] += 1; hist["mapping: type=%s" % ITYS[inst.t]] += 1
        n += 1
    # ---- submdspan_mapping
    if not replay or rp.get("ce_kind") == "sub":
        old_scale = common.SCALE
        try:
            common.SCALE = 0.5 if tier == "quick" else 1.0
            sprogs, scases, _ = props_sub.gen(random.Random(seed * 49979687 + 29), tier, props=("C14",))
        finally:
            common.SCALE = old_scale
        slines = ["S " + " ".join(str(x) for x in toks) for (_, toks, _) in scases]
        cf = os.path.join(work, "ce-sub.txt")
        open(cf, "w").write("\n".join(slines) + "\n")
        rc, smlines, merr = run_lines([exe, cf])
        for (pr, toks, meta), ml in zip(scases, smlines):
            _, md = parse_line(ml)
            if not md or md.get("sp0") in (None, "UB"):
                continue
            src = MV(Inst(meta["t"], meta["lay"], DYN, meta["pat"]), 1 if meta["lay"] == 2 else 0, meta["es"], meta["strides"] if meta["lay"] == 2 else None)
            levels = [[props_sub.Sl(k, ct, v, mask=mk) for (k, mk, v, ct) in lv] for lv in meta.get("levels_full", [])]
            if not levels:
                continue
            if replay and toks != rp.get("case_tokens"):
                continue
            units.append((n, "sub", sub_case_code(n, src, levels, md), {"case_tokens": toks, "meta": {k: v for k, v in meta.items() if k != "levels_full"}, "model_line": ml, "desc": pr.desc}))
            hist["submdspan_mapping: layout=%s" % LAYOUTS[meta["lay"]]] += 1; hist["submdspan_mapping: levels=%d" % len(levels)] += 1
            if meta.get("big") or meta.get("boundary"):
                hist["submdspan_mapping: boundary / near-max"] += 1
            n += 1
    # ---- translation units
    per = 120
    shards = [units[i:i + per] for i in range(0, len(units), per)]
    jobs = []
    for si, sh_units in enumerate(shards):
        src = "#include <mdspan/mdspan.hpp>\n#include <array>\n#include <utility>\n#include <tuple>\n" + "\n".join(u[2] for u in sh_units) + "\nint main() {}\n"
        for cfg in configs:
            jobs.append((si, cfg, src))
    import concurrent.futures
    results = {}
    with concurrent.futures.ThreadPoolExecutor(max_workers=NCPU) as ex:
        futs = {ex.submit(compile_tu, "ce%d" % si, src, cfg): (si, cfg) for (si, cfg, src) in jobs}
        for f in concurrent.futures.as_completed(futs):
            results[futs[f]] = f.result()
    evaluations, flagged = 0, []
    by_n = {u[0]: u for u in units}
    for (si, cfg), (rc, log) in sorted(results.items()):
        evaluations += len(shards[si])
        if rc == 0:
            continue
        bad = failing_cases(log)
        if not bad:
            rep.violation("constant-evaluation unit %d does not compile in %s and no case is named in the diagnostics" % (si, cfg),
                          {"obligation": "corr:consteval/build/%d/%s" % (si, cfg), "log": log[-3000:], "signature": "ce-build:%s" % cfg}, True)
            continue
        for nn, line in sorted(bad.items()):
            if nn in by_n:
                flagged.append((by_n[nn], cfg, line, log))
    seen = set()
    for (u, cfg, line, log) in flagged:
        key = (u[1], cfg)
        if key in seen:
            continue
        seen.add(key)
        what = "value differs from the model's" if "static assertion" in line or "static_assert" in line else "not a constant expression (undefined behaviour or a non-constexpr call during constant evaluation)"
        ctx = "\n".join(l for l in log.splitlines() if ("ce_%d" % u[0]) in l or ("CE %d" % u[0]) in l)[:1500]
        rep.violation("constant evaluation of %s: %s: %s" % (u[3]["desc"], what, line[:200]),
                      {"family": "CE", "ce_kind": u[1], "config": cfg, "case_tokens": u[3]["case_tokens"], "meta": u[3]["meta"], "model_line": u[3]["model_line"],
                       "code": u[2], "diagnostics": ctx, "signature": "CE:%s:%s" % (u[1], u[3]["desc"])}, no_failing_input=False)
        if len(seen) >= 6:
            break
    return {
        "evaluations": evaluations, "distinct_nontrivial": len([u for u in units if u[3]["meta"].get("rank", 0) >= 2]),
        "rule": "constant evaluation: for seeded valid inputs (small box, the boundary lattice around imax(index_type), hidden-product and default-constructed mappings; submdspan_mapping chains over all slice kinds incl. near-max "
                "strided slices) a constexpr function constructs the mapping from literals and compares extents, required_span_size(), stride(r), the six flags, operator() at up to 4 points, mdspan::size() and empty() "
                "(resp. per submdspan level: offset, extents, strides, span) with the model's values; static_assert(... == 0) per case; -fsyntax-only with g++ and clang++ in C++17/20/23",
        "programs": len(shards) * len(configs), "configurations": configs, "disagreements_checked": len(flagged),
        "input_distribution": dict(sorted(hist.items())),
        "samples": [{"case": " ".join(str(x) for x in u[3]["case_tokens"])[:200], "program": u[3]["desc"][:200], "model": u[3]["model_line"][:200]} for u in units[:: max(1, len(units) // 4)][:4]],
        "exhaustive": False,
    }


def props_map_inst(toks):
    t, lay, pv, R = toks[1], toks[2], toks[3], toks[4]
    i = Inst(t, lay, pv, toks[5:5 + R]); i.id = toks[0]
    return i
