"""registry.py — property id -> check function(prop, tier, seed, replay) -> exit code"""
import props_map, props_mv, props_ext, props_conv, props_dbg, props_sub, props_c14, props_acc, props_pool, props_arr, props_thr, props_lay, props_cst, props_ded, props_cfg

CHECKS = {}
for p in ("C01", "C02", "C05"):
    CHECKS[p] = lambda prop, tier, seed, replay: props_map.run_property(prop, tier, seed, replay=replay)
for p in ("C07", "C13"):
    CHECKS[p] = lambda prop, tier, seed, replay: props_mv.run_property(prop, tier, seed, replay=replay)
CHECKS["C06"] = lambda prop, tier, seed, replay: props_ext.run_property(prop, tier, seed, replay=replay)
CHECKS["C08"] = lambda prop, tier, seed, replay: props_conv.run_property(prop, tier, seed, replay=replay)
CHECKS["C20"] = lambda prop, tier, seed, replay: props_dbg.run_property(prop, tier, seed, replay=replay)
for p in ("C04", "C10", "C09"):
    CHECKS[p] = lambda prop, tier, seed, replay: props_sub.run_property(prop, tier, seed, replay=replay)
CHECKS["C14"] = lambda prop, tier, seed, replay: props_c14.run_property(prop, tier, seed, replay=replay)
CHECKS["C03"] = lambda prop, tier, seed, replay: props_acc.run_property(prop, tier, seed, replay=replay)
CHECKS["C11"] = lambda prop, tier, seed, replay: props_pool.run_property(prop, tier, seed, replay=replay)
CHECKS["C12"] = lambda prop, tier, seed, replay: props_arr.run_property(prop, tier, seed, replay=replay)
CHECKS["C19"] = lambda prop, tier, seed, replay: props_thr.run_property(prop, tier, seed, replay=replay)
CHECKS["C18"] = lambda prop, tier, seed, replay: props_lay.run_property(prop, tier, seed, replay=replay)
CHECKS["C16"] = lambda prop, tier, seed, replay: props_cst.run_property(prop, tier, seed, replay=replay)
CHECKS["C17"] = lambda prop, tier, seed, replay: props_ded.run_property(prop, tier, seed, replay=replay)
CHECKS["C15"] = lambda prop, tier, seed, replay: props_cfg.run_property(prop, tier, seed, replay=replay)
