"""props_thr.py — C19: threads sharing one view (family T) + purity audit of the headers."""
import collections, itertools, json, os, random
from common import *
import mapgen, audit
from mapgen import Inst, DYN, LAYOUTS, prod1, ints
from progdrv import Prog, run_programs
from props_conv import MV, rand_pattern
from props_map import finish_common
from props_sub import make_slice, KINDS
from props_arr import span_of

KIND_NAMES = ["write", "read", "observe", "copy", "create-sub-view"]


def compose_chain(levels, j):
    """multi-index of the root view designated by index j of the view derived through `levels`"""
    j = list(j)
    for sls in reversed(levels):
        out, it = [], iter(j)
        for sl in sls:
            if sl.kind in ("I", "IC"):
                out.append(sl.vals[0])
            elif sl.kind in ("P", "T", "PC"):
                out.append(sl.vals[0] + next(it))
            elif sl.kind == "F":
                out.append(next(it))
            else:
                out.append(sl.vals[0] + next(it) * sl.vals[2])
        j = out
    return tuple(j)


def gen_chain(rng, es, strides, T, t, nlev):
    cur_es, cur_st, levels = list(es), list(strides), []
    for _ in range(nlev):
        r = len(cur_es)
        if r == 0:
            break
        sls = []
        for k in range(r):
            kinds = list(KINDS) if rng.random() < 0.6 else ["F", "P", "I", "S"]
            sl = None
            for _ in range(8):
                sl = make_slice(rng, rng.choice(kinds), cur_es[k], T, t, False, cur_st[k], rich=(rng.random() < 0.3))
                if sl is not None:
                    e2 = sl.result_extent(cur_es[k])
                    if e2 is None or e2 >= 1:
                        break
                    sl = None
            if sl is None:
                return None
            sls.append(sl)
        levels.append(sls)
        nes, nst = [], []
        for k, sl in enumerate(sls):
            e2 = sl.result_extent(cur_es[k])
            if e2 is not None:
                nes.append(e2); nst.append(cur_st[k] * (sl.vals[2] if sl.kind == "S" else 1))
        cur_es, cur_st = nes, nst
    if not levels:
        return None
    return levels, cur_es


def gen_program(rng, tier):
    t = rng.randrange(8)
    T = CTYPES[t]
    lay = rng.choice([0, 1, 2, 2, 3, 4])
    R = rng.choice([1, 2, 2, 3])
    es = [rng.choice([2, 3, 4, 5]) for _ in range(R)]
    if rng.random() < 0.15:
        es[rng.randrange(R)] = 1
    if prod1(es) > imax(t):
        return None
    pat = rand_pattern(rng, es, 0.5)
    if lay == 2:
        sts = mapgen.stride_tuples(rng, t, es, 4)
        if not sts:
            return None
        mv = MV(Inst(t, 2, DYN, pat), 1, es, rng.choice(sts))
    elif lay in (3, 4):
        inst = Inst(t, lay, rng.choice([DYN, 2, 4]), pat)
        if not inst.instantiable():
            return None
        mv = MV(inst, 0, es)
    else:
        mv = MV(Inst(t, lay, DYN, pat), 0, es)
    if not mv.valid_for(t):
        return None
    span = span_of(mv)
    if span > 120 or span > imax(t):
        return None
    acc = rng.choice([0, 0, 2])
    ders = []
    if lay <= 2:
        for _ in range(rng.choice([1, 2, 3])):
            g = gen_chain(rng, es, mv.strides, T, t, rng.choice([1, 1, 2]))
            if g is not None:
                ders.append(g)
    return mv, acc, ders, span, R, es, T, t, lay


def gen_case(rng, tier, es, ders):
    nthreads = rng.choice([2, 2, 3, 4, 8])
    allidx = list(itertools.product(*[range(e) for e in es]))
    owner = {}
    for ix in allidx:
        owner[ix] = None if rng.random() < 0.2 else rng.randrange(nthreads)
    # inverse maps: root index -> index in the derived view
    inv = []
    for (levels, des) in ders:
        d = {}
        for j in itertools.product(*[range(e) for e in des]):
            d[compose_chain(levels, j)] = j
        inv.append(d)
    progs = []
    for tid in range(nthreads):
        mine = [ix for ix in allidx if owner[ix] == tid]
        shared_ro = [ix for ix in allidx if owner[ix] is None]
        nact = rng.randrange(5, 15) if tier == "quick" else rng.randrange(8, 40)
        acts = []
        for n in range(nact):
            kind = rng.choice([0, 0, 0, 0, 1, 1, 1, 2, 3, 4])
            if kind == 0 and not mine:
                kind = 2
            if kind == 1 and not (mine or shared_ro):
                kind = 2
            if kind == 4 and not ders:
                kind = 2
            if kind in (0, 1):
                pool = mine if kind == 0 else (mine + shared_ro)
                ix = rng.choice(pool)
                paths = [0] + [d + 1 for d in range(len(ders)) if ix in inv[d]]
                der = rng.choice(paths[1:]) if (len(paths) > 1 and rng.random() < 0.6) else 0
                j = list(ix) if der == 0 else list(inv[der - 1][ix])
                acts.append([kind, der, rng.randrange(3), len(j)] + j + [tid * 1000 + n + 1 if kind == 0 else 0])
            elif kind == 4:
                acts.append([4, rng.randrange(1, len(ders) + 1), 0, 0, 0])
            else:
                acts.append([kind, 0, 0, 0, 0])
        progs.append(acts)
    return nthreads, progs


def gen(rng, tier):
    progs, cases = [], []
    hist = collections.Counter()
    nprog = 90 if tier == "quick" else 600
    ncase = 3 if tier == "quick" else 6
    tries = 0
    while len(progs) < nprog and tries < nprog * 40:
        tries += 1
        g = gen_program(rng, tier)
        if g is None:
            continue
        mv, acc, ders, span, R, es, T, t, lay = g
        body = ["tk.next(); std::printf(\"T %ld \", caseno); std::fflush(stdout);",
                "using M = %s;" % mv.inst.cpp_type(),
                "const M m = drv::read_mapping<M, %d>(tk);" % lay,
                "tk.next(); tk.next();",
                "const long long span = (long long)drv::to_i128(m.required_span_size());",
                "std::vector<int> buf((size_t)(span + 16), -1); for (long long c = 0; c < span; ++c) buf[(size_t)(c + 8)] = (int)(5000 + c);",
                "using VO = drv::ViewOf<int, M, %d>; using MD = typename VO::type;" % acc,
                "const MD shared = VO::make(buf.data() + 8, m);"]
        cases_d = ["      case 0: f(v); break;"]
        for d, (levels, des) in enumerate(ders, 1):
            body.append("tk.next();")
            expr = "v"
            for l, sls in enumerate(levels, 1):
                body.append("tk.next();")
                names = []
                for k, sl in enumerate(sls):
                    body.append("const auto s%d_%d_%d = %s;" % (d, l, k, sl.reader()))
                    names.append("s%d_%d_%d" % (d, l, k))
                expr = "Kokkos::submdspan(%s, %s)" % (expr, ", ".join(names))
            cases_d.append("      case %d: f(%s); break;" % (d, expr))
        body += ["auto progs = drv::read_thread_progs(tk); const long long seed = (long long)tk.next_i();",
                 "auto with_view = [&](const MD& v, int der, auto&& f) {\n      switch (der) {\n" + "\n".join(cases_d) + "\n      default: break; }\n    };",
                 "const size_t NT = progs.size();",
                 "std::vector<std::vector<long long>> logs(NT); std::vector<int> bad(NT, 0);",
                 "using ARR = Kokkos::Experimental::mdarray<int, typename M::extents_type, typename M::layout_type>; const ARR carr(m); const ARR carr_ref(m);",
                 "std::vector<int> fillc((size_t)span); for (long long c = 0; c < span; ++c) fillc[(size_t)c] = (int)(5000 + c); const ARR carr_fill(m, fillc);",
                 "const auto ref_obs = drv::observe(shared); const auto ref_arr = drv::observe_arr(carr_ref);   // carr itself is first used inside the threads",
                 "drv::run_threads(NT, seed, [&](int tid, drv::Jit& jt) {",
                 "  std::unique_ptr<MD> mine;",
                 "  if (drv::observe_arr(carr) != ref_arr) ++bad[(size_t)tid];",
                 "  for (const auto& a : progs[(size_t)tid]) {",
                 "    drv::jitter(jt);",
                 "    const MD& src = mine ? *mine : shared;",
                 "    switch (a.kind) {",
                 "    case 0: with_view(src, a.der, [&](const auto& w) { drv::elem(w, a) = (int)a.x; }); break;",
                 "    case 1: with_view(src, a.der, [&](const auto& w) { logs[(size_t)tid].push_back((long long)(int)drv::elem(w, a)); });\n      if (a.der == 0 && !drv::arr_read_ok(carr_fill, m, a, std::make_index_sequence<M::extents_type::rank()>{})) ++bad[(size_t)tid]; break;",
                 "    case 2: if (drv::observe(src) != ref_obs) ++bad[(size_t)tid]; if (drv::observe_arr(carr) != ref_arr) ++bad[(size_t)tid]; break;",
                 "    case 3: mine.reset(new MD(shared)); break;",
                 "    default: with_view(src, a.der, [&](const auto& w) { if (w.size() == (size_t)-1) ++bad[(size_t)tid]; }); break;",
                 "    }",
                 "  }",
                 "});",
                 "drv::Out o; { std::vector<drv::i128> h(buf.begin(), buf.end()); o.field(\"heap\", drv::Out::list(h)); }",
                 "for (size_t k = 0; k < NT; ++k) { std::vector<drv::i128> l(logs[k].begin(), logs[k].end()); o.field((\"log\" + std::to_string(k)).c_str(), drv::Out::list(l)); }",
                 "{ long long b = 0; for (int x : bad) b += x; o.field(\"obs\", drv::str_i128(b)); }",
                 "std::printf(\"%s\\n\", o.s.c_str());"]
        pr = Prog(None, "threads %s es=%s accessor=%s derived=%s" % (mv.inst.desc(), es, ["default", "", "proxy"][acc],
                                                                       [[[s.desc() for s in sls] for sls in lv] for (lv, _) in ders]))
        pr.body = "\n    ".join(body)
        progs.append(pr)
        head = [None] + mv.tokens() + [acc, len(ders)]
        for (levels, _) in ders:
            head.append(len(levels))
            for sls in levels:
                head.append(len(sls))
                for sl in sls:
                    head += sl.tokens()
        for c in range(ncase):
            nthreads, tp = gen_case(rng, tier, es, ders)
            toks = list(head) + [nthreads]
            nw = nr = 0
            for p in tp:
                toks.append(len(p))
                for a in p:
                    toks += a
                    hist["action=%s" % KIND_NAMES[a[0]]] += 1
                    if a[0] in (0, 1):
                        hist["path=%s" % ("shared/copy" if a[1] == 0 else "sub-view")] += 1
                        hist["form=%s" % ["pack", "array", "span"][a[2]]] += 1
                    nw += a[0] == 0; nr += a[0] == 1
            toks.append(rng.randrange(1 << 30))
            cases.append((pr, toks, {"t": t, "lay": lay, "es": es, "strides": mv.strides, "span": span, "rank": R, "threads": nthreads,
                                     "writes": nw, "reads": nr, "nder": len(ders), "programs": tp}))
            hist["threads=%d" % nthreads] += 1
        hist["layout=%s" % LAYOUTS[lay]] += 1; hist["rank=%d" % R] += 1; hist["accessor=%s" % ["default", "", "proxy"][acc]] += 1
        hist["derived views=%d" % len(ders)] += 1
    for n, p in enumerate(progs):
        p.id = n
        p.call = "prog_%d(caseno, tk)" % n
    for c in cases:
        c[1][0] = c[0].id
    return progs, cases, hist


def prelude(progs):
    return "\n".join("static void prog_%d(long caseno, drv::Toks& tk) {\n    %s\n}" % (p.id, p.body) for p in progs)


def judge(r, cfg):
    md, im, meta = r["model"], r["impl"].get(cfg), r["meta"]
    if im is None:
        return []
    if "crash" in r and cfg in r["crash"]:
        info = r["crash"][cfg]
        what = "data race reported by ThreadSanitizer" if "ThreadSanitizer" in info.get("stderr_tail", "") + info.get("stderr", "") else "implementation terminated abnormally"
        return [("crash", "%s: %s" % (what, info["stderr"]), True)]
    if any(v == "UB" for v in md.values()) or md.get("rf") != "1":
        return [("model", "model rejects a generated program (UB or not race-free): " + r["model_line"][:200], False)]
    out = []
    for k in sorted(md):
        if k == "rf":
            continue
        if k not in im:
            out.append((k, "field %s missing in the implementation's output" % k, False)); continue
        a, b = ints(im[k]), ints(md[k])
        if a != b:
            if k == "heap":
                diff = [(c - 8, x, y) for c, (x, y) in enumerate(zip(a, b)) if x != y]
                out.append((k, "after all threads joined the buffer differs from the schedule-independent result at cells (cell, found, expected) %s" % diff[:6], True))
            elif k == "obs":
                out.append((k, "%s observer calls made inside threads returned something else than before the threads started, or element reads through the shared const mdarray were not container()[mapping()(i...)]" % a, True))
            else:
                out.append((k, "thread %s read %s, alone it reads %s" % (k[3:], a, b), True))
    return out


def collect(rep, prop, tier, seed, exe, replay=None):
    rng = random.Random(seed * 27182818 + 19)
    if tier == "quick":
        configs = ["gcc20-tsan", "clang17-tsan", "gcc23"]
    else:
        configs = ["gcc20-tsan", "clang17-tsan", "gcc23-tsan", "clang20-tsan", "gcc23", "clang17", "gcc17", "gcc23-paren"]
    if replay:
        rp = json.load(open(replay))
        pr = Prog(rp["call"], rp["program"]); pr.id = rp["case_tokens"][0]; pr.body = rp["body"]
        progs, cases, hist = [pr], [(pr, rp["case_tokens"], rp.get("meta", {}))], {}
        configs = [rp["config"]]
    else:
        progs, cases, hist = gen(rng, tier)
    work = os.path.join(CACHE, "work", "%s-%s" % (prop, tier))
    # ---- purity audit of the headers
    au = audit.run(os.path.join(work, "audit"))
    for f in au["findings"][:6]:
        rep.violation("hidden state in the headers: %s %s %s at %s" % f,
                      {"obligation": "audit:purity", "finding": list(f), "signature": "audit:%s:%s" % (f[0], f[3]),
                       "note": "the Coq model treats observers, copies and sub-view creation as functions of the view value; this declaration breaks that tie"}, True)
    if not au["modes"]:
        rep.violation("the purity audit cannot parse the headers in any language mode", {"obligation": "audit:parse", "log": au["error"], "signature": "audit:parse"}, True)
    records, build_fail = run_programs("T", "drv_thr.hpp", progs, cases, configs, work, exe, nshards=16, prelude=prelude, name="thr")
    import incoq
    incoq_n = incoq.sample_check(rep, prop, "T", records, tier, seed, work, replay)
    for (sh_, cfg, blog) in {c: (s_, c, l) for (s_, c, l) in reversed(build_fail)}.values():
        rep.violation("thread driver shard %s no longer builds in configuration %s" % (sh_, cfg),
                      {"obligation": "corr:thr/build/%s/%s" % (sh_, cfg), "log": blog[-3000:], "signature": "build:thr:%s" % cfg}, True)
    evaluations, flagged, nontriv = 0, [], set()
    for r in records:
        for cfg in configs:
            if r["impl"].get(cfg) is None:
                continue
            evaluations += 1
            iss = judge(r, cfg)
            if iss:
                flagged.append((r, cfg, iss))
        m = r["meta"]
        if m.get("writes", 0) >= 2 and m.get("threads", 0) >= 2:
            nontriv.add(tuple(str(x) for x in r["toks"][1:]))
    flagged.sort(key=lambda x: len(x[0]["toks"]))
    seen = set()
    for (r, cfg, iss) in flagged:
        key = (iss[0][1][:50], cfg)
        if key in seen:
            continue
        seen.add(key)
        rep.violation(iss[0][1], {"family": "T", "config": cfg, "program": r["prog"].desc, "call": r["prog"].call, "body": r["prog"].body,
                                  "case_tokens": r["toks"], "meta": r["meta"], "model_line": r["model_line"],
                                  "impl_line": r["impl_line"].get(cfg, ""), "issues": [{"field": f, "message": m} for (f, m, _) in iss],
                                  "crash": (r.get("crash") or {}).get(cfg),
                                  "signature": "T:%s:%s" % (r["prog"].desc, iss[0][0])}, no_failing_input=not any(x[2] for x in iss))
        if len(seen) >= 6:
            break
    return {
        "evaluations": evaluations, "distinct_nontrivial": len(nontriv), "evaluated_inside_coq_too": incoq_n,
        "rule": "purity audit: clang AST (JSON) of <mdspan/mdspan.hpp> + <mdspan/mdarray.hpp> in C++14/17/20/2b, every declaration in namespace Kokkos: no non-const variable of static storage "
                "duration, no thread_local, no mutable member, no const_cast; plus a token scan of all headers (%d AST nodes, modes %s).  Thread programs: 2-8 real threads share one const "
                "mdspan<int> (layouts left/right/stride/left_padded/right_padded, default and proxy accessor) over a buffer with canaries; each thread runs 5-14 (thorough: 8-39) actions: writes "
                "and reads of elements it owns (reads also of read-only elements) through the shared view, a private copy, or sub-views (1-2 submdspan levels, all slice kinds) created inside the thread, "
                "in the pack / std::array / std::span form, plus observer calls (on the view and on a shared const mdarray over the same mapping: size, extents, strides, flags, data, to_mdspan, container; every read of the shared view itself is repeated through a shared const mdarray whose container holds 5000 + offset: a(i...) must be that value, at container().data() + mapping()(i...), and the same cell as to_mdspan()(i...) - theorem C19_const_mdarray_cell), copies and sub-view creations; seeded yields and spins.  Compared with the model: the final buffer and every "
                "thread's read log equal the sequential composition (which the theorems show equals every interleaving); observers inside threads return what they returned before; "
                "ThreadSanitizer builds (g++, clang++) must report nothing.  non-trivial = at least 2 threads and 2 writes" % (au["nodes"], ",".join(au["modes"])),
        "programs": len(progs) * len(configs), "configurations": configs, "disagreements_checked": len(flagged),
        "input_distribution": dict(sorted(hist.items())) if hist else {},
        "samples": [{"case": r["case_line"][:300], "program": r["prog"].desc[:300], "model": r["model_line"][:300]} for r in records[:: max(1, len(records) // 5)][:5]],
        "exhaustive": False,
    }


def run_property(prop, tier, seed, replay=None):
    rep = Report(prop, tier, seed)
    prove_section(rep, prop)
    exe, log = build_model()
    if exe is None:
        rep.violation("the Coq model or its extraction no longer builds", {"obligation": "build:model", "log": log[-3000:], "signature": "build:model"}, True)
        return rep.finish()
    cov = collect(rep, prop, tier, seed, exe, replay)
    finish_common(rep, prop, [cov])
    rep.assumptions = ["what constitutes a data race in the C++ memory model is delegated to ThreadSanitizer on the executed schedules; the theorems quantify over all interleavings of the model's atomic actions",
                       "the purity audit covers the code clang parses in C++14/17/20/2b plus a token scan; CUDA/HIP/SYCL-only branches are scanned as text only",
                       "the sub-view part of the model covers layout_left/right/stride sources (as for C04); padded shared views are exercised without sub-views"]
    prune_cache()
    return rep.finish()
