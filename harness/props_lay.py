"""props_lay.py — C18: object layout (family L)."""
import collections, itertools, json, os, random
from common import *
import mapgen
from mapgen import Inst, DYN, LAYOUTS, ints
from progdrv import Prog, run_programs
from props_map import finish_common

ACCS = {0: "Kokkos::default_accessor<double>", 1: "drv::acc_int<double>", 2: "drv::acc_char<double>", 3: "drv::acc_empty<double>"}
ACC_NAMES = {0: "default_accessor", 1: "stateful(int)", 2: "stateful(char)", 3: "empty user accessor"}
ATTR_CONFIGS = {"gcc23", "gcc20", "gcc17", "clang17", "clang20", "clang2b", "gcc23-O0"}


def gen(rng, tier):
    progs, cases, hist = [], [], collections.Counter()
    seen = set()
    want = 700 if tier == "quick" else 6000
    # structured part: every index type x every layout x ranks 0..3 x all-static / all-dynamic / mixed
    queue = []
    for t in range(8):
        for lay in range(5):
            for R in range(0, 5):
                for mode in ("static", "dynamic", "mixed", "zero"):
                    queue.append((t, lay, R, mode))
    rng.shuffle(queue)
    tries = 0
    while len(progs) < want and tries < want * 30:
        tries += 1
        if queue:
            t, lay, R, mode = queue.pop()
        else:
            t, lay, R, mode = rng.randrange(8), rng.randrange(5), rng.choice([0, 1, 2, 3, 4, 5, 6]), rng.choice(["static", "dynamic", "mixed", "mixed", "zero"])
        vals = [rng.choice([1, 2, 3, 4, 5, 7]) for _ in range(R)]
        if mode == "static":
            pat = vals
        elif mode == "dynamic":
            pat = [DYN] * R
        elif mode == "zero":
            pat = [0 if rng.random() < 0.5 else (DYN if rng.random() < 0.5 else v) for v in vals]
        else:
            pat = [DYN if rng.random() < 0.5 else v for v in vals]
        pv = DYN
        if lay in (3, 4):
            pv = rng.choice([DYN, DYN, 0, 1, 2, 4, 8])
        inst = Inst(t, lay, pv, pat)
        if not inst.instantiable() or not mapgen.static_ok(inst):
            continue
        # the static padded stride must be representable in index_type for the type to be usable
        if lay in (3, 4) and pv not in (DYN, 0) and R >= 2 and pat[inst.pad_pos()] != DYN:
            e = pat[inst.pad_pos()]
            if ((e + pv - 1) // pv) * pv > imax(t):
                continue
        acc = rng.choice([0, 0, 1, 2, 3])
        key = (inst.key(), acc)
        if key in seen:
            continue
        seen.add(key)
        pr = Prog("drv::run_layout<%s, %s, %s>(caseno)" % (inst.ext_type(), inst.cpp_type(), ACCS[acc]), "layout %s accessor=%s" % (inst.desc(), ACC_NAMES[acc]))
        progs.append(pr)
        toks = [None, t, lay, pv, R] + list(pat) + [acc]
        nd = sum(1 for p in pat if p == DYN)
        cases.append((pr, toks, {"t": t, "lay": lay, "pv": pv, "pat": list(pat), "acc": acc, "rank": R, "ndyn": nd}))
        hist["layout=%s" % LAYOUTS[lay]] += 1; hist["rank=%d" % R] += 1; hist["type=%s" % ITYS[t]] += 1
        hist["accessor=%s" % ACC_NAMES[acc]] += 1
        hist["pattern=%s" % ("rank0" if R == 0 else "all-static" if nd == 0 else "all-dynamic" if nd == R else "mixed")] += 1
        if lay in (3, 4):
            hist["padding=%s" % ("dynamic" if pv == DYN else "static")] += 1
    for n, p in enumerate(progs):
        p.id = n
    for c in cases:
        c[1][0] = c[0].id
    return progs, cases, hist


WIDTH = [1, 1, 2, 2, 4, 4, 8, 8]
ACC_SIZE = {0: (0, 1), 1: (4, 4), 2: (1, 1), 3: (0, 1)}      # (storage, alignment) of the accessor kinds


def rup(a, b):
    return ((a + b - 1) // b) * b


def property_holds(meta, got):
    """C18's statement evaluated on the implementation's own numbers (attribute configurations)"""
    szE, emE, szM, emM, szMD, emMD = got
    w, nd, R, lay = WIDTH[meta["t"]], meta["ndyn"], meta["rank"], meta["lay"]
    if nd == 0:
        if not (emE == 1):
            return "extents without dynamic extents is not an empty class"
    elif szE != nd * w or emE:
        return "sizeof(extents) = %d, rank_dynamic x sizeof(index_type) = %d" % (szE, nd * w)
    if lay in (0, 1):
        if szM != szE or emM != emE:
            return "layout_left/right mapping adds to its extents: %d vs %d" % (szM, szE)
    elif lay == 2:
        if R == 0:
            if not emM:
                return "rank-0 layout_stride mapping is not empty"
        elif szM != (nd + R) * w or emM:
            return "sizeof(layout_stride mapping) = %d, (rank_dynamic + rank) x sizeof(index_type) = %d" % (szM, (nd + R) * w)
    else:
        if not (szE <= szM <= rup(szE + w, w)):
            return "padded mapping adds more than one padded stride: sizeof %d, extents %d, index_type %d" % (szM, szE, w)
    sM = 0 if emM else szM
    sA, aA = ACC_SIZE[meta["acc"]]
    upper = rup(8 + rup(sM, aA) + sA, 8)
    if emMD or not (8 <= szMD <= upper):
        return "sizeof(mdspan) = %d exceeds handle + mapping + accessor = %d" % (szMD, upper)
    if sM == 0 and sA == 0 and szMD != 8:
        return "mdspan with empty mapping and accessor is not pointer-sized: %d" % szMD
    return None


def judge(r, cfg):
    md, im, meta = r["model"], r["impl"].get(cfg), r["meta"]
    if im is None:
        return []
    if "crash" in r and cfg in r["crash"]:
        return [("crash", "implementation terminated abnormally: " + r["crash"][cfg]["stderr"], True)]
    out = []
    names = ["sizeof(extents)", "is_empty(extents)", "sizeof(mapping)", "is_empty(mapping)", "sizeof(mdspan)", "is_empty(mdspan)"]
    if cfg in ATTR_CONFIGS:
        a, b = ints(im.get("sz")), ints(md.get("sz"))
        if a != b:
            diff = ["%s = %s, model %s" % (n, x, y) for n, x, y in zip(names, a, b) if x != y]
            why = property_holds(meta, a) if len(a) == 6 else "malformed output"
            if why:
                out.append(("sz", "object layout differs from the layout model: " + "; ".join(diff) + " -- " + why, True))
            else:
                out.append(("sz", "object layout differs from the layout model (the ABI model no longer describes the classes), but the sizes still satisfy the property's statement: " + "; ".join(diff), False))
    a, b = ints(im.get("tc")), ints(md.get("tc"))
    if a != b:
        tn = ["extents", "mapping", "accessor", "mdspan"]
        out.append(("tc", "not trivially copyable: " + ", ".join(n for n, x, y in zip(tn, a, b) if x != y), True))
    return out


def collect(rep, prop, tier, seed, exe, replay=None):
    rng = random.Random(seed * 16180339 + 7)
    if tier == "quick":
        configs = ["gcc23", "clang17", "gcc20-emu", "clang17-emu"]
    else:
        configs = ["gcc23", "gcc20", "gcc17", "clang17", "clang20", "clang2b", "gcc23-O0", "gcc20-emu", "clang17-emu"]
    if replay:
        rp = json.load(open(replay))
        pr = Prog(rp["call"], rp["program"]); pr.id = rp["case_tokens"][0]
        progs, cases, hist = [pr], [(pr, rp["case_tokens"], rp.get("meta", {}))], {}
        configs = [rp["config"]]
    else:
        progs, cases, hist = gen(rng, tier)
    work = os.path.join(CACHE, "work", "%s-%s" % (prop, tier))
    records, build_fail = run_programs("L", "drv_lay.hpp", progs, cases, configs, work, exe, nshards=16, name="lay")
    for (sh_, cfg, blog) in {c: (s_, c, l) for (s_, c, l) in reversed(build_fail)}.values():
        rep.violation("layout driver shard %s no longer builds in configuration %s" % (sh_, cfg),
                      {"obligation": "corr:lay/build/%s/%s" % (sh_, cfg), "log": blog[-3000:], "signature": "build:lay:%s" % cfg}, True)
    evaluations, flagged, nontriv = 0, [], set()
    for r in records:
        for cfg in configs:
            if r["impl"].get(cfg) is None:
                continue
            evaluations += 1
            iss = judge(r, cfg)
            if iss:
                flagged.append((r, cfg, iss))
        if r["meta"].get("rank", 0) >= 1:
            nontriv.add(tuple(str(x) for x in r["toks"][1:]))
    flagged.sort(key=lambda x: len(x[0]["toks"]))
    seen = set()
    for (r, cfg, iss) in flagged:
        key = (iss[0][1][:70], cfg)
        if key in seen:
            continue
        seen.add(key)
        rep.violation(iss[0][1] + " for " + r["prog"].desc, {"family": "L", "config": cfg, "program": r["prog"].desc, "call": r["prog"].call,
                                  "case_tokens": r["toks"], "meta": r["meta"], "model_line": r["model_line"],
                                  "impl_line": r["impl_line"].get(cfg, ""), "issues": [{"field": f, "message": m} for (f, m, _) in iss],
                                  "signature": "L:%s:%s" % (r["prog"].desc, iss[0][0])}, no_failing_input=not any(x[2] for x in iss))
        if len(seen) >= 6:
            break
    return {
        "evaluations": evaluations, "distinct_nontrivial": len(nontriv),
        "rule": "instantiations = (index type x layout {left, right, stride, left_padded<pv>, right_padded<pv>} x rank 0..4 (random part up to 6) x pattern {all static, all dynamic, mixed, with "
                "static zero extents} x padding {dynamic, 0, 1, 2, 4, 8} x accessor {default_accessor, stateful int, stateful char, empty user accessor}); for each: sizeof and is_empty of extents, of the mapping "
                "and of mdspan<double, extents, layout, accessor> compared with the Coq layout function in the [[no_unique_address]] builds; is_trivially_copyable of extents, mapping, accessor, mdspan compared in "
                "every build including the base-class emulation builds. non-trivial = rank >= 1",
        "programs": len(progs) * len(configs), "configurations": configs, "disagreements_checked": len(flagged),
        "input_distribution": dict(sorted(hist.items())) if hist else {},
        "samples": [{"case": r["case_line"], "program": r["prog"].desc[:300], "model": r["model_line"][:300]} for r in records[:: max(1, len(records) // 5)][:5]],
        "exhaustive": False,
    }


def run_property(prop, tier, seed, replay=None):
    rep = Report(prop, tier, seed)
    prove_section(rep, prop)
    exe, log = build_model()
    if exe is None:
        rep.violation("the Coq model or its extraction no longer builds", {"obligation": "build:model", "log": log[-3000:], "signature": "build:model"}, True)
        return rep.finish()
    cov = collect(rep, prop, tier, seed, exe, replay)
    finish_common(rep, prop, [cov])
    rep.assumptions = ["the layout function is a model of the Itanium C++ ABI rules for data members of classes without bases (x86-64, g++ 12 and clang++ 14); it is validated by this comparison, not derived from the ABI document",
                       "size facts are claimed for the [[no_unique_address]] configurations only (as the property states); trivial copyability for all configurations"]
    prune_cache()
    return rep.finish()
