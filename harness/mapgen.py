"""mapgen.py — family M (layout mappings): instantiation universe, case generators, TU generation,
run + field-wise comparison.  Serves C01, C02, C05, C07, C13 (mapping part), C14 (run time)."""
import itertools, math, os, random
from common import *

LAYOUTS = ["left", "right", "stride", "lpad", "rpad"]
DYN = -1


def iroot(n, k):
    if k <= 0:
        return n
    r = int(round(n ** (1.0 / k)))
    while r ** k > n:
        r -= 1
    while (r + 1) ** k <= n:
        r += 1
    return r


def prod1(es):
    p = 1
    for e in es:
        p *= max(e, 1)
    return p


def lm(a, o):
    """least multiple of a that is >= o (a = 0 -> 0)"""
    if a == 0:
        return 0
    return ((o + a - 1) // a) * a


class Inst:
    """one C++ mapping type: index type, layout, padding value (DYN or n), static/dynamic pattern"""
    __slots__ = ("t", "lay", "pv", "pat", "id")

    def __init__(self, t, lay, pv, pat):
        self.t, self.lay, self.pv, self.pat, self.id = t, lay, pv, tuple(pat), None

    def key(self):
        return (self.t, self.lay, self.pv, self.pat)

    def rank(self):
        return len(self.pat)

    def ext_type(self):
        args = "".join(", " + ("Kokkos::dynamic_extent" if p == DYN else "%dull" % p) for p in self.pat)
        return "Kokkos::extents<%s%s>" % (CTYPES[self.t], args)

    def cpp_type(self):
        e = self.ext_type()
        pv = "Kokkos::dynamic_extent" if self.pv == DYN else "%dull" % self.pv
        return {0: "Kokkos::layout_left::mapping<%s>" % e,
                1: "Kokkos::layout_right::mapping<%s>" % e,
                2: "Kokkos::layout_stride::mapping<%s>" % e,
                3: "Kokkos::Experimental::layout_left_padded<%s>::mapping<%s>" % (pv, e),
                4: "Kokkos::Experimental::layout_right_padded<%s>::mapping<%s>" % (pv, e)}[self.lay]

    def pad_pos(self):
        return 0 if self.lay == 3 else len(self.pat) - 1

    def instantiable(self):
        """static_assert of the padded mappings: padding 0 only with a zero or dynamic extent-to-pad"""
        if self.lay in (3, 4) and len(self.pat) >= 1 and self.pv == 0:
            p = self.pat[self.pad_pos()]
            return p == DYN or p == 0
        return True

    def desc(self):
        return "%s %s pv=%s pat=%s" % (ITYS[self.t], LAYOUTS[self.lay], self.pv, list(self.pat))


def static_ok(inst):
    """static values alone must leave room for an admissible extents value"""
    return prod1([p for p in inst.pat if p != DYN]) <= imax(inst.t)


def gen_insts(rng, tier):
    """the instantiation universe of the shared mapping driver"""
    max_rank = 4 if tier == "quick" else 5
    nmixed = 2 if tier == "quick" else 4
    pvs = [DYN, 1, 2, 3, 4, 8] if tier == "quick" else [DYN, 0, 1, 2, 3, 4, 5, 8, 16]
    insts = {}

    def add(i):
        if i.instantiable() and static_ok(i):
            insts.setdefault(i.key(), i)

    for t in range(8):
        M = imax(t)
        for R in range(0, max_rank + 1):
            pats = [tuple([DYN] * R)]
            for _ in range(nmixed if R > 0 else 0):
                # seeded mixed pattern with small and boundary static values
                pat = []
                for k in range(R):
                    if rng.random() < 0.5:
                        pat.append(DYN)
                    else:
                        pat.append(min(rng.choice([0, 1, 2, 3, 4, 5, 7] + ([iroot(M, R)] if R > 1 else [M])), (1 << 64) - 2))  # 2^64-1 is dynamic_extent
                pats.append(tuple(pat))
            if R > 0 and (tier != "quick" or R <= 3):
                pats.append(tuple(rng.choice([1, 2, 3, 4]) for _ in range(R)))     # all static
            for pat in pats:
                for lay in (0, 1, 2):
                    add(Inst(t, lay, DYN, pat))
                for lay in (3, 4):
                    for pv in (pvs if pat == pats[0] else rng.sample(pvs, 2)):
                        add(Inst(t, lay, pv, pat))
    out = list(insts.values())
    for n, i in enumerate(out):
        i.id = n
    return out


# --------------------------------------------------------------------------------------------------
# values
# --------------------------------------------------------------------------------------------------
def fill(pat, dyn_vals):
    """combine a pattern with values for the dynamic positions -> full extents"""
    it = iter(dyn_vals)
    return [p if p != DYN else next(it) for p in pat]


def boundary_exts(rng, t, pat, n):
    """extents near the representability boundary: product of max(e,1) on both sides of imax (only the
    admissible ones are kept), single extents near the maximum, zeros in every position"""
    M = imax(t)
    R = len(pat)
    nd = sum(1 for p in pat if p == DYN)
    res = []
    if nd == 0:
        return [list(pat)]
    fixed = prod1([p for p in pat if p != DYN])
    budget = M // fixed
    root = iroot(budget, nd)
    cands = sorted(set([0, 1, 2, 3, max(root - 1, 0), root, root + 1, budget // 2, budget - 1, budget, max(budget // 3, 1)]))
    cands = [c for c in cands if 0 <= c <= M]
    tries = 0
    while len(res) < n and tries < n * 30:
        tries += 1
        vals = [rng.choice(cands) for _ in range(nd)]
        # aim at the edge: make the last factor the largest that still fits
        if rng.random() < 0.6:
            k = rng.randrange(nd)
            rest = prod1(vals[:k] + vals[k + 1:])
            vals[k] = max(budget // rest, 0) if rng.random() < 0.7 else max(budget // rest - 1, 0)
        es = fill(pat, vals)
        if prod1(es) <= M and all(0 <= e <= M for e in es):
            res.append(es)
    return res


def stride_tuples(rng, t, es, n):
    """valid layout_stride strides: every permutation class x {tight, one gap, all gaps}, one-element
    dimensions with huge strides; span (zeros as one) representable"""
    M = imax(t)
    R = len(es)
    if R == 0:
        return [[]]
    out = []
    perms = list(itertools.permutations(range(R))) if R <= 3 else [tuple(rng.sample(range(R), R)) for _ in range(6)]
    rng.shuffle(perms)
    for p in perms:
        for gapmode in (0, 1, 2):
            ss = [0] * R
            cur = 1 if gapmode != 2 else rng.choice([1, 2, 3])
            gap_at = rng.randrange(R)
            for n_, d in enumerate(p):
                if gapmode == 2 or (gapmode == 1 and n_ == gap_at):
                    cur += rng.choice([1, 2, 5])
                ss[d] = cur
                cur = cur * max(es[d], 1)
            # one-element dimension: stride may be huge (it never contributes to the span)
            ones = [d for d in range(R) if es[d] == 1]
            if ones and rng.random() < 0.3:
                d = rng.choice(ones)
                # must stay orderable: put it above everything else
                top = max(ss[k] * max(es[k], 1) for k in range(R) if k != d) if R > 1 else 1
                ss[d] = rng.choice([M, max(top, M // 2), max(top, 1)])
            span = 1 + sum((max(e, 1) - 1) * s for e, s in zip(es, ss))
            if span <= M and all(0 < s <= M for s in ss):
                out.append(ss)
            if len(out) >= n:
                return out
    return out


def index_points(rng, es, k):
    """corner points and seeded interior points of the index space"""
    R = len(es)
    pts = set()
    for mask in range(min(1 << R, 16)):
        pts.add(tuple((es[d] - 1) if (mask >> d) & 1 else 0 for d in range(R)))
    for _ in range(k):
        pts.add(tuple(rng.randrange(e) for e in es))
    return sorted(pts)


ENUM_LIMIT = 512


def gen_cases(rng, insts, tier):
    """case lines (token lists) per instantiation.  Returns list of (inst, tokens, meta)."""
    cases = []
    nbox = 6 if tier == "quick" else 14
    nbnd = 5 if tier == "quick" else 12
    for inst in insts:
        t, R, M = inst.t, inst.rank(), imax(inst.t)
        ext_sets = []
        nd = sum(1 for p in inst.pat if p == DYN)
        # small box {0..3}^nd, seeded subset
        box = list(itertools.product(range(4), repeat=nd))
        rng.shuffle(box)
        for vals in box[:nbox]:
            ext_sets.append(("box", fill(inst.pat, vals)))
        for es in boundary_exts(rng, t, inst.pat, nbnd):
            ext_sets.append(("boundary", es))
        # "hidden product": a layout_stride mapping that is valid although the product of its non-zero
        # extents is not representable (a zero extent resets the stride chain) - size() and friends must
        # not evaluate that product in the signed index type
        hidden = []
        if inst.lay == 2 and R >= 3 and all(p == DYN for p in inst.pat):
            big = iroot(M, 2) + 1
            for z in (0, 1, R - 1):
                es = [1] * R
                ss = [1] * R
                nz = [k for k in range(R) if k != z]
                a, b = nz[0], nz[-1]
                es[z] = 0; es[a] = big; es[b] = big
                ss[a] = 1; ss[z] = big; ss[b] = 1
                top = big
                for k in nz[1:-1]:
                    es[k] = 1; ss[k] = top      # one-element dimensions: any stride
                if 1 + 2 * (big - 1) <= M:
                    hidden.append((es, ss))
        for es, ss in hidden:
            toks = [inst.id, t, inst.lay, inst.pv, R] + list(inst.pat) + [1] + list(es) + list(ss) + [0]
            cases.append((inst, toks, {"class": "hidden-product", "rank": R, "lay": 2, "t": t, "es": es, "ss": ss, "dpv": None,
                                       "ctor": 1, "pv": inst.pv, "pat": list(inst.pat), "enum": False}))
        # default construction: dynamic extents are 0, static ones as in the type
        des = [0 if p == DYN else p for p in inst.pat]
        if prod1(des) <= M and all(e <= M for e in des):
            ok = True
            if inst.lay in (3, 4) and R >= 2 and inst.pv != DYN:
                pad = des[inst.pad_pos()]
                ok = max(lm(inst.pv, pad), 1) * (prod1(des) // max(pad, 1)) <= M
            if ok:
                toks = [inst.id, t, inst.lay, inst.pv, R] + list(inst.pat) + [3] + des + (des if inst.lay == 2 else []) + ([-1] if (0 not in des and prod1(des) <= ENUM_LIMIT) else [0])
                cases.append((inst, toks, {"class": "default-ctor", "rank": R, "lay": inst.lay, "t": t, "es": des, "ss": [], "dpv": None, "ctor": 3,
                                           "pv": inst.pv, "pat": list(inst.pat), "enum": False}))
        for cls, es in ext_sets:
            if not all(0 <= e <= M for e in es) or prod1(es) > M:
                continue
            variants = []
            if inst.lay in (0, 1):
                variants.append((0, [], None))
            elif inst.lay == 2:
                for ss in stride_tuples(rng, t, es, 3 if tier == "quick" else 6):
                    variants.append((1, ss, None))
            else:
                pad = es[inst.pad_pos()] if R >= 1 else 0
                others = prod1(es) // max(pad, 1) if R >= 1 else 1
                # ctor 0: padding from the type
                if inst.pv == DYN:
                    variants.append((0, [], None))
                    for dpv in rng.sample([1, 2, 3, 4, 7, 8, 16, max(pad, 1), M], 3):
                        if R <= 1 or max(lm(dpv, pad), 1) * others <= M:
                            variants.append((2, [], dpv))
                elif inst.pv == 0 and R >= 2 and pad != 0:
                    pass            # no multiple of 0 is >= a non-zero extent: outside the domain of the padded layouts
                else:
                    if R <= 1 or max(lm(inst.pv, pad), 1) * others <= M:
                        variants.append((0, [], None))
                        if rng.random() < 0.3 and inst.pv <= M:
                            variants.append((2, [], inst.pv))      # run-time value must equal the static one
            if inst.lay in (3, 4) and R >= 2:
                # the padded mapping obtained by conversion from layout_stride::mapping(extents, strides): the strides
                # of a padded layout with some padded stride ps >= the padded extent (zero extents allowed where no
                # stride is a multiple of them: the padded and the outermost position)
                pad = es[inst.pad_pos()]
                inner = es[1:-1]
                cands = []
                if inst.pv == DYN:
                    cands = [max(pad, 1), pad + 1, pad + 3, 2 * pad + 1]
                elif pad > 0 and inst.pv > 0:
                    cands = [lm(inst.pv, pad)]
                if 0 not in inner and (inst.pat[inst.pad_pos()] == DYN or inst.pv == DYN or inst.pv == 0 or True):
                    for ps in rng.sample(cands, min(2, len(cands))):
                        if inst.lay == 3:
                            ss = [1] + [ps * prod1(es[1:k]) for k in range(1, R)]
                        else:
                            ss = [ps * prod1(es[k + 1:R - 1]) for k in range(R - 1)] + [1]
                        spanv = max(ps, 1) * prod1(es[1:] if inst.lay == 3 else es[:-1])
                        if all(0 < s <= M for s in ss) and spanv <= M and prod1(es) <= M:
                            variants.append((4, ss, None))
            for ctor, ss, dpv in variants:
                npts = prod1(es) if 0 not in es else 0
                toks = [inst.id, t, inst.lay, inst.pv, R] + list(inst.pat) + [ctor] + list(es)
                if inst.lay == 2 or ctor == 4:
                    toks += ss
                if ctor == 2:
                    toks.append(dpv)
                if 0 in es:
                    toks.append(0)
                elif npts <= ENUM_LIMIT:
                    toks.append(-1)
                else:
                    pts = index_points(rng, es, 6)
                    toks.append(len(pts))
                    for p in pts:
                        toks += list(p)
                meta = {"class": cls, "rank": R, "lay": inst.lay, "t": t, "es": es, "ss": ss, "dpv": dpv, "ctor": ctor,
                        "pv": inst.pv, "pat": list(inst.pat), "enum": (0 not in es and npts <= ENUM_LIMIT)}
                cases.append((inst, toks, meta))
    return cases


# --------------------------------------------------------------------------------------------------
# TU
# --------------------------------------------------------------------------------------------------
def tu_source(insts):
    lines = ['#include "drv_map.hpp"', "int main(int argc, char** argv) {",
             "  if (argc < 2) return 2;",
             "  return drv::for_each_case(argv[1], [](long caseno, const std::string& fam, drv::Toks& tk) {",
             "    long inst = (long)drv::parse_i128(tk.a.at(1));",
             "    switch (inst) {"]
    for i in insts:
        lines.append("      case %d: drv::run_map<%s, %d>(caseno, tk); break;" % (i.id, i.cpp_type(), i.lay))
    lines += ['      default: std::printf("M %ld no-such-inst\\n", caseno);', "    }", "  });", "}"]
    return "\n".join(lines) + "\n"


def parse_line(line):
    """'M 12 ext=.. span=..' -> (caseno, {field: str})"""
    parts = line.split()
    if len(parts) < 2:
        return None, {}
    d = {}
    for p in parts[2:]:
        if "=" in p:
            k, v = p.split("=", 1)
            d[k] = v
    try:
        return int(parts[1]), d
    except ValueError:
        return None, d


def ints(s):
    return [] if s in ("-", "", None) else [int(x) for x in s.split(",")]


def san_summary(stderr):
    for l in stderr.splitlines():
        if "runtime error" in l or "ERROR: AddressSanitizer" in l or "Assertion" in l or "WARNING: ThreadSanitizer" in l:
            return l.strip()[:400]
    return stderr.strip()[-300:]


def run_resilient(exe, lines, workdir, tag, max_restarts=25):
    max_restarts = int(os.environ.get('VERIF_MAX_RESTARTS', max_restarts))
    """run exe on the case lines; when the process dies, attribute the death to the case that was being
    executed (its id is printed before it runs) and continue with the cases after it.
    returns (list of output line or None per case, {case index: crash info})"""
    outs = [None] * len(lines)
    crashes = {}
    start = 0
    env = dict(os.environ)
    env["UBSAN_OPTIONS"] = "print_stacktrace=1:halt_on_error=1"
    env["ASAN_OPTIONS"] = "detect_leaks=0"
    env["TSAN_OPTIONS"] = "halt_on_error=1:exitcode=66:second_deadlock_stack=1"
    restarts = 0
    while start < len(lines):
        cf = os.path.join(workdir, "part-%s.txt" % tag)
        with open(cf, "w") as f:
            f.write("\n".join(lines[start:]) + "\n")
        rc, o, e = sh([exe, cf], timeout=1800, env=env)
        ol = o.splitlines()
        # a complete line has fields; the line being executed when the process died has only "M <n> "
        done = 0
        for l in ol:
            if len(l.split()) > 2:
                outs[start + done] = renumber(l, start + done)
                done += 1
            else:
                break
        if rc == 0 and done >= len(lines) - start:
            break
        if rc == 0:
            # protocol problem: fewer lines than cases, no crash
            break
        idx = start + done
        if idx >= len(lines):
            break
        crashes[idx] = {"rc": rc, "stderr": san_summary(e), "stderr_tail": e[-1500:]}
        outs[idx] = ""
        start = idx + 1
        restarts += 1
        if restarts > max_restarts:
            break
    return outs, crashes


def renumber(line, n):
    parts = line.split(" ", 2)
    if len(parts) >= 2:
        parts[1] = str(n)
    return " ".join(parts)


def cfg_class(cfg):
    return "14" if (cfg.endswith("14") or cfg.startswith("mx-gcc14") or cfg.startswith("mx-clang14")) else "std"


def run_family(rep, insts, cases, configs, workdir, model_exe, shard_by_type=True):
    """build the TUs (one per index type and configuration), run model and implementation on the same
    case files; returns list of result records: dict(inst, toks, meta, model:{}, impl:{cfg:{}|None}, raw).
    C++14 configurations only see left/right/stride instantiations (no padded layouts in C++14)."""
    os.makedirs(workdir, exist_ok=True)
    records, build_fail = [], []
    classes = sorted(set(cfg_class(c) for c in configs))
    all_recs = {}
    for cls in classes:
        ccfgs = [c for c in configs if cfg_class(c) == cls]
        ccases = [c for c in cases if cls == "std" or c[0].lay <= 2]
        by_t = {}
        for c in ccases:
            by_t.setdefault(c[0].t, []).append(c)
        jobs, jobmeta = [], []
        for t, cs in sorted(by_t.items()):
            used = sorted(set(c[0] for c in cs), key=lambda i: i.id)
            src = tu_source(used)
            for cfg in ccfgs:
                jobs.append(("map%d" % t, src, cfg))
                jobmeta.append((t, cfg))
        built = compile_many(jobs)
        exes = {}
        for (t, cfg), (exe, log) in zip(jobmeta, built):
            if exe is None:
                if not log.startswith("COMPILER-CRASH"):
                    build_fail.append((t, cfg, log))
            exes[(t, cfg)] = exe
        for t, cs in sorted(by_t.items()):
            cf = os.path.join(workdir, "cases-%s-%d.txt" % (cls, t))
            with open(cf, "w") as f:
                for (_, toks, _) in cs:
                    f.write("M " + " ".join(str(x) for x in toks) + "\n")
            rc, mlines, merr = run_lines([model_exe, cf])
            recs = []
            for n, (inst, toks, meta) in enumerate(cs):
                key = id(toks)
                if key in all_recs:
                    r = all_recs[key]
                else:
                    ml = mlines[n] if n < len(mlines) else ""
                    _, md = parse_line(ml)
                    r = {"inst": inst, "toks": toks, "meta": meta, "model": md, "impl": {}, "model_line": ml, "impl_line": {},
                         "casefile": cf, "lineno": n}
                    all_recs[key] = r
                    records.append(r)
                recs.append(r)
            for cfg in ccfgs:
                exe = exes.get((t, cfg))
                if exe is None:
                    for r in recs:
                        r["impl"][cfg] = None
                    continue
                lines_all = open(cf).read().splitlines()
                outs, crashes = run_resilient(exe, lines_all, workdir, "%s-%d-%s" % (cls, t, cfg))
                for n, r in enumerate(recs):
                    il = outs[n] if n < len(outs) and outs[n] is not None else ""
                    _, idd = parse_line(il)
                    r["impl"][cfg] = idd if outs[n] is not None else None
                    r["impl_line"][cfg] = il
                for n, info in crashes.items():
                    recs[n]["impl"][cfg] = {}
                    recs[n]["crash"] = recs[n].get("crash", {})
                    recs[n]["crash"][cfg] = info
    return records, build_fail
