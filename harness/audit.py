"""audit.py — purity audit of /repo/include for C19: the Coq model treats every library operation as a
function of the (immutable) view / mapping / extents value.  That is licensed only if the headers keep no
hidden mutable or global state.  The audit parses the public headers with clang (AST, JSON) in several
language modes and fails on
  * any variable of static storage duration (namespace scope, static data member, function-local static
    or thread_local) that is not constexpr / const,
  * any `mutable` data member,
  * any const_cast,
inside namespace Kokkos (all library code lives there), and additionally scans the header text (comments
stripped) for the tokens mutable / thread_local / const_cast / volatile / std::atomic, which also covers
preprocessor branches not compiled in the audited modes."""
import json, os, re, subprocess, sys

INCLUDE = os.environ.get("VERIF_AUDIT_INCLUDE", "/repo/include")
TU = "#include <mdspan/mdspan.hpp>\n#include <mdspan/mdarray.hpp>\n"
MODES = [("clang++", "-std=c++17"), ("clang++", "-std=c++20"), ("clang++", "-std=c++2b"), ("clang++", "-std=c++14 -Wno-c++17-extensions")]
FUNC_KINDS = {"FunctionDecl", "CXXMethodDecl", "CXXConstructorDecl", "CXXDestructorDecl", "CXXConversionDecl", "LambdaExpr"}


def const_object(qual):
    q = qual.strip()
    if "*" in q:
        return bool(re.search(r"\*\s*const\b[^*]*$", q))
    return bool(re.search(r"(^|\s)const(\s|$)", q))


def walk(node, in_func, state, out):
    if not isinstance(node, dict):
        return
    loc = node.get("loc") or {}
    for l in (loc, loc.get("spellingLoc") or {}, loc.get("expansionLoc") or {}):
        if "file" in l:
            state["file"] = l["file"]
        if "line" in l:
            state["line"] = l["line"]
    k = node.get("kind")
    where = "%s:%s" % (state.get("file", "?"), state.get("line", "?"))
    if k == "VarDecl":
        static_dur = (not in_func) or node.get("storageClass") == "static" or "tls" in node
        if static_dur and not node.get("constexpr") and not const_object((node.get("type") or {}).get("qualType", "")):
            out.append(("static-mutable-variable", node.get("name", "?"), (node.get("type") or {}).get("qualType", ""), where))
        if "tls" in node:
            out.append(("thread_local", node.get("name", "?"), "", where))
    elif k == "FieldDecl" and node.get("mutable"):
        out.append(("mutable-member", node.get("name", "?"), (node.get("type") or {}).get("qualType", ""), where))
    elif k == "CXXConstCastExpr":
        out.append(("const_cast", "", (node.get("type") or {}).get("qualType", ""), where))
    inner_func = in_func or k in FUNC_KINDS
    for c in node.get("inner", []) or []:
        walk(c, inner_func, state, out)


def strip_comments(text):
    text = re.sub(r"/\*.*?\*/", lambda m: "\n" * m.group(0).count("\n"), text, flags=re.S)
    return re.sub(r"//[^\n]*", "", text)


def text_scan():
    out = []
    for root, _, files in os.walk(INCLUDE):
        for f in sorted(files):
            p = os.path.join(root, f)
            try:
                txt = strip_comments(open(p, errors="replace").read())
            except OSError:
                continue
            for n, line in enumerate(txt.splitlines(), 1):
                for tok in ("mutable", "thread_local", "const_cast", "volatile"):
                    if re.search(r"\b%s\b" % tok, line):
                        out.append(("token:" + tok, "", line.strip()[:120], "%s:%d" % (p, n)))
                if re.search(r"\bstd::atomic\b|\batomic_", line):
                    out.append(("token:atomic", "", line.strip()[:120], "%s:%d" % (p, n)))
                # a function-local or class static that is not constexpr / const / a function
                m = re.match(r"\s*(?:MDSPAN_\w+\s+)*(?:inline\s+)?static\s+(?!constexpr|const\b|inline\s+constexpr|MDSPAN|_MDSPAN|void\b)([^;(){}=]*)(=[^;]*)?;", line)
                if m and "(" not in line.split(";")[0]:
                    out.append(("token:static-data", "", line.strip()[:120], "%s:%d" % (p, n)))
    return out


def run(workdir):
    """returns dict(findings=[...], modes=[...], nodes=int, error=str|None)"""
    os.makedirs(workdir, exist_ok=True)
    src = os.path.join(workdir, "audit_tu.cpp")
    open(src, "w").write(TU)
    findings, modes, nodes, err = [], [], 0, None
    for comp, std in MODES:
        cmd = "%s %s -I%s -fsyntax-only -w -Xclang -ast-dump=json -Xclang -ast-dump-filter=Kokkos %s" % (comp, std, INCLUDE, src)
        p = subprocess.run(cmd, shell=True, capture_output=True, text=True, timeout=600)
        if p.returncode != 0:
            err = "audit TU does not parse in mode %s: %s" % (std, p.stderr[-600:])
            continue
        modes.append(std)
        text = re.sub(r"^Dumping [^\n]*\n", "", p.stdout, flags=re.M)
        dec = json.JSONDecoder()
        pos, n = 0, len(text)
        state = {}
        while pos < n:
            while pos < n and text[pos] in " \r\n\t":
                pos += 1
            if pos >= n:
                break
            try:
                obj, pos = dec.raw_decode(text, pos)
            except json.JSONDecodeError as e:
                err = "AST JSON of mode %s does not parse: %s" % (std, e)
                break
            nodes += text.count('"kind"', 0, 0)  # placeholder, counted below
            out = []
            walk(obj, False, state, out)
            for f in out:
                if f not in findings:
                    findings.append(f)
        nodes += text.count('"kind":')
    for f in text_scan():
        if f not in findings:
            findings.append(f)
    return {"findings": findings, "modes": modes, "nodes": nodes, "error": err}


if __name__ == "__main__":
    r = run(sys.argv[1] if len(sys.argv) > 1 else "/verif/.cache/work/audit")
    print(json.dumps(r, indent=1)[:4000])
