"""props_map.py — the checks decided through the shared mapping driver (family M):
C01 (range / injectivity), C02 (formula, strides), C05 (span), C07 (flags), C14 run-time half."""
import collections, glob, json, os, random
from common import *
import mapgen
from mapgen import Inst, DYN, LAYOUTS, ints, prod1

QUICK_CFGS = ["gcc23", "clang17"]
THOROUGH_CFGS = ["gcc23", "clang17", "gcc20", "gcc17", "clang20", "clang2b", "gcc23-O0", "clang17-emu", "gcc20-emu"]
SAN_CFGS = ["gcc23-san", "clang20-san"]


def inst_from_toks(toks):
    t, lay, pv, R = toks[1], toks[2], toks[3], toks[4]
    return Inst(t, lay, pv, toks[5:5 + R])


def load_corpus(fam="M"):
    out = []
    for f in sorted(glob.glob(os.path.join(ROOT, "corpus", fam, "*.case"))):
        for line in open(f):
            line = line.split("#")[0].strip()
            if line:
                toks = [int(x) for x in line.split()[1:]]
                out.append(toks)
    return out


def nontrivial_key(meta):
    es = meta["es"]
    if meta["rank"] >= 2 and 0 not in es and any(e > 1 for e in es):
        return (meta["t"], meta["lay"], tuple(es), tuple(meta["ss"] or []), meta["dpv"], meta["pv"], tuple(meta["pat"]))
    return None


# ---- property predicates evaluated on the implementation's own output -----------------------------
def impl_range_inj(meta, im):
    """C01 on the implementation's printed offsets: in [0, span) and pairwise distinct"""
    if im.get("offs") in (None, "UB") or im.get("span") in (None, "UB"):
        return None
    offs, span = ints(im["offs"]), int(im["span"])
    bad = [o for o in offs if not (0 <= o < span)]
    if bad:
        return "offset %d outside [0, %d)" % (bad[0], span)
    if len(set(offs)) != len(offs):
        c = collections.Counter(offs)
        return "offset %d produced by %d different multi-indices" % (c.most_common(1)[0])
    return None


def padded_span_ok(meta, im):
    """C05 for the padded layouts, from the implementation's output only"""
    es, R = [int(x) for x in ints(im["ext"])], meta["rank"]
    sp = int(im["span"])
    if 0 in es:
        return None if sp == 0 else "span %d for an empty index space" % sp
    if R == 0:
        return None if sp == 1 else "span %d for rank 0" % sp
    offs = ints(im["offs"])
    if offs and sp < max(offs) + 1:
        return "span %d < largest offset %d + 1" % (sp, max(offs))
    st = ints(im["st"])
    if R == 1:
        ub = es[0]
    else:
        ps = st[1] if meta["lay"] == 3 else st[R - 2]
        rest = es[1:] if meta["lay"] == 3 else es[:-1]
        ub = ps * prod1(rest)
    if sp > ub:
        return "span %d > padded stride * remaining extents = %d" % (sp, ub)
    return None


def judge(prop, r, cfg):
    """returns list of (field, message, failing_input_found)"""
    md, im, meta = r["model"], r["impl"][cfg], r["meta"]
    out = []
    if im is None:
        return out
    crashed = "crash" in r and cfg in r["crash"]
    if "ext" in md and md["ext"] == "UB":
        # the model says construction is undefined on an input the generator believes admissible
        out.append(("model", "model reports UB on a generated admissible input (generator or theorem hypothesis wrong)", False))
        return out
    if crashed:
        if prop == "C14" or True:
            out.append(("crash", "implementation terminated abnormally (rc=%s): %s" % (r["crash"][cfg]["rc"], r["crash"][cfg]["stderr"][-400:]), prop == "C14"))
        return out
    if not im:
        out.append(("protocol", "no output line from the implementation", False))
        return out

    def differs(f):
        return md.get(f) != im.get(f)

    if prop == "C01":
        msg = impl_range_inj(meta, im)
        if msg:
            out.append(("offs", msg, True))
        elif differs("offs") or (meta["lay"] <= 2 and differs("span")) or differs("ext"):
            out.append(("offs/span", "offsets or span differ from the proved model value (range/injectivity still hold on this input)", False))
    elif prop == "C02":
        for f in ("offs", "st", "strides", "ext"):
            if differs(f):
                out.append((f, "%s: implementation %s, specified %s" % (f, str(im.get(f))[:200], str(md.get(f))[:200]), True))
    elif prop == "C05":
        if meta["lay"] <= 2:
            if differs("span"):
                out.append(("span", "required_span_size %s, specified %s" % (im.get("span"), md.get("span")), True))
        else:
            msg = padded_span_ok(meta, im)
            if msg:
                out.append(("span", msg, True))
    elif prop == "C07":
        fm, fi = md.get("fl", ""), im.get("fl", "")
        if len(fi) != 6 or len(fm) != 6:
            out.append(("fl", "flags missing", False))
        else:
            names = ["is_unique", "is_exhaustive", "is_strided", "is_always_unique", "is_always_exhaustive", "is_always_strided"]
            empty = 0 in meta["es"]
            for k, nm in enumerate(names):
                if k == 1 and not empty:
                    if fi[k] != fm[k]:
                        out.append(("fl", "%s is %s but the mapping %s its span" % (nm, fi[k], "covers" if fm[k] == "1" else "does not cover"), True))
                elif fi[k] == "1" and fm[k] == "0":
                    # overstated: true although the model (proved sound) says it does not hold
                    if k == 1 and empty and im.get("span") == "0":
                        continue     # vacuous cover of an empty span: never an overstatement
                    out.append(("fl", "%s overstated" % nm, True))
        if im.get("mfl") != im.get("fl"):
            out.append(("mfl", "mdspan reports %s but its mapping reports %s" % (im.get("mfl"), im.get("fl")), True))
        afl = im.get("afl")
        if afl and len(afl) == 6 and len(fi) == 6 and any(a != "x" and a != b for a, b in zip(afl, fi)):
            out.append(("afl", "mdarray reports %s (is_unique, is_exhaustive, is_strided, is_always_unique, is_always_exhaustive, is_always_strided; x = no instance built) but its mapping reports %s" % (afl, fi), True))
    elif prop == "C13":
        for f in ("sz", "emp", "mext", "mst", "rk", "sext"):
            if differs(f):
                out.append((f, "%s: mdspan reports %s, extents/mapping give %s" % (f, im.get(f), md.get(f)), True))
        if im.get("mext") != im.get("ext") or im.get("mst") != im.get("st"):
            out.append(("mext", "mdspan extent()/stride() differ from its own mapping's", True))
    elif prop == "C14":
        pass
    elif prop == "C15":
        for f in sorted(md):
            if differs(f):
                out.append((f, "in configuration %s %s is %s, every configuration must give %s" % (cfg, f, str(im.get(f))[:160], str(md.get(f))[:160]), True))
                break
    return out


def write_case_replay(rep, prop, r, cfg, issues):
    inst = r["inst"]
    detail = {
        "family": "M", "config": cfg, "instantiation": inst.desc(), "cpp_type": inst.cpp_type(),
        "case_tokens": r["toks"], "meta": r["meta"],
        "model_line": r["model_line"], "impl_line": r["impl_line"].get(cfg, ""),
        "issues": [{"field": f, "message": m} for (f, m, _) in issues],
        "replay_cmd": "./check %s --replay <this file>" % prop,
        "signature": "M:%s:%s:%s" % (LAYOUTS[inst.lay], issues[0][0], " ".join(str(x) for x in r["toks"][1:])),
    }
    found = any(x[2] for x in issues)
    rep.violation(issues[0][1], detail, no_failing_input=not found)


def size_of(r):
    return (r["meta"]["rank"], sum(abs(x) for x in r["meta"]["es"]) + sum(r["meta"]["ss"] or []), len(r["toks"]))


def collect(rep, prop, tier, seed, exe, configs=None, replay=None):
    """run the mapping family for `prop`, record violations in rep, return the coverage facts"""
    rng = random.Random(seed * 7919 + 17)
    if configs is None:
        configs = pick_configs(None)
    if configs is None:
        configs = list(QUICK_CFGS if tier == "quick" else THOROUGH_CFGS)
        if prop == "C14":
            configs = SAN_CFGS if tier == "quick" else SAN_CFGS + ["gcc23", "clang17"]
        if prop == "C13":
            configs += ["gcc14", "clang14"]
    if replay:
        rp = json.load(open(replay))
        if rp.get("family") != "M":
            print("replay: not a family-M replay:", rp.get("obligation", rp.get("what")))
            return {"evaluations": 0, "distinct_nontrivial": 0}
        toks = rp["case_tokens"]
        inst = inst_from_toks(toks); inst.id = toks[0]
        meta = rp["meta"]
        cases = [(inst, toks, meta)]
        insts = [inst]
        configs = [rp["config"]]
    else:
        insts = mapgen.gen_insts(rng, tier)
        if is_scaled():
            insts = sorted(rng.sample(insts, scaled(len(insts))), key=lambda i: i.id)
            for n_, i_ in enumerate(insts):
                i_.id = n_
        cases = mapgen.gen_cases(rng, insts, tier)
        # corpus first: minimised failures of earlier runs
        corp = []
        for toks in load_corpus("M"):
            inst = inst_from_toks(toks)
            if not inst.instantiable():
                continue
            inst.id = len(insts); toks = [inst.id] + toks[1:]
            insts.append(inst)
            R = inst.rank()
            es = toks[5 + R + 1: 5 + R + 1 + R]
            ss = toks[5 + 2 * R + 1: 5 + 3 * R + 1] if inst.lay == 2 else []
            corp.append((inst, toks, {"class": "corpus", "rank": R, "lay": inst.lay, "t": inst.t, "es": es, "ss": ss, "dpv": None,
                                      "ctor": toks[5 + R], "pv": inst.pv, "pat": list(inst.pat), "enum": False}))
        cases = corp + cases
    work = os.path.join(CACHE, "work", "%s-%s" % (prop, tier))
    records, build_fail = mapgen.run_family(rep, insts, cases, configs, work, exe)
    for (t, cfg, blog) in build_fail:
        rep.violation("mapping driver no longer builds for %s in configuration %s" % (ITYS[t], cfg),
                      {"obligation": "corr:map/build/%s/%s" % (ITYS[t], cfg), "log": blog[-3000:], "signature": "build:%s:%s" % (t, cfg)}, True)
    # judge
    evaluations, nontriv, hist = 0, set(), collections.Counter()
    flagged = []
    for r in records:
        for cfg in configs:
            if r["impl"].get(cfg) is None:
                continue
            evaluations += 1
            issues = judge(prop, r, cfg)
            if issues:
                flagged.append((r, cfg, issues))
        k = nontrivial_key(r["meta"])
        if k:
            nontriv.add(k)
        m = r["meta"]
        hist["rank=%d" % m["rank"]] += 1
        hist["layout=%s" % LAYOUTS[m["lay"]]] += 1
        hist["type=%s" % ITYS[m["t"]]] += 1
        hist["class=%s" % m["class"]] += 1
        hist["zero_extent" if 0 in m["es"] else "nonempty"] += 1
    incoq_n = 0
    if tier == "thorough" and not replay and not is_scaled():
        import incoq
        smp = [r for r in records if r.get("model_line")]
        smp = random.Random(seed + 99).sample(smp, min(60, len(smp)))
        incoq_n = incoq.cross_check(rep, prop, "M", [(r["toks"], r["model_line"]) for r in smp], os.path.join(work, "incoq"))
    # report: one violation per (field kind, layout), smallest case first
    flagged.sort(key=lambda x: size_of(x[0]))
    seen = set()
    for (r, cfg, issues) in flagged:
        key = (issues[0][0], r["inst"].lay, issues[0][2])
        if key in seen and len(seen) >= 1:
            continue
        seen.add(key)
        write_case_replay(rep, prop, r, cfg, issues)
        if len(seen) >= 6:
            break
    return {
        "evaluations": evaluations,
        "distinct_nontrivial": len(nontriv),
        "rule": "cases = seeded (instantiation, extents, strides/padding, constructor) tuples: small box {0..3}^rank, boundary lattice around imax(index_type), "
                "stride permutations x {tight, one gap, all gaps}; every multi-index enumerated when the space has <= %d points, else corners + seeded interior points. "
                "non-trivial = distinct (type, layout, extents, strides, padding) with rank >= 2, non-empty index space and a non-unit extent" % mapgen.ENUM_LIMIT,
        "programs": len(insts) * len(configs),
        "instantiations": len(insts), "configurations": configs, "evaluated_inside_coq_too": incoq_n,
        "disagreements_checked": len(flagged),
        "input_distribution": dict(sorted(hist.items())),
        "samples": [{"case": "M " + " ".join(str(x) for x in r["toks"]), "instantiation": r["inst"].desc(), "model": r["model_line"][:300]}
                    for r in (records[:: max(1, len(records) // 5)][:5])],
        "exhaustive": False,
    }


def finish_common(rep, prop, covs):
    """proof breakage + merged coverage"""
    if getattr(rep, "proof_broken", False):
        rep.violation("theorem(s) of %s no longer check: %s" % (prop, ", ".join(rep.broken_theorems) or "Properties file"),
                      {"obligation": "proof:Properties_%s" % prop, "theorems": rep.broken_theorems, "log": rep.proof_log,
                       "signature": "proof:%s" % prop}, no_failing_input=not any(not nf for (_, nf) in rep.violations))
    if len(covs) == 1:
        rep.cov.update(covs[0])
    else:
        merged = {"evaluations": 0, "distinct_nontrivial": 0, "programs": 0, "disagreements_checked": 0, "samples": [], "exhaustive": False,
                  "rule": " || ".join(c.get("rule", "") for c in covs), "configurations": [], "input_distribution": {}}
        for c in covs:
            for k in ("evaluations", "distinct_nontrivial", "programs", "disagreements_checked"):
                merged[k] += c.get(k, 0)
            merged["samples"] += c.get("samples", [])[:3]
            merged["configurations"] += [x for x in c.get("configurations", []) if x not in merged["configurations"]]
            for k, v in c.get("input_distribution", {}).items():
                merged["input_distribution"][k] = merged["input_distribution"].get(k, 0) + v
        rep.cov.update(merged)


def run_property(prop, tier, seed, configs=None, replay=None):
    rep = Report(prop, tier, seed)
    prove_section(rep, prop)
    exe, log = build_model()
    if exe is None:
        rep.violation("the Coq model or its extraction no longer builds", {"obligation": "build:model", "log": log[-3000:], "signature": "build:model"}, True)
        return rep.finish()
    cov = collect(rep, prop, tier, seed, exe, configs, replay)
    finish_common(rep, prop, [cov])
    rep.assumptions = ["index arithmetic of C++ (promotion, conversions, overflow) as modelled in coq/MachInt.v",
                       "the generator only produces inputs inside the quantifier domain; inputs it never produces are not tied"]
    prune_cache()
    return rep.finish()
