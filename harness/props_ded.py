"""props_ded.py — C17: deduction guides, member types, noexcept (family G, compile-time)."""
import collections, itertools, json, os, random
from common import *
from mapgen import DYN, ints
from progdrv import Prog, run_programs
from props_map import finish_common
from props_cst import E, M, A, D, rand_ext, rand_map, rand_acc, rand_mds, BASES, LAYN

NOEXCEPT_NAMES = {
    0: ["extents::rank()", "rank_dynamic()", "static_extent(r)", "extent(r)", "operator==", "operator!=", "extents()", "extents(const extents&)", "extents(array of all)", "extents(array of dynamic)"],
    1: ["mapping::extents()", "required_span_size()", "operator()(i...)", "is_always_unique()", "is_always_exhaustive()", "is_always_strided()", "is_unique()", "is_exhaustive()", "is_strided()",
        "stride(r)", "operator==", "mapping(const mapping&)", "operator=(const mapping&)", "-"],
    2: ["converting constructor"],
    3: ["mapping()", "mapping(const extents_type&)"],
    4: ["mdspan::size()", "empty()", "extent(r)", "rank()", "rank_dynamic()", "static_extent(r)", "extents()", "data_handle()", "mapping()", "accessor()", "swap"],
}


def elt(rng):
    return (rng.randrange(2), rng.random() < 0.35)


def elt_cpp(e):
    return ("const " if e[1] else "") + BASES[e[0]]


def elt_toks(e):
    return [e[0], int(e[1])]


def gen(rng, tier):
    progs, cases, hist = [], [], collections.Counter()
    seen = set()
    want = 900 if tier == "quick" else 8000
    def add(call, desc, toks, meta):
        key = tuple(toks[1:])
        if key in seen:
            return
        seen.add(key)
        pr = Prog(call, desc)
        progs.append(pr); cases.append((pr, toks, meta)); hist["query=%s" % meta["q"]] += 1
    tries = 0
    while len(progs) < want and tries < want * 20:
        tries += 1
        k = rng.choice(["extpack", "mdspack", "mdspack", "ptr", "carray", "array", "array", "ext", "ext", "map", "map", "mapacc", "mapacc", "mapping", "mapping", "dext", "mext", "mmap", "mmds", "marr",
                        "ne0", "ne1", "ne1", "ne2", "ne3", "ne4"])
        if k in ("extpack", "mdspack"):
            n = rng.choice([1, 1, 2, 3, 4, 6]) if k == "mdspack" else rng.choice([0, 1, 2, 3, 5])
            args = [rng.randrange(8) for _ in range(n)]
            av = ", ".join("%s{}" % ("(%s)" % CTYPES[a] if " " in CTYPES[a] else CTYPES[a]) for a in args)
            av = ", ".join("std::declval<%s>()" % CTYPES[a] for a in args)
            if k == "extpack":
                add("drv::g_desc<decltype(Kokkos::extents(%s))>(caseno)" % av, "extents(%s)" % ", ".join(CTYPES[a] for a in args), [None, 0, 0, n] + args, {"q": "CTAD extents(ints...)", "rank": n})
            else:
                el = elt(rng)
                add("drv::g_desc<decltype(Kokkos::mdspan(std::declval<%s*>(), %s))>(caseno)" % (elt_cpp(el), av), "mdspan(%s*, %s)" % (elt_cpp(el), ", ".join(CTYPES[a] for a in args)),
                    [None, 0, 1] + elt_toks(el) + [n] + args, {"q": "CTAD mdspan(ptr, ints...)", "rank": n})
        elif k == "ptr":
            el = elt(rng)
            form = rng.choice(["%s*", "%s*&", "%s* const&"])
            add("drv::g_desc<decltype(Kokkos::mdspan(std::declval<%s>()))>(caseno)" % (form % elt_cpp(el)), "mdspan(%s)" % (form % elt_cpp(el)), [None, 0, 2] + elt_toks(el), {"q": "CTAD mdspan(pointer)", "rank": 0})
        elif k == "carray":
            el = elt(rng); n = rng.choice([1, 2, 5, 17])
            add("drv::g_desc<decltype(Kokkos::mdspan(std::declval<%s(&)[%d]>()))>(caseno)" % (elt_cpp(el), n), "mdspan(%s(&)[%d])" % (elt_cpp(el), n), [None, 0, 3] + elt_toks(el) + [n], {"q": "CTAD mdspan(C array)", "rank": 1})
        elif k == "array":
            el = elt(rng); t = rng.randrange(8); n = rng.choice([0, 1, 2, 3, 4])
            which = rng.choice(["array", "span"])
            if which == "array":
                add("drv::g_desc<decltype(Kokkos::mdspan(std::declval<%s*>(), std::declval<const std::array<%s, %d>&>()))>(caseno)" % (elt_cpp(el), CTYPES[t], n), "mdspan(%s*, array<%s,%d>)" % (elt_cpp(el), CTYPES[t], n),
                    [None, 0, 4] + elt_toks(el) + [t, n], {"q": "CTAD mdspan(ptr, array)", "rank": n})
            else:
                pr_call = "drv::g_desc<decltype(Kokkos::mdspan(std::declval<%s*>(), std::declval<std::span<%s, %d>>()))>(caseno)" % (elt_cpp(el), CTYPES[t], n)
                add(pr_call, "mdspan(%s*, span<%s,%d>)" % (elt_cpp(el), CTYPES[t], n), [None, 0, 4] + elt_toks(el) + [t, n, 0], {"q": "CTAD mdspan(ptr, span)", "rank": n, "needs_span": True})
        elif k == "ext":
            el = elt(rng); e = rand_ext(rng)
            add("drv::g_desc<decltype(Kokkos::mdspan(std::declval<%s*>(), std::declval<const %s&>()))>(caseno)" % (elt_cpp(el), e.cpp()), "mdspan(%s*, %s)" % (elt_cpp(el), e.desc()),
                [None, 0, 5] + elt_toks(el) + e.toks(), {"q": "CTAD mdspan(ptr, extents)", "rank": len(e.pat)})
        elif k == "map":
            el = elt(rng); m = rand_map(rng)
            add("drv::g_desc<decltype(Kokkos::mdspan(std::declval<%s*>(), std::declval<const %s&>()))>(caseno)" % (elt_cpp(el), m.cpp()), "mdspan(%s*, %s)" % (elt_cpp(el), m.desc()),
                [None, 0, 6] + elt_toks(el) + m.toks(), {"q": "CTAD mdspan(ptr, mapping)", "rank": len(m.e.pat)})
        elif k == "mapacc":
            m = rand_map(rng); a = rand_acc(rng)
            add("drv::g_desc<decltype(Kokkos::mdspan(std::declval<typename %s::data_handle_type>(), std::declval<const %s&>(), std::declval<const %s&>()))>(caseno)" % (a.cpp(), m.cpp(), a.cpp()),
                "mdspan(handle, %s, %s)" % (m.desc(), a.desc()), [None, 0, 7] + m.toks() + a.toks(), {"q": "CTAD mdspan(handle, mapping, accessor)", "rank": len(m.e.pat)})
        elif k == "mapping":
            m = rand_map(rng)
            if m.lay > 2:
                continue
            if m.lay == 2:
                call = "drv::g_desc_map<decltype(Kokkos::layout_stride::mapping(std::declval<const %s&>(), std::declval<const std::array<%s, %d>&>()))>(caseno)" % (m.e.cpp(), CTYPES[rng.randrange(8)], len(m.e.pat))
            else:
                call = "drv::g_desc_map<decltype(%s::mapping(std::declval<const %s&>()))>(caseno)" % (m.lcpp(), m.e.cpp())
            add(call, "%s::mapping(%s)" % (LAYN[m.lay], m.e.desc()), [None, 0, 8] + m.toks(), {"q": "CTAD Layout::mapping(extents)", "rank": len(m.e.pat)})
        elif k == "dext":
            t = rng.randrange(8); n = rng.choice([0, 1, 2, 3, 5, 8])
            add("drv::g_desc<Kokkos::dextents<%s, %d>>(caseno)" % (CTYPES[t], n), "dextents<%s,%d>" % (ITYS[t], n), [None, 1, t, n], {"q": "dextents alias", "rank": n})
        elif k == "mext":
            e = rand_ext(rng)
            add("drv::g_members_ext<%s>(caseno)" % e.cpp(), "member types of %s" % e.desc(), [None, 2] + e.toks(), {"q": "member types: extents", "rank": len(e.pat)})
        elif k == "mmap":
            m = rand_map(rng)
            add("drv::g_members_map<%s, %s, %s>(caseno)" % (m.cpp(), m.e.cpp(), m.lcpp()), "member types of %s" % m.desc(), [None, 3] + m.toks(), {"q": "member types: mapping", "rank": len(m.e.pat)})
        elif k == "mmds":
            d = rand_mds(rng)
            if d.a.k == 0 and rng.random() < 0.3:
                # volatile-qualified element types (value_type is remove_cv_t, not remove_const_t); the model's answer does not depend on the qualifier
                el = ("const " if d.a.const else "") + "volatile " + BASES[d.a.base]
                acc = "Kokkos::default_accessor<%s>" % el
                mdt = "Kokkos::mdspan<%s, %s, %s, %s>" % (el, d.m.e.cpp(), d.m.lcpp(), acc)
                add("drv::g_members_mds<%s, %s, %s, %s, %s>(caseno)" % (mdt, el, d.m.e.cpp(), d.m.lcpp(), acc), "member types of mdspan<%s, %s>" % (el, d.m.desc()),
                    [None, 4] + d.toks() + [1], {"q": "member types: mdspan over a volatile element type", "rank": len(d.m.e.pat)})
                continue
            add("drv::g_members_mds<%s, %s, %s, %s, %s>(caseno)" % (d.cpp(), d.a.el(), d.m.e.cpp(), d.m.lcpp(), d.a.cpp()), "member types of %s" % d.desc(), [None, 4] + d.toks(), {"q": "member types: mdspan", "rank": len(d.m.e.pat)})
        elif k == "marr":
            m = rand_map(rng); base = BASES[rng.randrange(2)]
            ctr = rng.choice(["std::vector<%s>" % base, "std::array<%s, 64>" % base])
            arr = "Kokkos::Experimental::mdarray<%s, %s, %s, %s>" % (base, m.e.cpp(), m.lcpp(), ctr)
            d = D(m, A(0, BASES.index(base), False))
            add("drv::g_members_arr<%s, %s, %s, %s>(caseno)" % (arr, base, m.e.cpp(), m.lcpp()), "member types of mdarray<%s, %s, %s>" % (base, m.desc(), ctr), [None, 4] + d.toks() + [0], {"q": "member types: mdarray", "rank": len(m.e.pat)})
        elif k == "ne0":
            e = rand_ext(rng)
            add("drv::g_noexcept_ext<%s>(caseno)" % e.cpp(), "noexcept: %s" % e.desc(), [None, 5, 0, 10] + e.toks(), {"q": "noexcept: extents", "rank": len(e.pat), "ne": 0})
        elif k == "ne1":
            m = rand_map(rng)
            add("drv::g_noexcept_map<%s>(caseno)" % m.cpp(), "noexcept observers: %s" % m.desc(), [None, 5, 1, 14] + m.toks(), {"q": "noexcept: mapping observers", "rank": len(m.e.pat), "ne": 1})
        elif k == "ne2":
            s = rand_map(rng); d = rand_map(rng, near=s)
            if s.lay > 2 or d.lay > 2:
                continue
            add("drv::g_noexcept_conv<%s, %s>(caseno)" % (d.cpp(), s.cpp()), "noexcept conversion %s <- %s" % (d.desc(), s.desc()), [None, 5, 2, 1] + s.toks() + d.toks(), {"q": "noexcept: mapping conversion", "rank": len(s.e.pat), "ne": 2})
        elif k == "ne3":
            m = rand_map(rng)
            if m.lay > 2:
                continue
            add("drv::g_noexcept_ctor<%s>(caseno)" % m.cpp(), "noexcept construction %s" % m.desc(), [None, 5, 3, 2] + m.toks(), {"q": "noexcept: mapping construction", "rank": len(m.e.pat), "ne": 3})
        else:
            d = rand_mds(rng)
            add("drv::g_noexcept_mds<%s>(caseno)" % d.cpp(), "noexcept: %s" % d.desc(), [None, 5, 4, 11] + d.toks(), {"q": "noexcept: mdspan", "rank": len(d.m.e.pat), "ne": 4})
    for n, p in enumerate(progs):
        p.id = n
        m = [c for c in cases if c[0] is p][0][2] if False else None
    for c in cases:
        c[1][0] = c[0].id
        if c[2].get("needs_span"):
            c[0].cfg_ok = lambda cfg: cfg not in ("gcc17", "clang17", "clang17-emu")
    return progs, cases, hist


def judge(r, cfg):
    md, im, meta = r["model"], r["impl"].get(cfg), r["meta"]
    if im is None:
        return []
    if "crash" in r and cfg in r["crash"]:
        return [("crash", "implementation terminated abnormally: " + r["crash"][cfg]["stderr"], True)]
    want, got = ints(md.get("r")), ints(im.get("r"))
    if want == got:
        return []
    q = meta["q"]
    if q.startswith("noexcept"):
        names = NOEXCEPT_NAMES[meta["ne"]]
        bad = [names[k] if k < len(names) else str(k) for k, (g, w) in enumerate(zip(got, want)) if g != w]
        return [("r", "%s: not noexcept: %s" % (r["prog"].desc, ", ".join(bad)), True)]
    if q.startswith("member types"):
        names = ["index_type", "size_type", "rank_type", "extents_type", "layout_type", "accessor_type / mdspan_type", "mapping_type", "element_type", "value_type", "data_handle_type / pointer", "reference"]
        bad = ["%s (code %s, expected %s)" % (names[k] if k < len(names) else k, g, w) for k, (g, w) in enumerate(zip(got, want)) if g != w]
        return [("r", "%s: wrong member type: %s" % (r["prog"].desc, ", ".join(bad)), True)]
    return [("r", "%s deduces / names the type %s, specified %s (encoding: kind, [element base, const,] [layout, padding,] index type, rank, static extents..., [accessor kind, base, const, id])" % (r["prog"].desc, got, want), True)]


def collect(rep, prop, tier, seed, exe, replay=None):
    rng = random.Random(seed * 17320508 + 11)
    if tier == "quick":
        configs = ["gcc23", "clang17", "clang20", "gcc17"]
    else:
        configs = ["gcc23", "gcc20", "gcc17", "clang17", "clang20", "clang2b", "gcc20-emu", "clang17-emu"]
    if replay:
        rp = json.load(open(replay))
        pr = Prog(rp["call"], rp["program"]); pr.id = rp["case_tokens"][0]
        progs, cases, hist = [pr], [(pr, rp["case_tokens"], rp.get("meta", {}))], {}
        configs = [rp["config"]]
    else:
        progs, cases, hist = gen(rng, tier)
    work = os.path.join(CACHE, "work", "%s-%s" % (prop, tier))
    records, build_fail = run_programs("G", "drv_ded.hpp", progs, cases, configs, work, exe, nshards=16, name="ded")
    for (sh_, cfg, blog) in {c: (s_, c, l) for (s_, c, l) in reversed(build_fail)}.values():
        rep.violation("deduction driver shard %s no longer builds in configuration %s" % (sh_, cfg),
                      {"obligation": "corr:ded/build/%s/%s" % (sh_, cfg), "log": blog[-3000:], "signature": "build:ded:%s" % cfg}, True)
    evaluations, flagged, nontriv = 0, [], set()
    for r in records:
        for cfg in configs:
            if r["impl"].get(cfg) is None:
                continue
            evaluations += 1
            iss = judge(r, cfg)
            if iss:
                flagged.append((r, cfg, iss))
        if r["meta"].get("rank", 0) >= 1:
            nontriv.add(tuple(str(x) for x in r["toks"][1:]))
    flagged.sort(key=lambda x: len(x[0]["toks"]))
    seen = set()
    for (r, cfg, iss) in flagged:
        key = (r["meta"]["q"], cfg)
        if key in seen:
            continue
        seen.add(key)
        rep.violation(iss[0][1], {"family": "G", "config": cfg, "program": r["prog"].desc, "call": r["prog"].call,
                                  "case_tokens": r["toks"], "meta": r["meta"], "model_line": r["model_line"],
                                  "impl_line": r["impl_line"].get(cfg, ""), "issues": [{"field": f, "message": m} for (f, m, _) in iss],
                                  "signature": "G:%s" % r["prog"].desc}, no_failing_input=not any(x[2] for x in iss))
        if len(seen) >= 8:
            break
    return {
        "evaluations": evaluations, "distinct_nontrivial": len(nontriv),
        "rule": "queries = decltype of every class-template-argument-deduction form (extents(ints...), mdspan(ptr, ints...), mdspan(pointer / pointer& / const pointer&), mdspan(1-D C array), mdspan(ptr, array | span), "
                "mdspan(ptr, extents), mdspan(ptr, mapping), mdspan(handle, mapping, accessor), Layout::mapping(extents [, strides]) for layout_left / right / stride) over argument-type combinations (all integer widths, element int / double, const or not, "
                "generated extents / mapping / accessor types), printed through a canonical type describer and compared with the model's deduction table; dextents<I,N>; the member types of generated extents / mapping / mdspan / mdarray "
                "instantiations (index_type, size_type = unsigned counterpart, rank_type = size_t by type code; mapping_type, extents_type, layout_type, accessor_type, element_type, value_type, data_handle_type, reference by is_same); "
                "noexcept(expr) of the operations the standard declares noexcept (extents observers / construction, mapping observers of all five layouts, construction and conversion of layout_left / right / stride, mdspan size / empty / "
                "observers / swap). non-trivial = rank >= 1",
        "programs": len(progs) * len(configs), "configurations": configs, "disagreements_checked": len(flagged),
        "input_distribution": dict(sorted(hist.items())) if hist else {},
        "samples": [{"case": r["case_line"], "program": r["prog"].desc[:300], "model": r["model_line"][:300]} for r in records[:: max(1, len(records) // 5)][:5]],
        "exhaustive": False,
    }


def run_property(prop, tier, seed, replay=None):
    rep = Report(prop, tier, seed)
    prove_section(rep, prop)
    exe, log = build_model()
    if exe is None:
        rep.violation("the Coq model or its extraction no longer builds", {"obligation": "build:model", "log": log[-3000:], "signature": "build:model"}, True)
        return rep.finish()
    cov = collect(rep, prop, tier, seed, exe, replay)
    finish_common(rep, prop, [cov])
    rep.assumptions = ["class template argument deduction and noexcept evaluation by g++ 12 / clang++ 14 are trusted / observed",
                       "the noexcept table covers the operations of the C++23 standard text ([mdspan.extents], [mdspan.layout.left/right/stride], [mdspan.mdspan]); for the padded layouts (P2642) only the observers are included",
                       "the theorems for this property are consistency facts about the deduction table; its substance is decided by the compile-time comparison"]
    prune_cache()
    return rep.finish()
