"""props_sub.py — family S (submdspan): C04 (aliasing, extents, chains), C10 (containment),
C09 (result type: rank, static extents, layout)."""
import collections, itertools, json, os, random
from common import *
import mapgen
from mapgen import Inst, DYN, LAYOUTS, prod1, ints
from progdrv import Prog, run_programs
from props_conv import MV, left_strides, right_strides, rand_pattern

KINDS = ["I", "IC", "P", "T", "PC", "F", "S"]


def ceil_div(x, s):
    return 0 if x == 0 else 1 + (x - 1) // s


class Sl:
    """one slice specifier: kind + C++ type + values (const ones fixed in the program)"""

    def __init__(self, kind, ctype, vals, mask=0, u=0):
        self.kind, self.ctype, self.vals, self.mask, self.u = kind, ctype, list(vals), mask, u

    def tokens(self):
        k = self.kind
        if k == "I":
            return [0, self.u, self.vals[0]]
        if k == "IC":
            return [1, self.vals[0]]
        if k == "P":
            return [2] + self.vals
        if k == "T":
            return [3] + self.vals
        if k == "PC":
            return [4] + self.vals
        if k == "F":
            return [5]
        return [6, self.mask] + self.vals

    def reader(self):
        k = self.kind
        if k == "I":
            return "drv::rd_idx<%s>(tk)" % self.ctype
        if k == "IC":
            return "drv::rd_ic<%s>(tk)" % self.ctype
        if k in ("P", "T"):
            return "drv::rd_pair<%s>(tk)" % self.ctype
        if k == "PC":
            return "drv::rd_pairc<%s>(tk)" % self.ctype
        if k == "F":
            return "drv::rd_full(tk)"
        return "drv::rd_strided<%s>(tk)" % self.ctype

    def result_extent(self, E):
        k = self.kind
        if k in ("I", "IC"):
            return None
        if k in ("P", "T", "PC"):
            return self.vals[1] - self.vals[0]
        if k == "F":
            return E
        return ceil_div(self.vals[1], self.vals[2]) if self.vals[1] > 0 else 0

    def desc(self):
        return "%s%s%s" % (self.kind, ("/%d" % self.mask) if self.kind == "S" else "", self.vals)


IC_TYPES = ["size_t", "size_t", "int", "long"]


def ic(v, ty="size_t"):
    if v >= (1 << 31):
        ty = "size_t"
    return "std::integral_constant<%s, %d%s>" % (ty, v, "ull" if ty == "size_t" else "")


def make_slice(rng, kind, E, T, t, boundary, Sk=1, rich=False):
    """a valid slice of the given kind over a dimension of extent E (index type name T, code t)"""
    M = imax(t)
    if kind in ("I", "IC"):
        if E == 0:
            return None
        v = rng.choice([0, E - 1, rng.randrange(E)])
        if kind == "I":
            u = rng.choice([0, 1, 2] if v < (1 << 31) else [1, 2])
            cty = ["int", "unsigned long", T][u]
            return Sl("I", cty, [v], u=u)
        return Sl("IC", ic(v, rng.choice(["size_t", "int"])), [v])
    if kind in ("P", "T", "PC"):
        if boundary and rng.random() < 0.5:
            b = e = E                              # empty range that starts at the end of the extent
        else:
            b = rng.randrange(E + 1); e = rng.randrange(b, E + 1)
            if rng.random() < 0.2:
                e = b
        if kind == "PC":
            # the two constants get independently chosen value types (a rule keyed on one shared type loses the static extent)
            return Sl("PC", rng.choice(["std::pair<%s, %s>", "std::tuple<%s, %s>"]) % (ic(b, rng.choice(IC_TYPES)), ic(e, rng.choice(IC_TYPES))), [b, e])
        # the two run-time components get independently chosen types (index type or int)
        el1 = T if (rng.random() < 0.6 or E > 2000000000) else "int"
        el2 = el1                                  # (independent choice for the second component: not yet validated on a clean run)
        return Sl(kind, ("std::pair<%s, %s>" if kind == "P" else "std::tuple<%s, %s>") % (el1, el2), [b, e])
    if kind == "F":
        return Sl("F", "", [])
    # strided_slice{offset, extent, stride}
    mask = rng.randrange(8)
    if rich and E >= 4:
        # several selected elements with a non-unit stride smaller than the extent
        o = rng.randrange(0, 2); x = rng.randrange(3, E - o + 1); sv = rng.choice([2, 2, 3]) if x > 3 else 2
        def comp_(bit, v):
            return ic(v, rng.choice(["size_t", "int"])) if mask & bit else T
        return Sl("S", "%s, %s, %s" % (comp_(1, o), comp_(2, x), comp_(4, sv)), [o, x, sv], mask=mask)
    if E > 100000 and rng.random() < 0.6:
        # a strided slice spanning (almost) a whole dimension whose extent is near the top of the index type:
        # extent + stride is not representable although ceil(extent/stride) is
        o = rng.choice([0, 0, 1]); x = E - o - rng.choice([0, 0, 1]); s_ = rng.choice([2, 2, 3])
        return Sl("S", "%s, %s, %s" % (T, T, T), [o, x, s_], mask=0)
    if boundary and E >= 1 and rng.random() < 0.25:
        # one selected element, stride = the largest value of the index type
        o = rng.randrange(E); return Sl("S", "%s, %s, %s" % (T, T, T), [o, 1, M], mask=0)
    if boundary and rng.random() < 0.4:
        o, x = E, 0                                 # empty strided slice at the end
    else:
        o = rng.randrange(E + 1); x = rng.randrange(E - o + 1)
    huge = False
    if boundary and Sk >= 2 and M // Sk + 1 <= M and rng.random() < 0.5:
        # at most one selected element, with a stride whose product with the source stride is not representable
        x = rng.choice([0, 1]) if E - o >= 1 else 0
        s = M // Sk + 1
        huge = True
    if huge:
        pass
    elif x == 0:
        s = rng.choice([1, 2, 3] + ([0] if rng.random() < 0.15 else []))
    elif boundary and x == 1 and rng.random() < 0.5 and Sk > 0:
        s = min(M, M // Sk + 1)                     # one-element dimension, stride * source stride not representable
    else:
        s = rng.choice([1, 1, 2, 3, max(x, 1), x + 1])
    if s > 100000 or o > 100000 or x > 100000:
        mask = 0                                    # keep huge values out of template arguments
    if (mask & 2) and (mask & 4) and s == 0 and x > 0:
        s = 1
    def comp(bit, v):
        return ic(v, rng.choice(["size_t", "int"])) if mask & bit else T
    return Sl("S", "%s, %s, %s" % (comp(1, o), comp(2, x), comp(4, s)), [o, x, s], mask=mask)


def gen(rng, tier, props=("C04",)):
    progs, cases = [], []
    hist = collections.Counter()
    nprog = scaled(260 if tier == "quick" else 2500)
    maxR = 3 if tier == "quick" else 4
    maxlev = 2 if tier == "quick" else 3
    tries = 0
    # structured stream: every ordered pair of slice kinds (earlier dimension, later dimension), each layout
    pair_queue = []
    for lay_ in (0, 1, 2):
        for k1 in KINDS:
            for k2 in KINDS:
                pair_queue.append((lay_, [k1, k2]))
                if tier != "quick" or rng.random() < 0.35:
                    pair_queue.append((lay_, [k1, rng.choice(KINDS), k2] if rng.random() < 0.5 else [rng.choice(KINDS), k1, k2]))
    rng.shuffle(pair_queue)
    if tier == "quick":
        nprog = max(nprog, len(pair_queue) + 120) if not is_scaled() else nprog
    # structured stream: an EMPTY slice that starts at the end of its extent (every way of writing one) in one dimension
    # together with a non-zero lower bound (every way of writing one) in another: the offset must not leave the source span
    end_queue = []
    if not is_scaled() or True:
        for lay_ in (0, 1, 2):
            for ek in ("P", "T", "PC", "Sd", "Sc"):
                for ok_ in ("I", "IC", "P", "Sd"):
                    for pos in (0, 1):
                        end_queue.append((lay_, ek, ok_, pos))
        rng.shuffle(end_queue)
        if tier == "quick":
            end_queue = end_queue[:60]
        if is_scaled():
            end_queue = end_queue[:12]
        # structured stream: a strided_slice whose stride EQUALS its extent (one selected element: the sub-stride is the source stride, no
        # product is formed) over a layout_stride dimension whose stride is near imax / 2: an implementation that multiplies there overflows
        for t_ in ([4, 4, 6, 0, 2, 5] if not is_scaled() else [4]):
            for R_ in (1, 2):
                end_queue.append(("EQ", t_, R_, rng.choice([2, 2, 3])))
    while (len(progs) < nprog or end_queue) and tries < nprog * 40 + 4000:
        tries += 1
        endspec = end_queue.pop() if end_queue else None
        eqspec = None
        if endspec is not None and endspec[0] == "EQ":
            eqspec, endspec = endspec, None
        forced = pair_queue.pop() if (pair_queue and endspec is None and eqspec is None) else None
        t = rng.randrange(8)
        T = CTYPES[t]
        M = imax(t)
        lay = rng.choice([0, 1, 2])
        R = rng.choice([1, 2, 2, 3, 3] + ([4] if maxR >= 4 else []))
        boundary = rng.random() < 0.35
        big = rng.random() < 0.12
        if endspec is not None:
            lay = endspec[0]; R = 2; boundary = False; big = False
        if eqspec is not None:
            t = eqspec[1]; T = CTYPES[t]; M = imax(t); lay = 2; R = eqspec[2]; boundary = False; big = False
        if forced is not None:
            lay, fk = forced
            R = len(fk); boundary = False; big = False
        if eqspec is not None:
            es = [eqspec[3]] + [3] * (R - 1)
        elif big:
            # shapes near the representability boundary: one long dimension
            Mb = min(M, 1 << 40)                  # element addresses must stay representable as pointer differences
            es = [1] * R; es[rng.randrange(R)] = rng.choice([Mb, Mb // 2, Mb - 1])
        elif endspec is not None:
            es = rng.sample([2, 3, 4, 5], 2)
            # half of them at the representability boundary: the source span fits the index type, but the mapping evaluated AT the
            # (out-of-range) lower bounds would not - an implementation that evaluates it before testing for the empty slice overflows
            endbig = False
            if endspec[1] in ("P", "T", "Sd") and endspec[2] in ("I", "P", "Sd") and rng.random() < 0.6:
                if rng.random() < 0.7:
                    t = 4; T = CTYPES[t]; M = imax(t)      # int: the only index type here whose arithmetic is neither promoted nor unsigned
            if endspec[1] in ("P", "T", "Sd") and endspec[2] in ("I", "P", "Sd") and BITS[t] <= 32 and rng.random() < 0.75:
                a_ = rng.choice([2, 3, 4, 5])
                if M // a_ > a_:
                    es = [0, 0]; es[endspec[3]] = a_; es[1 - endspec[3]] = M // a_
                    endbig = True
                    hist["end-empty slice at the representability boundary"] += 1
        elif forced is not None:
            es = rng.sample([4, 5, 6, 7], R) if M >= 7 ** R else [4, 5, 6][:R]     # distinct extents: a shifted stride factor is visible
        else:
            es = [rng.choice([0, 1, 2, 3, 4, 5]) if rng.random() < 0.9 else rng.choice([7, 11]) for _ in range(R)]
        if prod1(es) > M:
            continue
        if eqspec is not None:
            x_ = eqspec[3]
            s0 = (M - 3) // x_ + 1                     # s0 * x_ > imax, while the span 1 + (x_ - 1) * s0 + 2 stays representable
            if s0 < 4 or 1 + (x_ - 1) * s0 + 2 > M:
                continue
            ss = [s0] + [1] * (R - 1)
            src = MV(Inst(t, 2, DYN, tuple([DYN] * R)), 1, es, ss)
        elif lay == 2:
            sts = mapgen.stride_tuples(rng, t, es, 4)
            if not sts:
                continue
            ss = rng.choice(sts)
            src = MV(Inst(t, 2, DYN, rand_pattern(rng, es, 0.6)), 1, es, ss)
        else:
            src = MV(Inst(t, lay, DYN, rand_pattern(rng, es, 0.6)), 0, es)
        if not src.valid_for(t):
            continue
        nlev = rng.choice([1, 1, 1, 2] + ([3] if maxlev >= 3 else []))
        if forced is not None:
            nlev = 1
        cur_es, cur_st = list(es), list(src.strides)
        levels, ok = [], True
        if eqspec is not None:
            nlev = 0
            levels = [[Sl("S", "%s, %s, %s" % (T, T, T), [0, eqspec[3], eqspec[3]], mask=0)] + [rng.choice([Sl("F", "", []), Sl("I", T, [1], u=2)]) for _ in range(R - 1)]]
        if endspec is not None:
            nlev = 0
            _, ek, ok_, pos = endspec
            Ee, Eo = es[pos], es[1 - pos]
            def end_slice(E):
                if ek == "P":
                    return Sl("P", "std::pair<%s, %s>" % (T, T), [E, E])
                if ek == "T":
                    return Sl("T", "std::tuple<%s, %s>" % (T, T), [E, E])
                if ek == "PC":
                    return Sl("PC", "std::pair<%s, %s>" % (ic(E, rng.choice(IC_TYPES)), ic(E, rng.choice(IC_TYPES))), [E, E])
                if ek == "Sd":
                    return Sl("S", "%s, %s, %s" % (T, T, T), [E, 0, 1], mask=0)
                return Sl("S", "%s, %s, %s" % (ic(E), ic(0), ic(1)), [E, 0, 1], mask=7)
            def other_slice(E):
                if ok_ == "I":
                    return Sl("I", T, [E - 1], u=2)
                if ok_ == "IC":
                    return Sl("IC", ic(E - 1), [E - 1])
                lo = E - 1 if endbig else 1            # at the boundary: the largest valid lower bound
                if ok_ == "P":
                    return Sl("P", "std::pair<%s, %s>" % (T, T), [lo, E])
                return Sl("S", "%s, %s, %s" % (T, T, T), [lo, E - lo, 1], mask=0)
            pair = [None, None]
            pair[pos] = end_slice(Ee); pair[1 - pos] = other_slice(Eo)
            levels = [pair]
        for lv in range(nlev):
            r = len(cur_es)
            if r == 0:
                break
            sls = []
            for k in range(r):
                kinds = list(KINDS)
                if rng.random() < 0.35:
                    kinds = ["F", "F", "P", "I"]          # aim at the layout-preserving shapes
                sl = None
                for _ in range(6):
                    if forced is not None and lv == 0:
                        sl = make_slice(rng, fk[k], cur_es[k], T, t, False, cur_st[k], rich=True)
                    else:
                        sl = make_slice(rng, rng.choice(kinds), cur_es[k], T, t, boundary, cur_st[k])
                    if sl is not None:
                        break
                if sl is None:
                    ok = False; break
                sls.append(sl)
            if not ok:
                break
            levels.append(sls)
            nes, nst = [], []
            for k, sl in enumerate(sls):
                e2 = sl.result_extent(cur_es[k])
                if e2 is not None:
                    nes.append(e2); nst.append(cur_st[k] * (sl.vals[2] if sl.kind == "S" else 1))
            cur_es, cur_st = nes, nst
        if not ok or not levels:
            continue
        body = ["using M = %s;" % src.inst.cpp_type(),
                "tk.next(); std::printf(\"S %ld \", caseno); std::fflush(stdout);",
                "const M m = drv::read_mapping<M, %d>(tk);" % src.inst.lay,
                "drv::SubCtx<M, %d> ctx(m); const int* base = ctx.buf.data(); drv::Out o; tk.next();" % (rng.choice([0, 0, 1, 2]) if not (boundary or big) else rng.choice([0, 0, 1])),   # the interleaved accessor only over real storage
                "o.field(\"sp0\", drv::str_i128(drv::to_i128(m.required_span_size())));",
                "auto v0 = ctx.md;"]
        for l, sls in enumerate(levels, 1):
            body.append("tk.next();")
            names = []
            for k, sl in enumerate(sls):
                body.append("auto a%d_%d = %s;" % (l, k, sl.reader()))
                names.append("a%d_%d" % (l, k))
            args = ", ".join(names)
            body.append("auto r%d = submdspan_mapping(v%d.mapping(), %s);" % (l, l - 1, args))
            body.append("auto v%d = Kokkos::submdspan(v%d, %s);" % (l, l - 1, args))
            body.append("drv::report_level(o, base, %d, v%d, v%d, drv::to_i128(r%d.offset), %s);" % (l, l - 1, l, l, args))
        body.append("std::printf(\"%s\\n\", o.s.c_str());")
        pr = Prog(None, "sub %s es=%s levels=%s" % (src.inst.desc(), es, [[s.desc() for s in sls] for sls in levels]))
        pr.body = "\n    ".join(body)
        progs.append(pr)
        toks = [None] + src.tokens() + [len(levels)]
        for sls in levels:
            toks.append(len(sls))
            for sl in sls:
                toks += sl.tokens()
        meta = {"t": t, "lay": lay, "es": es, "strides": src.strides, "boundary": boundary, "big": big, "nlev": len(levels),
                "levels": [[(s.kind, s.mask, s.vals) for s in sls] for sls in levels], "rank": R, "pat": list(src.inst.pat),
                "levels_full": [[(s.kind, s.mask, s.vals, s.ctype) for s in sls] for sls in levels]}
        cases.append((pr, toks, meta))
        hist["layout=%s" % LAYOUTS[lay]] += 1
        hist["levels=%d" % len(levels)] += 1
        hist["rank=%d" % R] += 1
        hist["type=%s" % ITYS[t]] += 1
        if forced is not None:
            hist["kind-pair stream"] += 1
        if endspec is not None:
            hist["end-empty slice x non-zero begin stream"] += 1
        if eqspec is not None:
            hist["strided slice with stride == extent over a near-max source stride"] += 1
        if boundary:
            hist["boundary"] += 1
        if big:
            hist["big"] += 1
        for sls in levels:
            for s in sls:
                hist["kind=%s" % s.kind] += 1
    for n, p in enumerate(progs):
        p.id = n
        p.call = "prog_%d(caseno, tk)" % n
    for c in cases:
        c[1][0] = c[0].id
    return progs, cases, hist


def prelude(progs):
    out = []
    for p in progs:
        out.append("static void prog_%d(long caseno, drv::Toks& tk) {\n    %s\n}" % (p.id, p.body))
    return "\n".join(out)


def run_sharded(progs, cases, configs, workdir, model_exe, nshards=16):
    return run_programs("S", "drv_sub.hpp", progs, cases, configs, workdir, model_exe, nshards=nshards, prelude=prelude, name="sub")


def level_fields(d, l):
    L = str(l)
    return {k[:-len(L)]: v for k, v in d.items() if k.endswith(L) and k[:-len(L)] in ("rk", "ly", "se", "e", "st", "of", "sp", "h", "ad", "sa", "ac")}


def judge(prop, r, cfg):
    md, im, meta = r["model"], r["impl"].get(cfg), r["meta"]
    out = []
    if im is None:
        return out
    if "crash" in r and cfg in r["crash"]:
        return [("crash", "implementation terminated abnormally: " + r["crash"][cfg]["stderr"], prop == "C14")]
    model_ub = any(v == "UB" for v in md.values())
    if prop == "C14":
        return out
    nlev = meta["nlev"]
    prev_sp = int(im.get("sp0", "0")) if im.get("sp0") not in (None, "UB") else None
    prev_h = 0
    for l in range(1, nlev + 1):
        f = level_fields(im, l)
        fm = level_fields(md, l)
        if not f:
            if not model_ub:
                out.append(("protocol", "level %d missing in the implementation's output" % l, False))
            break
        if prop == "C04":
            if f.get("ad") != f.get("sa"):
                out.append(("ad", "level %d: elements of the view are not the selected source elements: addresses %s vs source %s" % (l, f.get("ad", "")[:100], f.get("sa", "")[:100]), True))
            if not model_ub:
                for k in ("e", "rk"):
                    if f.get(k) != fm.get(k):
                        out.append((k, "level %d: %s is %s, specified %s" % (l, k, f.get(k), fm.get(k)), True))
                for k in ("st", "of", "h"):
                    if f.get(k) != fm.get(k) and not out:
                        out.append((k, "level %d: %s is %s, model %s" % (l, k, f.get(k), fm.get(k)), False))
            if f.get("h") is not None and f.get("of") is not None and int(f["h"]) != prev_h + int(f["of"]):
                out.append(("h", "level %d: new data handle is not accessor.offset(handle, offset)" % l, True))
            prev_h = int(f.get("h", 0))
            if f.get("ac") not in (None, "UB") and int(f["ac"]) & 1:
                out.append(("ac", "level %d: the view's accessor is not the source accessor's offset_policy (the handle returned by offset() is only meaningful to that policy)" % l, True))
        elif prop == "C10":
            off, sp = int(f["of"]), int(f["sp"])
            if prev_sp is not None:
                if off > prev_sp:
                    out.append(("of", "level %d: submdspan_mapping offset %d exceeds the source's required_span_size %d" % (l, off, prev_sp), True))
                elif prod1(ints(f["e"])) > 0 and 0 not in ints(f["e"]) and off + sp > prev_sp:
                    out.append(("sp", "level %d: offset %d + span %d of a non-empty view exceeds the source span %d" % (l, off, sp, prev_sp), True))
            if not model_ub and (f.get("of") != fm.get("of") or f.get("sp") != fm.get("sp")) and not out:
                out.append(("of", "level %d: offset/span %s/%s, model %s/%s" % (l, f.get("of"), f.get("sp"), fm.get("of"), fm.get("sp")), False))
            prev_sp = sp
        elif prop == "C15":
            for k in sorted(fm):
                if fm.get(k) not in (None, "UB") and f.get(k) != fm.get(k):
                    out.append((k, "in configuration %s level %d: %s is %s, every configuration must give %s" % (cfg, l, k, str(f.get(k))[:120], str(fm.get(k))[:120]), True))
                    break
        elif prop == "C09":
            if not model_ub or True:
                for k in ("rk", "ly", "se", "ac"):
                    if fm.get(k) not in (None, "UB") and f.get(k) != fm.get(k):
                        out.append((k, "level %d: %s of the result type is %s, the slicing rules give %s" % (l, {"rk": "rank", "ly": "layout", "se": "static extents", "ac": "carried-over types (bit 0: accessor is not the source accessor's offset_policy, bit 1: index type, bit 2: element type; 0 = all carried over)"}[k], f.get(k), fm.get(k)), True))
    if model_ub and prop in ("C04", "C10") and not out:
        out.append(("model", "model reports UB on a generated valid input", False))
    return out


def collect(rep, prop, tier, seed, exe, replay=None):
    rng = random.Random(seed * 49979687 + 29)
    if prop == "C14":
        configs = ["gcc23-san", "clang20-san"]
    elif prop == "C09":
        configs = ["gcc23", "clang17"] if tier == "quick" else ["gcc23", "clang17", "gcc20", "clang20", "clang2b", "gcc17"]
    else:
        configs = ["gcc23", "clang17"] if tier == "quick" else ["gcc23", "clang17", "gcc20", "clang20", "gcc17", "gcc23-san"]
    configs = pick_configs(configs)
    if replay:
        rp = json.load(open(replay))
        pr = Prog(rp["call"], rp["program"]); pr.id = rp["case_tokens"][0]; pr.body = rp["body"]
        progs, cases, hist = [pr], [(pr, rp["case_tokens"], rp.get("meta", {}))], {}
        configs = [rp["config"]]
    else:
        progs, cases, hist = gen(rng, tier)
    work = os.path.join(CACHE, "work", "%s-%s" % (prop, tier))
    records, build_fail = run_sharded(progs, cases, configs, work, exe)
    incoq_n = 0
    if tier == "thorough" and not replay and not is_scaled():
        import incoq
        smp = [r for r in records if r.get("model_line")]
        smp = random.Random(seed + 98).sample(smp, min(50, len(smp)))
        incoq_n = incoq.cross_check(rep, prop, "S", [(r["toks"], r["model_line"]) for r in smp], os.path.join(work, "incoq"))
    for (sh_, cfg, blog) in {c: (s_, c, l) for (s_, c, l) in reversed(build_fail)}.values():
        rep.violation("submdspan driver shard %s no longer builds in configuration %s" % (sh_, cfg),
                      {"obligation": "corr:sub/build/%s/%s" % (sh_, cfg), "log": blog[-3000:], "signature": "build:sub:%s" % cfg}, True)
    evaluations, flagged, nontriv = 0, [], set()
    for r in records:
        for cfg in configs:
            if r["impl"].get(cfg) is None:
                continue
            evaluations += 1
            iss = judge(prop, r, cfg)
            if iss:
                flagged.append((r, cfg, iss))
        m = r["meta"]
        if m.get("rank", 0) >= 2 and any(k[0] != "F" for lv in m.get("levels", []) for k in lv):
            nontriv.add(tuple(str(x) for x in r["toks"][1:]))
    flagged.sort(key=lambda x: len(x[0]["toks"]))
    seen = set()
    for (r, cfg, iss) in flagged:
        key = (iss[0][0], iss[0][2], r["meta"].get("lay"))
        if key in seen:
            continue
        seen.add(key)
        sig_vals = " ".join(str(x) for x in r["toks"][1:])
        rep.violation(iss[0][1], {"family": "S", "config": cfg, "program": r["prog"].desc, "call": r["prog"].call, "body": r["prog"].body,
                                  "case_tokens": r["toks"], "meta": r["meta"], "model_line": r["model_line"],
                                  "impl_line": r["impl_line"].get(cfg, ""), "issues": [{"field": f, "message": m} for (f, m, _) in iss],
                                  "signature": "S:%s:%s" % (iss[0][0], sig_vals)}, no_failing_input=not any(x[2] for x in iss))
        if len(seen) >= 6:
            break
    return {
        "evaluations": evaluations, "distinct_nontrivial": len(nontriv), "evaluated_inside_coq_too": incoq_n,
        "rule": "programs = source mdspan (layout_left/right/stride x 8 index types x static/dynamic pattern, rank 1..%d, small shapes with zeros and shapes near imax) x chain of "
                "1..%d slicings whose specifier kinds (index, integral_constant index, pair, tuple, pair of integral_constants, full_extent, strided_slice with each of "
                "offset/extent/stride run-time or constant) are part of the generated C++; values valid for the shape incl. empty slices that start at the end of an extent, "
                "stride > extent, extent 0, one-element strided dimensions with huge strides. For every element of every view the address and the address of the "
                "source element it must alias are compared. non-trivial = rank >= 2 with a non-full slice" % (3 if tier == "quick" else 4, 2 if tier == "quick" else 3),
        "programs": len(progs) * len(configs), "configurations": configs, "disagreements_checked": len(flagged),
        "input_distribution": dict(sorted(hist.items())) if hist else {},
        "samples": [{"case": r["case_line"], "program": r["prog"].desc, "model": r["model_line"][:400]} for r in records[:: max(1, len(records) // 5)][:5]],
        "exhaustive": False,
    }


def run_property(prop, tier, seed, replay=None):
    from props_map import finish_common
    rep = Report(prop, tier, seed)
    prove_section(rep, prop)
    exe, log = build_model()
    if exe is None:
        rep.violation("the Coq model or its extraction no longer builds", {"obligation": "build:model", "log": log[-3000:], "signature": "build:model"}, True)
        return rep.finish()
    cov = collect(rep, prop, tier, seed, exe, replay)
    finish_common(rep, prop, [cov])
    rep.assumptions = ["element identity is observed as address identity inside one buffer (default accessor)"]
    prune_cache()
    return rep.finish()
