"""props_cst.py — C16: overload participation and explicitness (family Q, compile-time queries)."""
import collections, itertools, json, os, random
from common import *
from mapgen import DYN, ints
from progdrv import Prog, run_programs
from props_map import finish_common

LAYN = ["left", "right", "stride", "left_padded", "right_padded"]
BASES = ["int", "double"]
ARGS_CPP = {1: "double", 2: "drv::cls_nt", 3: "drv::cls_throw", 4: "drv::cls_none", 5: "drv::cls_expl"}
CXX17 = {"gcc17", "clang17", "clang17-emu"}


class E:
    def __init__(self, t, pat):
        self.t, self.pat = t, tuple(pat)
    def cpp(self):
        return "Kokkos::extents<%s%s>" % (CTYPES[self.t], "".join(", " + ("Kokkos::dynamic_extent" if p == DYN else "%dull" % p) for p in self.pat))
    def toks(self):
        return [self.t, len(self.pat)] + list(self.pat)
    def desc(self):
        return "extents<%s,%s>" % (ITYS[self.t], ",".join("dyn" if p == DYN else str(p) for p in self.pat))
    def key(self):
        return (self.t, self.pat)


class M:
    def __init__(self, lay, pv, e):
        self.lay, self.pv, self.e = lay, (pv if lay >= 3 else DYN), e
    def lcpp(self):
        pv = "Kokkos::dynamic_extent" if self.pv == DYN else "%dull" % self.pv
        return ["Kokkos::layout_left", "Kokkos::layout_right", "Kokkos::layout_stride",
                "Kokkos::Experimental::layout_left_padded<%s>" % pv, "Kokkos::Experimental::layout_right_padded<%s>" % pv][self.lay]
    def cpp(self):
        return "%s::mapping<%s>" % (self.lcpp(), self.e.cpp())
    def toks(self):
        return [self.lay, self.pv] + self.e.toks()
    def desc(self):
        return "%s%s::mapping<%s>" % (LAYN[self.lay], ("<%s>" % ("dyn" if self.pv == DYN else self.pv)) if self.lay >= 3 else "", self.e.desc())
    def key(self):
        return (self.lay, self.pv, self.e.key())


class A:
    def __init__(self, k, base, const, ident=0):
        self.k, self.base, self.const, self.ident = k, base, const, ident
    def el(self):
        return ("const " if self.const else "") + BASES[self.base]
    def cpp(self):
        if self.k == 1 and self.ident == 2:
            return "drv::throw_acc<%s>" % self.el()
        if self.k == 1 and self.ident == 3:
            return "drv::value_acc<%s>" % self.el()
        return ("Kokkos::default_accessor<%s>" % self.el()) if self.k == 0 else "drv::user_acc<%s, %d>" % (self.el(), self.ident)
    def toks(self):
        return [self.k, self.base, int(self.const), self.ident]
    def desc(self):
        return ("default_accessor<%s>" % self.el()) if self.k == 0 else "user_acc<%s,%d>" % (self.el(), self.ident)
    def key(self):
        return (self.k, self.base, self.const, self.ident)


class D:
    def __init__(self, m, a):
        self.m, self.a = m, a
    def cpp(self):
        return "Kokkos::mdspan<%s, %s, %s, %s>" % (self.a.el(), self.m.e.cpp(), self.m.lcpp(), self.a.cpp())
    def toks(self):
        return self.m.toks() + self.a.toks()
    def desc(self):
        return "mdspan<%s, %s, %s>" % (self.a.el(), self.m.desc(), self.a.desc())
    def key(self):
        return (self.m.key(), self.a.key())


def rand_ext(rng, R=None, t=None, near=None):
    """near: another E to stay close to (same rank, related pattern) so that conversions are often possible"""
    if near is not None and rng.random() < 0.8:
        R = len(near.pat)
        pat = []
        for p in near.pat:
            u = rng.random()
            if u < 0.5:
                pat.append(p)
            elif u < 0.8:
                pat.append(DYN)
            else:
                pat.append(rng.choice([2, 3]))
        if rng.random() < 0.1:
            pat = pat[:-1] if pat and rng.random() < 0.5 else pat + [rng.choice([DYN, 2])]
        t2 = near.t if rng.random() < 0.4 else rng.randrange(8)
        return E(t2, pat)
    if R is None:
        R = rng.choice([0, 1, 1, 2, 2, 3])
    return E(rng.randrange(8) if t is None else t, [rng.choice([DYN, DYN, 2, 3]) for _ in range(R)])


def ok_map(m):
    # padded mappings with padding 0 need a zero/dynamic extent-to-pad (static_assert) - keep padding values non-zero
    return True


def rand_map(rng, near=None):
    e = rand_ext(rng, near=near.e if near is not None else None)
    lay = rng.randrange(5) if (near is None or rng.random() < 0.5) else near.lay
    pv = rng.choice([DYN, DYN, 2, 4])
    return M(lay, pv, e)


def rand_acc(rng, near=None):
    if near is not None and near.k == 1 and rng.random() < 0.5:
        return A(near.k, near.base, near.const, near.ident)          # user accessors convert only to themselves
    if near is not None and rng.random() < 0.8:
        return A(near.k if rng.random() < 0.85 else 1 - near.k, near.base if rng.random() < 0.85 else 1 - near.base,
                 (near.const or rng.random() < 0.5) if rng.random() < 0.8 else False, near.ident if rng.random() < 0.7 else 1)
    return A(0 if rng.random() < 0.75 else 1, rng.randrange(2), rng.random() < 0.4, rng.randrange(4))


def rand_mds(rng, near=None):
    return D(rand_map(rng, near.m if near else None), rand_acc(rng, near.a if near else None))


def rand_arg(rng):
    u = rng.random()
    if u < 0.6:
        return (0, rng.randrange(8))
    return (rng.choice([1, 2, 2, 3, 4, 5, 5]),)


def arg_cpp(a):
    return CTYPES[a[1]] if a[0] == 0 else ARGS_CPP[a[0]]


def arg_toks(a):
    return list(a)


def gen(rng, tier):
    progs, cases, hist = [], [], collections.Counter()
    seen = set()
    want = 2200 if tier == "quick" else 20000
    def add(call, desc, toks, meta):
        key = tuple(toks[1:])
        if key in seen:
            return
        seen.add(key)
        pr = Prog(call, desc)
        progs.append(pr); cases.append((pr, toks, meta)); hist["query=%s" % meta["q"]] += 1
    # structured part: every ordered pair of layouts x {same extents, related extents}, ranks 0..3
    for ls in range(5):
        for ld in range(5):
            for R in (0, 1, 2, 3):
                for rep in range(2 if tier == "quick" else 6):
                    es = rand_ext(rng, R=R)
                    ed = es if rep == 0 else rand_ext(rng, near=es)
                    s = M(ls, rng.choice([DYN, 2, 4]), es); d = M(ld, rng.choice([DYN, 2, 4]), ed)
                    add("drv::q_pair<%s, %s>(caseno)" % (d.cpp(), s.cpp()), "%s <- %s" % (d.desc(), s.desc()), [None, 0, 1] + s.toks() + [1] + d.toks(),
                        {"q": "mapping pair", "rank": R})
    tries = 0
    while len(progs) < want and tries < want * 20:
        tries += 1
        k = rng.choice(["ext", "ext", "map", "map", "map", "acc", "mds", "mds", "mds", "extpack", "extarr", "mdspack", "mdsarr", "parts", "call", "indexarr"])
        if k == "ext":
            s = rand_ext(rng); d = rand_ext(rng, near=s)
            add("drv::q_pair<%s, %s>(caseno)" % (d.cpp(), s.cpp()), "%s <- %s" % (d.desc(), s.desc()), [None, 0, 0] + s.toks() + [0] + d.toks(), {"q": "extents pair", "rank": len(s.pat)})
        elif k == "map":
            s = rand_map(rng); d = rand_map(rng, near=s)
            add("drv::q_pair<%s, %s>(caseno)" % (d.cpp(), s.cpp()), "%s <- %s" % (d.desc(), s.desc()), [None, 0, 1] + s.toks() + [1] + d.toks(), {"q": "mapping pair", "rank": len(s.e.pat)})
        elif k == "acc":
            s = rand_acc(rng); d = rand_acc(rng, near=s)
            add("drv::q_pair<%s, %s>(caseno)" % (d.cpp(), s.cpp()), "%s <- %s" % (d.desc(), s.desc()), [None, 0, 2] + s.toks() + [2] + d.toks(), {"q": "accessor pair", "rank": 1})
        elif k == "mds":
            s = rand_mds(rng); d = rand_mds(rng, near=s)
            add("drv::q_pair<%s, %s>(caseno)" % (d.cpp(), s.cpp()), "%s <- %s" % (d.desc(), s.desc()), [None, 0, 3] + s.toks() + [3] + d.toks(), {"q": "mdspan pair", "rank": len(s.m.e.pat)})
        elif k in ("extpack", "mdspack", "call"):
            e = rand_ext(rng)
            R, Rd = len(e.pat), sum(1 for p in e.pat if p == DYN)
            n = rng.choice([R, Rd, R, Rd, R + 1, max(0, R - 1), rng.randrange(0, 5)])
            args = [rand_arg(rng) if rng.random() < 0.35 else (0, rng.randrange(8)) for _ in range(n)]
            at = "".join(", " + arg_cpp(a) for a in args)
            atoks = [len(args)] + [x for a in args for x in arg_toks(a)]
            ad = "(%s)" % ", ".join(arg_cpp(a) for a in args)
            if k == "extpack":
                add("drv::q_ctor<%s%s>(caseno)" % (e.cpp(), at), "%s%s" % (e.desc(), ad), [None, 1] + e.toks() + atoks, {"q": "extents(pack)", "rank": R})
            else:
                d = D(M(rng.randrange(5), rng.choice([DYN, 2, 4]), e), rand_acc(rng))
                if k == "mdspack":
                    add("drv::q_ctor<%s, typename %s::data_handle_type%s>(caseno)" % (d.cpp(), d.cpp(), at), "%s(handle, %s)" % (d.desc(), ad), [None, 3] + d.toks() + atoks, {"q": "mdspan(handle, pack)", "rank": R})
                else:
                    add("drv::q_call<%s%s>(caseno)" % (d.cpp(), at), "mapping / mdspan call %s %s" % (d.desc(), ad), [None, 6] + d.toks() + atoks, {"q": "call operators (pack)", "rank": R})
        elif k in ("extarr", "mdsarr", "indexarr"):
            e = rand_ext(rng)
            R, Rd = len(e.pat), sum(1 for p in e.pat if p == DYN)
            n = rng.choice([R, Rd, R, Rd, R + 1, max(0, R - 1)])
            a = rand_arg(rng) if rng.random() < 0.5 else (0, rng.randrange(8))
            if k == "extarr":
                add("drv::q_ext_arr<%s, %s, %d>(caseno)" % (e.cpp(), arg_cpp(a), n), "%s(array/span<%s,%d>)" % (e.desc(), arg_cpp(a), n), [None, 2] + e.toks() + arg_toks(a) + [n], {"q": "extents(array/span)", "rank": R})
            else:
                d = D(M(rng.randrange(5), rng.choice([DYN, 2, 4]), e), rand_acc(rng))
                if k == "mdsarr":
                    add("drv::q_mds_arr<%s, %s, %d>(caseno)" % (d.cpp(), arg_cpp(a), n), "%s(handle, array/span<%s,%d>)" % (d.desc(), arg_cpp(a), n), [None, 4] + d.toks() + arg_toks(a) + [n], {"q": "mdspan(handle, array/span)", "rank": R})
                else:
                    add("drv::q_index_arr<%s, %s, %d>(caseno)" % (d.cpp(), arg_cpp(a), n), "%s[array/span<%s,%d>]" % (d.desc(), arg_cpp(a), n), [None, 7] + d.toks() + arg_toks(a) + [n], {"q": "mdspan[array/span]", "rank": R})
        else:
            d = rand_mds(rng)
            add("drv::q_mds_parts<%s>(caseno)" % d.cpp(), "%s(handle, extents | mapping | mapping, accessor)" % d.desc(), [None, 5] + d.toks(), {"q": "mdspan(handle, extents/mapping/accessor)", "rank": len(d.m.e.pat)})
    for n, p in enumerate(progs):
        p.id = n
    for c in cases:
        c[1][0] = c[0].id
    return progs, cases, hist


def judge(r, cfg):
    md, im, meta = r["model"], r["impl"].get(cfg), r["meta"]
    if im is None:
        return []
    if "crash" in r and cfg in r["crash"]:
        return [("crash", "implementation terminated abnormally: " + r["crash"][cfg]["stderr"], True)]
    want = ints(md.get("r17" if cfg in CXX17 else "r20"))
    got = ints(im.get("r"))
    out = []
    if len(want) != len(got):
        return [("r", "result shape differs: %s vs model %s" % (got, want), False)]
    names = {"extents pair": ["is_constructible", "is_convertible"], "mapping pair": ["is_constructible", "is_convertible"], "accessor pair": ["is_constructible", "is_convertible"],
             "mdspan pair": ["is_constructible", "is_convertible"], "extents(array/span)": ["array: is_constructible", "array: is_convertible", "span: is_constructible", "span: is_convertible"],
             "mdspan(handle, array/span)": ["array", "span"], "mdspan(handle, extents/mapping/accessor)": ["(handle, extents)", "(handle, mapping)", "(handle, mapping, accessor)"],
             "call operators (pack)": ["mapping(args...)", "mdspan index(args...)"], "mdspan[array/span]": ["array", "span"]}.get(meta["q"], ["is_constructible"])
    bad = [(names[k] if k < len(names) else str(k), g, w) for k, (g, w) in enumerate(zip(got, want)) if g != -1 and g != w]
    if bad:
        out.append(("r", "%s: %s" % (r["prog"].desc, "; ".join("%s is %s, the rules say %s" % (n, bool(g), bool(w)) for n, g, w in bad)), True))
    return out


def collect(rep, prop, tier, seed, exe, replay=None):
    rng = random.Random(seed * 14142135 + 5)
    if tier == "quick":
        configs = ["gcc23", "clang17", "clang20", "gcc17"]
    else:
        configs = ["gcc23", "gcc20", "gcc17", "clang17", "clang20", "clang2b", "gcc20-emu", "clang17-emu"]
    if replay:
        rp = json.load(open(replay))
        pr = Prog(rp["call"], rp["program"]); pr.id = rp["case_tokens"][0]
        progs, cases, hist = [pr], [(pr, rp["case_tokens"], rp.get("meta", {}))], {}
        configs = [rp["config"]]
    else:
        progs, cases, hist = gen(rng, tier)
    work = os.path.join(CACHE, "work", "%s-%s" % (prop, tier))
    records, build_fail = run_programs("Q", "drv_cst.hpp", progs, cases, configs, work, exe, nshards=16, name="cst")
    for (sh_, cfg, blog) in {c: (s_, c, l) for (s_, c, l) in reversed(build_fail)}.values():
        rep.violation("constraint driver shard %s no longer builds in configuration %s" % (sh_, cfg),
                      {"obligation": "corr:cst/build/%s/%s" % (sh_, cfg), "log": blog[-3000:], "signature": "build:cst:%s" % cfg}, True)
    evaluations, flagged, nontriv = 0, [], set()
    truth = collections.Counter()
    for r in records:
        for cfg in configs:
            if r["impl"].get(cfg) is None:
                continue
            evaluations += 1
            iss = judge(r, cfg)
            if iss:
                flagged.append((r, cfg, iss))
        if r["meta"].get("rank", 0) >= 1:
            nontriv.add(tuple(str(x) for x in r["toks"][1:]))
        v = ints(r["model"].get("r20"))
        if v:
            truth["%s: %s" % (r["meta"]["q"], "".join(str(x) for x in v))] += 1
    flagged.sort(key=lambda x: len(x[0]["toks"]))
    seen = set()
    for (r, cfg, iss) in flagged:
        key = (r["meta"]["q"], cfg)
        if key in seen:
            continue
        seen.add(key)
        rep.violation(iss[0][1], {"family": "Q", "config": cfg, "program": r["prog"].desc, "call": r["prog"].call,
                                  "case_tokens": r["toks"], "meta": r["meta"], "model_line": r["model_line"],
                                  "impl_line": r["impl_line"].get(cfg, ""), "issues": [{"field": f, "message": m} for (f, m, _) in iss],
                                  "signature": "Q:%s" % r["prog"].desc}, no_failing_input=not any(x[2] for x in iss))
        if len(seen) >= 8:
            break
    hist = dict(hist)
    hist.update({"answers " + k: v for k, v in truth.items()})
    return {
        "evaluations": evaluations, "distinct_nontrivial": len(nontriv),
        "rule": "queries = ordered pairs (source -> target) of extents / layout mapping (left, right, stride, left_padded<pv>, right_padded<pv>) / accessor (default_accessor over int / double, const or not; user accessor) / "
                "mdspan types, generated so that the pair is related (same rank, perturbed static extents, index type, layout, padding, element const-ness) with a structured part covering every ordered layout pair at ranks 0..3; "
                "plus argument lists (built-in integers of all widths, double, a class with a noexcept conversion, a class with a throwing conversion, a non-convertible class; counts rank, rank_dynamic, and off by one) for "
                "extents(pack), extents(array|span), mdspan(handle, pack | array | span | extents | mapping | mapping, accessor), mapping(indices...), mdspan[indices...] / (indices...), mdspan[array|span]. "
                "For each query std::is_constructible / std::is_convertible / SFINAE-detected invocability is compared with the rule model; in C++17 configurations with the rule model's conditional-explicit-off variant. "
                "non-trivial = rank >= 1. The 'answers' rows of the distribution show how often each truth-value combination occurred",
        "programs": len(progs) * len(configs), "configurations": configs, "disagreements_checked": len(flagged),
        "input_distribution": dict(sorted(hist.items())),
        "samples": [{"case": r["case_line"], "program": r["prog"].desc[:300], "model": r["model_line"][:300]} for r in records[:: max(1, len(records) // 5)][:5]],
        "exhaustive": False,
    }


def run_property(prop, tier, seed, replay=None):
    rep = Report(prop, tier, seed)
    prove_section(rep, prop)
    exe, log = build_model()
    if exe is None:
        rep.violation("the Coq model or its extraction no longer builds", {"obligation": "build:model", "log": log[-3000:], "signature": "build:model"}, True)
        return rep.finish()
    cov = collect(rep, prop, tier, seed, exe, replay)
    finish_common(rep, prop, [cov])
    rep.assumptions = ["that g++ and clang++ implement overload resolution, SFINAE and the type traits correctly is trusted / observed",
                       "hard-error mandates (static_assert in constructor bodies) are outside overload resolution and are not queried",
                       "the explicitness of the padded-layout conversions is modelled as implemented (the property lists no rule for them)"]
    prune_cache()
    return rep.finish()
