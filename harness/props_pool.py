"""props_pool.py — C11: construction, conversion, copy, move, assign, swap on pools of views (family P)."""
import collections, itertools, json, os, random
from common import *
import mapgen
from mapgen import DYN, LAYOUTS, prod1, ints
from progdrv import Prog, run_programs
from props_conv import left_strides, right_strides, rand_pattern
from props_map import finish_common
from props_ext import ext_type

ACC_CPP = {0: "Kokkos::default_accessor<%s>", 1: "drv::tag_accessor<%s>"}
LAY_CPP = {0: "Kokkos::layout_left", 1: "Kokkos::layout_right", 2: "Kokkos::layout_stride"}


class PT:
    def __init__(self, et, t, lay, pat, acc, user=False):
        self.et, self.t, self.lay, self.pat, self.acc, self.user = et, t, lay, tuple(pat), acc, user

    def cpp(self):
        # user: a user layout whose mapping is an EMPTY class (row-major over all-static extents, nothing stored): to the model it is layout_right
        lay = "drv::layout_static_right" if self.user else LAY_CPP[self.lay]
        return "Kokkos::mdspan<%s, %s, %s, %s>" % (self.et, ext_type(self.t, self.pat), lay, ACC_CPP[self.acc] % self.et)

    def tokens(self):
        return [self.t, self.lay, len(self.pat)] + list(self.pat) + [self.acc]

    def desc(self):
        return "%s/%s/%s/%s/acc%d" % (self.et, ITYS[self.t], "user-empty-right" if self.user else LAYOUTS[self.lay], list(self.pat), self.acc)


def gen_program(rng, tier):
    R = rng.choice([0, 1, 1, 2, 2, 3])
    canon = rng.choice([0, 1])                    # the shape's strides are canonical-left or canonical-right
    t0 = rng.randrange(8)
    es = [rng.choice([1, 2, 3, 4]) for _ in range(R)]
    # constructor-focused programs: a mixed pattern with a static extent before a dynamic one, pairwise different
    # extents, default accessor, and several views built through the value-carrying constructor forms
    focus = rng.random() < 0.3
    if focus:
        R = rng.choice([2, 3, 3, 4])
        es = rng.sample([1, 2, 3, 4, 5], R)
    # huge-extent programs: one extent above 2^31 (no element is ever touched by these programs, so no storage is needed):
    # a constructor that narrows its integer arguments shows here and nowhere else
    huge = (not focus) and rng.random() < 0.15
    if huge:
        t0 = rng.choice([5, 6, 7])
        R = rng.choice([1, 2, 2, 3])
        big = 2 ** 31 + rng.choice([0, 1, 5, 7]) if t0 == 5 else rng.choice([2 ** 31 + 5, 2 ** 32 + rng.choice([0, 3, 5]), 2 ** 33 + 1, 2 ** 31 - 1])
        es = [1 if t0 == 5 else rng.choice([1, 2, 3]) for _ in range(R)]
        es[rng.randrange(R)] = big
    # empty-mapping programs: a user layout whose mapping stores nothing (all-static extents), mostly with the stateful accessor: under the
    # [[no_unique_address]] emulation this is the only way to reach the compressed pair's 'first member empty' specialisation
    uempty = (not focus) and (not huge) and rng.random() < 0.12
    if uempty:
        R = rng.choice([1, 2, 2, 3]); canon = 1
        es = [rng.choice([1, 2, 3, 4]) for _ in range(R)]
    ss = left_strides(es) if canon == 0 else right_strides(es)
    if prod1(es) > imax(t0):
        return None
    acc = rng.choice([0, 0, 1])
    if uempty:
        acc = rng.choice([1, 1, 0])
    # a chain of 2-3 types, each constructible from the previous one
    types = []
    lay = rng.choice([canon, 2])
    if focus:
        acc, lay = 0, canon
    if uempty:
        lay = 1
    et = "int"
    for k in range(rng.choice([2, 3])):
        if k > 0:
            if et == "int" and rng.random() < 0.5:
                et = "const int"
            t_new = rng.choice([x for x in range(8) if imax(x) >= max(es + ss + [prod1(es)])] or [t0])
            # layout step: stay, to stride, or back from stride to the canonical layout; left<->right for rank <= 1
            opts = [lay, 2]
            if lay == 2:
                opts.append(canon)
            if R <= 1 and lay != 2:
                opts.append(1 - lay)
            lay = rng.choice(opts)
            if uempty:
                lay = 1
            t_cur = t_new
        else:
            t_cur = t0
        # a fully static pattern together with the stateless default accessor makes mdspan's storage
        # use the specialisations of the compressed pair with empty members
        mode = rng.random()
        if mode < 0.3:
            pat = tuple(es)
        elif mode < 0.6:
            pat = tuple([DYN] * R)
        else:
            pat = rand_pattern(rng, es, 0.5)
        if focus and k == 0:
            pat = list(rand_pattern(rng, es, 0.5)); q = rng.randrange(R - 1); pat[q] = es[q]; pat[q + 1] = DYN; pat = tuple(pat)
        if uempty:
            pat = tuple(es)
        types.append(PT(et, t_cur, lay, pat, acc, user=uempty))
    # a second mapping value of type 0 (same type, different state): other dynamic extents and / or other strides
    ty0 = types[0]
    es2 = [e if p != DYN or rng.random() < 0.4 else rng.choice([1, 2, 3, 4]) for e, p in zip(es, ty0.pat)]
    if ty0.lay == 2:
        ss2 = rng.choice([left_strides(es2), right_strides(es2), [2 * x for x in left_strides(es2)], [3 * x for x in right_strides(es2)]])
    else:
        ss2 = left_strides(es2) if ty0.lay == 0 else right_strides(es2)
    span2 = 1 + sum((e - 1) * x for e, x in zip(es2, ss2))
    if any(prod1(es) > imax(ty.t) or any(v > imax(ty.t) for v in es + ss + es2 + ss2 + [span2]) for ty in types):
        return None
    if span2 > 48 and not huge:
        return None
    def canon_of(lay_, e_):
        return left_strides(e_) if lay_ == 0 else right_strides(e_)
    def conv_ok(val, k):
        """may a view holding (extents, strides, layout) be converted to type k?"""
        e_, s_, l_ = val
        tk_ = types[k]
        if any(p != DYN and p != x for p, x in zip(tk_.pat, e_)):
            return False
        if tk_.lay != 2 and l_ == 2 and list(s_) != canon_of(tk_.lay, e_):
            return False
        return True
    def conv_val(val, k):
        e_, s_, l_ = val
        tk_ = types[k]
        if tk_.lay == 2:
            return (e_, s_ if l_ == 2 else canon_of(l_, e_), 2)
        return (e_, canon_of(tk_.lay, e_), tk_.lay)
    vals = []           # per variable: (extents, strides, layout) it currently holds
    # operations
    nops = rng.randrange(6, 13) if tier == "quick" else rng.randrange(8, 40)
    vars_ = []          # type index per variable
    ops = []
    code = []
    def newvar(ty):
        vars_.append(ty); return len(vars_) - 1
    # first: construct one or two views of type 0
    used_h = set()
    for _ in range(rng.choice([3, 4]) if focus else rng.choice([2, 2, 3])):
        ty = types[0]
        kinds = [6, 7] if ty.lay == 2 else [0, 1, 2, 3, 5, 6, 7, 9, 10, 10]
        if ty.lay != 2 and all(p != DYN for p in ty.pat) and R > 0:
            kinds = [1, 3, 5, 6, 7, 10]             # no dynamic extents: the (handle, dynamic extents...) forms take no values
        if ty.acc == 1:
            kinds = [7]                              # the other forms default-construct the accessor
        kind = rng.choice(kinds)
        if focus:
            kind = rng.choice([0, 1, 2, 3, 5, 9, 10, 10])
        elif len(vars_) >= 1 and (es2 != es or ss2 != ss) and rng.random() < 0.6:
            kind = 8                                 # (handle, the second mapping value, accessor)
        h = rng.choice([x for x in range(8) if x not in used_h]); used_h.add(h)
        v = newvar(0)
        vals.append((es2, ss2, ty.lay) if kind == 8 else (es, ss if ty.lay == 2 else canon_of(ty.lay, es), ty.lay))
        ops.append([0, 0, kind, h])
        T = "T0"
        hexpr = "drv::make_handle<typename T0::data_handle_type>::make(base, %d)" % h
        dynv = ", ".join("static_cast<I0>(es[%d])" % k for k, p in enumerate(ty.pat) if p == DYN)
        allv = ", ".join("static_cast<I0>(es[%d])" % k for k in range(R))
        nd = sum(1 for p in ty.pat if p == DYN)
        if kind == 0:
            code.append("%s v%d(%s%s);" % (T, v, hexpr, (", " + dynv) if dynv else ""))
        elif kind == 1:
            code.append("%s v%d(%s%s);" % (T, v, hexpr, (", " + allv) if allv else ""))
        elif kind == 2:
            code.append("%s v%d(%s, std::array<I0, %d>{%s});" % (T, v, hexpr, nd, dynv))
        elif kind == 3:
            code.append("%s v%d(%s, std::array<I0, %d>{%s});" % (T, v, hexpr, R, allv))
        elif kind in (9, 10):
            n_, vv_ = (nd, dynv) if kind == 9 else (R, allv)
            code.append(("std::array<I0, %d> sp%d{%s};\n" % (n_, v, vv_)) + "#ifdef __cpp_lib_span\n    %s v%d(%s, std::span<I0, %d>(sp%d.data(), %d));\n#else\n    %s v%d(%s, sp%d);\n#endif" % (T, v, hexpr, n_, v, n_, T, v, hexpr, v))
        elif kind == 5:
            code.append("%s v%d(%s, typename T0::extents_type(std::array<I0, %d>{%s}));" % (T, v, hexpr, R, allv))
        elif kind == 6:
            code.append("%s v%d(%s, m0);" % (T, v, hexpr))
        elif kind == 8:
            code.append("%s v%d(%s, m1, drv::make_acc<typename T0::accessor_type>::make(%d));" % (T, v, hexpr, h))
        else:
            code.append("%s v%d(%s, m0, drv::make_acc<typename T0::accessor_type>::make(%d));" % (T, v, hexpr, h))
        if kind in (0, 1, 2, 3, 5, 6, 9, 10) and ty.acc == 1:
            # these forms default-construct the accessor: the stateful accessor's default id is 0, not 3
            return None
    while len(ops) < nops:
        same = collections.defaultdict(list)
        for i, ty in enumerate(vars_):
            same[ty].append(i)
        choice = rng.choice(["copy", "move", "assign", "massign", "swap", "conv", "conv", "aconv"])
        if choice in ("copy", "move") and len(vars_) < 7:
            src = rng.randrange(len(vars_)); v = newvar(vars_[src]); vals.append(vals[src])
            ops.append([1 if choice == "copy" else 2, src])
            code.append("T%d v%d(%s);" % (vars_[src], v, ("v%d" % src) if choice == "copy" else ("std::move(v%d)" % src)))
        elif choice in ("assign", "massign", "swap"):
            cands = [l for l in same.values() if len(l) >= 2]
            if not cands:
                continue
            a, b = rng.sample(rng.choice(cands), 2)
            if choice == "swap":
                ops.append([5, a, b]); code.append("swap(v%d, v%d);" % (a, b)); vals[a], vals[b] = vals[b], vals[a]
            elif choice == "assign":
                ops.append([3, a, b]); code.append("v%d = v%d;" % (a, b)); vals[a] = vals[b]
            else:
                ops.append([4, a, b]); code.append("v%d = std::move(v%d);" % (a, b)); vals[a] = vals[b]
        elif choice == "conv" and len(vars_) < 7:
            src = rng.randrange(len(vars_))
            tgts = [k for k in range(len(types)) if k > vars_[src] and conv_ok(vals[src], k)]
            if not tgts:
                continue
            k = tgts[0] if rng.random() < 0.7 else rng.choice(tgts)
            v = newvar(k); vals.append(conv_val(vals[src], k))
            ops.append([6, src, k]); code.append("T%d v%d(v%d);" % (k, v, src))
        elif choice == "aconv":
            pairs = [(a, b) for a in range(len(vars_)) for b in range(len(vars_)) if vars_[a] > vars_[b] and conv_ok(vals[b], vars_[a])]
            if not pairs:
                continue
            a, b = rng.choice(pairs); vals[a] = conv_val(vals[b], vars_[a])
            ops.append([7, a, b]); code.append("v%d = T%d(v%d);" % (a, vars_[a], b))
    return types, es, ss, ops, code, vars_, es2, ss2


def gen(rng, tier):
    progs, cases = [], []
    hist = collections.Counter()
    nprog = scaled(160 if tier == "quick" else 1200)
    tries = 0
    while len(progs) < nprog and tries < nprog * 30:
        tries += 1
        g = gen_program(rng, tier)
        if g is None:
            continue
        types, es, ss, ops, code, vars_, es2, ss2 = g
        R = len(es)
        body = ["tk.next(); std::printf(\"P %ld \", caseno); std::fflush(stdout);"]
        for k, ty in enumerate(types):
            body.append("using T%d = %s; using I%d = typename T%d::index_type;" % (k, ty.cpp(), k, k))
        body.append("long nt = tk.next_l(); for (long q = 0; q < nt; ++q) { tk.next(); tk.next(); long r = tk.next_l(); for (long z = 0; z < r + 1; ++z) tk.next(); }")
        body.append("long R = tk.next_l(); std::vector<drv::i128> es, ss, es2, ss2; for (long q = 0; q < R; ++q) es.push_back(tk.next_i()); for (long q = 0; q < R; ++q) ss.push_back(tk.next_i()); for (long q = 0; q < R; ++q) es2.push_back(tk.next_i()); for (long q = 0; q < R; ++q) ss2.push_back(tk.next_i());")
        body.append("std::vector<int> buf(64, 5); int* base = buf.data() + 8; drv::Out o; long cs0 = drv::buf_checksum(buf);")
        ty0 = types[0]
        allv = ", ".join("static_cast<I0>(es[%d])" % k for k in range(R))
        if ty0.lay == 2:
            sv = ", ".join("static_cast<I0>(ss[%d])" % k for k in range(R))
            body.append("typename T0::mapping_type m0(typename T0::extents_type(std::array<I0, %d>{%s}), std::array<I0, %d>{%s});" % (R, allv, R, sv))
        else:
            body.append("typename T0::mapping_type m0(typename T0::extents_type(std::array<I0, %d>{%s}));" % (R, allv))
        allv2 = ", ".join("static_cast<I0>(es2[%d])" % k for k in range(R))
        if ty0.lay == 2:
            sv2 = ", ".join("static_cast<I0>(ss2[%d])" % k for k in range(R))
            body.append("typename T0::mapping_type m1(typename T0::extents_type(std::array<I0, %d>{%s}), std::array<I0, %d>{%s});" % (R, allv2, R, sv2))
        else:
            body.append("typename T0::mapping_type m1(typename T0::extents_type(std::array<I0, %d>{%s}));" % (R, allv2))
        live = 0
        for step, (op, line) in enumerate(zip(ops, code), 1):
            body.append(line)
            if op[0] in (0, 1, 2, 6):
                live += 1
            names = ", ".join("v%d" % q for q in range(live))
            body.append("drv::dump(o, %d, base, drv::buf_checksum(buf) - cs0, %s);" % (step, names))
        body.append("std::printf(\"%s\\n\", o.s.c_str());")
        pr = Prog(None, "pool types=[%s] ops=%s" % ("; ".join(t.desc() for t in types), ops))
        pr.body = "\n    ".join(body)
        progs.append(pr)
        toks = [None, len(types)]
        for ty in types:
            toks += ty.tokens()
        toks += [R] + es + ss + es2 + ss2 + [len(ops)]
        for op in ops:
            toks += op
        cases.append((pr, toks, {"ops": ops, "types": [t.desc() for t in types], "es": es, "ss": ss, "es2": es2, "ss2": ss2, "rank": R, "nvars": len(vars_)}))
        for op in ops:
            if op[0] == 0:
                hist["ctor form=%s" % {0: "(h, dynamic extents...)", 1: "(h, all extents...)", 2: "(h, array of dynamic)", 3: "(h, array of all)", 5: "(h, extents)", 6: "(h, mapping)",
                                       7: "(h, mapping, accessor)", 8: "(h, second mapping value, accessor)", 9: "(h, span of dynamic)", 10: "(h, span of all)"}[op[2]]] += 1
        if any(op[0] == 0 and op[2] == 8 for op in ops):
            hist["pools holding two different mapping values of one type"] += 1
            if all(p != DYN for p in types[0].pat) and types[0].lay == 2:
                hist["... of an all-static layout_stride type"] += 1
        for op in ops:
            hist["op=%s" % ["ctor", "copy", "move", "assign", "move-assign", "swap", "convert", "assign-converted"][op[0]]] += 1
        hist["rank=%d" % R] += 1
        if max(es + [0]) >= 2 ** 31 - 1:
            hist["huge extent (>= 2^31 - 1)"] += 1
        if types[0].user:
            hist["pools over a user layout with an EMPTY mapping%s" % (" and a stateful accessor" if types[0].acc else "")] += 1
        for t in types:
            hist["static-all" if all(p != DYN for p in t.pat) else "has-dynamic"] += 1
            hist["accessor=%s" % ("stateful" if t.acc else "default")] += 1
    for n, p in enumerate(progs):
        p.id = n
        p.call = "prog_%d(caseno, tk)" % n
    for c in cases:
        c[1][0] = c[0].id
    return progs, cases, hist


def prelude(progs):
    return "\n".join("static void prog_%d(long caseno, drv::Toks& tk) {\n    %s\n}" % (p.id, p.body) for p in progs)


def judge(r, cfg):
    md, im, meta = r["model"], r["impl"].get(cfg), r["meta"]
    out = []
    if im is None:
        return out
    if "crash" in r and cfg in r["crash"]:
        return [("crash", "implementation terminated abnormally: " + r["crash"][cfg]["stderr"], True)]
    if any(v == "UB" for v in md.values()):
        return [("model", "model reports UB on a generated valid program: " + r["model_line"][:200], False)]
    for k in sorted(md, key=lambda x: int(x[1:]) if x[1:].isdigit() else 0):
        if k not in im:
            out.append((k, "step %s missing in the implementation's output" % k, False)); break
        a, b = ints(im[k]), ints(md[k])
        if a[-1:] != [0]:
            out.append((k, "operation %s changed the element buffer (checksum delta %s): view operations must not read or write elements" % (k, a[-1:]), True)); break
        if a != b:
            step = int(k[1:])
            out.append((k, "after operation %d (%s) the views are %s, expected %s (per view: handle offset, handle tag, accessor id, extents, strides)" % (step, meta["ops"][step - 1], a[:-1], b[:-1]), True)); break
    return out


def collect(rep, prop, tier, seed, exe, replay=None):
    rng = random.Random(seed * 67867967 + 13)
    if tier == "quick":
        configs = ["gcc23", "clang17", "gcc20-emu", "clang17-emu"]
    else:
        configs = ["gcc23", "gcc20", "gcc17", "clang17", "clang20", "gcc20-emu", "clang17-emu", "gcc23-O0", "gcc23-san"]
    configs = pick_configs(configs)
    if replay:
        rp = json.load(open(replay))
        pr = Prog(rp["call"], rp["program"]); pr.id = rp["case_tokens"][0]; pr.body = rp["body"]
        progs, cases, hist = [pr], [(pr, rp["case_tokens"], rp.get("meta", {}))], {}
        configs = [rp["config"]]
    else:
        progs, cases, hist = gen(rng, tier)
    work = os.path.join(CACHE, "work", "%s-%s" % (prop, tier))
    records, build_fail = run_programs("P", "drv_pool.hpp", progs, cases, configs, work, exe, nshards=16, prelude=prelude, name="pool")
    import incoq
    incoq_n = incoq.sample_check(rep, prop, "P", records, tier, seed, work, replay)
    for (sh_, cfg, blog) in {c: (s_, c, l) for (s_, c, l) in reversed(build_fail)}.values():
        rep.violation("view-operations driver shard %s no longer builds in configuration %s" % (sh_, cfg),
                      {"obligation": "corr:pool/build/%s/%s" % (sh_, cfg), "log": blog[-3000:], "signature": "build:pool:%s" % cfg}, True)
    evaluations, flagged, nontriv = 0, [], set()
    for r in records:
        for cfg in configs:
            if r["impl"].get(cfg) is None:
                continue
            evaluations += 1
            iss = judge(r, cfg)
            if iss:
                flagged.append((r, cfg, iss))
        m = r["meta"]
        if m.get("rank", 0) >= 1 and len(m["ops"]) >= 5:
            nontriv.add(tuple(str(x) for x in r["toks"][1:]))
    flagged.sort(key=lambda x: len(x[0]["toks"]))
    seen = set()
    for (r, cfg, iss) in flagged:
        key = (iss[0][0][:1], cfg)
        if key in seen:
            continue
        seen.add(key)
        rep.violation(iss[0][1], {"family": "P", "config": cfg, "program": r["prog"].desc, "call": r["prog"].call, "body": r["prog"].body,
                                  "case_tokens": r["toks"], "meta": r["meta"], "model_line": r["model_line"],
                                  "impl_line": r["impl_line"].get(cfg, ""), "issues": [{"field": f, "message": m} for (f, m, _) in iss],
                                  "signature": "P:%s:%s" % (r["prog"].desc, iss[0][0])}, no_failing_input=not any(x[2] for x in iss))
        if len(seen) >= 6:
            break
    return {
        "evaluations": evaluations, "distinct_nontrivial": len(nontriv), "evaluated_inside_coq_too": incoq_n,
        "rule": "programs = straight-line sequences of 6-12 (thorough: up to 40) operations {construct from (handle, dynamic extents...), (handle, all extents...), "
                "(handle, array), (handle, extents), (handle, mapping), (handle, mapping, accessor); copy; move; assign; move-assign; swap; converting construction; "
                "assignment from a converted view} over a chain of 2-3 convertible mdspan types (element int -> const int, index type, static/dynamic pattern, layout incl. "
                "layout_stride round trips, default or stateful accessor with non-pointer handle), built with [[no_unique_address]] and with the base-class emulation so that "
                "every compressed-pair specialisation occurs. After every operation all live views' (handle, accessor state, extents, strides) and a checksum of the element "
                "buffer are compared with the model. non-trivial = rank >= 1 with >= 5 operations",
        "programs": len(progs) * len(configs), "configurations": configs, "disagreements_checked": len(flagged),
        "input_distribution": dict(sorted(hist.items())) if hist else {},
        "samples": [{"case": r["case_line"], "program": r["prog"].desc[:300], "model": r["model_line"][:300]} for r in records[:: max(1, len(records) // 5)][:5]],
        "exhaustive": False,
    }


def run_property(prop, tier, seed, replay=None):
    rep = Report(prop, tier, seed)
    prove_section(rep, prop)
    exe, log = build_model()
    if exe is None:
        rep.violation("the Coq model or its extraction no longer builds", {"obligation": "build:model", "log": log[-3000:], "signature": "build:model"}, True)
        return rep.finish()
    cov = collect(rep, prop, tier, seed, exe, replay)
    finish_common(rep, prop, [cov])
    rep.assumptions = ["the compressed-pair specialisations and the EBO emulation are object-layout devices with no model content: they are covered by building the driver so that each is selected (hook MDSPAN_VERIF_FORCE_NO_UNIQUE_ADDRESS_EMULATION)",
                       "overload resolution (which constructor a call selects) is observed, not proved"]
    prune_cache()
    return rep.finish()
