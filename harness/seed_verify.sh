#!/bin/bash
# seed_verify.sh <worktree> <name> "<demo compile flags>" <checks...>
# confirms a seeded change: (1) existing suite passes with it, (2) demo fails with / passes without,
# (3) runs the given checks against /repo with the patch applied, then restores /repo.
wt=$1; name=$2; flags=$3; shift 3
set -u
cd $wt || exit 2
git diff -- include > patch.diff
[ -s patch.diff ] || { echo "EMPTY PATCH"; exit 2; }
echo "== suite with change"
cmake -G Ninja -S $wt -B $wt/_b -DMDSPAN_ENABLE_TESTS=ON -DMDSPAN_USE_SYSTEM_GTEST=ON -DGTest_DIR=/root/miniconda/lib/cmake/GTest -DCMAKE_BUILD_TYPE=RelWithDebInfo -DCMAKE_CXX_FLAGS=-Wno-error > /dev/null 2>&1 && cmake --build $wt/_b -j16 > $wt/build.log 2>&1; brc=$?
ctest --test-dir $wt/_b -j8 2>&1 | tail -3 | head -1
rm -rf $wt/_b
echo "build rc=$brc"
echo "== demo with change"
$flags -I$wt/include $wt/demo.cpp -o $wt/demo_with 2>&1 | tail -3; (cd $wt && timeout 60 ./demo_with > demo_with.out 2>&1; echo "demo rc with=$?")
git stash -q -- include
echo "== demo without change"
$flags -I$wt/include $wt/demo.cpp -o $wt/demo_without 2>&1 | tail -3; (cd $wt && timeout 60 ./demo_without > demo_without.out 2>&1; echo "demo rc without=$?")
git stash pop -q
rm -f $wt/demo_with $wt/demo_without
echo "== checks with the change applied to /repo"
cd /repo && git apply $wt/patch.diff || { echo "PATCH DOES NOT APPLY TO /repo"; exit 3; }
cd /verif
for c in "$@"; do
  out=$(./check $c 2>&1 | grep -E "VIOLATION|KNOWN" | head -2 | tr '\n' ' ')
  echo "$c: ${out:-silent}"
done
cd /repo && git checkout -- . && git status --short | grep -v _build
mkdir -p /verif/seeded/$name && cp $wt/patch.diff $wt/demo.cpp /verif/seeded/$name/
