#!/bin/bash
# harmless_verify.sh <worktree> <name> [checks...]   (default: all 20)
# applies a behaviour-preserving rewrite to /repo, runs the checks, restores /repo; every check must stay silent
wt=$1; name=$2; shift 2
checks=${@:-C01 C02 C03 C04 C05 C06 C07 C08 C09 C10 C11 C12 C13 C14 C15 C16 C17 C18 C19 C20}
cd $wt || exit 2
git diff -- include > patch.diff
[ -s patch.diff ] || { echo "EMPTY PATCH"; exit 2; }
cd /repo && git apply $wt/patch.diff || { echo "PATCH DOES NOT APPLY TO /repo"; exit 3; }
cd /verif
for c in $checks; do
  out=$(./check $c 2>&1); rc=$?
  v=$(echo "$out" | grep -E "VIOLATION|KNOWN" | head -3 | tr '\n' ' ')
  echo "$c: rc=$rc ${v:-silent}"
done
cd /repo && git checkout -- . && git status --short | grep -v _build
mkdir -p /verif/harmless/$name && cp $wt/patch.diff /verif/harmless/$name/
