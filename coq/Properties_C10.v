(* C10 — a submdspan never points or reaches outside its source's span. *)
From Coq Require Import ZArith List.
From MdspanVerif Require Import MachInt ListAux Layouts LayoutSpec LayoutProofs FlagProofs Extents Submdspan SubSpec SubProofs.
Import ListNotations.
Local Open Scope Z_scope.

(* for every valid slice combination - empty slices that start at the end of an extent included - the
   offset reported by submdspan_mapping is at most the source's required_span_size(), and a non-empty
   view satisfies offset + view.required_span_size() <= source.required_span_size() *)
Theorem C10_contained : forall (t : ity) (src : mapping) (pat : pattern) (sls : list slice) (m' : mapping) (off sp : Z),
  valid t src -> sub_kind_ok src = true ->
  valid_slices sls (dims src) -> Forall (slice_rep t) sls -> pat_ok t pat (exts src) ->
  Forall (fun d => snd d <= imax t) (sub_dims sls (dims src)) ->
  submap t src pat sls = Ok (m', off) -> span_impl t src = Ok sp ->
  0 <= off <= sp /\
  (has_zero (exts m') = false -> exists sp', span_impl t m' = Ok sp' /\ off + sp' <= sp).
Proof. exact sub_contained_impl. Qed.
Print Assumptions C10_contained.

(* specification level, any chainable strided source *)
Theorem C10_contained_spec : forall (ds : list dim) (sls : list slice),
  chainable ds -> valid_slices sls ds -> allpos (sub_dims sls ds) ->
  0 <= sub_offset sls ds /\ sub_offset sls ds + span1 (sub_dims sls ds) <= span1 ds.
Proof. exact contained. Qed.
Print Assumptions C10_contained_spec.

Theorem C10_offset_lt_span : forall (ds : list dim) (sls : list slice),
  chainable ds -> firsts_inb sls ds -> 0 <= sub_offset sls ds < span1 ds.
Proof. exact offset_lt_span. Qed.
Print Assumptions C10_offset_lt_span.

(* chains of views: every level of a chain of non-empty views satisfies the hypotheses again
   (C04_chain gives valid intermediate mappings), so containment composes along the chain *)
Theorem C10_chain_sub_valid : forall (t : ity) (src : mapping) (pat : pattern) (sls : list slice) (m' : mapping) (off : Z),
  valid t src -> sub_kind_ok src = true ->
  valid_slices sls (dims src) -> Forall (slice_rep t) sls -> pat_ok t pat (exts src) ->
  Forall (fun d => snd d <= imax t) (sub_dims sls (dims src)) ->
  allpos (sub_dims sls (dims src)) ->
  submap t src pat sls = Ok (m', off) ->
  valid t m' /\ sub_kind_ok m' = true /\ dims m' = sub_dims sls (dims src) /\ off = sub_offset sls (dims src).
Proof. exact sub_valid_nonempty. Qed.
Print Assumptions C10_chain_sub_valid.
