(* NonVacuity.v — concrete, non-trivial states that satisfy the hypotheses of the property theorems,
   so that none of the implications is vacuous.  (Examples, not theorems about all inputs.) *)
From Coq Require Import ZArith List Lia Bool Permutation.
From MdspanVerif Require Import MachInt ListAux Layouts LayoutSpec LayoutProofs LayoutTheorems.
Import ListNotations.
Local Open Scope Z_scope.

Ltac adm := split; [repeat constructor; cbv; intuition congruence | cbv; intuition congruence].

Example nv_right : valid I32 (MRight [2;3;4]) /\ inbe [1;2;3] [2;3;4].
Proof. split; [adm | cbn; lia]. Qed.
Example nv_left_zero : valid U16 (MLeft [5;0;7]).
Proof. adm. Qed.
Example nv_left_boundary : valid I8 (MLeft [127;1;1]) /\ inbe [126;0;0] [127;1;1].
Proof. split; [adm | cbn; lia]. Qed.
(* a permuted, gapped stride tuple: order of dimensions 1, 2, 0 *)
Example nv_stride : valid I32 (MStride [2;3;4] [40;1;5]) /\ inbe [1;2;3] [2;3;4].
Proof.
  split; [|cbn; lia]. cbn [valid]. repeat split.
  - repeat constructor; cbv; intuition congruence.
  - repeat constructor; cbv; intuition congruence.
  - intros _. apply std_precondition_chainable; try reflexivity; try (repeat constructor; lia).
    exists [(3,1);(4,5);(2,40)]. split; [|cbn; lia]. cbn [combine].
    eapply perm_trans; [apply perm_skip, perm_swap|apply perm_swap].
  - cbv. congruence.
Qed.
(* a one-element dimension with a huge stride *)
Example nv_stride_huge : valid I32 (MStride [1;3] [2147483647;1]).
Proof.
  cbn [valid]. repeat split.
  - repeat constructor; cbv; intuition congruence.
  - repeat constructor; cbv; intuition congruence.
  - intros _. apply std_precondition_chainable; try reflexivity; try (repeat constructor; lia).
    exists [(3,1);(1,2147483647)]. split; [cbn [combine]; apply perm_swap|cbn; lia].
  - cbv. congruence.
Qed.
Example nv_lpad : valid I32 (MLPad [5;3;2] 8) /\ inbe [4;2;1] [5;3;2].
Proof. split; [|cbn; lia]. split; [adm|]. intros _. cbv. intuition congruence. Qed.
Example nv_rpad_zero : valid I32 (MRPad [3;0] 7).
Proof. split; [adm|]. intros _. cbv. intuition congruence. Qed.
Example nv_rpad_boundary : valid U8 (MRPad [5;50] 51) /\ inbe [4;49] [5;50].
Proof. split; [|cbn; lia]. split; [adm|]. intros _. cbv. intuition congruence. Qed.

(* the model evaluates on these states (and agrees with the theorems) *)
Example nv_eval_stride : offset_impl I32 (MStride [2;3;4] [40;1;5]) [1;2;3] = Ok 57 /\ span_impl I32 (MStride [2;3;4] [40;1;5]) = Ok 58.
Proof. split; vm_compute; reflexivity. Qed.
Example nv_eval_lpad : offset_impl I32 (MLPad [5;3;2] 8) [4;2;1] = Ok 44 /\ span_impl I32 (MLPad [5;3;2] 8) = Ok 48.
Proof. split; vm_compute; reflexivity. Qed.
Example nv_least_multiple : find_next_multiple I32 4 2147483645 = Ok 2147483644 \/ find_next_multiple U32 3 4294967295 = Ok 4294967295.
Proof. right. vm_compute. reflexivity. Qed.
