(* ConvertProofs.v — C08: conversions preserve the mapping; equality is sound; != is its negation. *)
From Coq Require Import ZArith List Lia Bool Arith.
From MdspanVerif Require Import MachInt ListAux Layouts LayoutSpec LayoutProofs LayoutTheorems FlagProofs Extents ExtentsProofs Convert.
Import ListNotations.
Local Open Scope Z_scope.

(* ---- strides_list ---- *)
Lemma strides_list_ok t m : valid t m -> strides_list t m = Ok (spec_strides m).
Proof.
  intros Hv. unfold strides_list.
  assert (Hlen : length (spec_strides m) = length (exts m)).
  { destruct m as [es|es|es ss|es ps|es ps]; cbn [spec_strides exts valid] in *.
    - apply left_strides_go_length.
    - apply right_strides_length.
    - tauto.
    - unfold left_strides. rewrite left_strides_go_length. apply lpad_exts_length.
    - rewrite right_strides_length. apply rpad_exts_length. }
  rewrite (seq_res_map_ok _ (fun k => nth k (spec_strides m) 0)).
  - rewrite <- Hlen. rewrite map_nth_seq. reflexivity.
  - intros k Hk. apply in_seq in Hk. apply stride_refines; auto. lia.
Qed.

Lemma map_wrap_id t l : Forall (fun x => 0 <= x <= imax t) l -> map (wrap t) l = l.
Proof. induction 1 as [|x l Hx _ IH]; cbn [map]; [reflexivity|]. rewrite IH, wrap_small by exact Hx. reflexivity. Qed.

(* what the padded target's stored stride must be, given its type *)
Definition pad_ok (tgt : mtype) (m' : mapping) : Prop :=
  let tt := mt_t tgt in
  match m' with
  | MLPad es ps =>
      if Nat.leb (length es) 1 then ps = 0
      else match static_padded_stride (length es) (mt_pv tgt) (tgt_se true (mt_pat tgt)) with Some v => wrap tt v = ps | None => True end
  | MRPad es ps =>
      if Nat.leb (length es) 1 then ps = 0
      else match static_padded_stride (length es) (mt_pv tgt) (tgt_se false (mt_pat tgt)) with Some v => wrap tt v = ps | None => True end
  | _ => True
  end.

Lemma conv_exts_ok tt tpat es : conv_pre tt tpat es -> conv_exts tt tpat es = Ok es.
Proof.
  intros H. unfold conv_exts. assert (L : length tpat = length es).
  { revert es H. induction tpat as [|p tp IH]; intros [|x es]; cbn [conv_pre length]; try tauto. intros (_ & _ & H). f_equal. apply IH; auto. }
  rewrite L, Nat.eqb_refl. f_equal. apply fill_all_id. exact H.
Qed.

Lemma nth1_left_strides ps e1 es : nth 1 (left_strides (ps :: e1 :: es)) 0 = ps.
Proof. unfold left_strides. cbn [left_strides_go nth]. lia. Qed.

Lemma nth_right_strides_pad l ps : l <> [] ->
  nth (length l - 1) (right_strides (l ++ [ps])) 0 = ps.
Proof.
  intros Hne. rewrite right_strides_nth by (rewrite app_length; cbn [length]; destruct l; [contradiction|cbn [length]; lia]).
  replace (S (length l - 1)) with (length l) by (destruct l; [contradiction|cbn [length]; lia]).
  rewrite skipn_app, skipn_all, Nat.sub_diag. cbn [app skipn prodl]. lia.
Qed.

(* ---- the conversion theorem: whenever a valid target mapping with the same extents and strides
        exists (that is the precondition of each converting constructor), the constructor computes it *)
Theorem conv_correct ts src tgt m' :
  valid ts src -> valid (mt_t tgt) m' ->
  kind_of m' = mt_kind tgt -> conv_exists src (mt_kind tgt) = true ->
  exts m' = exts src -> spec_strides m' = spec_strides src ->
  conv_pre (mt_t tgt) (mt_pat tgt) (exts src) -> pad_ok tgt m' ->
  conv_mapping ts src tgt = Ok m'.
Proof.
  intros Hvs Hvt Hk Hex He Hss Hpre Hpad. unfold conv_mapping. rewrite Hex. cbn [negb].
  rewrite (conv_exts_ok _ _ _ Hpre). cbn [bind]. rewrite <- Hk.
  destruct m' as [es|es|es ss|es ps|es ps]; cbn [kind_of exts spec_strides] in *; subst es.
  - reflexivity.
  - reflexivity.
  - rewrite (strides_list_ok ts src Hvs). cbn [bind]. rewrite <- Hss. f_equal. f_equal.
    destruct Hvt as (_ & _ & Hs & _). apply map_wrap_id. eapply Forall_impl; [|exact Hs]. cbn. intros; lia.
  - unfold conv_to_padded. cbn [pad_ok] in Hpad.
    destruct (Nat.leb (length (exts src)) 1) eqn:Hr; [subst ps; reflexivity|].
    apply Nat.leb_gt in Hr. rewrite stride_refines by (auto; lia). cbn [bind]. rewrite <- Hss.
    destruct (exts src) as [|e0 [|e1 es]] eqn:Ees; cbn [length] in Hr; try lia.
    cbn [lpad_exts]. rewrite nth1_left_strides.
    destruct Hvt as [Ha Hp]. destruct (Hp ltac:(cbn [length]; lia)) as [Hps Hb]. cbn [hd tl] in *.
    assert (0 <= ps <= imax (mt_t tgt)).
    { destruct Ha as [Hf _]. inversion Hf as [|? ? H0 _]; subst. pose proof (prod1_pos (e1 :: es)). unfold max1 in Hb. nia. }
    rewrite wrap_small by lia. f_equal. f_equal.
    destruct (static_padded_stride _ _ _) as [v|]; cbn [pad_value]; auto.
  - unfold conv_to_padded. cbn [pad_ok] in Hpad.
    destruct (Nat.leb (length (exts src)) 1) eqn:Hr; [subst ps; reflexivity|].
    apply Nat.leb_gt in Hr. rewrite stride_refines by (auto; lia). cbn [bind]. rewrite <- Hss.
    destruct (exts src) as [|e0 [|e1 es]] eqn:Ees; cbn [length] in Hr; try lia.
    set (l := e0 :: e1 :: es) in *. change (rpad_exts l ps) with (removelast l ++ [ps]).
    assert (Hrl : length (removelast l) = S (length es)) by (rewrite removelast_length; reflexivity).
    replace (length l - 2)%nat with (length (removelast l) - 1)%nat by (rewrite Hrl; unfold l; cbn [length]; lia).
    rewrite nth_right_strides_pad by (intros E; rewrite E in Hrl; discriminate).
    destruct Hvt as [Ha Hp]. destruct (Hp ltac:(unfold l; cbn [length]; lia)) as [Hps Hb].
    assert (0 <= ps <= imax (mt_t tgt)).
    { destruct Ha as [Hf _]. assert (Hne : l <> []) by discriminate.
      rewrite (app_removelast_last 0 Hne) in Hf. apply Forall_app in Hf as [_ Hf]. apply Forall_inv in Hf.
      pose proof (prod1_pos (removelast l)). unfold max1 in Hb. nia. }
    rewrite wrap_small by lia. f_equal. f_equal.
    destruct (static_padded_stride _ _ _) as [v|]; cbn [pad_value]; auto.
Qed.

(* ... and the converted mapping sends every multi-index to the same offset *)
Theorem conv_offsets ts src tt m' idx :
  valid ts src -> valid tt m' -> exts m' = exts src -> spec_strides m' = spec_strides src ->
  inbe idx (exts src) -> offset_impl tt m' idx = offset_impl ts src idx.
Proof.
  intros Hvs Hvt He Hss Hin. rewrite (offset_refines ts src idx Hvs Hin).
  rewrite (offset_refines tt m' idx Hvt) by (rewrite He; exact Hin).
  unfold spec_offset, dims. rewrite He, Hss. reflexivity.
Qed.

(* ---- equality ---- *)
Lemma all2_eq_in ta tb a b : nonneg_in ta a -> nonneg_in tb b -> all2 (eq_in (common ta tb)) a b = true -> a = b.
Proof.
  intros Ha; revert b; induction Ha as [|x a Hx _ IH]; intros [|y b] Hb; cbn [all2]; try discriminate; auto.
  inversion Hb as [|? ? Hy Hb']; subst. intros H. apply andb_prop in H as [H1 H2].
  unfold eq_in in H1. apply Z.eqb_eq in H1.
  rewrite (wrap_small (common ta tb) x) in H1 by (pose proof (imax_common_l ta tb); lia).
  rewrite (wrap_small (common ta tb) y) in H1 by (pose proof (imax_common_r ta tb); lia).
  subst y. f_equal. apply IH; auto.
Qed.
Lemma all2_refl c a : all2 (eq_in c) a a = true.
Proof. induction a as [|x a IH]; cbn [all2]; auto. unfold eq_in at 1. rewrite Z.eqb_refl, IH. reflexivity. Qed.

Lemma valid_exts_in t m : valid t m -> nonneg_in t (exts m).
Proof.
  intros Hv. unfold nonneg_in. destruct m as [es|es|es ss|es ps|es ps]; cbn [valid exts] in *; try (destruct Hv as [[H _] _] || destruct Hv as [H _]; exact H).
  destruct Hv as (_ & H & _). exact H.
Qed.
Lemma valid_strides_in t m : valid t m -> nonneg_in t (spec_strides m) \/ has_zero (exts m) = true \/ True.
Proof. intros; right; right; exact I. Qed.

Lemma prodl_firstn_bound ms r : Forall (fun e => 0 <= e) ms -> 0 <= prodl (firstn r ms) <= prod1 ms.
Proof.
  intros H. pose proof (Forall_firstn _ r ms H) as Hf. pose proof (prodl_nonneg _ Hf). pose proof (prodl_le_prod1 _ Hf).
  pose proof (prod1_firstn_le r ms). lia.
Qed.
Lemma prodl_skipn_bound ms r : Forall (fun e => 0 <= e) ms -> 0 <= prodl (skipn r ms) <= prod1 ms.
Proof.
  intros H. pose proof (Forall_skipn _ r ms H) as Hf. pose proof (prodl_nonneg _ Hf). pose proof (prodl_le_prod1 _ Hf).
  pose proof (prod1_skipn_le r ms). lia.
Qed.

Lemma pad_exts_facts_l t es ps : valid t (MLPad es ps) ->
  Forall (fun e => 0 <= e) (lpad_exts es ps) /\ prod1 (lpad_exts es ps) <= imax t.
Proof.
  intros [Ha Hp]. pose proof (admissible_nonneg t es Ha) as Hnn. destruct Ha as [_ Hb].
  destruct es as [|e0 [|e1 es]]; cbn [lpad_exts]; auto.
  destruct (Hp ltac:(cbn [length]; lia)) as [Hps Hb2]. cbn [hd tl] in *. inversion Hnn; subst. split; [constructor; [lia|auto]|exact Hb2].
Qed.
Lemma pad_exts_facts_r t es ps : valid t (MRPad es ps) ->
  Forall (fun e => 0 <= e) (rpad_exts es ps) /\ prod1 (rpad_exts es ps) <= imax t.
Proof.
  intros [Ha Hp]. pose proof (admissible_nonneg t es Ha) as Hnn. destruct Ha as [_ Hb].
  destruct es as [|e0 [|e1 es]]; cbn [rpad_exts]; auto.
  destruct (Hp ltac:(cbn [length]; lia)) as [Hps Hb2]. set (l := e0 :: e1 :: es) in *.
  assert (Hne : l <> []) by discriminate.
  assert (Hlast : 0 <= last l 0).
  { rewrite (app_removelast_last 0 Hne) in Hnn. apply Forall_app in Hnn as [_ H]. apply Forall_inv in H. exact H. }
  split.
  - apply Forall_app. split; [apply Forall_removelast; auto|constructor; [lia|constructor]].
  - rewrite prod1_app. cbn [prod1 map prodl]. lia.
Qed.

(* every specified stride of a valid mapping is a non-negative value of the index type *)
Lemma strides_nonneg_in t m : valid t m -> nonneg_in t (spec_strides m).
Proof.
  intros Hv. unfold nonneg_in. apply Forall_forall. intros x Hx. apply (In_nth _ _ 0) in Hx as (r & Hr & <-).
  destruct m as [es|es|es ss|es ps|es ps]; cbn [spec_strides] in *.
  - unfold left_strides in *. rewrite left_strides_go_length in Hr. rewrite left_strides_go_nth by exact Hr.
    pose proof (prodl_firstn_bound es r (admissible_nonneg t es Hv)). destruct Hv as [_ Hb]. lia.
  - rewrite right_strides_length in Hr. rewrite right_strides_nth by exact Hr.
    pose proof (prodl_skipn_bound es (S r) (admissible_nonneg t es Hv)). destruct Hv as [_ Hb]. lia.
  - destruct Hv as (_ & _ & Hs & _). rewrite Forall_forall in Hs. specialize (Hs _ (nth_In ss 0 Hr)). lia.
  - destruct (pad_exts_facts_l t es ps Hv) as [Hnn Hb]. unfold left_strides in *. rewrite left_strides_go_length in Hr.
    rewrite left_strides_go_nth by exact Hr. pose proof (prodl_firstn_bound _ r Hnn). lia.
  - destruct (pad_exts_facts_r t es ps Hv) as [Hnn Hb]. rewrite right_strides_length in Hr.
    rewrite right_strides_nth by exact Hr. pose proof (prodl_skipn_bound _ (S r) Hnn). lia.
Qed.

Definition offsets_agree (ta : ity) (a : mapping) (tb : ity) (b : mapping) : Prop :=
  exts a = exts b /\ spec_strides a = spec_strides b.

Lemma spec_strides_pad_eq_l es pa pb : ((2 <= length es)%nat -> pa = pb) ->
  left_strides (lpad_exts es pa) = left_strides (lpad_exts es pb).
Proof. intros H. destruct es as [|e0 [|e1 es]]; try reflexivity. rewrite H by (cbn [length]; lia). reflexivity. Qed.
Lemma spec_strides_pad_eq_r es pa pb : ((2 <= length es)%nat -> pa = pb) ->
  right_strides (rpad_exts es pa) = right_strides (rpad_exts es pb).
Proof. intros H. destruct es as [|e0 [|e1 es]]; try reflexivity. rewrite H by (cbn [length]; lia). reflexivity. Qed.

Lemma valid_stride_vals t es ss : valid t (MStride es ss) -> nonneg_in t ss.
Proof. intros (_ & _ & Hs & _). unfold nonneg_in. eapply Forall_impl; [|exact Hs]. cbn. intros; lia. Qed.

Lemma pad_l_ps_range t es ps : valid t (MLPad es ps) -> (2 <= length es)%nat -> 0 <= ps <= imax t.
Proof.
  intros [Ha Hp] H2. destruct (Hp H2) as [Hps Hb]. destruct es as [|e0 es']; cbn [length] in H2; [lia|]. cbn [hd tl] in *.
  destruct Ha as [Hf _]. inversion Hf as [|? ? H0 _]; subst. pose proof (prod1_pos es'). unfold max1 in Hb. nia.
Qed.
Lemma pad_r_ps_range t es ps : valid t (MRPad es ps) -> (2 <= length es)%nat -> 0 <= ps <= imax t.
Proof.
  intros [Ha Hp] H2. destruct (Hp H2) as [Hps Hb]. destruct es as [|e0 es']; cbn [length] in H2; [lia|].
  assert (Hne : e0 :: es' <> []) by discriminate. destruct Ha as [Hf _].
  rewrite (app_removelast_last 0 Hne) in Hf. apply Forall_app in Hf as [_ Hf]. apply Forall_inv in Hf.
  pose proof (prod1_pos (removelast (e0 :: es'))). unfold max1 in Hb. nia.
Qed.

(* a == b implies equal extents and identical offsets for all multi-indices *)
Theorem eq_sound ta a tb b :
  valid ta a -> valid tb b -> map_eq ta a tb b = Ok (Some true) -> offsets_agree ta a tb b.
Proof.
  intros Hva Hvb. pose proof (valid_exts_in ta a Hva) as Hna. pose proof (valid_exts_in tb b Hvb) as Hnb.
  unfold map_eq, offsets_agree.
  destruct (Nat.eqb (length (exts a)) (length (exts b))) eqn:Hr; cbn [negb]; [|discriminate].
  apply Nat.eqb_eq in Hr.
  destruct a as [ea|ea|ea sa|ea pa|ea pa]; destruct b as [eb|eb|eb sb|eb pb|eb pb]; cbn [exts spec_strides] in *; try discriminate.
  - intros H. injection H as H. apply (all2_eq_in ta tb) in H; auto. subst. auto.
  - intros H. injection H as H. apply (all2_eq_in ta tb) in H; auto. subst. auto.
  - (* stride == left : the generic operator *)
    rewrite (strides_list_ok tb _ Hvb). cbn [bind spec_strides].
    destruct (offset_impl tb (MLeft eb) _); cbn [bind]; [|discriminate]. intros H. injection H as H.
    apply andb_prop in H as [H H3]. apply andb_prop in H as [H1 H2].
    apply (all2_eq_in ta tb) in H1; auto. subst eb.
    assert (Hsb : nonneg_in tb (left_strides ea)).
    { pose proof (strides_nonneg_in tb (MLeft ea) Hvb) as X. exact X. }
    apply (all2_eq_in ta tb) in H3; auto. apply (valid_stride_vals ta ea sa Hva).
  - rewrite (strides_list_ok tb _ Hvb). cbn [bind spec_strides].
    destruct (offset_impl tb (MRight eb) _); cbn [bind]; [|discriminate]. intros H. injection H as H.
    apply andb_prop in H as [H H3]. apply andb_prop in H as [H1 H2].
    apply (all2_eq_in ta tb) in H1; auto. subst eb.
    pose proof (strides_nonneg_in tb (MRight ea) Hvb) as Hsb.
    apply (all2_eq_in ta tb) in H3; auto. apply (valid_stride_vals ta ea sa Hva).
  - intros H. injection H as H. unfold stride_eq_impl in H. apply andb_prop in H as [H1 H2].
    apply (all2_eq_in ta tb) in H2; auto. apply (all2_eq_in ta tb) in H1; auto.
    + apply (valid_stride_vals ta ea sa Hva). + apply (valid_stride_vals tb eb sb Hvb).
  - rewrite (strides_list_ok tb _ Hvb). cbn [bind spec_strides].
    destruct (offset_impl tb (MLPad eb pb) _); cbn [bind]; [|discriminate]. intros H. injection H as H.
    apply andb_prop in H as [H H3]. apply andb_prop in H as [H1 H2].
    apply (all2_eq_in ta tb) in H1; auto. subst eb.
    pose proof (strides_nonneg_in tb (MLPad ea pb) Hvb) as Hsb.
    apply (all2_eq_in ta tb) in H3; auto. apply (valid_stride_vals ta ea sa Hva).
  - rewrite (strides_list_ok tb _ Hvb). cbn [bind spec_strides].
    destruct (offset_impl tb (MRPad eb pb) _); cbn [bind]; [|discriminate]. intros H. injection H as H.
    apply andb_prop in H as [H H3]. apply andb_prop in H as [H1 H2].
    apply (all2_eq_in ta tb) in H1; auto. subst eb.
    pose proof (strides_nonneg_in tb (MRPad ea pb) Hvb) as Hsb.
    apply (all2_eq_in ta tb) in H3; auto. apply (valid_stride_vals ta ea sa Hva).
  - destruct (Nat.leb (length ea) 1) eqn:Hr1.
    + apply Nat.leb_le in Hr1. intros H. injection H as H. apply (all2_eq_in ta tb) in H; auto. subst eb.
      split; auto. apply spec_strides_pad_eq_l. intros; lia.
    + apply Nat.leb_gt in Hr1.
      rewrite (stride_refines ta (MLPad ea pa) 1 Hva) by (cbn [exts]; lia).
      rewrite (stride_refines tb (MLPad eb pb) 1 Hvb) by (cbn [exts]; lia). cbn [bind spec_strides].
      intros H. injection H as H. apply andb_prop in H as [H1 H2]. apply (all2_eq_in ta tb) in H1; auto. subst eb.
      split; auto. apply spec_strides_pad_eq_l. intros _.
      destruct ea as [|e0 [|e1 es]]; cbn [length] in Hr1; try lia. cbn [lpad_exts] in H2. rewrite !nth1_left_strides in H2.
      pose proof (pad_l_ps_range ta _ pa Hva ltac:(cbn [length]; lia)). pose proof (pad_l_ps_range tb _ pb Hvb ltac:(cbn [length]; lia)).
      unfold eq_in in H2. apply Z.eqb_eq in H2.
      rewrite (wrap_small _ pa) in H2 by (pose proof (imax_common_l ta tb); lia).
      rewrite (wrap_small _ pb) in H2 by (pose proof (imax_common_r ta tb); lia). exact H2.
  - destruct (Nat.leb (length ea) 1) eqn:Hr1.
    + apply Nat.leb_le in Hr1. intros H. injection H as H. apply (all2_eq_in ta tb) in H; auto. subst eb.
      split; auto. apply spec_strides_pad_eq_r. intros; lia.
    + apply Nat.leb_gt in Hr1.
      rewrite (stride_refines ta (MRPad ea pa) _ Hva) by (cbn [exts]; lia).
      rewrite (stride_refines tb (MRPad eb pb) _ Hvb) by (cbn [exts]; lia). cbn [bind spec_strides].
      intros H. injection H as H. apply andb_prop in H as [H1 H2]. apply (all2_eq_in ta tb) in H1; auto. subst eb.
      split; auto. apply spec_strides_pad_eq_r. intros _.
      destruct ea as [|e0 [|e1 es]]; cbn [length] in Hr1; try lia.
      set (l := e0 :: e1 :: es) in *. change (rpad_exts l pa) with (removelast l ++ [pa]) in H2. change (rpad_exts l pb) with (removelast l ++ [pb]) in H2.
      assert (Hrl : length (removelast l) = S (length es)) by (rewrite removelast_length; reflexivity).
      replace (length l - 2)%nat with (length (removelast l) - 1)%nat in H2 by (rewrite Hrl; unfold l; cbn [length]; lia).
      rewrite !nth_right_strides_pad in H2 by (intros E; rewrite E in Hrl; discriminate).
      pose proof (pad_r_ps_range ta _ pa Hva ltac:(unfold l; cbn [length]; lia)). pose proof (pad_r_ps_range tb _ pb Hvb ltac:(unfold l; cbn [length]; lia)).
      unfold eq_in in H2. apply Z.eqb_eq in H2.
      rewrite (wrap_small _ pa) in H2 by (pose proof (imax_common_l ta tb); lia).
      rewrite (wrap_small _ pb) in H2 by (pose proof (imax_common_r ta tb); lia). exact H2.
Qed.

(* a mapping always equals its copy *)
Theorem eq_refl_thm t m : valid t m -> map_eq t m t m = Ok (Some true).
Proof.
  intros Hv. unfold map_eq. rewrite Nat.eqb_refl. cbn [negb].
  destruct m as [es|es|es ss|es ps|es ps].
  - unfold exts_eq. rewrite all2_refl. reflexivity.
  - unfold exts_eq. rewrite all2_refl. reflexivity.
  - unfold stride_eq_impl. rewrite !all2_refl. reflexivity.
  - cbn [exts]. destruct (Nat.leb (length es) 1) eqn:Hr; unfold exts_eq; rewrite all2_refl; [reflexivity|].
    apply Nat.leb_gt in Hr. rewrite (stride_refines t _ 1 Hv) by (cbn [exts]; lia). cbn [bind]. unfold eq_in. rewrite Z.eqb_refl. reflexivity.
  - cbn [exts]. destruct (Nat.leb (length es) 1) eqn:Hr; unfold exts_eq; rewrite all2_refl; [reflexivity|].
    apply Nat.leb_gt in Hr. rewrite (stride_refines t _ _ Hv) by (cbn [exts]; lia). cbn [bind]. unfold eq_in. rewrite Z.eqb_refl. reflexivity.
Qed.

(* ... and its round-trip conversion: converting to a target type and back yields the original *)
Theorem roundtrip_thm ts src stype tgt m' :
  valid ts src -> valid (mt_t tgt) m' ->
  kind_of m' = mt_kind tgt -> conv_exists src (mt_kind tgt) = true ->
  exts m' = exts src -> spec_strides m' = spec_strides src ->
  conv_pre (mt_t tgt) (mt_pat tgt) (exts src) -> pad_ok tgt m' ->
  (* the source is a value of its own type, and that type can be constructed from the target *)
  mt_t stype = ts -> kind_of src = mt_kind stype -> conv_exists m' (mt_kind stype) = true ->
  conv_pre ts (mt_pat stype) (exts src) -> pad_ok stype src ->
  exists s2, bind (conv_mapping ts src tgt) (fun m => conv_mapping (mt_t tgt) m stype) = Ok s2 /\
             map_eq ts s2 ts src = Ok (Some true).
Proof.
  intros Hvs Hvt Hk Hex He Hss Hpre Hpad Hts Hks Hex2 Hpre2 Hpad2.
  rewrite (conv_correct ts src tgt m' Hvs Hvt Hk Hex He Hss Hpre Hpad). cbn [bind].
  exists src. split; [|apply eq_refl_thm; exact Hvs].
  apply conv_correct; auto; try (rewrite Hts; auto); try congruence.
Qed.

(* a != b is the negation of a == b, for the synthesised and for each hand-written form *)
Lemma any2_negb_all2 c a b : length a = length b -> any2 (ne_in c) a b = negb (all2 (eq_in c) a b).
Proof.
  revert b; induction a as [|x a IH]; intros [|y b] H; cbn [length] in H; try discriminate; [reflexivity|].
  cbn [any2 all2]. rewrite IH by lia. unfold ne_in, eq_in. destruct (wrap c x =? wrap c y); reflexivity.
Qed.
Theorem stride_not_eq_demorgan c ea sa eb sb : length sa = length sb -> length ea = length eb ->
  stride_not_eq_impl c ea sa eb sb = negb (stride_eq_impl c ea sa eb sb).
Proof.
  intros H1 H2. unfold stride_not_eq_impl, stride_eq_impl. rewrite !any2_negb_all2 by assumption.
  rewrite negb_andb. reflexivity.
Qed.

Theorem neq_is_negation_map ta a tb b : valid ta a -> valid tb b ->
  map_neq_hand ta a tb b = map_neq_synth ta a tb b /\
  map_neq_synth ta a tb b = rmap (option_map negb) (map_eq ta a tb b).
Proof.
  intros Hva Hvb. split; [|reflexivity]. unfold map_neq_hand, map_neq_synth, map_eq.
  destruct (Nat.eqb (length (exts a)) (length (exts b))) eqn:Hr; cbn [negb]; [|reflexivity].
  apply Nat.eqb_eq in Hr.
  destruct a as [ea|ea|ea sa|ea pa|ea pa]; destruct b as [eb|eb|eb sb|eb pb|eb pb]; try reflexivity.
  cbn [rmap option_map exts] in *. destruct Hva as (Hla & _). destruct Hvb as (Hlb & _).
  rewrite stride_not_eq_demorgan by lia. reflexivity.
Qed.

(* layout_left / layout_right mappings are equal exactly when their extents are *)
Theorem lr_eq_iff_extents ta ea tb eb : nonneg_in ta ea -> nonneg_in tb eb -> length ea = length eb ->
  (map_eq ta (MLeft ea) tb (MLeft eb) = Ok (Some true) <-> ea = eb) /\
  (map_eq ta (MRight ea) tb (MRight eb) = Ok (Some true) <-> ea = eb).
Proof.
  intros Ha Hb Hl. unfold map_eq. cbn [exts]. rewrite Hl, Nat.eqb_refl. cbn [negb]. unfold exts_eq.
  split; (split; [intros H; injection H as H; apply (all2_eq_in ta tb); auto | intros ->; rewrite all2_refl; reflexivity]).
Qed.

(* ---------------------------------------------------------------------------------------------- *)
(* C20: the debug-mode stride check of layout_stride -> layout_left / layout_right                  *)

Lemma list_eqb_cons_ne x y a b : x <> y -> list_eqb (x :: a) (y :: b) = false.
Proof. intros H. cbn [list_eqb]. apply Z.eqb_neq in H. rewrite H. reflexivity. Qed.

Lemma stride_check_loop_ok tt ts : forall es ss st,
  length ss = length es -> Forall (fun e => 0 <= e) es -> nonneg_in ts ss ->
  0 <= st -> st * prod1 es <= imax tt ->
  stride_check_loop tt (common tt ts) st es ss = Ok (negb (list_eqb ss (left_strides_go st es))).
Proof.
  induction es as [|e es IH]; intros [|s ss] st Hl He Hs Hst Hb; cbn [length] in Hl; try discriminate; [reflexivity|].
  injection Hl as Hl. inversion He as [|? ? He0 He']; subst. inversion Hs as [|? ? Hs0 Hs']; subst.
  cbn [stride_check_loop left_strides_go]. rewrite prod1_cons in Hb. pose proof (prod1_pos es).
  assert (Hm : max1 e = Z.max e 1) by reflexivity.
  assert (Hx : 1 <= max1 e * prod1 es) by (unfold max1; nia).
  assert (Hst' : st <= imax tt) by nia.
  rewrite (wrap_small (common tt ts) st) by (pose proof (imax_common_l tt ts); lia).
  rewrite (wrap_small (common tt ts) s) by (pose proof (imax_common_r tt ts); lia).
  destruct (st =? s) eqn:E; cbn [negb].
  - apply Z.eqb_eq in E. subst s.
    assert (0 <= st * e) by nia. assert (st * e <= st * max1 e) by nia. assert (st * max1 e <= st * max1 e * prod1 es) by nia.
    rewrite mul_assign_small by nia. cbn [bind]. rewrite IH; auto; try nia.
    cbn [list_eqb]. rewrite Z.eqb_refl. reflexivity.
  - apply Z.eqb_neq in E. rewrite list_eqb_cons_ne by congruence. reflexivity.
Qed.

Lemma list_eqb_rev a b : list_eqb (rev a) (rev b) = list_eqb a b.
Proof.
  destruct (list_eqb a b) eqn:E.
  - apply list_eqb_eq in E. subst. apply list_eqb_eq. reflexivity.
  - destruct (list_eqb (rev a) (rev b)) eqn:E2; [|reflexivity].
    apply list_eqb_eq in E2. apply (f_equal (@rev Z)) in E2. rewrite !rev_involutive in E2. subst.
    assert (list_eqb b b = true) by (apply list_eqb_eq; reflexivity). congruence.
Qed.

(* the check terminates the program exactly when some stride differs from the canonical stride of the
   target layout for the same extents, and never executes UB on the way (the running product is only
   advanced after a successful comparison) *)
Theorem stride_check_thm (left : bool) ts tt es ss :
  es <> [] -> length ss = length es -> admissible tt es -> nonneg_in ts ss ->
  stride_check left ts tt es ss =
    Ok (negb (list_eqb ss (if left then left_strides es else right_strides es))).
Proof.
  intros Hne Hl Ha Hs. pose proof (admissible_nonneg tt es Ha) as Hnn. destruct Ha as [_ Hb].
  unfold stride_check. destruct es as [|e0 es']; [contradiction|]. set (es := e0 :: es') in *.
  destruct left.
  - apply stride_check_loop_ok; auto; lia.
  - rewrite stride_check_loop_ok; auto.
    + rewrite <- rev_right_strides, list_eqb_rev. reflexivity.
    + rewrite !rev_length. exact Hl.
    + apply Forall_rev'. exact Hnn.
    + unfold nonneg_in in *. apply Forall_rev'. exact Hs.
    + lia.
    + rewrite prod1_rev. lia.
Qed.

Theorem stride_check_silent_on_canonical (left : bool) ts tt es :
  es <> [] -> admissible tt es -> nonneg_in ts (if left then left_strides es else right_strides es) ->
  stride_check left ts tt es (if left then left_strides es else right_strides es) = Ok false.
Proof.
  intros Hne Ha Hs. rewrite stride_check_thm; auto.
  - assert (E : list_eqb (if left then left_strides es else right_strides es) (if left then left_strides es else right_strides es) = true) by (apply list_eqb_eq; reflexivity).
    rewrite E. reflexivity.
  - destruct left; [unfold left_strides; apply left_strides_go_length|apply right_strides_length].
Qed.

Theorem stride_check_ndebug left ts tt es ss : stride_check_cfg true left ts tt es ss = Ok false.
Proof. reflexivity. Qed.
Theorem stride_check_rank0 left ts tt ss : stride_check left ts tt [] ss = Ok false.
Proof. reflexivity. Qed.
