(* ListAux.v — list arithmetic shared by the specification layer: products, strided dot products,
   chains, the standard's stride precondition, permutation invariance, and the counting lemma. *)
From Coq Require Import ZArith List Lia Bool Permutation Arith.
Import ListNotations.
Local Open Scope Z_scope.
Ltac Zify.zify_post_hook ::= Z.div_mod_to_equations.

Fixpoint prodl (l : list Z) : Z := match l with [] => 1 | x :: l' => x * prodl l' end.
Fixpoint suml (l : list Z) : Z := match l with [] => 0 | x :: l' => x + suml l' end.

Lemma prodl_app a b : prodl (a ++ b) = prodl a * prodl b.
Proof. induction a as [|x a IH]; cbn [prodl app]; rewrite ?IH; lia. Qed.
Lemma prodl_pos l : Forall (fun e => 1 <= e) l -> 1 <= prodl l.
Proof. induction 1 as [|x l Hx _ IH]; cbn [prodl]; nia. Qed.
Lemma prodl_nonneg l : Forall (fun e => 0 <= e) l -> 0 <= prodl l.
Proof. induction 1 as [|x l Hx _ IH]; cbn [prodl]; nia. Qed.
Lemma prodl_rev l : prodl (rev l) = prodl l.
Proof. induction l as [|x l IH]; cbn [rev prodl]; auto. rewrite prodl_app, IH. cbn [prodl]. lia. Qed.
Lemma prodl_zero l : In 0 l -> prodl l = 0.
Proof. induction l as [|x l IH]; cbn [In prodl]; [tauto|]. intros [->|H]; [lia|]. rewrite IH; auto; lia. Qed.
Lemma prodl_perm l l' : Permutation l l' -> prodl l = prodl l'.
Proof. induction 1; cbn [prodl]; lia. Qed.

(* "zero extents counted as one" *)
Definition max1 (e : Z) : Z := Z.max e 1.
Definition prod1 (l : list Z) : Z := prodl (map max1 l).
Lemma prod1_pos l : 1 <= prod1 l.
Proof. unfold prod1. apply prodl_pos. apply Forall_forall. intros x Hx. apply in_map_iff in Hx as (y & <- & _). unfold max1. lia. Qed.
Lemma prod1_cons e l : prod1 (e :: l) = max1 e * prod1 l.
Proof. reflexivity. Qed.
Lemma prod1_app a b : prod1 (a ++ b) = prod1 a * prod1 b.
Proof. unfold prod1. rewrite map_app, prodl_app. reflexivity. Qed.
Lemma prod1_eq_prodl l : Forall (fun e => 1 <= e) l -> prod1 l = prodl l.
Proof. induction 1 as [|x l Hx _ IH]; [reflexivity|]. rewrite prod1_cons, IH. cbn [prodl]. unfold max1. f_equal. lia. Qed.
Lemma prodl_le_prod1 l : Forall (fun e => 0 <= e) l -> prodl l <= prod1 l.
Proof.
  induction 1 as [|x l Hx Hl IH]; [cbn; lia|]. rewrite prod1_cons. cbn [prodl].
  pose proof (prod1_pos l). pose proof (prodl_nonneg l Hl). unfold max1. nia.
Qed.

(* ------------------------------------------------------------------------------------------------ *)
(* strided index spaces: one (extent, stride) pair per dimension                                      *)

Definition dim := (Z * Z)%type.

Fixpoint dot (idx : list Z) (ds : list dim) : Z :=
  match idx, ds with i :: idx', (_, s) :: ds' => i * s + dot idx' ds' | _, _ => 0 end.
Fixpoint inb (idx : list Z) (ds : list dim) : Prop :=
  match idx, ds with
  | [], [] => True
  | i :: idx', (e, _) :: ds' => 0 <= i < e /\ inb idx' ds'
  | _, _ => False
  end.
Fixpoint inbb (idx : list Z) (ds : list dim) : bool :=
  match idx, ds with
  | [], [] => true
  | i :: idx', (e, _) :: ds' => (0 <=? i) && (i <? e) && inbb idx' ds'
  | _, _ => false
  end.
(* 1 + sum (e-1)*s : the span of a non-empty strided index space *)
Fixpoint span1 (ds : list dim) : Z :=
  match ds with [] => 1 | (e, s) :: ds' => (e - 1) * s + span1 ds' end.
(* descending chain: head has the largest stride, each stride clears the span of what follows *)
Fixpoint chain (ds : list dim) : Prop :=
  match ds with [] => True | (e, s) :: ds' => 0 < s /\ span1 ds' <= s /\ chain ds' end.
(* the standard's precondition in the order p0, p1, ... : s[p_i] >= s[p_{i-1}] * e[p_{i-1}] *)
Fixpoint asc (ds : list dim) : Prop :=
  match ds with (e1, s1) :: (((e2, s2) :: _) as t) => s1 * e1 <= s2 /\ asc t | _ => True end.
Fixpoint ascb (ds : list dim) : bool :=
  match ds with (e1, s1) :: (((e2, s2) :: _) as t) => (s1 * e1 <=? s2) && ascb t | _ => true end.
Definition allpos (ds : list dim) := Forall (fun d => 1 <= fst d /\ 0 < snd d) ds.
Definition allposb (ds : list dim) := forallb (fun d => (1 <=? fst d) && (0 <? snd d)) ds.

Lemma inbb_iff idx ds : inbb idx ds = true <-> inb idx ds.
Proof.
  revert idx; induction ds as [|[e s] ds IH]; intros [|i idx]; cbn [inbb inb]; try tauto; try (split; [discriminate|tauto]).
  rewrite !andb_true_iff, IH, Z.leb_le, Z.ltb_lt. tauto.
Qed.
Lemma ascb_iff ds : ascb ds = true <-> asc ds.
Proof.
  induction ds as [|[e1 s1] ds IH]; [cbn; tauto|]. destruct ds as [|[e2 s2] ds]; [cbn; tauto|].
  change (ascb ((e1,s1)::(e2,s2)::ds)) with ((s1 * e1 <=? s2) && ascb ((e2,s2)::ds)).
  change (asc ((e1,s1)::(e2,s2)::ds)) with (s1 * e1 <= s2 /\ asc ((e2,s2)::ds)).
  rewrite andb_true_iff, IH, Z.leb_le. tauto.
Qed.
Lemma allposb_iff ds : allposb ds = true <-> allpos ds.
Proof.
  unfold allposb, allpos. rewrite forallb_forall, Forall_forall. split; intros H d Hd; specialize (H d Hd).
  - apply andb_true_iff in H as [H1 H2]. apply Z.leb_le in H1. apply Z.ltb_lt in H2. tauto.
  - apply andb_true_iff. rewrite Z.leb_le, Z.ltb_lt. tauto.
Qed.

Lemma inb_length idx ds : inb idx ds -> length idx = length ds.
Proof. revert idx; induction ds as [|[e s] ds IH]; intros [|i idx]; cbn [inb length]; try tauto. intros [_ H]. f_equal; auto. Qed.
Lemma inb_allpos_ext idx ds : inb idx ds -> Forall (fun d => 1 <= fst d) ds.
Proof.
  revert idx; induction ds as [|[e s] ds IH]; intros [|i idx]; cbn [inb]; try tauto; [constructor|].
  intros [Hi H]. constructor; [cbn [fst]; lia|eauto].
Qed.

Lemma dot_range idx ds : chain ds -> inb idx ds -> 0 <= dot idx ds < span1 ds.
Proof.
  revert idx; induction ds as [|[e s] ds IH]; intros [|i idx]; cbn [dot inb span1 chain]; try tauto; try lia.
  intros (Hs & Hsp & Hc) (Hi & Hin). specialize (IH idx Hc Hin). nia.
Qed.
Lemma dot_inj idx idx' ds : chain ds -> inb idx ds -> inb idx' ds -> dot idx ds = dot idx' ds -> idx = idx'.
Proof.
  revert idx idx'; induction ds as [|[e s] ds IH]; intros [|i idx] [|j idx']; cbn [dot inb chain]; try tauto.
  intros (Hs & Hsp & Hc) (Hi & Hin) (Hj & Hin') Heq.
  pose proof (dot_range idx ds Hc Hin). pose proof (dot_range idx' ds Hc Hin').
  assert (i = j) by nia. subst j. f_equal. apply (IH idx idx' Hc Hin Hin'). lia.
Qed.

Lemma span1_app a b : span1 (a ++ b) = span1 a + span1 b - 1.
Proof. induction a as [|[e s] a IH]; cbn [span1 app]; rewrite ?IH; lia. Qed.
Lemma span1_rev a : span1 (rev a) = span1 a.
Proof. induction a as [|[e s] a IH]; cbn [rev span1]; auto. rewrite span1_app, IH. cbn [span1]. lia. Qed.
Lemma span1_perm a b : Permutation a b -> span1 a = span1 b.
Proof. induction 1 as [| [e s] l l' _ IH | [e s] [e' s'] l | l l' l'' _ IH1 _ IH2]; cbn [span1]; lia. Qed.
Lemma span1_pos ds : allpos ds -> 1 <= span1 ds.
Proof. induction 1 as [|[e s] ds [He Hs] _ IH]; cbn [span1 fst snd] in *; nia. Qed.

Lemma asc_app_inv a x : asc (a ++ [x]) -> asc a.
Proof.
  induction a as [|[e1 s1] a IH]; [intros; exact I|].
  destruct a as [|[e2 s2] a]; [intros; exact I|].
  change (asc (((e1,s1)::(e2,s2)::a) ++ [x])) with (s1*e1 <= s2 /\ asc (((e2,s2)::a) ++ [x])).
  change (asc ((e1,s1)::(e2,s2)::a)) with (s1*e1 <= s2 /\ asc ((e2,s2)::a)).
  intros [H1 H2]. split; auto.
Qed.
Lemma asc_last_two a e1 s1 e2 s2 : asc (a ++ [(e1,s1);(e2,s2)]) -> s1*e1 <= s2.
Proof.
  induction a as [|[e s] a IH]. cbn [app asc]. tauto.
  destruct a as [|[e' s'] a].
  - cbn [app asc]. tauto.
  - change (asc (((e,s)::(e',s')::a) ++ [(e1,s1);(e2,s2)])) with (s*e <= s' /\ asc (((e',s')::a) ++ [(e1,s1);(e2,s2)])).
    intros [_ H]. auto.
Qed.
Lemma asc_last_bound a e s : allpos (a ++ [(e,s)]) -> asc (a ++ [(e,s)]) -> span1 a <= s.
Proof.
  revert e s. induction a as [|[e' s'] a IH] using rev_ind; intros e s Hp Ha.
  - cbn [span1]. apply Forall_inv in Hp. cbn [fst snd app] in Hp. lia.
  - rewrite span1_app. cbn [span1].
    assert (Ha' : asc (a ++ [(e',s')])) by (apply asc_app_inv in Ha; exact Ha).
    assert (Hp' : allpos (a ++ [(e',s')])) by (unfold allpos in *; rewrite Forall_app in Hp; tauto).
    specialize (IH e' s' Hp' Ha').
    assert (Hstep : s' * e' <= s).
    { rewrite <- app_assoc in Ha. cbn [app] in Ha. eapply asc_last_two; eauto. }
    assert (1 <= e' /\ 0 < s').
    { unfold allpos in Hp'. rewrite Forall_app in Hp'. destruct Hp' as [_ H]. apply Forall_inv in H. exact H. }
    nia.
Qed.
Lemma asc_chain_rev a : allpos a -> asc a -> chain (rev a).
Proof.
  induction a as [|[e s] a IH] using rev_ind; intros Hp Ha; cbn [rev chain]; auto.
  rewrite rev_app_distr. cbn [rev app chain].
  assert (allpos a) by (unfold allpos in *; rewrite Forall_app in Hp; tauto).
  split; [|split].
  - unfold allpos in Hp. rewrite Forall_app in Hp. destruct Hp as [_ H0]. apply Forall_inv in H0. cbn [snd] in H0. lia.
  - rewrite span1_rev. eapply asc_last_bound; eauto.
  - apply IH; auto. eapply asc_app_inv; eauto.
Qed.

(* the product of the extents never exceeds the span of a chain *)
Lemma chain_prod_le_span ds : chain ds -> allpos ds -> prodl (map fst ds) <= span1 ds.
Proof.
  induction ds as [|[e s] ds IH]; cbn [chain map prodl span1 fst]; [lia|].
  intros (Hs & Hsp & Hc) Hp. inversion Hp as [|? ? [He _] Hp']; subst. cbn [fst] in He.
  specialize (IH Hc Hp'). pose proof (span1_pos ds Hp'). nia.
Qed.

(* ------------------------------------------------------------------------------------------------ *)
(* permutation-invariant form: quadruples ((i, j), (e, s)) carry two multi-indices through a          *)
(* permutation of the dimensions                                                                      *)

Definition quad := ((Z * Z) * dim)%type.
Fixpoint dotL (l : list quad) : Z := match l with [] => 0 | ((i, _), (_, s)) :: l' => i * s + dotL l' end.
Fixpoint dotR (l : list quad) : Z := match l with [] => 0 | ((_, j), (_, s)) :: l' => j * s + dotR l' end.
Definition inbQ (l : list quad) : Prop :=
  Forall (fun q => 0 <= fst (fst q) < fst (snd q) /\ 0 <= snd (fst q) < fst (snd q)) l.
Definition sameQ (l : list quad) : Prop := Forall (fun q => fst (fst q) = snd (fst q)) l.

Lemma dotL_perm l l' : Permutation l l' -> dotL l = dotL l'.
Proof. induction 1 as [| [[i j] [e s]] l l' _ IH | [[i j] [e s]] [[i' j'] [e' s']] l | l l' l'' _ IH1 _ IH2]; cbn [dotL]; lia. Qed.
Lemma dotR_perm l l' : Permutation l l' -> dotR l = dotR l'.
Proof. induction 1 as [| [[i j] [e s]] l l' _ IH | [[i j] [e s]] [[i' j'] [e' s']] l | l l' l'' _ IH1 _ IH2]; cbn [dotR]; lia. Qed.

Lemma chainQ l : chain (map snd l) -> inbQ l ->
  0 <= dotL l < span1 (map snd l) /\ 0 <= dotR l < span1 (map snd l) /\ (dotL l = dotR l -> sameQ l).
Proof.
  induction l as [|[[i j] [e s]] l IH]; cbn [map snd chain dotL dotR span1].
  - intros _ _. repeat split; try lia. constructor.
  - intros (Hs & Hsp & Hc) Hin. inversion Hin as [|? ? [Hi Hj] Hin']; subst. cbn [fst snd] in Hi, Hj.
    destruct (IH Hc Hin') as (HL & HR & Hsame).
    split; [nia|]. split; [nia|]. intros Heq.
    assert (i = j) by nia. subst j. constructor; [reflexivity|]. apply Hsame. lia.
Qed.

(* a permutation of the dimensions can be carried over to anything zipped with them *)
Lemma perm_combine_lift {A} (ds' ds : list dim) : Permutation ds' ds ->
  forall xs : list A, length xs = length ds ->
  exists xs', length xs' = length ds' /\ Permutation (combine xs' ds') (combine xs ds).
Proof.
  induction 1 as [| d l l' _ IH | d d' l | l l' l'' _ IH1 _ IH2]; intros xs Hlen.
  - exists []. split; [reflexivity|]. destruct xs; cbn; constructor.
  - destruct xs as [|x xs]; [discriminate|]. cbn [length] in Hlen. injection Hlen as Hlen.
    destruct (IH xs Hlen) as (xs' & Hl & Hp). exists (x :: xs'). split; [cbn; lia|]. cbn [combine]. constructor. exact Hp.
  - destruct xs as [|x [|y xs]]; try discriminate. cbn [length] in Hlen.
    exists (y :: x :: xs). split; [cbn [length] in *; lia|]. cbn [combine]. apply perm_swap.
  - destruct (IH2 xs Hlen) as (xs2 & Hl2 & Hp2). destruct (IH1 xs2 Hl2) as (xs1 & Hl1 & Hp1).
    exists xs1. split; [exact Hl1|]. eapply perm_trans; eauto.
Qed.

Lemma map_snd_combine {A B} (xs : list A) (ys : list B) : length xs = length ys -> map snd (combine xs ys) = ys.
Proof. revert ys; induction xs as [|x xs IH]; intros [|y ys]; cbn [length combine map snd]; try discriminate; auto. intros H. f_equal. apply IH. lia. Qed.
Lemma map_fst_combine {A B} (xs : list A) (ys : list B) : length xs = length ys -> map fst (combine xs ys) = xs.
Proof. revert ys; induction xs as [|x xs IH]; intros [|y ys]; cbn [length combine map fst]; try discriminate; auto. intros H. f_equal. apply IH. lia. Qed.

Lemma dotL_combine i1 i2 ds : length i1 = length ds -> length i2 = length ds ->
  dotL (combine (combine i1 i2) ds) = dot i1 ds /\ dotR (combine (combine i1 i2) ds) = dot i2 ds.
Proof.
  revert i1 i2; induction ds as [|[e s] ds IH]; intros [|a i1] [|b i2]; cbn [length]; try discriminate; intros H1 H2.
  - cbn. auto.
  - cbn [combine dotL dotR dot]. destruct (IH i1 i2) as [E1 E2]; try lia. all: rewrite ?E1, ?E2; auto.
Qed.
Lemma inbQ_combine i1 i2 ds : inb i1 ds -> inb i2 ds -> inbQ (combine (combine i1 i2) ds).
Proof.
  revert i1 i2; induction ds as [|[e s] ds IH]; intros [|a i1] [|b i2]; cbn [inb]; try tauto.
  - intros _ _. constructor.
  - intros [Ha H1] [Hb H2]. cbn [combine]. constructor; [cbn [fst snd]; lia|]. apply IH; auto.
Qed.
Lemma sameQ_combine i1 i2 ds : length i1 = length ds -> length i2 = length ds ->
  sameQ (combine (combine i1 i2) ds) -> i1 = i2.
Proof.
  revert i1 i2; induction ds as [|[e s] ds IH]; intros [|a i1] [|b i2]; cbn [length]; try discriminate; auto.
  intros H1 H2 Hs. cbn [combine] in Hs. inversion Hs as [|? ? Hab Hs']; subst. cbn [fst snd] in Hab. subst b.
  f_equal. apply IH; auto; lia.
Qed.

(* The main arithmetic theorem: for dimensions that admit an ordering satisfying the standard's stride
   precondition, the strided offset is in [0, span) and injective on the index space. *)
Definition orderable (ds : list dim) : Prop := exists l, Permutation l ds /\ asc l.
(* slightly weaker and what the proofs use: some ordering of the dimensions is a descending chain *)
Definition chainable (ds : list dim) : Prop := exists l, Permutation l ds /\ chain l.

Lemma allpos_perm l ds : Permutation l ds -> allpos ds -> allpos l.
Proof. unfold allpos. intros Hp H. rewrite Forall_forall in *. intros d Hd. apply H. eapply Permutation_in; eauto. Qed.

Lemma orderable_chainable ds : orderable ds -> allpos ds -> chainable ds.
Proof.
  intros (l & Hperm & Hasc) Hpos. pose proof (allpos_perm l ds Hperm Hpos) as Hposl.
  exists (rev l). split; [|apply asc_chain_rev; auto].
  eapply perm_trans; [apply Permutation_sym, Permutation_rev | exact Hperm].
Qed.

Theorem chainable_range_inj ds i1 i2 :
  chainable ds -> inb i1 ds -> inb i2 ds ->
  0 <= dot i1 ds < span1 ds /\ (dot i1 ds = dot i2 ds -> i1 = i2).
Proof.
  intros (l & Hperm' & Hchain) H1 H2.
  pose proof (inb_length _ _ H1) as L1. pose proof (inb_length _ _ H2) as L2.
  assert (Lq : length (combine i1 i2) = length ds) by (rewrite combine_length; lia).
  destruct (perm_combine_lift l ds Hperm' (combine i1 i2) Lq) as (xs' & Hl' & Hpq).
  set (q' := combine xs' l) in *. set (q := combine (combine i1 i2) ds) in *.
  assert (Hms : map snd q' = l) by (apply map_snd_combine; exact Hl').
  assert (HinQ : inbQ q') .
  { unfold inbQ. eapply Permutation_Forall; [apply Permutation_sym; exact Hpq|]. apply inbQ_combine; auto. }
  destruct (chainQ q') as (HL & HR & Hsame); [rewrite Hms; exact Hchain | exact HinQ |].
  rewrite Hms in HL, HR.
  destruct (dotL_combine i1 i2 ds L1 L2) as [EL ER]. fold q in EL, ER.
  rewrite (dotL_perm _ _ Hpq) in HL. rewrite (dotR_perm _ _ Hpq) in HR.
  rewrite (span1_perm _ _ Hperm') in HL. rewrite EL in HL.
  split; [exact HL|]. intros Heq.
  apply (sameQ_combine i1 i2 ds L1 L2). fold q.
  unfold sameQ. eapply Permutation_Forall; [exact Hpq|]. apply Hsame.
  rewrite (dotL_perm _ _ Hpq), (dotR_perm _ _ Hpq), EL, ER. exact Heq.
Qed.

Theorem orderable_range_inj ds i1 i2 :
  orderable ds -> Forall (fun d => 0 < snd d) ds -> inb i1 ds -> inb i2 ds ->
  0 <= dot i1 ds < span1 ds /\ (dot i1 ds = dot i2 ds -> i1 = i2).
Proof.
  intros Ho Hs H1 H2. apply chainable_range_inj; auto. apply orderable_chainable; auto.
  pose proof (inb_allpos_ext _ _ H1) as He. unfold allpos. rewrite Forall_forall in *. intros d Hd. split; auto.
Qed.

Lemma chainable_prod_le_span ds : chainable ds -> allpos ds -> prodl (map fst ds) <= span1 ds.
Proof.
  intros (l & Hperm & Hc) Hpos. pose proof (allpos_perm l ds Hperm Hpos) as Hposl.
  pose proof (chain_prod_le_span l Hc Hposl) as H.
  rewrite (span1_perm _ _ Hperm) in H.
  rewrite <- (prodl_perm (map fst l) (map fst ds)); [exact H|apply Permutation_map; exact Hperm].
Qed.

Lemma orderable_prod_le_span ds : orderable ds -> allpos ds -> prodl (map fst ds) <= span1 ds.
Proof. intros Ho Hp. apply chainable_prod_le_span; auto. apply orderable_chainable; auto. Qed.

(* ------------------------------------------------------------------------------------------------ *)
(* enumeration of an index space (row-major order) and counting                                       *)

Fixpoint all_indices (es : list Z) : list (list Z) :=
  match es with
  | [] => [[]]
  | e :: es' => flat_map (fun i => map (cons i) (all_indices es')) (map Z.of_nat (seq 0 (Z.to_nat e)))
  end.

Lemma NoDup_map_inj {A B} (f : A -> B) l :
  (forall x y, In x l -> In y l -> f x = f y -> x = y) -> NoDup l -> NoDup (map f l).
Proof.
  induction l as [|a l IH]; intros Hinj Hnd; cbn [map]; [constructor|].
  inversion Hnd as [|? ? Hnin Hnd']; subst. constructor.
  - intros Hin. apply in_map_iff in Hin as (x & Hfx & Hx).
    assert (x = a) by (apply Hinj; cbn; auto). subst. contradiction.
  - apply IH; auto. intros x y Hx Hy. apply Hinj; cbn; auto.
Qed.

Section Count.
  Variable A : Type.
  Variable f : A -> nat.
  Variable l : list A.
  Variable n : nat.
  Hypothesis Hnd : NoDup l.
  Hypothesis Hinj : forall x y, In x l -> In y l -> f x = f y -> x = y.
  Hypothesis Hrange : forall x, In x l -> (f x < n)%nat.

  Lemma image_le : (length l <= n)%nat.
  Proof.
    rewrite <- (map_length f l), <- (seq_length n 0).
    apply NoDup_incl_length. apply NoDup_map_inj; auto.
    intros y Hy. apply in_map_iff in Hy as (x & <- & Hx). apply in_seq. specialize (Hrange x Hx). lia.
  Qed.

  Lemma covers_iff : (forall o, (o < n)%nat -> exists x, In x l /\ f x = o) <-> length l = n.
  Proof.
    split.
    - intros Hc. apply Nat.le_antisymm; [apply image_le|].
      rewrite <- (map_length f l), <- (seq_length n 0).
      apply NoDup_incl_length. apply seq_NoDup.
      intros o Ho. apply in_seq in Ho. destruct (Hc o) as (x & Hx & <-); [lia|]. apply in_map; auto.
    - intros Hlen o Ho.
      assert (Hincl : incl (seq 0 n) (map f l)).
      { apply NoDup_length_incl. apply NoDup_map_inj; auto.
        rewrite seq_length, map_length. lia.
        intros y Hy. apply in_map_iff in Hy as (x & <- & Hx). apply in_seq. specialize (Hrange x Hx). lia. }
      assert (Hino : In o (map f l)) by (apply Hincl, in_seq; lia).
      apply in_map_iff in Hino as (x & Hfx & Hx). eauto.
  Qed.
End Count.

Lemma in_zseq i e : In i (map Z.of_nat (seq 0 (Z.to_nat e))) <-> 0 <= i < e.
Proof.
  rewrite in_map_iff. split.
  - intros (k & <- & Hk). apply in_seq in Hk. lia.
  - intros H. exists (Z.to_nat i). split; [lia|]. apply in_seq. lia.
Qed.
Lemma zseq_NoDup e : NoDup (map Z.of_nat (seq 0 (Z.to_nat e))).
Proof. apply NoDup_map_inj; [intros; lia|apply seq_NoDup]. Qed.

Fixpoint inbe (idx es : list Z) : Prop :=
  match idx, es with [], [] => True | i :: idx', e :: es' => 0 <= i < e /\ inbe idx' es' | _, _ => False end.

Lemma all_indices_in es idx : In idx (all_indices es) <-> inbe idx es.
Proof.
  revert idx; induction es as [|e es IH]; intros idx; cbn [all_indices inbe].
  - destruct idx; cbn; split; auto; try tauto. intros [H|[]]; discriminate.
  - rewrite in_flat_map. split.
    + intros (i & Hi & Hin). apply in_map_iff in Hin as (r & <- & Hr). apply in_zseq in Hi. apply IH in Hr. cbn [inbe]. auto.
    + destruct idx as [|i idx]; cbn [inbe]; [tauto|]. intros [Hi Hr]. exists i. split; [apply in_zseq; auto|].
      apply in_map. apply IH. exact Hr.
Qed.

Lemma all_indices_length es : Forall (fun e => 0 <= e) es -> Z.of_nat (length (all_indices es)) = prodl es.
Proof.
  induction 1 as [|e es He _ IH]; [reflexivity|]. cbn [all_indices prodl].
  assert (G : forall (l : list Z), length (flat_map (fun i => map (cons i) (all_indices es)) l) = (length l * length (all_indices es))%nat).
  { induction l as [|x l IHl]; cbn [flat_map length]; [reflexivity|]. rewrite app_length, map_length, IHl. lia. }
  rewrite G, map_length, seq_length. rewrite Nat2Z.inj_mul, IH. lia.
Qed.

Lemma NoDup_app_intro {A} (a b : list A) :
  NoDup a -> NoDup b -> (forall x, In x a -> In x b -> False) -> NoDup (a ++ b).
Proof.
  induction a as [|x a IH]; intros Ha Hb Hd; cbn [app]; [exact Hb|].
  inversion Ha as [|? ? Hx Ha']; subst. constructor.
  - rewrite in_app_iff. intros [H|H]; [contradiction|]. apply (Hd x); cbn; auto.
  - apply IH; auto. intros y Hy1 Hy2. apply (Hd y); cbn; auto.
Qed.

Lemma all_indices_NoDup es : NoDup (all_indices es).
Proof.
  induction es as [|e es IH]; cbn [all_indices]; [repeat constructor; cbn; tauto|].
  generalize (zseq_NoDup e). generalize (map Z.of_nat (seq 0 (Z.to_nat e))) as l.
  induction l as [|x l IHl]; intros Hnd; cbn [flat_map]; [constructor|].
  inversion Hnd as [|? ? Hx Hnd']; subst.
  apply NoDup_app_intro.
  - apply NoDup_map_inj; auto. intros a b _ _ Hab. injection Hab; auto.
  - apply IHl; auto.
  - intros y Hy1 Hy2. apply in_map_iff in Hy1 as (r & <- & _).
    apply in_flat_map in Hy2 as (x' & Hx' & Hy2). apply in_map_iff in Hy2 as (r' & Heq & _).
    injection Heq as -> _. contradiction.
Qed.
