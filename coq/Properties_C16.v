(* C16 — overload participation and explicitness follow the specification.
   The decision functions of Constraints.v are transcriptions of the constraint / explicit(...) expressions
   of the headers; the correspondence check compares them with std::is_constructible / is_convertible /
   invocability over generated type pairs and argument lists.  The theorems relate them to the rules of the
   property and give "implicit" its semantic content. *)
From Coq Require Import ZArith List Bool.
From MdspanVerif Require Import MachInt ListAux Layouts LayoutSpec Extents ExtentsProofs Convert Constraints ConstraintsProofs.
Import ListNotations.
Local Open Scope Z_scope.

(* extents conversion needs equal rank and compatible static extents and is explicit when a dynamic extent
   becomes static or the index range narrows *)
Theorem C16_extents_rules : forall s d : ext_t, ext_same s d = false ->
  (ext_constructible s d = true <-> compat_spec (x_pat s) (x_pat d)) /\
  (ext_explicit s d = true <-> dyn_static_spec (x_pat s) (x_pat d) \/ imax (x_t d) < imax (x_t s)) /\
  (ext_convertible true s d = true <-> ext_constructible s d = true /\ ext_explicit s d = false).
Proof. exact ext_rules. Qed.
Print Assumptions C16_extents_rules.

(* semantic content: an implicit extents conversion has no precondition — every value of the source type
   satisfies the converting constructor's precondition (and is therefore preserved, C06) *)
Theorem C16_implicit_extents_total : forall (ts tt : ity), imax ts <= imax tt -> forall (spat tpat : pattern) (dv : list Z),
  compatible_pat spat tpat = true -> dyn_to_static spat tpat = false -> pat_rep ts spat ->
  Forall (fun v => 0 <= v <= imax ts) dv ->
  conv_pre tt tpat (fill ts spat dv).
Proof. exact ext_implicit_total. Qed.
Print Assumptions C16_implicit_extents_total.

(* ... and where a dynamic extent becomes static some value of the source type violates it: rightly explicit *)
Theorem C16_dyn_to_static_has_precondition : forall (ts tt : ity) (spat tpat : pattern),
  compatible_pat spat tpat = true -> dyn_to_static spat tpat = true ->
  exists dv, length dv = ndyn spat /\ Forall (fun v => 0 <= v <= imax ts) dv /\ ~ conv_pre tt tpat (fill ts spat dv).
Proof. exact dyn_to_static_partial. Qed.
Print Assumptions C16_dyn_to_static_has_precondition.

(* layout_left <-> layout_right conversion exists only for rank <= 1 *)
Theorem C16_left_right_only_rank_le_1 : forall (c : bool) (s d : map_t) (e : bool),
  (m_lay s = LR /\ m_lay d = LL) \/ (m_lay s = LL /\ m_lay d = LR) ->
  map_ctor c s d = Some e -> (length (x_pat (m_ext d)) <= 1)%nat /\ ext_constructible (m_ext s) (m_ext d) = true.
Proof. exact left_right_only_rank_le_1. Qed.
Print Assumptions C16_left_right_only_rank_le_1.
Theorem C16_left_right_exists_rank_le_1 : forall (c : bool) (s d : map_t),
  (m_lay s = LR /\ m_lay d = LL) \/ (m_lay s = LL /\ m_lay d = LR) ->
  (length (x_pat (m_ext d)) <= 1)%nat -> ext_constructible (m_ext s) (m_ext d) = true ->
  map_ctor c s d = Some (negb (ext_convertible c (m_ext s) (m_ext d))).
Proof. exact left_right_exists_rank_le_1. Qed.
Print Assumptions C16_left_right_exists_rank_le_1.

(* layout_stride -> left/right is explicit for rank > 0 *)
Theorem C16_stride_to_left_right_explicit : forall (c : bool) (s d : map_t) (e : bool), m_lay s = LS -> (m_lay d = LL \/ m_lay d = LR) ->
  map_ctor c s d = Some e -> e = (0 <? length (x_pat (m_ext d)))%nat.
Proof. exact stride_to_left_right_explicit. Qed.
Print Assumptions C16_stride_to_left_right_explicit.

Theorem C16_same_layout_follows_extents : forall (c : bool) (s d : map_t),
  (m_lay s = LL /\ m_lay d = LL) \/ (m_lay s = LR /\ m_lay d = LR) \/ (m_lay s = LS /\ m_lay d = LS) ->
  map_same s d = false ->
  map_constructible c s d = ext_constructible (m_ext s) (m_ext d) /\
  map_convertible c s d = ext_convertible c (m_ext s) (m_ext d).
Proof. exact same_layout_follows_extents. Qed.
Print Assumptions C16_same_layout_follows_extents.

(* semantic content for mappings: an implicit left->left / right->right conversion is total and value preserving *)
Theorem C16_implicit_mapping_total : forall (ts tt : ity) (spat tpat : pattern) (dv : list Z) (right : bool),
  let es := fill ts spat dv in
  let m := if right then MRight es else MLeft es in
  ext_compatible (mkE ts spat) (mkE tt tpat) = true -> ext_explicit (mkE ts spat) (mkE tt tpat) = false ->
  pat_rep ts spat -> Forall (fun v => 0 <= v <= imax ts) dv -> valid ts m ->
  conv_mapping ts m (mkmt tt tpat (if right then KRight else KLeft) None) = Ok m /\ valid tt m.
Proof. exact left_implicit_total. Qed.
Print Assumptions C16_implicit_mapping_total.

(* ... for all three standard layouts, and widening the index type never invalidates a mapping *)
Theorem C16_implicit_same_layout_total : forall (ts tt : ity) (spat tpat : pattern) (dv : list Z) (m : mapping) (k : lkind),
  same_kind_target m = Some k -> exts m = fill ts spat dv ->
  ext_compatible (mkE ts spat) (mkE tt tpat) = true -> ext_explicit (mkE ts spat) (mkE tt tpat) = false ->
  pat_rep ts spat -> Forall (fun v => 0 <= v <= imax ts) dv -> valid ts m ->
  conv_mapping ts m (mkmt tt tpat k None) = Ok m /\ valid tt m.
Proof. exact same_kind_implicit_total. Qed.
Print Assumptions C16_implicit_same_layout_total.
Theorem C16_valid_widen : forall (ts tt : ity) (m : mapping), imax ts <= imax tt -> valid ts m -> valid tt m.
Proof. exact valid_widen. Qed.
Print Assumptions C16_valid_widen.

(* default_accessor<T> converts from default_accessor<U> iff U( * )[] converts to T( * )[] *)
Theorem C16_default_accessor : forall u t : elt,
  acc_convertible (ADefault u) (ADefault t) = true <-> el_base u = el_base t /\ (el_const u = true -> el_const t = true).
Proof. exact default_accessor_rule. Qed.
Print Assumptions C16_default_accessor.

(* an mdspan converts iff its mapping and accessor do and implicitly iff both do implicitly *)
Theorem C16_mdspan : forall (c : bool) (s d : mds_t),
  (mds_constructible c s d = true <-> map_constructible c (md_map s) (md_map d) = true /\ acc_convertible (md_acc s) (md_acc d) = true) /\
  (mds_convertible true s d = true <-> map_convertible true (md_map s) (md_map d) = true /\ acc_convertible (md_acc s) (md_acc d) = true).
Proof. exact mdspan_rule. Qed.
Print Assumptions C16_mdspan.

(* index and extent arguments must be convertible and nothrow-constructible and match rank() or rank_dynamic() *)
Theorem C16_extents_pack : forall (e : ext_t) (args : list arg), args <> [] ->
  (ext_from_pack e args = true <->
   Forall (fun a => arg_valid a = true) args /\ (length args = length (x_pat e) \/ length args = rankd (x_pat e))).
Proof. exact pack_rules. Qed.
Print Assumptions C16_extents_pack.
Theorem C16_call : forall (p : pattern) (args : list arg),
  call_ok p args = true <-> length args = length p /\ Forall (fun a => arg_valid a = true) args.
Proof. exact call_rules. Qed.
Print Assumptions C16_call.
Theorem C16_mdspan_pack : forall (m : mds_t) (args : list arg),
  mds_from_pack m args = true <->
  Forall (fun a => arg_valid a = true) args /\
  (length args = length (x_pat (m_ext (md_map m))) \/ length args = rankd (x_pat (m_ext (md_map m)))) /\
  map_from_extents (m_lay (md_map m)) = true /\ acc_default_constructible (md_acc m) = true.
Proof. exact mdspan_pack_rules. Qed.
Print Assumptions C16_mdspan_pack.

(* non-vacuity / examples *)
Example C16_examples :
  ext_convertible true (mkE I32 [Some 3; None]) (mkE I64 [None; None]) = true /\
  ext_constructible (mkE I32 [None; None]) (mkE I32 [Some 3; None]) = true /\
  ext_convertible true (mkE I32 [None; None]) (mkE I32 [Some 3; None]) = false /\
  ext_convertible true (mkE I64 [None]) (mkE I32 [None]) = false /\
  ext_convertible false (mkE I64 [None]) (mkE I32 [None]) = true /\
  ext_constructible (mkE I32 [Some 3]) (mkE I32 [Some 4]) = false /\
  map_ctor true (mkM LR (mkE I32 [None; None])) (mkM LL (mkE I32 [None; None])) = None /\
  map_ctor true (mkM LR (mkE I32 [None])) (mkM LL (mkE I32 [None])) = Some false /\
  map_ctor true (mkM LS (mkE I32 [None])) (mkM LL (mkE I32 [None])) = Some true /\
  map_ctor true (mkM LS (mkE I32 [])) (mkM LL (mkE I32 [])) = Some false.
Proof. vm_compute. repeat split; reflexivity. Qed.
