(* ObjLayoutProofs.v — C18: closed forms of the layout function on the library's class models, for all
   index types, ranks and static/dynamic patterns. *)
From Coq Require Import ZArith List Bool Arith Lia.
From MdspanVerif Require Import MachInt Layouts ObjLayout.
Import ListNotations.
Local Open Scope nat_scope.

(* ---- arithmetic ---- *)
Lemma round_up_mul w n : 0 < w -> round_up (w * n) w = w * n.
Proof.
  intros Hw. unfold round_up. destruct n as [|n].
  - rewrite Nat.mul_0_r. cbn [Nat.add]. rewrite Nat.div_small by lia. reflexivity.
  - replace (w * S n + w - 1) with ((w - 1) + (S n) * w) by nia.
    rewrite Nat.div_add by lia. rewrite Nat.div_small by lia. nia.
Qed.
Lemma round_up_1 x : round_up x 1 = x.
Proof. unfold round_up. rewrite Nat.div_1_r. lia. Qed.
Lemma round_up_0 b : 0 < b -> round_up 0 b = 0.
Proof. intros Hb. unfold round_up. cbn [Nat.add]. rewrite Nat.div_small by lia. reflexivity. Qed.
Lemma round_up_ge a b : 0 < b -> a <= round_up a b.
Proof.
  intros Hb. unfold round_up. pose proof (Nat.div_mod (a + b - 1) b ltac:(lia)) as H.
  pose proof (Nat.mod_upper_bound (a + b - 1) b ltac:(lia)) as H2. nia.
Qed.
Lemma round_up_lt a b : 0 < b -> round_up a b < a + b.
Proof.
  intros Hb. unfold round_up. pose proof (Nat.div_mod (a + b - 1) b ltac:(lia)) as H. nia.
Qed.
Lemma round_up_mult a b : 0 < b -> exists k, round_up a b = b * k.
Proof. intros Hb. unfold round_up. eexists. rewrite Nat.mul_comm. reflexivity. Qed.
Lemma width_pos t : 0 < width t. Proof. destruct t; cbn; lia. Qed.
Lemma width_cases t : width t = 1 \/ width t = 2 \/ width t = 4 \/ width t = 8.
Proof. destruct t; cbn; auto. Qed.

(* ---- generic facts about the allocation of one member ---- *)
Lemma shift_0 es : shift 0 es = es.
Proof. unfold shift. induction es as [|[n o] es IH]; cbn [map fst snd]; [reflexivity|]. rewrite IH, Nat.add_0_r. reflexivity. Qed.
Lemma conflict_nil_r a : conflict a [] = false.
Proof. unfold conflict. induction a as [|x a IH]; cbn [existsb]; auto. Qed.
Lemma conflict_nil_l b : conflict [] b = false.
Proof. reflexivity. Qed.
Lemma find_off_free fuel o step mine theirs : conflict (shift o mine) theirs = false -> find_off (S fuel) o step mine theirs = o.
Proof. intros H. cbn [find_off]. rewrite H. reflexivity. Qed.

(* a class with a single member *)
Lemma layout_single nm tr nua T : layout (Struct nm tr [(nua, T)]) = finish nm (place li_init nua (layout T)).
Proof. reflexivity. Qed.
Lemma layout_two nm tr n1 T1 n2 T2 :
  layout (Struct nm tr [(n1, T1); (n2, T2)]) = finish nm (place (place li_init n1 (layout T1)) n2 (layout T2)).
Proof. reflexivity. Qed.
Lemma layout_none nm tr : layout (Struct nm tr []) = mkli 1 0 1 true [(nm, 0)].
Proof. reflexivity. Qed.

Lemma place_init_empty d : li_empty d = true ->
  place li_init true d = mkli (li_size d) 0 (Nat.max 1 (li_align d)) true (li_empties d).
Proof.
  intros He. unfold place. rewrite He. cbn [andb li_init li_empties li_size li_dsize li_align li_empty app].
  rewrite conflict_nil_r, shift_0. cbn [Nat.add Nat.max]. reflexivity.
Qed.
Lemma place_init_value nua d : (nua && li_empty d) = false -> 0 < li_align d ->
  place li_init nua d = let adv := if nua then li_dsize d else li_size d in
                        mkli adv adv (Nat.max 1 (li_align d)) false (li_empties d).
Proof.
  intros He Ha. unfold place. rewrite He. cbn [li_init li_empties li_size li_dsize li_align li_empty app length].
  rewrite round_up_0 by exact Ha. rewrite find_off_free by apply conflict_nil_r. rewrite shift_0. cbn [Nat.add Nat.max]. reflexivity.
Qed.

Lemma tname_eqb_refl a : tname_eqb a a = true.
Proof. unfold tname_eqb. rewrite Nat.eqb_refl. destruct (list_eq_dec Z.eq_dec (snd a) (snd a)); [reflexivity|congruence]. Qed.
Lemma tname_eqb_code a b : fst a <> fst b -> tname_eqb a b = false.
Proof. intros H. unfold tname_eqb. apply Nat.eqb_neq in H. rewrite H. reflexivity. Qed.
Lemma tname_eqb_true a b : tname_eqb a b = true -> a = b.
Proof.
  unfold tname_eqb. intros H. apply andb_true_iff in H. destruct H as [H1 H2]. apply Nat.eqb_eq in H1.
  destruct (list_eq_dec Z.eq_dec (snd a) (snd b)) as [E|]; [|discriminate]. destruct a, b; cbn in *; congruence.
Qed.

(* no empty subobject of a has the type of one of b *)
Definition tdisj (a b : list (tname * nat)) : Prop := forall x y, In x a -> In y b -> fst (fst x) <> fst (fst y).
Lemma conflict_tdisj a b o : tdisj a b -> conflict (shift o a) b = false.
Proof.
  intros H. unfold conflict. apply not_true_is_false. intros Hc. apply existsb_exists in Hc. destruct Hc as (x & Hx & Hc).
  apply existsb_exists in Hc. destruct Hc as (y & Hy & Hc). apply andb_true_iff in Hc. destruct Hc as [Hn _].
  unfold shift in Hx. apply in_map_iff in Hx. destruct Hx as (x0 & <- & Hx0). cbn [fst] in Hn.
  apply tname_eqb_true in Hn. apply (H x0 y Hx0 Hy). rewrite Hn. reflexivity.
Qed.
Lemma tdisj_nil_l b : tdisj [] b. Proof. intros x y []. Qed.
Lemma tdisj_nil_r a : tdisj a []. Proof. intros x y _ []. Qed.

Lemma place_empty_free c d : li_empty d = true -> conflict (li_empties d) (li_empties c) = false ->
  place c true d = mkli (Nat.max (li_size c) (li_size d)) (li_dsize c) (Nat.max (li_align c) (li_align d)) (li_empty c)
                        (li_empties c ++ li_empties d).
Proof. intros He Hc. unfold place. rewrite He, Hc. cbn [andb]. rewrite shift_0. reflexivity. Qed.
Lemma place_value_free c nua d : (nua && li_empty d) = false ->
  conflict (shift (round_up (li_dsize c) (li_align d)) (li_empties d)) (li_empties c) = false ->
  place c nua d = let o := round_up (li_dsize c) (li_align d) in
                  let adv := if nua then li_dsize d else li_size d in
                  mkli (Nat.max (li_size c) (o + adv)) (o + adv) (Nat.max (li_align c) (li_align d)) false
                       (li_empties c ++ shift o (li_empties d)).
Proof. intros He Hc. unfold place. rewrite He. rewrite find_off_free by apply Hc. reflexivity. Qed.

(* ---- the classes ---- *)
Section Classes.
Variable t : ity.
Let w := width t.
Let Hw : 0 < w := width_pos t.

Lemma max1w : Nat.max 1 w = w. Proof. pose proof Hw. lia. Qed.

(* possibly_empty_array *)
Lemma lay_pea0 : layout (c_pea t 0) = mkli 1 0 1 true [((1, [tcode t; 0%Z]), 0)].
Proof. reflexivity. Qed.
Lemma lay_peaS n : layout (c_pea t (S n)) = mkli (w * S n) (w * S n) w false [].
Proof.
  unfold c_pea. rewrite layout_single. cbn [layout]. rewrite place_init_value by (cbn [li_empty li_align andb]; auto; exact Hw).
  cbn [li_size li_dsize li_align li_empties]. unfold finish. cbn [li_size li_dsize li_align li_empty li_empties].
  fold w. rewrite max1w, Nat.max_id, round_up_mul by exact Hw.
  destruct (Nat.eqb_spec (w * S n) 0) as [E|_]; [pose proof Hw; nia|reflexivity].
Qed.

(* a wrapper class with one [[no_unique_address]] member: empty stays empty (one more empty subobject), a
   value-like member (size = dsize, a multiple of its alignment) keeps its size *)
Lemma wrap_empty nm tr T es : layout T = mkli 1 0 1 true es ->
  layout (Struct nm tr [(true, T)]) = mkli 1 0 1 true ((nm, 0) :: es).
Proof. intros E. rewrite layout_single, E, place_init_empty by reflexivity. reflexivity. Qed.
Lemma wrap_value nm tr T n : layout T = mkli (w * S n) (w * S n) w false [] ->
  layout (Struct nm tr [(true, T)]) = mkli (w * S n) (w * S n) w false [].
Proof.
  intros E. rewrite layout_single, E, place_init_value by (cbn [li_empty li_align andb]; auto; exact Hw).
  cbn [li_size li_dsize li_align li_empties]. unfold finish. cbn [li_size li_dsize li_align li_empty li_empties].
  rewrite max1w, Nat.max_id, round_up_mul by exact Hw.
  destruct (Nat.eqb_spec (w * S n) 0) as [E0|_]; [pose proof Hw; nia|reflexivity].
Qed.

Definition n_pea (n : nat) : tname := (1, [tcode t; Z.of_nat n]).
Definition n_msa (pat : list (option Z)) : tname := (2, tcode t :: pat_code pat).
Definition n_ext (pat : list (option Z)) : tname := (3, tcode t :: pat_code pat).

Lemma lay_msa pat : layout (c_msa t pat) =
  match ndyn pat with
  | 0 => mkli 1 0 1 true [(n_msa pat, 0); (n_pea 0, 0)]
  | S n => mkli (w * S n) (w * S n) w false []
  end.
Proof.
  unfold c_msa. destruct (ndyn pat) as [|n] eqn:E.
  - apply wrap_empty. apply lay_pea0.
  - apply wrap_value. apply lay_peaS.
Qed.
Lemma lay_extents pat : layout (c_extents t pat) =
  match ndyn pat with
  | 0 => mkli 1 0 1 true [(n_ext pat, 0); (n_msa pat, 0); (n_pea 0, 0)]
  | S n => mkli (w * S n) (w * S n) w false []
  end.
Proof.
  unfold c_extents. pose proof (lay_msa pat) as H. destruct (ndyn pat) as [|n].
  - apply wrap_empty. exact H.
  - apply wrap_value. exact H.
Qed.
Lemma lay_left pat : layout (c_left t pat) =
  match ndyn pat with
  | 0 => mkli 1 0 1 true [((4, tcode t :: pat_code pat), 0); (n_ext pat, 0); (n_msa pat, 0); (n_pea 0, 0)]
  | S n => mkli (w * S n) (w * S n) w false []
  end.
Proof.
  unfold c_left. pose proof (lay_extents pat) as H. destruct (ndyn pat) as [|n].
  - apply wrap_empty. exact H.
  - apply wrap_value. exact H.
Qed.
Lemma lay_right pat : layout (c_right t pat) =
  match ndyn pat with
  | 0 => mkli 1 0 1 true [((5, tcode t :: pat_code pat), 0); (n_ext pat, 0); (n_msa pat, 0); (n_pea 0, 0)]
  | S n => mkli (w * S n) (w * S n) w false []
  end.
Proof.
  unfold c_right. pose proof (lay_extents pat) as H. destruct (ndyn pat) as [|n].
  - apply wrap_empty. exact H.
  - apply wrap_value. exact H.
Qed.

Lemma triv_extents pat : triv_copyable (c_extents t pat) = true.
Proof. unfold c_extents, c_msa, c_pea. destruct (ndyn pat); reflexivity. Qed.
Lemma triv_left pat : triv_copyable (c_left t pat) = true.
Proof. unfold c_left, c_extents, c_msa, c_pea. destruct (ndyn pat); reflexivity. Qed.
Lemma triv_right pat : triv_copyable (c_right t pat) = true.
Proof. unfold c_right, c_extents, c_msa, c_pea. destruct (ndyn pat); reflexivity. Qed.

(* sizeof(extents) = rank_dynamic * sizeof(index_type); an empty class when there are none *)
Theorem extents_size pat :
  storage (c_extents t pat) = ndyn pat * w /\
  is_empty (c_extents t pat) = Nat.eqb (ndyn pat) 0 /\
  sizeof (c_extents t pat) = (if Nat.eqb (ndyn pat) 0 then 1 else ndyn pat * w) /\
  triv_copyable (c_extents t pat) = true.
Proof.
  split; [|split; [|split; [|apply triv_extents]]]; unfold storage, is_empty, sizeof; rewrite lay_extents;
    destruct (ndyn pat) as [|n]; cbn [li_empty li_size Nat.eqb]; try reflexivity; lia.
Qed.

(* layout_left / layout_right mappings add nothing to their extents *)
Theorem left_right_add_nothing pat :
  sizeof (c_left t pat) = sizeof (c_extents t pat) /\ is_empty (c_left t pat) = is_empty (c_extents t pat) /\
  sizeof (c_right t pat) = sizeof (c_extents t pat) /\ is_empty (c_right t pat) = is_empty (c_extents t pat) /\
  triv_copyable (c_left t pat) = true /\ triv_copyable (c_right t pat) = true.
Proof.
  split; [|split; [|split; [|split; [|split; [apply triv_left|apply triv_right]]]]];
    unfold is_empty, sizeof; rewrite ?lay_left, ?lay_right, lay_extents; destruct (ndyn pat); reflexivity.
Qed.

(* ---- layout_stride ---- *)
Lemma ndyn_le pat : ndyn pat <= length pat.
Proof. unfold ndyn. induction pat as [|[v|] pat IH]; cbn [filter length]; lia. Qed.

Definition codes_below (n : nat) (es : list (tname * nat)) : Prop := Forall (fun e => fst (fst e) < n) es.

(* what the enclosing classes need to know about a member *)
Record shape (l : linfo) (sz dsz al : nat) (emp : bool) : Prop := mkshape {
  sh_size : li_size l = sz; sh_dsize : li_dsize l = dsz; sh_align : li_align l = al; sh_empty : li_empty l = emp;
  sh_codes : codes_below 10 (li_empties l) }.

Lemma codes_cons n nm o es : fst nm < n -> codes_below n es -> codes_below n ((nm, o) :: es).
Proof. intros H1 H2. constructor; auto. Qed.
Ltac codes := repeat (apply codes_cons; [cbn; lia|]); try apply Forall_nil.

Lemma lay_pair_value_value (A B : ty) n m :
  layout A = mkli (w * S n) (w * S n) w false [] -> layout B = mkli (w * S m) (w * S m) w false [] ->
  layout (c_pair A B) = mkli (w * S n + w * S m) (w * S n + w * S m) w false [].
Proof.
  intros EA EB. unfold c_pair. rewrite layout_two, EA, EB.
  rewrite place_init_value by (cbn [li_empty li_align andb]; auto; exact Hw). cbn [li_dsize li_size li_align li_empties].
  rewrite place_value_free by (try reflexivity; intros; apply conflict_nil_r).
  cbn [li_dsize li_size li_align li_empties li_empty app shift map]. rewrite round_up_mul by exact Hw.
  unfold finish. cbn [li_dsize li_size li_align li_empties li_empty]. rewrite !max1w, !Nat.max_id.
  replace (Nat.max (w * S n) (w * S n + w * S m)) with (w * S n + w * S m) by lia. rewrite Nat.max_id.
  replace (w * S n + w * S m) with (w * (S n + S m)) by lia. rewrite round_up_mul by exact Hw.
  destruct (Nat.eqb_spec (w * (S n + S m)) 0) as [E0|_]; [pose proof Hw; nia|reflexivity].
Qed.

Lemma lay_pair_empty_value (A B : ty) es m : tdisj [] es ->
  layout A = mkli 1 0 1 true es -> layout B = mkli (w * S m) (w * S m) w false [] ->
  layout (c_pair A B) = mkli (w * S m) (w * S m) w false es.
Proof.
  intros _ EA EB. unfold c_pair. rewrite layout_two, EA, EB.
  rewrite place_init_empty by reflexivity. cbn [li_dsize li_size li_align li_empties].
  rewrite place_value_free by (try reflexivity; intros; reflexivity).
  cbn [li_dsize li_size li_align li_empties li_empty app shift map]. rewrite round_up_0 by exact Hw. cbn [Nat.add].
  unfold finish. cbn [li_dsize li_size li_align li_empties li_empty]. rewrite app_nil_r.
  replace (Nat.max (Nat.max 1 1) w) with w by (pose proof Hw; lia).
  replace (Nat.max (Nat.max 1 (w * S m)) (w * S m)) with (w * S m) by (pose proof Hw; nia).
  rewrite round_up_mul by exact Hw.
  destruct (Nat.eqb_spec (w * S m) 0) as [E0|_]; [pose proof Hw; nia|reflexivity].
Qed.

Lemma lay_stride pat : let R := length pat in
  shape (layout (c_stride t pat))
        (if Nat.eqb R 0 then 2 else (ndyn pat + R) * w) ((ndyn pat + R) * w) (if Nat.eqb R 0 then 1 else w) (Nat.eqb R 0).
Proof.
  cbn zeta. pose proof (ndyn_le pat) as Hle. unfold c_stride.
  destruct (ndyn pat) as [|n] eqn:End.
  - destruct pat as [|p pat'] eqn:Ep.
    + (* rank 0: everything is concrete up to the index type *)
      clear. subst w. destruct t; cbv; constructor; try reflexivity; repeat constructor.
    + rewrite <- Ep in *. assert (Hl : length pat = S (length pat')) by (rewrite Ep; reflexivity).
      pose proof (lay_extents pat) as HE. rewrite End in HE.
      pose proof (lay_peaS (length pat')) as HP. rewrite Hl.
      pose proof (lay_pair_empty_value _ _ _ _ (tdisj_nil_l _) HE HP) as HC.
      rewrite layout_single, HC, place_init_value by (cbn [li_empty li_align andb]; auto; exact Hw).
      cbn [li_size li_dsize li_align li_empties]. unfold finish. cbn [li_size li_dsize li_align li_empty li_empties].
      rewrite max1w, Nat.max_id, round_up_mul by exact Hw. cbn [Nat.eqb Nat.add].
      destruct (Nat.eqb_spec (w * S (length pat')) 0) as [E0|_]; [pose proof Hw; nia|].
      constructor; cbn [li_size li_dsize li_align li_empty li_empties]; try lia; try reflexivity. unfold n_ext, n_msa, n_pea. codes.
  - destruct (length pat) as [|r] eqn:El; [lia|].
    pose proof (lay_extents pat) as HE. rewrite End in HE.
    pose proof (lay_peaS r) as HP.
    pose proof (lay_pair_value_value _ _ _ _ HE HP) as HC.
    rewrite layout_single. rewrite HC, place_init_value by (cbn [li_empty li_align andb]; auto; exact Hw).
    cbn [li_size li_dsize li_align li_empties]. unfold finish. cbn [li_size li_dsize li_align li_empty li_empties].
    rewrite max1w, Nat.max_id. replace (w * S n + w * S r) with (w * (S n + S r)) by lia. rewrite round_up_mul by exact Hw.
    destruct (Nat.eqb_spec (w * (S n + S r)) 0) as [E0|_]; [pose proof Hw; nia|].
    cbn [Nat.eqb]. constructor; cbn [li_size li_dsize li_align li_empty li_empties]; try lia; try reflexivity. apply Forall_nil.
Qed.

Lemma triv_stride pat : triv_copyable (c_stride t pat) = true.
Proof. unfold c_stride, c_pair, c_extents, c_msa, c_pea. destruct (ndyn pat), (length pat); reflexivity. Qed.

(* layout_stride adds rank() strides *)
Theorem stride_adds_rank pat :
  storage (c_stride t pat) = (ndyn pat + length pat) * w /\ triv_copyable (c_stride t pat) = true.
Proof.
  split; [|apply triv_stride]. destruct (lay_stride pat) as [Hs _ _ He _]. unfold storage, is_empty, sizeof. rewrite He, Hs.
  destruct (Nat.eqb_spec (length pat) 0) as [E|E]; [|reflexivity].
  pose proof (ndyn_le pat). rewrite E in *. replace (ndyn pat) with 0 by lia. reflexivity.
Qed.

(* ---- padded layouts: two unmarked members ---- *)
Lemma lay_padded right pat pv spad :
  let nd := ndyn pat in
  let sd := match spad with None => true | Some _ => false end in
  shape (layout (c_padded right t pat pv spad))
        (match nd with 0 => if sd then round_up (w + 1) w else 2 | S _ => w + w * nd end)
        (match nd with 0 => if sd then w + 1 else 2 | S _ => w + w * nd end)
        (match nd with 0 => if sd then w else 1 | S _ => w end) false.
Proof.
  cbn zeta. unfold c_padded. rewrite layout_two.
  pose proof (lay_extents pat) as HE. pose proof (lay_msa [spad]) as HS.
  destruct spad as [v|]; cbn [ndyn filter length] in HS; rewrite HS; clear HS.
  - (* static padded stride: an empty class as an unmarked member takes one byte *)
    rewrite place_init_value by (cbn [li_empty li_align andb]; auto). cbn [li_size li_dsize li_align li_empties].
    destruct (ndyn pat) as [|n]; rewrite HE; clear HE.
    + rewrite place_value_free; [|reflexivity|].
      2:{ cbn [li_size li_dsize li_align li_empties]. rewrite round_up_1.
          cbn [conflict shift map existsb fst snd Nat.add Nat.eqb]. rewrite ?andb_false_r. reflexivity. }
      cbn [li_size li_dsize li_align li_empties li_empty]. rewrite round_up_1. unfold finish.
      cbn [li_size li_dsize li_align li_empties li_empty Nat.add Nat.max]. rewrite round_up_1. cbn [Nat.eqb].
      constructor; cbn [li_size li_dsize li_align li_empty li_empties]; try reflexivity.
      unfold n_msa, n_pea, n_ext, shift. cbn [map app fst snd]. codes.
    + rewrite place_value_free by (try reflexivity; apply conflict_nil_l).
      cbn [li_size li_dsize li_align li_empties li_empty shift map]. rewrite app_nil_r.
      assert (Er : round_up 1 w = w).
      { destruct (width_cases t) as [E|[E|[E|E]]]; fold w in E; rewrite E; reflexivity. }
      rewrite Er. unfold finish. cbn [li_size li_dsize li_align li_empties li_empty].
      replace (Nat.max 1 (w + w * S n)) with (w + w * S n) by (pose proof Hw; nia). rewrite Nat.max_id.
      replace (Nat.max (Nat.max 1 1) w) with w by (pose proof Hw; lia).
      replace (w + w * S n) with (w * (1 + S n)) by lia. rewrite round_up_mul by exact Hw.
      destruct (Nat.eqb_spec (w * (1 + S n)) 0) as [E0|_]; [pose proof Hw; nia|].
      constructor; cbn [li_size li_dsize li_align li_empty li_empties]; try reflexivity; try lia. unfold n_msa, n_pea. codes.
  - (* run-time padded stride: one index_type value *)
    replace (w * 1) with w by lia.
    rewrite place_init_value by (cbn [li_empty li_align andb]; auto; exact Hw). cbn [li_size li_dsize li_align li_empties].
    destruct (ndyn pat) as [|n]; rewrite HE; clear HE.
    + rewrite place_value_free by (try reflexivity; apply conflict_nil_r).
      cbn [li_size li_dsize li_align li_empties li_empty]. rewrite round_up_1. unfold finish.
      cbn [li_size li_dsize li_align li_empties li_empty]. rewrite !max1w.
      replace (Nat.max w 1) with w by (pose proof Hw; lia).
      replace (Nat.max (Nat.max w (w + 1)) (w + 1)) with (w + 1) by lia.
      destruct (Nat.eqb_spec (round_up (w + 1) w) 0) as [E0|_].
      { pose proof (round_up_ge (w + 1) w Hw). lia. }
      constructor; cbn [li_size li_dsize li_align li_empty li_empties]; try reflexivity.
      unfold n_msa, n_pea, n_ext, shift. cbn [map app fst snd]. codes.
    + rewrite place_value_free by (try reflexivity; apply conflict_nil_r).
      cbv zeta. cbn [li_size li_dsize li_align li_empties li_empty shift map app].
      assert (Er : round_up w w = w) by (pose proof (round_up_mul w 1 Hw) as Hr; rewrite Nat.mul_1_r in Hr; exact Hr). rewrite Er.
      unfold finish. cbn [li_size li_dsize li_align li_empties li_empty]. rewrite !max1w, Nat.max_id.
      replace (Nat.max w (w + w * S n)) with (w + w * S n) by lia. rewrite Nat.max_id.
      replace (w + w * S n) with (w * (1 + S n)) by lia. rewrite round_up_mul by exact Hw.
      destruct (Nat.eqb_spec (w * (1 + S n)) 0) as [E0|_]; [pose proof Hw; nia|].
      constructor; cbn [li_size li_dsize li_align li_empty li_empties]; try reflexivity; try lia. apply Forall_nil.
Qed.

Lemma triv_padded right pat pv spad : triv_copyable (c_padded right t pat pv spad) = true.
Proof. unfold c_padded, c_extents, c_msa, c_pea. destruct (ndyn pat), (ndyn [spad]); reflexivity. Qed.

(* the padded layouts add at most one padded stride (one index_type value, subject to alignment) *)
Theorem padded_at_most_one right pat pv spad :
  (sizeof (c_extents t pat) <= sizeof (c_padded right t pat pv spad) <= round_up (sizeof (c_extents t pat) + w) w) /\
  triv_copyable (c_padded right t pat pv spad) = true.
Proof.
  split; [|apply triv_padded]. destruct (lay_padded right pat pv spad) as [Hs _ _ _ _]. unfold sizeof. rewrite Hs, lay_extents.
  destruct (ndyn pat) as [|n]; cbn [li_size].
  - destruct spad as [v|].
    + pose proof (round_up_ge (1 + w) w Hw). pose proof Hw. lia.
    + replace (1 + w) with (w + 1) by lia. pose proof (round_up_ge (w + 1) w Hw). lia.
  - replace (w * S n + w) with (w * (S n + 1)) by lia. rewrite round_up_mul by exact Hw. lia.
Qed.

End Classes.

(* ---- mdspan: __compressed_pair<data_handle_type, __compressed_pair<mapping_type, accessor_type>> ---- *)
Definition pow2_8 (a : nat) : Prop := a = 1 \/ a = 2 \/ a = 4 \/ a = 8.
Lemma round_up_8 a : pow2_8 a -> round_up 8 a = 8.
Proof. intros [->|[->|[->| ->]]]; reflexivity. Qed.
Lemma round_up_idem x b : 0 < b -> round_up (round_up x b) b = round_up x b.
Proof. intros Hb. destruct (round_up_mult x b Hb) as [k ->]. apply round_up_mul. exact Hb. Qed.
Lemma max_pow2 a b : pow2_8 a -> pow2_8 b -> pow2_8 (Nat.max a b).
Proof. intros [->|[->|[->| ->]]] [->|[->|[->| ->]]]; cbn; unfold pow2_8; auto. Qed.
Lemma pow2_pos a : pow2_8 a -> 0 < a. Proof. intros [->|[->|[->| ->]]]; lia. Qed.

(* an accessor is either an empty class (its own type only) or holds one scalar *)
Inductive acc_shape (A : ty) : nat -> nat -> Prop :=
| acc_empty nm : 10 <= fst nm -> layout A = mkli 1 0 1 true [(nm, 0)] -> acc_shape A 0 1
| acc_value s : pow2_8 s -> layout A = mkli s s s false [] -> acc_shape A s s.

Section Mdspan.
Variables (M A : ty) (szM dM aM : nat) (eM : bool) (sA aA : nat).
Hypothesis HM : shape (layout M) szM dM aM eM.
Hypothesis HaM : pow2_8 aM.
Hypothesis HeM : if eM then dM = 0 /\ aM = 1 /\ 1 <= szM <= 8 else 0 < dM /\ dM <= szM.
Hypothesis HA : acc_shape A sA aA.

(* sizeof(mdspan) = the data handle (a pointer) + the data of a non-empty mapping + a non-empty accessor,
   each at its alignment, rounded up to the pointer's alignment *)
Theorem mdspan_size :
  sizeof (c_mdspan (Scalar 8) M A) = round_up (8 + (round_up dM aA + sA)) 8 /\ is_empty (c_mdspan (Scalar 8) M A) = false.
Proof.
  destruct HM as [Hsz Hds Hal Hem Hco].
  set (lm := layout M) in *.
  assert (HaM0 : 0 < aM) by (apply pow2_pos; exact HaM).
  (* the inner pair *)
  assert (Hin : exists szI esI, layout (c_pair M A) = mkli szI (round_up dM aA + sA) (Nat.max aM aA) (eM && Nat.eqb sA 0) esI /\
                  (eM && Nat.eqb sA 0 = true -> szI <= 8) /\ pow2_8 (Nat.max aM aA)).
  { unfold c_pair. rewrite layout_two. fold lm.
    assert (P1 : place li_init true lm = mkli (if eM then szM else dM) dM (Nat.max 1 aM) eM (li_empties lm)).
    { destruct eM.
      - rewrite place_init_empty by exact Hem. rewrite Hsz, Hal. destruct HeM as (-> & _). reflexivity.
      - rewrite place_init_value by (rewrite ?Hem, ?Hal; auto). cbv zeta. rewrite Hds, Hal. reflexivity. }
    rewrite P1. replace (Nat.max 1 aM) with aM by lia.
    destruct HA as [nm Hnm EA | s Hs EA]; rewrite EA.
    - (* empty accessor *)
      rewrite place_empty_free; [|reflexivity|].
      2:{ cbn [li_empties]. rewrite <- (shift_0 [(nm, 0)]). apply conflict_tdisj. intros x y [<-|[]] Hy. cbn [fst].
          unfold codes_below in Hco. rewrite Forall_forall in Hco. specialize (Hco y Hy). cbv beta in Hco. intros E. rewrite E in Hnm. apply (Nat.lt_irrefl 10). eapply Nat.le_lt_trans; [exact Hnm|exact Hco]. }
      cbn [li_size li_dsize li_align li_empty li_empties]. unfold finish. cbn [li_size li_dsize li_align li_empty li_empties].
      rewrite round_up_1, Nat.add_0_r. replace (Nat.max aM 1) with aM by lia. rewrite Nat.eqb_refl, andb_true_r.
      eexists _, _. split; [reflexivity|]. split; [|exact HaM].
      intros ->. destruct HeM as (-> & -> & H1 & H8). rewrite round_up_1.
      destruct (Nat.eqb_spec (Nat.max (Nat.max szM 1) 0) 0); lia.
    - (* an accessor with state *)
      assert (Hs0 : 0 < s) by (apply pow2_pos; exact Hs).
      rewrite place_value_free by (try reflexivity).
      cbv zeta. cbn [li_size li_dsize li_align li_empty li_empties]. unfold finish. cbn [li_size li_dsize li_align li_empty li_empties].
      replace (s =? 0) with false by (symmetry; apply Nat.eqb_neq; lia). rewrite andb_false_r.
      eexists _, _. split; [reflexivity|]. split; [discriminate|apply max_pow2; auto]. }
  destruct Hin as (szI & esI & EI & HszI & Hpow).
  (* the outer pair *)
  set (d := round_up dM aA + sA) in *.
  assert (EO : exists dsO esO, layout (c_pair (Scalar 8) (c_pair M A)) = mkli (round_up (8 + d) 8) dsO 8 false esO).
  { unfold c_pair at 1. rewrite layout_two. rewrite EI.
    change (layout (Scalar 8)) with (mkli 8 8 8 false []).
    rewrite (place_init_value true (mkli 8 8 8 false [])) by (cbn [andb li_empty li_align]; auto with arith).
    cbv zeta. cbn [li_size li_dsize li_align li_empty li_empties]. change (Nat.max 1 8) with 8.
    destruct (eM && (sA =? 0)) eqn:Eboth.
    - (* both empty: the pair overlaps the handle *)
      rewrite place_empty_free by (try reflexivity; apply conflict_nil_r).
      cbn [li_size li_dsize li_align li_empty li_empties]. specialize (HszI eq_refl).
      apply andb_true_iff in Eboth. destruct Eboth as [EeM EsA]. apply Nat.eqb_eq in EsA. rewrite EeM in HeM. destruct HeM as (EdM & EaM & _).
      assert (HaA : aA = 1).
      { inversion HA as [nm ? ? | s Hs ?]; subst; [reflexivity|]. destruct Hs as [?|[?|[?|?]]]; lia. }
      assert (Ed : d = 0) by (unfold d; rewrite EdM, HaA, EsA, round_up_1; reflexivity).
      rewrite Ed. change (round_up (8 + 0) 8) with 8.
      unfold finish. cbn [li_size li_dsize li_align li_empty li_empties].
      replace (Nat.max (Nat.max 8 szI) 8) with 8 by lia.
      rewrite EaM, HaA. change (Nat.max 8 (Nat.max 1 1)) with 8.
      change (round_up 8 8) with 8. cbn [Nat.eqb]. eexists _, _. reflexivity.
    - rewrite place_value_free by (try reflexivity; apply conflict_nil_r).
      cbv zeta. cbn [li_size li_dsize li_align li_empty li_empties].
      rewrite (round_up_8 _ Hpow).
      assert (Ea : Nat.max 8 (Nat.max aM aA) = 8) by (destruct Hpow as [->|[->|[->| ->]]]; reflexivity). rewrite Ea.
      unfold finish. cbn [li_size li_dsize li_align li_empty li_empties].
      replace (Nat.max (Nat.max 8 (8 + d)) (8 + d)) with (8 + d) by lia.
      assert (Hr : 8 + d <= round_up (8 + d) 8) by (apply round_up_ge; lia).
      destruct (Nat.eqb_spec (round_up (8 + d) 8) 0) as [E0|_]; [lia|]. eexists _, _. reflexivity. }
  destruct EO as (dsO & esO & EO).
  (* the mdspan class: one unmarked member *)
  assert (Hr : 8 + d <= round_up (8 + d) 8) by (apply round_up_ge; lia).
  unfold sizeof, is_empty, c_mdspan. rewrite layout_single, EO.
  rewrite place_init_value by (cbn [andb li_empty li_align]; auto with arith). cbv zeta. cbn [li_size li_dsize li_align li_empty li_empties].
  unfold finish. cbn [li_size li_dsize li_align li_empty li_empties]. change (Nat.max 1 8) with 8. rewrite Nat.max_id.
  rewrite round_up_idem by lia.
  destruct (Nat.eqb_spec (round_up (8 + d) 8) 0) as [E0|_]; [lia|]. split; reflexivity.
Qed.
End Mdspan.

(* ---- instances of the mdspan theorem ---- *)
Ltac codes2 := repeat (apply codes_cons; [cbn; lia|]); try apply Forall_nil.
Lemma acc_default el : acc_shape (c_default_accessor el) 0 1.
Proof. apply (acc_empty _ (10, [el])); [cbn; lia|reflexivity]. Qed.

Lemma shape_left_right t pat : 
  let w := width t in
  shape (layout (c_left t pat)) (if Nat.eqb (ndyn pat) 0 then 1 else w * ndyn pat) (w * ndyn pat) (if Nat.eqb (ndyn pat) 0 then 1 else w) (Nat.eqb (ndyn pat) 0) /\
  shape (layout (c_right t pat)) (if Nat.eqb (ndyn pat) 0 then 1 else w * ndyn pat) (w * ndyn pat) (if Nat.eqb (ndyn pat) 0 then 1 else w) (Nat.eqb (ndyn pat) 0).
Proof.
  cbn zeta. rewrite lay_left, lay_right. destruct (ndyn pat) as [|n]; cbn [Nat.eqb]; split; constructor; cbn [li_size li_dsize li_align li_empty li_empties];
    try reflexivity; try lia; try apply Forall_nil; unfold n_ext, n_msa, n_pea; codes2.
Qed.
Lemma width_pow2 t : pow2_8 (width t).
Proof. destruct t; cbn; unfold pow2_8; auto. Qed.

Theorem mdspan_left_right_stride t pat el :
  sizeof (c_mdspan (Scalar 8) (c_left t pat) (c_default_accessor el)) = round_up (8 + ndyn pat * width t) 8 /\
  sizeof (c_mdspan (Scalar 8) (c_right t pat) (c_default_accessor el)) = round_up (8 + ndyn pat * width t) 8 /\
  sizeof (c_mdspan (Scalar 8) (c_stride t pat) (c_default_accessor el)) = round_up (8 + (ndyn pat + length pat) * width t) 8.
Proof.
  destruct (shape_left_right t pat) as [HL HR]. pose proof (lay_stride t pat) as HS. cbn zeta in HS.
  pose proof (width_pos t) as Hw. pose proof (width_pow2 t) as Hp. pose proof (ndyn_le t pat) as Hle.
  assert (Hal : pow2_8 (if ndyn pat =? 0 then 1 else width t)) by (destruct (ndyn pat =? 0); [left; reflexivity|exact Hp]).
  assert (HeLR : if ndyn pat =? 0 then width t * ndyn pat = 0 /\ (if ndyn pat =? 0 then 1 else width t) = 1 /\
                       1 <= (if ndyn pat =? 0 then 1 else width t * ndyn pat) <= 8
                 else 0 < width t * ndyn pat /\ width t * ndyn pat <= (if ndyn pat =? 0 then 1 else width t * ndyn pat)).
  { destruct (Nat.eqb_spec (ndyn pat) 0) as [E|E]; [rewrite E; lia|]. split; [nia|lia]. }
  split; [|split].
  - destruct (mdspan_size _ _ _ _ _ _ _ _ HL Hal HeLR (acc_default el)) as [H _]. rewrite H, round_up_1. f_equal. lia.
  - destruct (mdspan_size _ _ _ _ _ _ _ _ HR Hal HeLR (acc_default el)) as [H _]. rewrite H, round_up_1. f_equal. lia.
  - assert (HalS : pow2_8 (if length pat =? 0 then 1 else width t)) by (destruct (length pat =? 0); [left; reflexivity|exact Hp]).
    assert (HeS : if length pat =? 0 then (ndyn pat + length pat) * width t = 0 /\ (if length pat =? 0 then 1 else width t) = 1 /\
                       1 <= (if length pat =? 0 then 2 else (ndyn pat + length pat) * width t) <= 8
                  else 0 < (ndyn pat + length pat) * width t /\ (ndyn pat + length pat) * width t <= (if length pat =? 0 then 2 else (ndyn pat + length pat) * width t)).
    { destruct (Nat.eqb_spec (length pat) 0) as [E|E]; [rewrite E; replace (ndyn pat) with 0 by lia; cbn; lia|]. split; [nia|lia]. }
    destruct (mdspan_size _ _ _ _ _ _ _ _ HS HalS HeS (acc_default el)) as [H _]. rewrite H, round_up_1. f_equal. lia.
Qed.

Theorem mdspan_pointer_sized t pat el : ndyn pat = 0 ->
  sizeof (c_mdspan (Scalar 8) (c_left t pat) (c_default_accessor el)) = 8 /\
  sizeof (c_mdspan (Scalar 8) (c_right t pat) (c_default_accessor el)) = 8.
Proof.
  intros E. destruct (mdspan_left_right_stride t pat el) as (HL & HR & _). rewrite HL, HR, E. split; reflexivity.
Qed.
