(* C17 — deduction guides, member types and noexcept are as specified.
   The deduction table (Deduction.v) is compared with decltype of every CTAD form by the correspondence
   check; the theorems below are consistency facts about that table (the substance of C17 is decided by the
   compile-time comparison, as stated in the manifest). *)
From Coq Require Import ZArith List Bool.
From MdspanVerif Require Import MachInt ListAux Extents Constraints Deduction DeductionProofs.
Import ListNotations.
Local Open Scope Z_scope.

(* dextents<I, N> is extents<I, dynamic_extent x N> (the __make_dextents recursion) *)
Theorem C17_dextents : forall (t : ity) (n : nat), dextents t n = mkE t (repeat None n).
Proof. exact dextents_all_dynamic. Qed.
Print Assumptions C17_dextents.
Theorem C17_dextents_rank : forall (t : ity) (n : nat), length (x_pat (dextents t n)) = n /\ rankd (x_pat (dextents t n)) = n.
Proof. exact dextents_rank. Qed.
Print Assumptions C17_dextents_rank.

(* extents(ints...) and mdspan(ptr, ints...) deduce dextents<size_t, N>, for any integer argument types *)
Theorem C17_pack_deduction : forall (args : list ity) (el : elt),
  deduce (FExtentsPack args) = DExt (mkE U64 (repeat None (length args))) /\
  deduce (FMdsPack el args) = DMds (mkMds (mkM LR (mkE U64 (repeat None (length args)))) (ADefault el)).
Proof. exact pack_deduction. Qed.
Print Assumptions C17_pack_deduction.

(* mdspan(ptr, extents), mdspan(ptr, mapping), mdspan(handle, mapping, accessor) take extents, layout and accessor
   from their arguments; Layout::mapping(extents) deduces its extents *)
Theorem C17_carried : forall (el : elt) (e : ext_t) (m : map_t) (a : acc_t),
  deduce (FMdsExtents el e) = DMds (mkMds (mkM LR e) (ADefault el)) /\
  deduce (FMdsMapping el m) = DMds (mkMds m (ADefault el)) /\
  deduce (FMdsMappingAcc m a) = DMds (mkMds m a) /\
  deduce (FMapping (m_lay m) (m_ext m)) = DMap m.
Proof. exact carried. Qed.
Print Assumptions C17_carried.

(* mdspan(pointer) is rank 0 and mdspan(1-D C array) has that static extent *)
Theorem C17_pointer_and_array : forall (el : elt) (n : Z),
  deduce (FMdsPtr el) = DMds (mkMds (mkM LR (mkE U64 [])) (ADefault el)) /\
  deduce (FMdsCArray el n) = DMds (mkMds (mkM LR (mkE U64 [Some n])) (ADefault el)).
Proof. exact pointer_and_array. Qed.
Print Assumptions C17_pointer_and_array.

(* size_type is the unsigned counterpart of index_type *)
Theorem C17_size_type_counterpart : forall t : ity,
  bits (unsigned_of t) = bits t /\ sgn (unsigned_of t) = false /\ imax t <= imax (unsigned_of t) /\ imin (unsigned_of t) = 0.
Proof. exact size_type_counterpart. Qed.
Print Assumptions C17_size_type_counterpart.
