(* FlagProofs.v — is_exhaustive / is_unique / is_strided and the always-variants (C07); mdspan's
   size / empty observers (C13). *)
From Coq Require Import ZArith List Lia Bool Permutation Znumtheory.
From MdspanVerif Require Import MachInt ListAux Layouts LayoutSpec LayoutProofs LayoutTheorems.
Import ListNotations.
Local Open Scope Z_scope.
Ltac Zify.zify_post_hook ::= Z.div_mod_to_equations.

(* every offset below sp is produced by some in-bounds multi-index *)
Definition covers (m : mapping) (sp : Z) : Prop :=
  forall o, 0 <= o < sp -> exists idx, inbe idx (exts m) /\ spec_offset m idx = o.

Lemma valid_exts_nonneg t m : valid t m -> Forall (fun e => 0 <= e) (exts m).
Proof.
  intros Hv. destruct m as [es|es|es ss|es ps|es ps]; cbn [valid exts] in *;
  try (apply (admissible_nonneg t); tauto). destruct Hv as (_ & He & _). eapply Forall_impl; [|exact He]. cbn; intros; lia.
Qed.

(* counting: an injective map from the index space into [0, sp) covers it iff the space has sp points *)
Theorem covers_iff_count t m sp :
  valid t m -> has_zero (exts m) = false -> span1 (dims m) <= sp ->
  (covers m sp <-> prodl (exts m) = sp).
Proof.
  intros Hv Hz Hsp.
  pose proof (valid_exts_nonneg t m Hv) as Hnn.
  set (l := all_indices (exts m)). set (f := fun idx => Z.to_nat (spec_offset m idx)). set (n := Z.to_nat sp).
  assert (Hin : forall x, In x l -> inbe x (exts m)) by (intros x Hx; apply all_indices_in; exact Hx).
  assert (Hnd : NoDup l) by apply all_indices_NoDup.
  assert (Hinj : forall x y, In x l -> In y l -> f x = f y -> x = y).
  { intros x y Hx Hy Hf. pose proof (spec_range_inj t m x y Hv (Hin x Hx) (Hin y Hy)) as [Hr Hi].
    pose proof (spec_range_inj t m y y Hv (Hin y Hy) (Hin y Hy)) as [Hr' _]. apply Hi. unfold f in Hf. lia. }
  assert (Hrange : forall x, In x l -> (f x < n)%nat).
  { intros x Hx. pose proof (spec_range_inj t m x x Hv (Hin x Hx) (Hin x Hx)) as [Hr _]. unfold f, n. lia. }
  pose proof (covers_iff (list Z) f l n Hnd Hinj Hrange) as Hc.
  assert (Hlen : Z.of_nat (length l) = prodl (exts m)) by (apply all_indices_length; exact Hnn).
  assert (Hsp0 : 1 <= sp).
  { pose proof (has_zero_inbe_exists _ Hnn Hz) as Hin0.
    pose proof (spec_range_inj t m _ _ Hv Hin0 Hin0) as [Hr _]. lia. }
  split.
  - intros Hcov. assert (length l = n); [|lia]. apply Hc. intros o Ho.
    destruct (Hcov (Z.of_nat o)) as (idx & Hi & Ho'); [lia|]. exists idx. split; [apply all_indices_in; exact Hi|].
    unfold f. rewrite Ho'. lia.
  - intros Hp o Ho. assert (Hl : length l = n) by lia.
    destruct (proj2 Hc Hl (Z.to_nat o)) as (idx & Hi & Hf); [lia|].
    exists idx. split; [apply Hin; exact Hi|].
    pose proof (spec_range_inj t m idx idx Hv (Hin idx Hi) (Hin idx Hi)) as [Hr _]. unfold f in Hf. lia.
Qed.

(* ---- layout_stride::is_exhaustive ---- *)
Lemma fold_times_right_ok t : forall es, Forall (fun e => 1 <= e) es -> prodl es <= imax t ->
  fold_times_right t es = Ok (prodl es).
Proof.
  induction es as [|e es IH]; intros Hp Hb; cbn [fold_times_right prodl] in *; [reflexivity|].
  inversion Hp as [|? ? He Hp']; subst. pose proof (prodl_pos es Hp').
  rewrite IH by (auto; nia). cbn [bind]. apply mulP_small. nia.
Qed.

Lemma map_fst_combine' (es ss : list Z) : length ss = length es -> map fst (combine es ss) = es.
Proof. intros H. apply map_fst_combine. lia. Qed.

(* the value is_exhaustive() returns, for every valid mapping with a non-empty index space *)
Theorem is_exhaustive_nonempty t m sp :
  valid t m -> has_zero (exts m) = false -> span_impl t m = Ok sp ->
  is_exhaustive_impl t m = Ok (prodl (exts m) =? sp).
Proof.
  intros Hv Hz Hsp. pose proof (valid_exts_nonneg t m Hv) as Hnn. pose proof (has_zero_false _ Hnn Hz) as Hpos.
  destruct m as [es|es|es ss|es ps|es ps]; cbn [exts] in *.
  - destruct (span_left_right_is_product t es Hv) as [E _]. rewrite E in Hsp. injection Hsp as <-.
    cbn [is_exhaustive_impl]. rewrite Z.eqb_refl. reflexivity.
  - destruct (span_left_right_is_product t es Hv) as [_ E]. rewrite E in Hsp. injection Hsp as <-.
    cbn [is_exhaustive_impl]. rewrite Z.eqb_refl. reflexivity.
  - pose proof (span_refines_lrs t (MStride es ss) Hv eq_refl) as E. cbn [exts] in E. rewrite Hz in E.
    rewrite E in Hsp. injection Hsp as <-. cbn [span_impl] in E.
    pose proof (has_zero_inbe_exists _ Hnn Hz) as Hin0.
    destruct (dims_chainable t (MStride es ss) _ Hv Hin0) as (Hch & Hap & _ & _).
    unfold dims in *. cbn [exts spec_strides] in *.
    destruct Hv as (Hl & He & Hs & Hord & Hb). rewrite (max1_id_pos es Hpos) in Hb.
    pose proof (chainable_prod_le_span _ Hch Hap) as Hle. rewrite (map_fst_combine' es ss Hl) in Hle.
    pose proof (span1_pos _ Hap) as Hsp1.
    destruct es as [|e0 es'].
    + destruct ss; [|discriminate]. reflexivity.
    + cbn [is_exhaustive_impl]. rewrite E. cbn [bind].
      assert (Hne : (span1 (combine (e0 :: es') ss) =? 0) = false) by (apply Z.eqb_neq; lia). rewrite Hne.
      rewrite fold_times_right_ok by (auto; lia). cbn [bind].
      pose proof (prodl_pos _ Hpos).
      rewrite wrap_small by lia. f_equal. apply Z.eqb_sym.
  - destruct (span_padded_l t es ps Hv) as (sp' & E & _ & _ & H). rewrite E in Hsp. injection Hsp as <-.
    destruct (H Hz) as [_ ->]. cbn [is_exhaustive_impl]. f_equal.
    destruct es as [|e0 [|e1 es]]; cbn [length lpad_exts hd]; try (rewrite Z.eqb_refl; reflexivity).
    cbn [Nat.ltb Nat.leb orb prodl]. inversion Hpos as [|? ? H0 Hp']; subst. pose proof (prodl_pos _ Hp') as Hq. cbn [prodl] in Hq.
    destruct (e0 =? ps) eqn:E1; symmetry; [apply Z.eqb_eq in E1; apply Z.eqb_eq; subst; reflexivity|].
    apply Z.eqb_neq in E1. apply Z.eqb_neq. nia.
  - destruct (span_padded_r t es ps Hv) as (sp' & E & _ & _ & H). rewrite E in Hsp. injection Hsp as <-.
    destruct (H Hz) as [_ ->]. cbn [is_exhaustive_impl]. f_equal.
    destruct es as [|e0 [|e1 es]]; cbn [length rpad_exts]; try (rewrite Z.eqb_refl; reflexivity).
    set (l := e0 :: e1 :: es) in *. assert (Hne : l <> []) by discriminate.
    cbn [Nat.ltb Nat.leb orb]. rewrite prodl_app. cbn [prodl]. rewrite Z.mul_1_r.
    rewrite (app_removelast_last 0 Hne) at 2. rewrite prodl_app. cbn [prodl]. rewrite Z.mul_1_r.
    assert (Hq : 1 <= prodl (removelast l)) by (apply prodl_pos, Forall_removelast; exact Hpos).
    destruct (last l 0 =? ps) eqn:E1; symmetry; [apply Z.eqb_eq in E1; apply Z.eqb_eq; rewrite E1; reflexivity|].
    apply Z.eqb_neq in E1. apply Z.eqb_neq. nia.
Qed.

(* non-empty index space: is_exhaustive() is true exactly when the mapping covers [0, required_span_size) *)
Theorem exhaustive_exact_thm t m sp :
  valid t m -> has_zero (exts m) = false -> span_impl t m = Ok sp ->
  exists b, is_exhaustive_impl t m = Ok b /\ (b = true <-> covers m sp).
Proof.
  intros Hv Hz Hsp. exists (prodl (exts m) =? sp). split; [apply is_exhaustive_nonempty; auto|].
  destruct (span_ge_span1 t m Hv Hz) as (sp' & E & Hge). rewrite E in Hsp. injection Hsp as <-.
  rewrite (covers_iff_count t m sp' Hv Hz Hge). apply Z.eqb_eq.
Qed.

(* required_span_size of an empty index space is 0 for every valid mapping *)
Lemma span_empty t m : valid t m -> has_zero (exts m) = true -> span_impl t m = Ok 0.
Proof.
  intros Hv Hz. destruct m as [es|es|es ss|es ps|es ps]; cbn [exts] in *.
  - rewrite (span_refines_lrs t (MLeft es) Hv eq_refl). cbn [exts]. rewrite Hz. reflexivity.
  - rewrite (span_refines_lrs t (MRight es) Hv eq_refl). cbn [exts]. rewrite Hz. reflexivity.
  - rewrite (span_refines_lrs t (MStride es ss) Hv eq_refl). cbn [exts]. rewrite Hz. reflexivity.
  - destruct (span_padded_l t es ps Hv) as (sp & E & H0 & _). rewrite E, (H0 Hz). reflexivity.
  - destruct (span_padded_r t es ps Hv) as (sp & E & H0 & _). rewrite E, (H0 Hz). reflexivity.
Qed.

(* soundness on every index space (empty ones included): is_exhaustive() = true implies coverage *)
Theorem exhaustive_sound_thm t m sp :
  valid t m -> span_impl t m = Ok sp -> is_exhaustive_impl t m = Ok true -> covers m sp.
Proof.
  intros Hv Hsp Hb. destruct (has_zero (exts m)) eqn:Hz.
  - rewrite (span_empty t m Hv Hz) in Hsp. injection Hsp as <-. intros o Ho. lia.
  - destruct (exhaustive_exact_thm t m sp Hv Hz Hsp) as (b & E & Hiff). rewrite E in Hb. injection Hb as ->. apply Hiff. reflexivity.
Qed.

(* is_exhaustive() never executes undefined behaviour on a valid mapping *)
Theorem is_exhaustive_defined t m : valid t m -> exists b, is_exhaustive_impl t m = Ok b.
Proof.
  intros Hv. destruct (has_zero (exts m)) eqn:Hz.
  - pose proof (span_empty t m Hv Hz) as E.
    destruct m as [es|es|es ss|es ps|es ps]; cbn [is_exhaustive_impl]; eauto.
    cbn [span_impl] in E. destruct es as [|e0 es']; eauto. rewrite E. cbn [bind Z.eqb].
    destruct ss as [|s0 [|s1 ss']]; eauto.
  - destruct (span_ge_span1 t m Hv Hz) as (sp & E & _). eexists. apply (is_exhaustive_nonempty t m sp Hv Hz E).
Qed.

(* is_strided(): the offset is the dot product with what stride(r) reports *)
Theorem strided_thm t m idx :
  valid t m -> inbe idx (exts m) -> is_strided_impl m = true ->
  exists ss, length ss = length (exts m) /\
    (forall r, (r < length (exts m))%nat -> stride_impl t m r = Ok (nth r ss 0)) /\
    offset_impl t m idx = Ok (dot idx (combine (exts m) ss)).
Proof.
  intros Hv Hin _. exists (spec_strides m).
  destruct (dims_chainable t m idx Hv Hin) as (_ & _ & _ & Hlen). split; [exact Hlen|]. split.
  - intros r Hr. apply stride_refines; auto.
  - apply offset_refines; auto.
Qed.

(* ---- the always-variants ---- *)
(* an instance of a padded mapping *type*: rank, padding_value and static_extent(extent-to-pad) fix the
   static padded stride; an instance's extent-to-pad equals the static extent when there is one *)
Definition pad_instance (t : ity) (left : bool) (rank : nat) (pv se : option Z) (m : mapping) : Prop :=
  exists es stored,
    length es = rank /\
    (forall e, se = Some e -> ext_to_pad left es = wrap t e) /\
    m = (if left then MLPad es else MRPad es) (pad_value t (static_padded_stride rank pv se) stored).

Theorem always_exhaustive_padded_thm t left rank pv se m :
  pad_is_always_exhaustive rank pv se = true -> pad_instance t left rank pv se m ->
  is_exhaustive_impl t m = Ok true.
Proof.
  intros Ha (es & stored & Hlen & Hse & ->). unfold pad_is_always_exhaustive in Ha.
  assert (G : (Nat.ltb (length es) 2 || (ext_to_pad left es =? pad_value t (static_padded_stride rank pv se) stored)) = true).
  { destruct (Nat.leb rank 1) eqn:Hr.
    - apply Nat.leb_le in Hr. assert (E : Nat.ltb (length es) 2 = true) by (apply Nat.ltb_lt; lia). rewrite E. reflexivity.
    - cbn [orb] in Ha. destruct se as [e|]; [|discriminate].
      destruct (static_padded_stride rank pv (Some e)) as [v|]; [|discriminate].
      apply Z.eqb_eq in Ha. subst v. cbn [pad_value]. rewrite (Hse e eq_refl), Z.eqb_refl. apply orb_true_r. }
  destruct left; cbn [is_exhaustive_impl]; unfold ext_to_pad in G; rewrite G; reflexivity.
Qed.

(* layout_left / layout_right: is_always_exhaustive() = true, and indeed every instance is exhaustive;
   is_always_unique / is_always_strided are true for all five and so are is_unique / is_strided *)
Theorem always_flags_thm t m :
  (match m with MLeft _ | MRight _ => is_exhaustive_impl t m = Ok true | _ => True end) /\
  is_unique_impl m = true /\ is_strided_impl m = true.
Proof. destruct m; repeat split. Qed.

(* ---------------------------------------------------------------------------------------------- *)
(* C13: size() and empty()                                                                          *)

Lemma wrap_u64_mod z : wrap U64 z = z mod 2^64.
Proof. reflexivity. Qed.

Lemma fold_times_right_u64_mod es : fold_times_right_u64 es = prodl es mod 2^64.
Proof.
  induction es as [|e es IH]; cbn [fold_times_right_u64 prodl]; [reflexivity|].
  rewrite IH, !wrap_u64_mod. rewrite <- Zmult_mod. reflexivity.
Qed.

Definition size_bits t := 2 ^ bits t.

Lemma wrap_unsigned_mod t z : wrap (unsigned_of t) z = z mod 2 ^ bits t.
Proof. destruct t; reflexivity. Qed.

(* size() = product of the extents reduced modulo 2^width(size_type): computed in size_t, never in the
   signed index type *)
Theorem size_general_thm t es : size_impl t es = prodl es mod 2 ^ bits t.
Proof.
  unfold size_impl. rewrite fold_times_right_u64_mod, wrap_unsigned_mod.
  symmetry. apply Zmod_div_mod.
  - destruct t; reflexivity.
  - reflexivity.
  - destruct t; cbn [bits]; [exists (2^56)|exists (2^56)|exists (2^48)|exists (2^48)|exists (2^32)|exists (2^32)|exists 1|exists 1]; reflexivity.
Qed.

(* hence the exact product whenever it is representable in size_type - in particular for every
   valid mapping (the product is then even representable in index_type) *)
Theorem size_exact_thm t es : 0 <= prodl es < 2 ^ bits t -> size_impl t es = prodl es.
Proof. intros H. rewrite size_general_thm. apply Z.mod_small. exact H. Qed.

Lemma imax_lt_pow t : imax t < 2 ^ bits t.
Proof. destruct t; cbv; reflexivity. Qed.

Theorem size_valid_thm t m : valid t m -> size_impl t (exts m) = prodl (exts m).
Proof.
  intros Hv. pose proof (valid_exts_nonneg t m Hv) as Hnn. apply size_exact_thm.
  pose proof (prodl_nonneg _ Hnn). pose proof (imax_lt_pow t). pose proof (imax_pos t). split; [lia|].
  destruct (has_zero (exts m)) eqn:Hz.
  - rewrite (prodl_zero _ (has_zero_true _ Hz)). lia.
  - pose proof (has_zero_false _ Hnn Hz) as Hpos.
    pose proof (has_zero_inbe_exists _ Hnn Hz) as Hin0.
    destruct (dims_chainable t m _ Hv Hin0) as (Hch & Hap & _ & Hlen).
    pose proof (chainable_prod_le_span _ Hch Hap) as Hle. unfold dims in Hle.
    rewrite (map_fst_combine' (exts m) (spec_strides m) Hlen) in Hle.
    destruct (span_ge_span1 t m Hv Hz) as (sp & E & Hge). unfold dims in Hge.
    assert (sp <= imax t); [|lia].
    (* required_span_size is a value of index_type *)
    clear - Hv E Hz Hnn. destruct m as [es|es|es ss|es ps|es ps]; cbn [exts] in *.
    + destruct (span_left_right_is_product t es Hv) as [E' _]. rewrite E' in E. injection E as <-.
      destruct Hv as [_ Hb]. pose proof (prodl_le_prod1 es Hnn). lia.
    + destruct (span_left_right_is_product t es Hv) as [_ E']. rewrite E' in E. injection E as <-.
      destruct Hv as [_ Hb]. pose proof (prodl_le_prod1 es Hnn). lia.
    + pose proof (span_refines_lrs t (MStride es ss) Hv eq_refl) as E'. cbn [exts] in E'. rewrite Hz in E'. rewrite E' in E. injection E as <-.
      destruct Hv as (Hl & He & Hs & Hord & Hb). unfold dims. cbn [exts spec_strides].
      rewrite (max1_id_pos es) in Hb by (apply has_zero_false; auto). exact Hb.
    + destruct (span_padded_l t es ps Hv) as (sp' & E' & _ & _ & H). rewrite E' in E. injection E as <-. destruct (H Hz) as [_ ->].
      destruct Hv as [[_ Hb] Hp]. destruct es as [|e0 [|e1 es]]; cbn [lpad_exts].
      * cbn. pose proof (imax_pos t). lia.
      * pose proof (prodl_le_prod1 _ Hnn). lia.
      * assert (H2 : (2 <= length (e0 :: e1 :: es))%nat) by (cbn; lia). destruct (Hp H2) as [Hps Hb2]. cbn [hd tl] in *.
        inversion Hnn as [|? ? H0 Hnn']; subst. pose proof (prodl_le_prod1 _ Hnn'). pose proof (prodl_nonneg _ Hnn').
        cbn [prodl] in *. assert (ps <= max1 ps) by (unfold max1; lia). assert (0 <= ps) by lia. nia.
    + destruct (span_padded_r t es ps Hv) as (sp' & E' & _ & _ & H). rewrite E' in E. injection E as <-. destruct (H Hz) as [_ ->].
      destruct Hv as [[_ Hb] Hp]. destruct es as [|e0 [|e1 es]]; cbn [rpad_exts].
      * cbn. pose proof (imax_pos t). lia.
      * pose proof (prodl_le_prod1 _ Hnn). lia.
      * set (l := e0 :: e1 :: es) in *. assert (H2 : (2 <= length l)%nat) by (cbn; lia). destruct (Hp H2) as [Hps Hb2].
        assert (Hnn' : Forall (fun e => 0 <= e) (removelast l)) by (apply Forall_removelast; auto).
        assert (Hne : l <> []) by discriminate.
        assert (Hlast : 0 <= last l 0).
        { rewrite (app_removelast_last 0 Hne) in Hnn. apply Forall_app in Hnn as [_ Hp2]. apply Forall_inv in Hp2. exact Hp2. }
        rewrite prodl_app. cbn [prodl]. pose proof (prodl_le_prod1 _ Hnn'). pose proof (prodl_nonneg _ Hnn').
        assert (ps <= max1 ps) by (unfold max1; lia). assert (0 <= ps) by lia. nia.
Qed.


(* required_span_size() is a value of index_type *)
Lemma span_fits t m sp : valid t m -> span_impl t m = Ok sp -> sp <= imax t.
Proof.
  intros Hv E. pose proof (valid_exts_nonneg t m Hv) as Hnn. destruct (has_zero (exts m)) eqn:Hz.
  - rewrite (span_empty t m Hv Hz) in E. injection E as <-. pose proof (imax_pos t). lia.
  - 
    clear - Hv E Hz Hnn. destruct m as [es|es|es ss|es ps|es ps]; cbn [exts] in *.
    + destruct (span_left_right_is_product t es Hv) as [E' _]. rewrite E' in E. injection E as <-.
      destruct Hv as [_ Hb]. pose proof (prodl_le_prod1 es Hnn). lia.
    + destruct (span_left_right_is_product t es Hv) as [_ E']. rewrite E' in E. injection E as <-.
      destruct Hv as [_ Hb]. pose proof (prodl_le_prod1 es Hnn). lia.
    + pose proof (span_refines_lrs t (MStride es ss) Hv eq_refl) as E'. cbn [exts] in E'. rewrite Hz in E'. rewrite E' in E. injection E as <-.
      destruct Hv as (Hl & He & Hs & Hord & Hb). unfold dims. cbn [exts spec_strides].
      rewrite (max1_id_pos es) in Hb by (apply has_zero_false; auto). exact Hb.
    + destruct (span_padded_l t es ps Hv) as (sp' & E' & _ & _ & H). rewrite E' in E. injection E as <-. destruct (H Hz) as [_ ->].
      destruct Hv as [[_ Hb] Hp]. destruct es as [|e0 [|e1 es]]; cbn [lpad_exts].
      * cbn. pose proof (imax_pos t). lia.
      * pose proof (prodl_le_prod1 _ Hnn). lia.
      * assert (H2 : (2 <= length (e0 :: e1 :: es))%nat) by (cbn; lia). destruct (Hp H2) as [Hps Hb2]. cbn [hd tl] in *.
        inversion Hnn as [|? ? H0 Hnn']; subst. pose proof (prodl_le_prod1 _ Hnn'). pose proof (prodl_nonneg _ Hnn').
        cbn [prodl] in *. assert (ps <= max1 ps) by (unfold max1; lia). assert (0 <= ps) by lia. nia.
    + destruct (span_padded_r t es ps Hv) as (sp' & E' & _ & _ & H). rewrite E' in E. injection E as <-. destruct (H Hz) as [_ ->].
      destruct Hv as [[_ Hb] Hp]. destruct es as [|e0 [|e1 es]]; cbn [rpad_exts].
      * cbn. pose proof (imax_pos t). lia.
      * pose proof (prodl_le_prod1 _ Hnn). lia.
      * set (l := e0 :: e1 :: es) in *. assert (H2 : (2 <= length l)%nat) by (cbn; lia). destruct (Hp H2) as [Hps Hb2].
        assert (Hnn' : Forall (fun e => 0 <= e) (removelast l)) by (apply Forall_removelast; auto).
        assert (Hne : l <> []) by discriminate.
        assert (Hlast : 0 <= last l 0).
        { rewrite (app_removelast_last 0 Hne) in Hnn. apply Forall_app in Hnn as [_ Hp2]. apply Forall_inv in Hp2. exact Hp2. }
        rewrite prodl_app. cbn [prodl]. pose proof (prodl_le_prod1 _ Hnn'). pose proof (prodl_nonneg _ Hnn').
        assert (ps <= max1 ps) by (unfold max1; lia). assert (0 <= ps) by lia. nia.
Qed.

(* empty() is true exactly when some extent is 0; never for rank 0 *)
Theorem empty_iff_thm es : empty_impl es = true <-> (exists e, In e es /\ e = 0).
Proof.
  unfold empty_impl. rewrite andb_true_iff, negb_true_iff, existsb_exists. split.
  - intros [_ (x & Hx & E)]. apply Z.eqb_eq in E. eauto.
  - intros (e & He & ->). split; [destruct es; [contradiction|reflexivity]|]. exists 0. split; [exact He|reflexivity].
Qed.
Theorem empty_rank0_thm : empty_impl [] = false.
Proof. reflexivity. Qed.

(* ---------------------------------------------------------------------------------------------- *)
(* C14 (mapping part): nothing is undefined on a valid mapping                                      *)

Theorem span_defined t m : valid t m -> exists sp, span_impl t m = Ok sp /\ 0 <= sp.
Proof.
  intros Hv. destruct (has_zero (exts m)) eqn:Hz.
  - exists 0. split; [apply span_empty; auto|lia].
  - destruct (span_ge_span1 t m Hv Hz) as (sp & E & Hge). exists sp. split; [exact E|].
    pose proof (valid_exts_nonneg t m Hv) as Hnn. pose proof (has_zero_inbe_exists _ Hnn Hz) as Hin0.
    pose proof (spec_range_inj t m _ _ Hv Hin0 Hin0) as [Hr _]. lia.
Qed.

Theorem offset_defined t m idx : valid t m -> inbe idx (exts m) -> exists o, offset_impl t m idx = Ok o.
Proof. intros Hv Hin. eexists. apply offset_refines; auto. Qed.

Theorem stride_defined t m r : valid t m -> (r < length (exts m))%nat -> exists s, stride_impl t m r = Ok s.
Proof. intros Hv Hr. eexists. apply stride_refines; auto. Qed.

Theorem strides_defined t m : valid t m -> exists l, strides_impl t m = Ok l.
Proof.
  intros Hv. pose proof (strides_refines t m Hv) as H.
  destruct m as [es|es|es ss|es ps|es ps]; eauto.
  - (* layout_left has no strides(); the model's helper collects stride(r) for each r *)
    cbn [strides_impl exts].
    assert (G : forall k acc, (k <= length es)%nat -> (exists l, acc = Ok l) ->
      exists l, (fix go (k : nat) (acc : res (list Z)) : res (list Z) :=
         match k with O => acc | S k' => go k' (bind (stride_impl t (MLeft es) k') (fun s => rmap (cons s) acc)) end) k acc = Ok l).
    { induction k as [|k IH]; intros acc Hk (l & ->); [eauto|]. apply IH; [lia|].
      destruct (stride_defined t (MLeft es) k Hv) as (s & E); [cbn [exts]; lia|]. rewrite E. cbn. eauto. }
    apply G; [lia|eauto].
  - cbn [strides_impl exts].
    assert (G : forall k acc, (k <= length es)%nat -> (exists l, acc = Ok l) ->
      exists l, (fix go (k : nat) (acc : res (list Z)) : res (list Z) :=
         match k with O => acc | S k' => go k' (bind (stride_impl t (MRight es) k') (fun s => rmap (cons s) acc)) end) k acc = Ok l).
    { induction k as [|k IH]; intros acc Hk (l & ->); [eauto|]. apply IH; [lia|].
      destruct (stride_defined t (MRight es) k Hv) as (s & E); [cbn [exts]; lia|]. rewrite E. cbn. eauto. }
    apply G; [lia|eauto].
Qed.

(* the padded constructors: from extents (padding from the type) and from extents + run-time padding
   value, in the configuration where the padded stride is a run-time value.  `a` is the padding value
   converted to index_type; L its least multiple >= the padded extent. *)
Definition lm (a o : Z) : Z := if a =? 0 then 0 else a * ((o + a - 1) / a).

Lemma find_next_multiple_lm t a o : 0 <= a <= imax t -> 0 <= o -> lm a o <= imax t -> (a = 0 -> o = 0) ->
  find_next_multiple t a o = Ok (lm a o) /\ o <= lm a o.
Proof.
  intros Ha Ho Hb H0. unfold lm in *. destruct (a =? 0) eqn:E.
  - apply Z.eqb_eq in E. subst a. split; [reflexivity|]. specialize (H0 eq_refl). lia.
  - apply Z.eqb_neq in E. destruct (least_multiple_thm t a o) as (E1 & E2 & _); try lia. split; [exact E1|lia].
Qed.

Theorem pad_ctor_valid t (left : bool) pv se es dpv (use_dpv : bool) :
  admissible t es ->
  static_padded_stride (length es) pv se = None \/ (length es <= 1)%nat ->
  let a := if use_dpv then wrap t dpv else match pv with Some p => wrap t p | None => 0 end in
  let e := ext_to_pad left es in
  let rest := if left then tl es else removelast es in
  ((2 <= length es)%nat -> (use_dpv = false -> pv = None -> True) /\
     ((use_dpv = true \/ pv <> None) -> 0 <= a <= imax t /\ (a = 0 -> e = 0) /\ max1 (lm a e) * prod1 rest <= imax t)) ->
  exists m, (if use_dpv then pad_ctor_ext_pv t left pv se es dpv else pad_ctor_ext t left pv se es) = Ok m /\
            valid t m /\ exts m = es.
Proof.
  intros Ha Hsps a e rest Hpre.
  pose proof (admissible_nonneg t es Ha) as Hnn.
  assert (He : (1 <= length es)%nat -> 0 <= e).
  { intros H1. unfold e, ext_to_pad. destruct left.
    - destruct es; cbn [length] in H1; [lia|]. cbn [hd]. inversion Hnn; auto.
    - destruct es as [|x es']; cbn [length] in H1; [lia|]. assert (Hne : x :: es' <> []) by discriminate.
      rewrite (app_removelast_last 0 Hne) in Hnn. apply Forall_app in Hnn as [_ H]. apply Forall_inv in H. exact H. }
  destruct (Nat.leb (length es) 1) eqn:Hrb.
  - (* rank <= 1: no padding *)
    pose proof Hrb as Hr. apply Nat.leb_le in Hr.
    exists (if left then MLPad es 0 else MRPad es 0).
    split; [destruct use_dpv; unfold pad_ctor_ext_pv, pad_ctor_ext; rewrite Hrb; reflexivity|].
    destruct left; cbn [valid exts]; (split; [split; [exact Ha|intros H2'; lia]|reflexivity]).
  - pose proof Hrb as Hr. apply Nat.leb_gt in Hr. assert (H2 : (2 <= length es)%nat) by lia.
    destruct Hsps as [Hsps|Hsps]; [|lia].
    destruct (Hpre H2) as [_ Hp].
    assert (Hmk : forall ps, e <= ps -> max1 ps * prod1 rest <= imax t ->
              valid t (if left then MLPad es ps else MRPad es ps) /\ exts (if left then MLPad es ps else MRPad es ps) = es).
    { intros ps H1 Hb. destruct left; cbn [valid exts]; (split; [split; [exact Ha|intros _; split; [exact H1|]]|reflexivity]); unfold rest in Hb; lia. }
    assert (Hdyn : use_dpv = false -> pv = None ->
              max1 e * prod1 rest <= imax t).
    { intros _ _. destruct Ha as [_ Hb]. unfold e, rest, ext_to_pad. destruct left.
      - destruct es as [|x es']; cbn [length] in H2; [lia|]. cbn [hd tl]. rewrite prod1_cons in Hb. exact Hb.
      - destruct es as [|x es']; cbn [length] in H2; [lia|]. assert (Hne : x :: es' <> []) by discriminate.
        rewrite (app_removelast_last 0 Hne) in Hb at 1. rewrite prod1_app in Hb. cbn [prod1 map prodl] in Hb. lia. }
    destruct use_dpv.
    + destruct Hp as (Hra & Ha0 & Hb); [left; reflexivity|].
      destruct (find_next_multiple_lm t a e) as [E Hle]; auto; try lia.
      { pose proof (prod1_pos rest). unfold max1 in Hb. nia. }
      exists (if left then MLPad es (lm a e) else MRPad es (lm a e)).
      split; [|apply Hmk; auto].
      unfold pad_ctor_ext_pv. rewrite Hrb. fold e. fold a. rewrite E. cbn [bind].
      rewrite Hsps. cbn [pad_value]. destruct left; reflexivity.
    + destruct pv as [p|].
      * destruct Hp as (Hra & Ha0 & Hb); [right; discriminate|].
        destruct (find_next_multiple_lm t a e) as [E Hle]; auto; try lia.
        { pose proof (prod1_pos rest). unfold max1 in Hb. nia. }
        exists (if left then MLPad es (lm a e) else MRPad es (lm a e)).
        split; [|apply Hmk; auto].
        unfold pad_ctor_ext. rewrite Hrb. fold e. unfold a in E. rewrite E. cbn [bind].
        rewrite Hsps. cbn [pad_value]. destruct left; reflexivity.
      * exists (if left then MLPad es e else MRPad es e).
        split; [|apply Hmk; [lia|apply Hdyn; auto]].
        unfold pad_ctor_ext. rewrite Hrb. rewrite Hsps. cbn [pad_value]. fold e. destruct left; reflexivity.
Qed.
