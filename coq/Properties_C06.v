(* C06 — extents report exactly the static and run-time extents they were built from. *)
From Coq Require Import ZArith List.
From MdspanVerif Require Import MachInt Layouts Extents ExtentsProofs.
Import ListNotations.
Local Open Scope Z_scope.

(* the internal prefix-count map sends position r to the number of dynamic positions before it *)
Theorem C06_scan_is_prefix_count : forall (pat : pattern) (r : nat), (r < length pat)%nat ->
  dyn_map pat r = ndyn (firstn r pat).
Proof. exact scan_is_prefix_count. Qed.
Print Assumptions C06_scan_is_prefix_count.

(* built from the dynamic values only (integer pack, std::array or std::span of any convertible
   element type): static positions report their static extent, dynamic positions report the supplied
   values, in order, converted to index_type *)
Theorem C06_from_dynamic : forall (t : ity) (pat : pattern) (dv : list Z), length dv = ndyn pat ->
  exists e, ext_from_dynamic t pat dv = Ok e /\ e_t e = t /\ e_pat e = pat /\
            all_extents e = Ok (fill t pat (map (wrap t) dv)).
Proof. exact from_dynamic_thm. Qed.
Print Assumptions C06_from_dynamic.

(* built from all values: static positions still report the static extent, every dynamic position r
   reports the r-th supplied value *)
Theorem C06_from_all : forall (t : ity) (pat : pattern) (av : list Z), length av = length pat ->
  exists e, ext_from_all t pat av = Ok e /\ e_t e = t /\ e_pat e = pat /\
            all_extents e = Ok (fill_all t pat av).
Proof. exact from_all_thm. Qed.
Print Assumptions C06_from_all.

(* extent(r) of any well-formed extents object is the r-th element of the list it denotes *)
Theorem C06_extent : forall (e : extents) (r : nat), wf e -> (r < rank e)%nat ->
  extent e r = Ok (nth r (values e) 0).
Proof. exact wf_extent. Qed.
Print Assumptions C06_extent.

(* converted from an extents of another index type / pattern: equal extent(r) for every r whenever the
   conversion's precondition holds (values representable, static extents of the target matched) *)
Theorem C06_convert : forall (t : ity) (pat : pattern) (src : extents),
  wf src -> length pat = rank src -> conv_pre t pat (values src) ->
  exists e, ext_convert t pat src = Ok e /\ e_t e = t /\ e_pat e = pat /\ wf e /\ values e = values src.
Proof. exact convert_preserves_thm. Qed.
Print Assumptions C06_convert.

(* rank / rank_dynamic / static_extent come from the template arguments *)
Theorem C06_observers : forall (e : extents),
  rank e = length (e_pat e) /\ rank_dynamic e = ndyn (e_pat e) /\
  (forall r, (r < rank e)%nat -> static_extent e r = Ok (nth r (e_pat e) None)).
Proof. exact observers_thm. Qed.
Print Assumptions C06_observers.

(* equality: same rank and equal extent(r) for every r - across index types and patterns *)
Theorem C06_eq_iff : forall (a b : extents),
  wf a -> wf b -> nonneg_in (e_t a) (values a) -> nonneg_in (e_t b) (values b) ->
  exists r, ext_eq a b = Ok r /\ (r = true <-> (rank a = rank b /\ values a = values b)).
Proof. exact eq_iff_thm. Qed.
Print Assumptions C06_eq_iff.

Theorem C06_neq_is_negation : forall (a b : extents), ext_neq a b = rmap negb (ext_eq a b).
Proof. exact neq_is_negation_thm. Qed.
Print Assumptions C06_neq_is_negation.
