(* LayoutTheorems.v — the statements the property files cite, assembled from LayoutProofs. *)
From Coq Require Import ZArith List Lia Bool Permutation.
From MdspanVerif Require Import MachInt ListAux Layouts LayoutSpec LayoutProofs.
Import ListNotations.
Local Open Scope Z_scope.

Lemma inbe_no_zero idx es : inbe idx es -> has_zero es = false.
Proof.
  revert idx; induction es as [|e es IH]; intros [|i idx]; cbn [inbe has_zero existsb]; try tauto.
  intros [Hi H]. apply orb_false_iff. split; [apply Z.eqb_neq; lia|]. apply (IH idx H).
Qed.

Lemma valid_pad_l t es ps : valid t (MLPad es ps) -> pad_valid_l t es ps.
Proof. intros H. exact H. Qed.
Lemma valid_pad_r t es ps : valid t (MRPad es ps) -> pad_valid_r t es ps.
Proof. intros H. exact H. Qed.

(* required_span_size is defined on every valid mapping and, on a non-empty index space, is at least
   one more than the largest specified offset *)
Lemma span_ge_span1 t m : valid t m -> has_zero (exts m) = false ->
  exists sp, span_impl t m = Ok sp /\ span1 (dims m) <= sp.
Proof.
  intros Hv Hz. destruct m as [es|es|es ss|es ps|es ps].
  - exists (span1 (dims (MLeft es))). rewrite (span_refines_lrs t (MLeft es) Hv eq_refl). cbn [exts] in *. rewrite Hz. split; [reflexivity|lia].
  - exists (span1 (dims (MRight es))). rewrite (span_refines_lrs t (MRight es) Hv eq_refl). cbn [exts] in *. rewrite Hz. split; [reflexivity|lia].
  - exists (span1 (dims (MStride es ss))). rewrite (span_refines_lrs t (MStride es ss) Hv eq_refl). cbn [exts] in *. rewrite Hz. split; [reflexivity|lia].
  - destruct (span_padded_l t es ps (valid_pad_l _ _ _ Hv)) as (sp & E & _ & _ & H). exists sp. split; [exact E|]. apply H. exact Hz.
  - destruct (span_padded_r t es ps (valid_pad_r _ _ _ Hv)) as (sp & E & _ & _ & H). exists sp. split; [exact E|]. apply H. exact Hz.
Qed.

(* ---------------- C01 ---------------- *)
Theorem range_thm t m idx : valid t m -> inbe idx (exts m) ->
  exists o sp, offset_impl t m idx = Ok o /\ span_impl t m = Ok sp /\ 0 <= o < sp.
Proof.
  intros Hv Hin. destruct (span_ge_span1 t m Hv (inbe_no_zero _ _ Hin)) as (sp & Esp & Hsp).
  pose proof (spec_range_inj t m idx idx Hv Hin Hin) as [Hr _].
  exists (spec_offset m idx), sp. rewrite (offset_refines t m idx Hv Hin). repeat split; auto; lia.
Qed.

Theorem injective_thm t m i1 i2 o : valid t m -> inbe i1 (exts m) -> inbe i2 (exts m) ->
  offset_impl t m i1 = Ok o -> offset_impl t m i2 = Ok o -> i1 = i2.
Proof.
  intros Hv H1 H2 E1 E2. rewrite (offset_refines t m i1 Hv H1) in E1. rewrite (offset_refines t m i2 Hv H2) in E2.
  injection E1 as E1. injection E2 as E2.
  pose proof (spec_range_inj t m i1 i2 Hv H1 H2) as [_ Hinj]. apply Hinj. congruence.
Qed.

(* a buffer of required_span_size() elements suffices: every element address is inside it *)
Theorem buffer_suffices_thm t m idx (buf : list Z) : valid t m -> inbe idx (exts m) ->
  span_impl t m = Ok (Z.of_nat (length buf)) ->
  exists o, offset_impl t m idx = Ok o /\ nth_error buf (Z.to_nat o) <> None.
Proof.
  intros Hv Hin Hsp. destruct (range_thm t m idx Hv Hin) as (o & sp & Eo & Esp & Hr).
  rewrite Hsp in Esp. injection Esp as <-. exists o. split; [exact Eo|]. apply nth_error_Some. lia.
Qed.

(* ---------------- C05 ---------------- *)
(* on a non-empty space the specified dimensions attain span1 - 1 at the last multi-index and never
   exceed it: span1 (dims m) is exactly one more than the largest offset *)
Theorem largest_offset_thm t m : valid t m -> has_zero (exts m) = false ->
  (exists idx, inbe idx (exts m) /\ spec_offset m idx = span1 (dims m) - 1) /\
  (forall idx, inbe idx (exts m) -> spec_offset m idx <= span1 (dims m) - 1).
Proof.
  intros Hv Hz. split.
  - assert (Hnn : Forall (fun e => 0 <= e) (exts m)).
    { destruct m as [es|es|es ss|es ps|es ps]; cbn [valid exts] in *;
      try (apply (admissible_nonneg t); tauto). destruct Hv as (_ & He & _). eapply Forall_impl; [|exact He]. cbn; intros; lia. }
    pose proof (has_zero_inbe_exists _ Hnn Hz) as Hin0.
    destruct (dims_chainable t m _ Hv Hin0) as (_ & Hap & _ & Hlen).
    destruct (span1_attained (dims m) Hap) as [Hi Hd].
    exists (map (fun d => fst d - 1) (dims m)). split; [|exact Hd].
    unfold dims in *. apply (inbe_inb _ (exts m) (spec_strides m)); auto.
  - intros idx Hin. pose proof (spec_range_inj t m idx idx Hv Hin Hin) as [Hr _]. lia.
Qed.

(* ---------------- C02 ---------------- *)
Theorem padded_strides_thm (es : list Z) (ps : Z) :
  spec_strides (MLPad es ps) = spec_strides (MLeft (lpad_exts es ps)) /\
  spec_strides (MRPad es ps) = spec_strides (MRight (rpad_exts es ps)) /\
  ((length es <= 1)%nat -> lpad_exts es ps = es /\ rpad_exts es ps = es) /\
  (forall e0 e1 es', es = e0 :: e1 :: es' -> lpad_exts es ps = ps :: e1 :: es' /\ rpad_exts es ps = removelast es ++ [ps]).
Proof.
  repeat split; try reflexivity.
  - destruct es as [|e0 [|e1 es]]; cbn [length] in *; try lia; reflexivity.
  - destruct es as [|e0 [|e1 es]]; cbn [length] in *; try lia; reflexivity.
  - subst es. reflexivity.
  - subst es. reflexivity.
Qed.

Ltac Zify.zify_post_hook ::= Z.div_mod_to_equations.

Lemma ceil_mult a o : 0 < a -> 0 <= o ->
  (o / a + (if o mod a =? 0 then 0 else 1)) * a = a * ((o + a - 1) / a).
Proof.
  intros Ha Ho. pose proof (Z.div_mod o a ltac:(lia)) as Hdm. pose proof (Z.mod_pos_bound o a Ha) as Hm.
  set (q := o / a) in *. set (m := o mod a) in *.
  assert (Hq : 0 <= q) by (apply Z.div_pos; lia).
  destruct (m =? 0) eqn:E.
  - apply Z.eqb_eq in E. assert ((o + a - 1) / a = q); [|nia].
    symmetry. apply (Z.div_unique (o + a - 1) a q (a - 1)); [lia|nia].
  - apply Z.eqb_neq in E. assert ((o + a - 1) / a = q + 1); [|nia].
    symmetry. apply (Z.div_unique (o + a - 1) a (q + 1) (m - 1)); [lia|nia].
Qed.

Lemma ceil_mult_bounds a o : 0 < a -> 0 <= o ->
  o <= a * ((o + a - 1) / a) < o + a /\ (a * ((o + a - 1) / a)) mod a = 0.
Proof.
  intros Ha Ho. split.
  - pose proof (Z.div_mod (o + a - 1) a ltac:(lia)). pose proof (Z.mod_pos_bound (o + a - 1) a Ha). lia.
  - rewrite Z.mul_comm. apply Z.mod_mul. lia.
Qed.

Theorem least_multiple_thm (t : ity) (a o : Z) :
  0 < a <= imax t -> 0 <= o -> a * ((o + a - 1) / a) <= imax t ->
  find_next_multiple t a o = Ok (a * ((o + a - 1) / a)) /\
  o <= a * ((o + a - 1) / a) < o + a /\ (a * ((o + a - 1) / a)) mod a = 0.
Proof.
  intros Ha Ho Hb. pose proof (ceil_mult_bounds a o ltac:(lia) Ho) as [Hr Hmod]. split; [|split; [exact Hr|exact Hmod]].
  pose proof (ceil_mult a o ltac:(lia) Ho) as Hc.
  unfold find_next_multiple. assert (E : (a =? 0) = false) by (apply Z.eqb_neq; lia). rewrite E.
  rewrite divP_small by lia. cbn [bind]. rewrite remP_small by lia. cbn [bind].
  set (c := if o mod a =? 0 then 0 else 1) in *.
  assert (0 <= c <= 1) by (unfold c; destruct (o mod a =? 0); lia).
  assert (0 <= o / a) by (apply Z.div_pos; lia).
  assert (o / a + c <= (o / a + c) * a) by nia.
  rewrite addP_small by lia. cbn [bind].
  rewrite mulP_small by lia. cbn [bind].
  rewrite wrap_small by lia. f_equal. exact Hc.
Qed.

Lemma dflt_go_ok t : forall rs v,
  Forall (fun e => 0 <= e) rs -> 0 <= v -> v * prod1 rs <= imax t ->
  dflt_go t v rs = Ok (left_strides_go v rs).
Proof.
  induction rs as [|e rs IH]; intros v He Hv Hb; cbn [dflt_go left_strides_go]; [reflexivity|].
  inversion He as [|? ? He0 He']; subst. rewrite prod1_cons in Hb. pose proof (prod1_pos rs).
  assert (max1 e = Z.max e 1) by reflexivity.
  assert (0 <= v * e) by nia.
  assert (v * e <= v * max1 e) by nia.
  assert (v * max1 e <= v * max1 e * prod1 rs) by nia.
  rewrite mul_assign_small by nia. cbn [bind].
  rewrite IH; auto; nia.
Qed.

Theorem default_stride_thm (t : ity) (es : list Z) : admissible t es ->
  default_stride_strides t es = Ok (spec_strides (MRight es)).
Proof.
  intros Ha. pose proof (admissible_nonneg t es Ha) as Hnn. destruct Ha as [_ Hb].
  unfold default_stride_strides. rewrite dflt_go_ok; [| apply Forall_rev'; auto | lia | rewrite prod1_rev; lia].
  cbn [rmap spec_strides]. f_equal. rewrite <- rev_right_strides. apply rev_involutive.
Qed.
