(* Layouts.v — implementation model of the five layout mappings.
   Every function mirrors the C++ function named in its comment: same evaluation order, same type for
   every intermediate (DESIGN.md appendix D).  `t` is index_type.  Nothing is proved here. *)
From Coq Require Import ZArith List Bool.
From MdspanVerif Require Import MachInt.
Import ListNotations.
Local Open Scope Z_scope.

Inductive mapping :=
| MLeft  (es : list Z)
| MRight (es : list Z)
| MStride (es ss : list Z)
| MLPad (es : list Z) (ps : Z)      (* ps: value reported by padded_stride.value(0); 0 when rank <= 1 *)
| MRPad (es : list Z) (ps : Z).

Definition exts (m : mapping) : list Z :=
  match m with MLeft es | MRight es | MStride es _ | MLPad es _ | MRPad es _ => es end.

(* ---- layout_right::mapping::__compute_offset : accumulator of index_type ------------------------- *)
Fixpoint right_go (t : ity) (acc : Z) (es idx : list Z) : res Z :=
  match es, idx with
  | e :: es', i :: idx' =>
      bind (mulP t acc e) (fun p =>                 (* offset * __extents.extent(r) *)
      bind (addP t p i) (fun s =>                   (* ... + i                       *)
      right_go t (wrap t s) es' idx'))              (* parameter `index_type offset` *)
  | [], [] => Ok acc
  | _, _ => UB
  end.
Definition right_offset (t : ity) (es idx : list Z) : res Z :=
  match es, idx with
  | [], [] => Ok 0                                                     (* __rank_count<0,0> *)
  | _ :: es', i :: idx' => rmap (fun a => wrap t (wrap U64 a)) (right_go t i es' idx')  (* size_t offset -> index_type *)
  | _, _ => UB
  end.

(* ---- layout_left::mapping::__compute_offset : non-tail recursion --------------------------------- *)
Fixpoint left_go (t : ity) (es idx : list Z) : res Z :=
  match es, idx with
  | e :: es', i :: idx' =>
      match es' with
      | [] => match idx' with [] => Ok i | _ => UB end          (* __rank_count<R-1,R> : return i *)
      | _ => bind (left_go t es' idx') (fun rest =>
             bind (mulP t rest e) (fun p =>
             bind (addP t p i) (fun s => Ok (wrap t s))))
      end
  | _, _ => UB
  end.
Definition left_offset (t : ity) (es idx : list Z) : res Z :=
  match es, idx with [], [] => Ok 0 | _, _ => left_go t es idx end.

(* ---- layout_stride::mapping::operator() : _call_op_impl, right-nested sum of idx*stride ---------- *)
Fixpoint stride_go (t : ity) (idx ss : list Z) : res Z :=
  match idx, ss with
  | [], [] => Ok 0
  | i :: idx', s :: ss' =>
      bind (mulP t i s) (fun p =>
      bind (stride_go t idx' ss') (fun rest => addP t p rest))
  | _, _ => UB
  end.
Definition stride_offset (t : ity) (ss idx : list Z) : res Z :=
  rmap (fun a => wrap t (wrap U64 a)) (stride_go t idx ss).          (* size_t, then index_type *)

(* ---- layout_left_padded::compute_offset : res = idx[k] + (k==0 ? ps : extent(k)) * res, k = R-1..0 *)
Fixpoint lpad_go (t : ity) (ms idx : list Z) : res Z :=
  match ms, idx with
  | [], [] => Ok 0
  | m :: ms', i :: idx' =>
      bind (lpad_go t ms' idx') (fun r =>
      bind (mulP t m r) (fun p =>
      bind (addP t i p) (fun s => Ok (wrap t s))))
  | _, _ => UB
  end.
Definition lpad_offset (t : ity) (es : list Z) (ps : Z) (idx : list Z) : res Z :=
  match es, idx with
  | [], [] => Ok 0
  | [_], [i] => Ok (wrap U64 (wrap t i))
  | _ :: (_ :: _) as es', _ => rmap (wrap U64) (lpad_go t (ps :: es') idx)
  | _, _ => UB
  end.

(* ---- layout_right_padded::compute_offset : res = idx_k + (k==R-1 ? ps : extent(k)) * res, k = 0..R-1 *)
Fixpoint rpad_go (t : ity) (acc : Z) (ms idx : list Z) : res Z :=
  match ms, idx with
  | [], [] => Ok acc
  | m :: ms', i :: idx' =>
      bind (mulP t m acc) (fun p =>
      bind (addP t i p) (fun s => rpad_go t (wrap t s) ms' idx'))
  | _, _ => UB
  end.
Definition rpad_offset (t : ity) (es : list Z) (ps : Z) (idx : list Z) : res Z :=
  match es, idx with
  | [], [] => Ok 0
  | [_], [i] => Ok (wrap U64 (wrap t i))
  | _ :: _ :: _, _ => rmap (wrap U64) (rpad_go t 0 (removelast es ++ [ps]) idx)
  | _, _ => UB
  end.

Definition offset_impl (t : ity) (m : mapping) (idx : list Z) : res Z :=
  match m with
  | MLeft es => left_offset t es idx
  | MRight es => right_offset t es idx
  | MStride es ss => if Nat.eqb (length es) (length ss) then stride_offset t ss idx else UB
  | MLPad es ps => lpad_offset t es ps idx
  | MRPad es ps => rpad_offset t es ps idx
  end.

(* ---- `index_type value = v; for ... value *= extent(r)` ------------------------------------------- *)
Fixpoint prod_loop (t : ity) (v : Z) (es : list Z) : res Z :=
  match es with [] => Ok v | e :: es' => bind (mul_assign t v e) (fun v' => prod_loop t v' es') end.

(* layout_stride::required_span_size *)
Fixpoint stride_span_go (t : ity) (sp : Z) (es ss : list Z) : res Z :=
  match es, ss with
  | [], [] => Ok sp
  | e :: es', s :: ss' =>
      if e =? 0 then Ok 0 else
      bind (subP t e 1) (fun d =>
      bind (mulP t (wrap t d) s) (fun p =>
      bind (add_assign t sp p) (fun sp' => stride_span_go t sp' es' ss')))
  | _, _ => UB
  end.

Definition span_impl (t : ity) (m : mapping) : res Z :=
  match m with
  | MLeft es | MRight es => prod_loop t 1 es
  | MStride es ss => stride_span_go t 1 es ss
  | MLPad es ps =>
      match es with
      | [] => Ok 1
      | [e] => Ok e
      | _ :: es' => if existsb (Z.eqb 0) es then Ok 0 else prod_loop t ps es'
      end
  | MRPad es ps =>
      match es with
      | [] => Ok 1
      | [e] => Ok e
      | _ => if existsb (Z.eqb 0) es then Ok 0 else
             bind (prod_loop t 1 (removelast es)) (fun v => rmap (wrap t) (mulP t v ps))
      end
  end.

(* ---- stride(r) ------------------------------------------------------------------------------------ *)
Definition nth_chk {A} (l : list A) (r : nat) : res A :=
  match nth_error l r with Some x => Ok x | None => UB end.

Definition stride_impl (t : ity) (m : mapping) (r : nat) : res Z :=
  let R := length (exts m) in
  if negb (Nat.ltb r R) then UB else
  match m with
  | MLeft es => prod_loop t 1 (firstn r es)                         (* for r' < i *)
  | MRight es => prod_loop t 1 (rev (skipn (S r) es))               (* for r' = R-1 .. i+1 *)
  | MStride _ ss => nth_chk ss r
  | MLPad es ps =>
      if Nat.eqb r 0 then Ok 1 else prod_loop t ps (firstn (r - 1) (tl es))      (* k = 1 .. r-1 *)
  | MRPad es ps =>
      if Nat.eqb r (R - 1) then Ok 1 else prod_loop t ps (rev (skipn (S r) (removelast es)))  (* k = R-2 .. r+1 *)
  end.

(* padded strides(): s[pad]=1; value=ps; interior: s[r]=value, value*=extent(r); last: s[end]=value *)
Fixpoint pad_strides_go (t : ity) (v : Z) (es : list Z) : res (list Z) :=
  match es with
  | [] => Ok [v]
  | e :: es' => bind (mul_assign t v e) (fun v' => rmap (cons v) (pad_strides_go t v' es'))
  end.

Definition strides_impl (t : ity) (m : mapping) : res (list Z) :=
  match m with
  | MStride _ ss => Ok ss
  | MLPad es ps =>
      match es with
      | [] => Ok []
      | [_] => Ok [1]
      | _ :: es' =>
          bind (mul_assign t 1 ps) (fun v =>
          rmap (cons 1) (pad_strides_go t v (removelast es')))
      end
  | MRPad es ps =>
      match es with
      | [] => Ok []
      | [_] => Ok [1]
      | _ :: es' =>
          bind (mul_assign t 1 ps) (fun v =>
          rmap (fun l => rev (1 :: l)) (pad_strides_go t v (rev (removelast es'))))
      end
  | MLeft _ | MRight _ =>         (* no strides() member; the harness asks stride(r) for each r *)
      (fix go (k : nat) (acc : res (list Z)) : res (list Z) :=
         match k with O => acc
         | S k' => go k' (bind (stride_impl t m k') (fun s => rmap (cons s) acc)) end)
        (length (exts m)) (Ok [])
  end.

(* layout_stride::mapping() : strides_storage(true_type): stride = 1; for r = R-1 .. 0: s[r] = stride;
   stride *= e.extent(r)  (e the default extents: 0 at dynamic positions) *)
Fixpoint dflt_go (t : ity) (v : Z) (rs : list Z) : res (list Z) :=
  match rs with
  | [] => Ok []
  | e :: rs' => bind (mul_assign t v e) (fun v' => rmap (cons v) (dflt_go t v' rs'))
  end.
Definition default_stride_strides (t : ity) (es : list Z) : res (list Z) :=
  rmap (@rev Z) (dflt_go t 1 (rev es)).

(* ---- flags ---------------------------------------------------------------------------------------- *)
Fixpoint fold_times_right (t : ity) (es : list Z) : res Z :=
  match es with [] => Ok 1 | e :: es' => bind (fold_times_right t es') (fun r => mulP t e r) end.

(* first index of the maximum under `>` *)
Fixpoint r_largest_go (ss : list Z) (k : nat) (best : nat) (bestv : Z) : nat :=
  match ss with [] => best | s :: ss' => if bestv <? s then r_largest_go ss' (S k) k s else r_largest_go ss' (S k) best bestv end.
Definition r_largest (ss : list Z) : nat :=
  match ss with [] => O | s0 :: ss' => r_largest_go ss' 1%nat O s0 end.
Fixpoint zero_not_at (es : list Z) (k : nat) (rl : nat) : bool :=   (* exists r, extent(r)==0 && r != r_largest *)
  match es with [] => false | e :: es' => ((e =? 0) && negb (Nat.eqb k rl)) || zero_not_at es' (S k) rl end.

Definition is_exhaustive_impl (t : ity) (m : mapping) : res bool :=
  match m with
  | MLeft _ | MRight _ => Ok true
  | MStride es ss =>
      match es with
      | [] => Ok true
      | _ =>
        bind (stride_span_go t 1 es ss) (fun sp =>
        if sp =? 0 then
          match ss with
          | [s0] => Ok (s0 =? 1)
          | _ => Ok (negb (zero_not_at es 0 (r_largest ss)))
          end
        else
          bind (stride_span_go t 1 es ss) (fun sp2 =>
          bind (fold_times_right t es) (fun sz => Ok (sp2 =? wrap t sz))))
      end
  | MLPad es ps => Ok (Nat.ltb (length es) 2 || (hd 0 es =? ps))
  | MRPad es ps => Ok (Nat.ltb (length es) 2 || (last es 0 =? ps))
  end.
Definition is_unique_impl (m : mapping) : bool := true.
Definition is_strided_impl (m : mapping) : bool := true.

(* ---- padded layouts: padding computation ---------------------------------------------------------- *)
(* detail::find_next_multiple<_T>(alignment, offset):
     alignment == 0 ? 0 : (offset / alignment + (offset % alignment != 0 ? 1 : 0)) * alignment      *)
Definition find_next_multiple (t : ity) (a o : Z) : res Z :=
  if a =? 0 then Ok 0 else
  bind (divP t o a) (fun q =>
  bind (remP t o a) (fun m =>
  bind (addP t q (if m =? 0 then 0 else 1)) (fun x =>
  bind (mulP t x a) (fun r => Ok (wrap t r))))).

(* Type-level description of a padded mapping type: padding_value and static_extent(extent_to_pad),
   None = dynamic_extent.  get_actual_static_padding_value (computed in size_t at compile time). *)
Definition static_padded_stride (rank : nat) (pv se : option Z) : option Z :=
  if Nat.leb rank 1 then Some 0 else
  match pv, se with
  | Some p, Some e => match find_next_multiple U64 p e with Ok v => Some v | UB => None end
  | _, _ => None
  end.
(* padded_stride.value(0): a static value wins over whatever was passed to the constructor *)
Definition pad_value (t : ity) (sps : option Z) (stored : Z) : Z :=
  match sps with Some v => wrap t v | None => stored end.

Definition ext_to_pad (left : bool) (es : list Z) : Z := if left then hd 0 es else last es 0.

(* mapping(const extents_type&) : init_padding(exts) *)
Definition pad_ctor_ext (t : ity) (left : bool) (pv se : option Z) (es : list Z) : res mapping :=
  let R := length es in
  let sps := static_padded_stride R pv se in
  let mk ps := if left then MLPad es ps else MRPad es ps in
  if Nat.leb R 1 then Ok (mk 0) else
  match pv with
  | None => Ok (mk (pad_value t sps (ext_to_pad left es)))
  | Some p => bind (find_next_multiple t (wrap t p) (ext_to_pad left es)) (fun v => Ok (mk (pad_value t sps v)))
  end.
(* mapping(const extents_type&, Size dynamic_padding_value) : init_padding(exts, (index_type)pv) *)
Definition pad_ctor_ext_pv (t : ity) (left : bool) (pv se : option Z) (es : list Z) (dpv : Z) : res mapping :=
  let R := length es in
  let sps := static_padded_stride R pv se in
  let mk ps := if left then MLPad es ps else MRPad es ps in
  if Nat.leb R 1 then Ok (mk 0) else
  bind (find_next_multiple t (wrap t dpv) (ext_to_pad left es)) (fun v => Ok (mk (pad_value t sps v))).

(* is_always_exhaustive of the padded mapping types *)
Definition pad_is_always_exhaustive (rank : nat) (pv se : option Z) : bool :=
  Nat.leb rank 1 ||
  match se with
  | Some e => match static_padded_stride rank pv se with Some v => e =? v | None => false end
  | None => false
  end.

(* ---- mdspan observers (mdspan.hpp) ---------------------------------------------------------------- *)
(* __size: (e_0 * (e_1 * (... * (e_{R-1} * size_t(1))))) evaluated in size_t, returned as size_type *)
Fixpoint fold_times_right_u64 (es : list Z) : Z :=
  match es with [] => 1 | e :: es' => wrap U64 (wrap U64 e * fold_times_right_u64 es') end.
Definition size_impl (t : ity) (es : list Z) : Z := wrap (unsigned_of t) (fold_times_right_u64 es).
(* __empty: rank() > 0 && (extent(0) == 0 || ...) *)
Definition empty_impl (es : list Z) : bool := negb (Nat.eqb (length es) 0) && existsb (fun e => e =? 0) es.
