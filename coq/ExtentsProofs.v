(* ExtentsProofs.v — C06: what an extents object reports, for every construction path. *)
From Coq Require Import ZArith List Lia Bool Arith.
From MdspanVerif Require Import MachInt Layouts Extents.
Import ListNotations.
Local Open Scope Z_scope.

Definition ndyn (pat : pattern) : nat := length (filter is_dyn pat).
Fixpoint sumn (l : list nat) : nat := match l with [] => 0%nat | x :: l' => (x + sumn l')%nat end.

(* ---- the prefix-count map ---- *)
Lemma scan_get_prefix : forall fl R r, (R <= r < R + length fl)%nat -> scan_get R fl r = sumn (firstn (r - R) fl).
Proof.
  induction fl as [|f fs IH]; intros R r Hr; cbn [length] in Hr; [lia|].
  cbn [scan_get]. destruct fs as [|f' fs'].
  - cbn [length] in Hr. assert (r = R) by lia. subst r. rewrite Nat.ltb_irrefl, Nat.sub_diag. reflexivity.
  - destruct (Nat.ltb R r) eqn:E.
    + apply Nat.ltb_lt in E. rewrite IH by (cbn [length] in *; lia).
      replace (r - R)%nat with (S (r - S R)) by lia. reflexivity.
    + apply Nat.ltb_ge in E. assert (r = R) by lia. subst r. rewrite Nat.sub_diag. reflexivity.
Qed.

Lemma sumn_flags_firstn pat r : sumn (firstn r (flags pat)) = ndyn (firstn r pat).
Proof.
  unfold ndyn, flags. revert r; induction pat as [|p pat IH]; intros [|r]; cbn [map firstn sumn filter length]; auto.
  rewrite IH. destruct p; cbn [is_dyn length]; lia.
Qed.

(* dyn_map(r) is the number of dynamic positions before r *)
Theorem scan_is_prefix_count pat r : (r < length pat)%nat -> dyn_map pat r = ndyn (firstn r pat).
Proof.
  intros Hr. unfold dyn_map. rewrite scan_get_prefix by (unfold flags; rewrite map_length; lia).
  rewrite Nat.sub_0_r. apply sumn_flags_firstn.
Qed.

(* ---- the extents a pattern + dynamic values denote ---- *)
Lemma fill_length t pat dv : length (fill t pat dv) = length pat.
Proof. revert dv; induction pat as [|[s|] pat IH]; intros dv; cbn [fill length]; auto. destruct dv; cbn [length]; auto. Qed.

Lemma ndyn_app a b : ndyn (a ++ b) = (ndyn a + ndyn b)%nat.
Proof. unfold ndyn. rewrite filter_app, app_length. reflexivity. Qed.
Lemma ndyn_firstn_le pat r : (ndyn (firstn r pat) <= ndyn pat)%nat.
Proof. rewrite <- (firstn_skipn r pat) at 2. rewrite ndyn_app. lia. Qed.
Lemma ndyn_firstn_lt pat r : nth_error pat r = Some None -> (ndyn (firstn r pat) < ndyn pat)%nat.
Proof.
  intros H. destruct (nth_error_split pat r H) as (l1 & l2 & E & Hl). subst r.
  rewrite E at 2. rewrite E, firstn_app, Nat.sub_diag, firstn_all, firstn_O, app_nil_r.
  rewrite ndyn_app. unfold ndyn at 3. cbn [filter is_dyn length]. lia.
Qed.

Lemma fill_nth_static t pat dv r s : nth_error pat r = Some (Some s) -> nth r (fill t pat dv) 0 = wrap t s.
Proof.
  revert dv r; induction pat as [|p pat IH]; intros dv [|r]; cbn [nth_error]; try discriminate.
  - intros H. injection H as ->. reflexivity.
  - intros H. destruct p as [s'|]; cbn [fill nth]; [apply IH; auto|]. destruct dv; cbn [nth]; apply IH; auto.
Qed.
Lemma fill_nth_dyn t pat dv r : nth_error pat r = Some None -> (ndyn pat <= length dv)%nat ->
  nth r (fill t pat dv) 0 = nth (ndyn (firstn r pat)) dv 0.
Proof.
  unfold ndyn. revert dv r; induction pat as [|p pat IH]; intros dv [|r]; cbn [nth_error]; try discriminate.
  - intros H Hl. injection H as ->. cbn [fill firstn filter length is_dyn] in *. destruct dv; cbn [length] in Hl; [lia|]. reflexivity.
  - intros H Hl. destruct p as [s'|]; cbn [fill nth firstn filter is_dyn length] in *; [apply IH; auto|].
    destruct dv as [|v dv]; cbn [length] in Hl; [lia|]. cbn [nth]. apply IH; auto. lia.
Qed.

(* extent(r) of an extents object whose storage has the right size *)
Theorem extent_fill t pat dv r : length dv = ndyn pat -> (r < length pat)%nat ->
  extent (mkext t pat dv) r = Ok (nth r (fill t pat dv) 0).
Proof.
  intros Hl Hr. unfold extent. cbn [e_pat e_t e_dyn].
  destruct (nth_error pat r) as [[s|]|] eqn:E.
  - rewrite (fill_nth_static t pat dv r s E). reflexivity.
  - rewrite (fill_nth_dyn t pat dv r E) by lia. rewrite (scan_is_prefix_count pat r Hr).
    unfold nth_chk. pose proof (ndyn_firstn_lt pat r E) as Hlt.
    rewrite (nth_error_nth' dv 0) by lia. reflexivity.
  - apply nth_error_None in E. lia.
Qed.

Lemma seq_res_map_ok {A} (f : nat -> res A) (g : nat -> A) : forall l,
  (forall k, In k l -> f k = Ok (g k)) -> seq_res (map f l) = Ok (map g l).
Proof.
  induction l as [|k l IH]; intros H; cbn [map seq_res]; [reflexivity|].
  rewrite (H k) by (cbn; auto). cbn [bind]. rewrite IH by (intros; apply H; cbn; auto). reflexivity.
Qed.

Lemma map_nth_seq (l : list Z) : map (fun k => nth k l 0) (seq 0 (length l)) = l.
Proof.
  induction l as [|x l IH]; [reflexivity|]. cbn [length seq map nth]. f_equal.
  rewrite <- seq_shift, map_map. exact IH.
Qed.

Theorem all_extents_fill t pat dv : length dv = ndyn pat ->
  all_extents (mkext t pat dv) = Ok (fill t pat dv).
Proof.
  intros Hl. unfold all_extents, rank. cbn [e_pat].
  rewrite (seq_res_map_ok _ (fun k => nth k (fill t pat dv) 0)).
  - rewrite <- (fill_length t pat dv). rewrite map_nth_seq. reflexivity.
  - intros k Hk. apply in_seq in Hk. apply extent_fill; auto. lia.
Qed.

(* ---- construction from the dynamic values only ---- *)
Theorem from_dynamic_thm t pat dv : length dv = ndyn pat ->
  exists e, ext_from_dynamic t pat dv = Ok e /\ e_t e = t /\ e_pat e = pat /\
            all_extents e = Ok (fill t pat (map (wrap t) dv)).
Proof.
  intros Hl. unfold ext_from_dynamic. fold (ndyn pat). rewrite Hl, Nat.eqb_refl.
  eexists. split; [reflexivity|]. cbn [e_t e_pat]. repeat split.
  apply all_extents_fill. rewrite map_length. exact Hl.
Qed.

(* ---- construction from all values ---- *)
(* the values at the dynamic positions, in order *)
Fixpoint pick_dyn (pat : pattern) (av : list Z) : list Z :=
  match pat, av with
  | p :: pat', v :: av' => if is_dyn p then v :: pick_dyn pat' av' else pick_dyn pat' av'
  | _, _ => []
  end.
Lemma pick_dyn_length pat av : length av = length pat -> length (pick_dyn pat av) = ndyn pat.
Proof.
  unfold ndyn. revert av; induction pat as [|p pat IH]; intros [|v av]; cbn [length pick_dyn filter]; try discriminate; auto.
  intros H. injection H as H. destruct (is_dyn p); cbn [length]; rewrite IH; auto.
Qed.

Lemma set_nth_app done x rest v : set_nth (done ++ x :: rest) (length done) v = Ok (done ++ v :: rest).
Proof. induction done as [|d done IH]; cbn [app length set_nth]; [reflexivity|]. rewrite IH. reflexivity. Qed.

Lemma from_all_loop_ok t : forall pat pre av done n,
  length av = length pat -> length done = ndyn pre -> n = ndyn pat ->
  from_all_loop t (pre ++ pat) pat (length pre) av (done ++ repeat 0 n) =
    Ok (done ++ map (wrap t) (pick_dyn pat av)).
Proof.
  induction pat as [|p pat IH]; intros pre [|v av] done n Hl Hd Hn; cbn [length] in Hl; try discriminate.
  - cbn [from_all_loop pick_dyn map]. subst n. reflexivity.
  - injection Hl as Hl. cbn [from_all_loop pick_dyn].
    assert (Eapp : pre ++ p :: pat = (pre ++ [p]) ++ pat) by (rewrite <- app_assoc; reflexivity).
    destruct p as [s|]; cbn [is_dyn].
    + assert (Hn' : n = ndyn pat) by (rewrite Hn; reflexivity).
      rewrite Eapp. replace (S (length pre)) with (length (pre ++ [Some s])) by (rewrite app_length; cbn; lia).
      apply IH; auto. rewrite ndyn_app. cbn. lia.
    + assert (Hn' : n = S (ndyn pat)) by (rewrite Hn; reflexivity). clear Hn. subst n.
      rewrite scan_is_prefix_count by (rewrite app_length; cbn [length]; lia).
      rewrite firstn_app, Nat.sub_diag, firstn_all, firstn_O, app_nil_r. rewrite <- Hd.
      cbn [repeat]. rewrite set_nth_app. cbn [bind].
      rewrite Eapp. replace (S (length pre)) with (length (pre ++ [None])) by (rewrite app_length; cbn; lia).
      replace (done ++ wrap t v :: repeat 0 (ndyn pat)) with ((done ++ [wrap t v]) ++ repeat 0 (ndyn pat)) by (rewrite <- app_assoc; reflexivity).
      rewrite IH; auto.
      * cbn [map]. rewrite <- app_assoc. reflexivity.
      * rewrite app_length, ndyn_app. cbn. lia.
Qed.

Lemma fill_pick t pat av : length av = length pat ->
  fill t pat (map (wrap t) (pick_dyn pat av)) = fill_all t pat av.
Proof.
  revert av; induction pat as [|p pat IH]; intros [|v av]; cbn [length]; try discriminate; auto.
  intros H. injection H as H. destruct p as [s|]; cbn [fill pick_dyn is_dyn fill_all map]; rewrite IH; auto.
Qed.
Lemma filter_length_le' {A} (f : A -> bool) l : (length (filter f l) <= length l)%nat.
Proof. induction l as [|x l IH]; cbn [filter length]; [lia|]. destruct (f x); cbn [length]; lia. Qed.
Lemma all_dyn_pick pat av : ndyn pat = length pat -> length av = length pat -> pick_dyn pat av = av.
Proof.
  unfold ndyn. revert av; induction pat as [|p pat IH]; intros [|v av]; cbn [length filter pick_dyn]; try discriminate; auto.
  intros Hn H. injection H as H. pose proof (filter_length_le' is_dyn pat) as Hle.
  destruct p; cbn [is_dyn length] in *; [lia|]. f_equal. apply IH; auto; lia.
Qed.

Theorem from_all_thm t pat av : length av = length pat ->
  exists e, ext_from_all t pat av = Ok e /\ e_t e = t /\ e_pat e = pat /\
            all_extents e = Ok (fill_all t pat av).
Proof.
  intros Hl. unfold ext_from_all. rewrite Hl, Nat.eqb_refl. cbn [negb]. fold (ndyn pat).
  destruct (Nat.eqb (ndyn pat) 0) eqn:E0.
  - apply Nat.eqb_eq in E0. eexists. split; [reflexivity|]. cbn [e_t e_pat]. repeat split.
    rewrite all_extents_fill by (cbn; lia). rewrite <- (fill_pick t pat av Hl).
    assert (pick_dyn pat av = []) by (apply length_zero_iff_nil; rewrite pick_dyn_length; auto). rewrite H. reflexivity.
  - destruct (Nat.eqb (ndyn pat) (length pat)) eqn:E1.
    + apply Nat.eqb_eq in E1. destruct (from_dynamic_thm t pat av) as (e & He & Ht & Hp & Hx); [lia|].
      exists e. repeat split; auto. rewrite Hx. rewrite <- (fill_pick t pat av Hl). rewrite all_dyn_pick; auto.
    + pose proof (from_all_loop_ok t pat [] av [] (ndyn pat) Hl eq_refl eq_refl) as H. cbn [app length] in H.
      rewrite H. cbn [rmap]. eexists. split; [reflexivity|]. cbn [e_t e_pat]. repeat split.
      rewrite all_extents_fill by (rewrite map_length, pick_dyn_length; auto). rewrite fill_pick; auto.
Qed.

(* ---- converting constructor ---- *)
Definition wf (e : extents) : Prop := length (e_dyn e) = ndyn (e_pat e).
Definition values (e : extents) : list Z := fill (e_t e) (e_pat e) (e_dyn e).

Lemma wf_extent e r : wf e -> (r < rank e)%nat -> extent e r = Ok (nth r (values e) 0).
Proof. destruct e as [t pat dv]. unfold wf, rank, values. cbn [e_t e_pat e_dyn]. intros. apply extent_fill; auto. Qed.
Lemma wf_all_extents e : wf e -> all_extents e = Ok (values e).
Proof. destruct e as [t pat dv]. unfold wf, values. cbn [e_t e_pat e_dyn]. apply all_extents_fill. Qed.
Lemma values_length e : length (values e) = rank e.
Proof. unfold values, rank. apply fill_length. Qed.

Lemma skipn_nth_cons (l : list Z) r : (r < length l)%nat -> skipn r l = nth r l 0 :: skipn (S r) l.
Proof.
  revert r; induction l as [|x l IH]; intros [|r] H; cbn [length] in H; try lia; [reflexivity|].
  cbn [skipn nth]. rewrite IH by lia. reflexivity.
Qed.

Lemma gather_ok src : wf src -> forall pat r, (r + length pat <= rank src)%nat ->
  gather pat r src = Ok (pick_dyn pat (skipn r (values src))).
Proof.
  intros Hwf. induction pat as [|p pat IH]; intros r Hr; cbn [gather length] in *.
  - destruct (skipn r (values src)); reflexivity.
  - rewrite (skipn_nth_cons (values src) r) by (rewrite values_length; lia). cbn [pick_dyn].
    destruct (is_dyn p).
    + rewrite wf_extent by (auto; lia). cbn [bind]. rewrite IH by lia. reflexivity.
    + apply IH. lia.
Qed.

Theorem convert_thm t pat src : wf src -> length pat = rank src ->
  exists e, ext_convert t pat src = Ok e /\ e_t e = t /\ e_pat e = pat /\ wf e /\ values e = fill_all t pat (values src).
Proof.
  intros Hwf Hl. unfold ext_convert. rewrite Hl, Nat.eqb_refl. cbn [negb].
  rewrite (gather_ok src Hwf pat 0) by lia. cbn [skipn bind].
  assert (Hlv : length (values src) = length pat) by (rewrite values_length; lia).
  unfold ext_from_dynamic. fold (ndyn pat). rewrite (pick_dyn_length pat (values src) Hlv), Nat.eqb_refl.
  eexists. split; [reflexivity|]. cbn [e_t e_pat]. repeat split.
  - unfold wf. cbn [e_dyn e_pat]. rewrite map_length. apply pick_dyn_length. exact Hlv.
  - unfold values at 1. cbn [e_t e_pat e_dyn]. apply fill_pick. exact Hlv.
Qed.

(* the conversion's precondition: every source extent is representable in the target index type and
   equals the target's static extent where the target has one *)
Fixpoint conv_pre (t : ity) (pat : pattern) (xs : list Z) : Prop :=
  match pat, xs with
  | [], [] => True
  | p :: pat', x :: xs' =>
      in_range t x = true /\ (match p with Some s => x = s | None => True end) /\ conv_pre t pat' xs'
  | _, _ => False
  end.
Lemma fill_all_id t pat xs : conv_pre t pat xs -> fill_all t pat xs = xs.
Proof.
  revert xs; induction pat as [|p pat IH]; intros [|x xs]; cbn [conv_pre fill_all]; try tauto.
  intros (Hr & Hp & Hrest). destruct p as [s|]; rewrite IH by exact Hrest; f_equal.
  - subst s. apply wrap_id. exact Hr.
  - apply wrap_id. exact Hr.
Qed.

Theorem convert_preserves_thm t pat src : wf src -> length pat = rank src -> conv_pre t pat (values src) ->
  exists e, ext_convert t pat src = Ok e /\ e_t e = t /\ e_pat e = pat /\ wf e /\ values e = values src.
Proof.
  intros Hwf Hl Hpre. destruct (convert_thm t pat src Hwf Hl) as (e & E & Ht & Hp & Hw & Hv).
  exists e. repeat split; auto. rewrite Hv. apply fill_all_id. exact Hpre.
Qed.

(* ---- comparison ---- *)
Fixpoint list_eqb (a b : list Z) : bool :=
  match a, b with
  | [], [] => true
  | x :: a', y :: b' => (x =? y) && list_eqb a' b'
  | _, _ => false
  end.
Lemma list_eqb_eq a b : list_eqb a b = true <-> a = b.
Proof.
  revert b; induction a as [|x a IH]; intros [|y b]; cbn [list_eqb]; try (split; [discriminate|discriminate]); [tauto|].
  rewrite andb_true_iff, Z.eqb_eq, IH. split; [intros [-> ->]; reflexivity|intros H; injection H; auto].
Qed.

Lemma ext_eq_loop_ok c a b : wf a -> wf b -> rank a = rank b -> forall n r, (r + n = rank a)%nat ->
  ext_eq_loop c a b r n = Ok (list_eqb (map (wrap c) (skipn r (values b))) (map (wrap c) (skipn r (values a)))).
Proof.
  intros Ha Hb Hr. induction n as [|n IH]; intros r Hn; cbn [ext_eq_loop].
  - rewrite !skipn_all2 by (rewrite values_length; lia). reflexivity.
  - rewrite (wf_extent b r Hb) by lia. rewrite (wf_extent a r Ha) by lia. cbn [bind].
    rewrite (skipn_nth_cons (values b) r) by (rewrite values_length; lia).
    rewrite (skipn_nth_cons (values a) r) by (rewrite values_length; lia).
    cbn [map list_eqb]. destruct (wrap c (nth r (values b) 0) =? wrap c (nth r (values a) 0)); cbn [negb andb]; [|reflexivity].
    apply IH. lia.
Qed.

Lemma imax_common_l t1 t2 : imax t1 <= imax (common t1 t2).
Proof. destruct t1, t2; cbv; congruence. Qed.
Lemma imax_common_r t1 t2 : imax t2 <= imax (common t1 t2).
Proof. destruct t1, t2; cbv; congruence. Qed.

Definition nonneg_in (t : ity) (xs : list Z) : Prop := Forall (fun x => 0 <= x <= imax t) xs.

Lemma map_wrap_common_l t1 t2 xs : nonneg_in t1 xs -> map (wrap (common t1 t2)) xs = xs.
Proof.
  induction 1 as [|x xs Hx _ IH]; cbn [map]; [reflexivity|]. rewrite IH. f_equal.
  apply wrap_small. pose proof (imax_common_l t1 t2). lia.
Qed.
Lemma map_wrap_common_r t1 t2 xs : nonneg_in t2 xs -> map (wrap (common t1 t2)) xs = xs.
Proof.
  induction 1 as [|x xs Hx _ IH]; cbn [map]; [reflexivity|]. rewrite IH. f_equal.
  apply wrap_small. pose proof (imax_common_r t1 t2). lia.
Qed.

(* two extents (any index types, any patterns) compare equal exactly when they have the same rank and
   equal extent(r) for every r *)
Theorem eq_iff_thm a b : wf a -> wf b -> nonneg_in (e_t a) (values a) -> nonneg_in (e_t b) (values b) ->
  exists r, ext_eq a b = Ok r /\ (r = true <-> (rank a = rank b /\ values a = values b)).
Proof.
  intros Ha Hb Hna Hnb. unfold ext_eq. destruct (Nat.eqb (rank a) (rank b)) eqn:E; cbn [negb].
  - apply Nat.eqb_eq in E. rewrite (ext_eq_loop_ok _ a b Ha Hb E (rank a) 0) by lia. cbn [skipn].
    rewrite (map_wrap_common_r _ _ _ Hnb), (map_wrap_common_l _ _ _ Hna).
    eexists. split; [reflexivity|]. rewrite list_eqb_eq. split; [intros ->; auto|intros [_ ->]; reflexivity].
  - apply Nat.eqb_neq in E. exists false. split; [reflexivity|]. split; [discriminate|intros [H _]; contradiction].
Qed.

Theorem neq_is_negation_thm a b : ext_neq a b = rmap negb (ext_eq a b).
Proof. reflexivity. Qed.

(* ---- observers ---- *)
Theorem observers_thm e :
  rank e = length (e_pat e) /\ rank_dynamic e = ndyn (e_pat e) /\ (forall r, (r < rank e)%nat -> static_extent e r = Ok (nth r (e_pat e) None)).
Proof.
  repeat split. intros r Hr. unfold static_extent, nth_chk. rewrite (nth_error_nth' (e_pat e) None) by exact Hr. reflexivity.
Qed.
