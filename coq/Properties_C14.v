(* C14 — index arithmetic is free of undefined behaviour for admissible inputs.
   The implementation model returns UB exactly where the C++ abstract machine has signed overflow,
   division by zero or an out-of-range internal array index; these theorems say it never does on
   admissible inputs.  (Each also follows from the refinement theorems of C01/C02/C05/C07.) *)
From Coq Require Import ZArith List.
From MdspanVerif Require Import MachInt ListAux Layouts LayoutSpec LayoutProofs LayoutTheorems FlagProofs View Extents ExtentsProofs Convert ConvertProofs Submdspan SubSpec SubProofs AccessorLaw.
Import ListNotations.
Local Open Scope Z_scope.

Theorem C14_operator_call : forall (t : ity) (m : mapping) (idx : list Z),
  valid t m -> inbe idx (exts m) -> exists o, offset_impl t m idx = Ok o.
Proof. exact offset_defined. Qed.
Print Assumptions C14_operator_call.

Theorem C14_required_span_size : forall (t : ity) (m : mapping),
  valid t m -> exists sp, span_impl t m = Ok sp /\ 0 <= sp.
Proof. exact span_defined. Qed.
Print Assumptions C14_required_span_size.

Theorem C14_stride : forall (t : ity) (m : mapping) (r : nat),
  valid t m -> (r < length (exts m))%nat -> exists s, stride_impl t m r = Ok s.
Proof. exact stride_defined. Qed.
Print Assumptions C14_stride.

Theorem C14_strides : forall (t : ity) (m : mapping), valid t m -> exists l, strides_impl t m = Ok l.
Proof. exact strides_defined. Qed.
Print Assumptions C14_strides.

Theorem C14_is_exhaustive : forall (t : ity) (m : mapping), valid t m -> exists b, is_exhaustive_impl t m = Ok b.
Proof. exact is_exhaustive_defined. Qed.
Print Assumptions C14_is_exhaustive.

(* size() is evaluated in unsigned arithmetic only: it is a total function of the extents *)
Theorem C14_size : forall (t : ity) (es : list Z), size_impl t es = prodl es mod 2 ^ bits t.
Proof. exact size_general_thm. Qed.
Print Assumptions C14_size.

(* the padding computation: defined whenever the least multiple itself is representable *)
Theorem C14_find_next_multiple : forall (t : ity) (a o : Z),
  0 <= a <= imax t -> 0 <= o -> lm a o <= imax t -> (a = 0 -> o = 0) ->
  find_next_multiple t a o = Ok (lm a o) /\ o <= lm a o.
Proof. exact find_next_multiple_lm. Qed.
Print Assumptions C14_find_next_multiple.

(* constructing a padded mapping (run-time padded stride) is defined and yields a valid mapping *)
Theorem C14_padded_construction : forall (t : ity) (left : bool) (pv se : option Z) (es : list Z) (dpv : Z) (use_dpv : bool),
  admissible t es ->
  static_padded_stride (length es) pv se = None \/ (length es <= 1)%nat ->
  let a := if use_dpv then wrap t dpv else match pv with Some p => wrap t p | None => 0 end in
  let e := ext_to_pad left es in
  let rest := if left then tl es else removelast es in
  ((2 <= length es)%nat -> (use_dpv = false -> pv = None -> True) /\
     ((use_dpv = true \/ pv <> None) -> 0 <= a <= imax t /\ (a = 0 -> e = 0) /\ max1 (lm a e) * prod1 rest <= imax t)) ->
  exists m, (if use_dpv then pad_ctor_ext_pv t left pv se es dpv else pad_ctor_ext t left pv se es) = Ok m /\
            valid t m /\ exts m = es.
Proof. exact pad_ctor_valid. Qed.
Print Assumptions C14_padded_construction.

(* default construction of layout_stride *)
Theorem C14_default_stride : forall (t : ity) (es : list Z), admissible t es ->
  default_stride_strides t es = Ok (spec_strides (MRight es)).
Proof. exact default_stride_thm. Qed.
Print Assumptions C14_default_stride.

(* submdspan_mapping / submdspan_extents: defined for every valid source (layout_left, layout_right,
   layout_stride) and every valid slice combination whose components are representable - including
   empty slices that start at the end of an extent and strided slices with strides larger than the
   extent; the sub-stride products are representable as a consequence of validity *)
Theorem C14_submdspan : forall (t : ity) (src : mapping) (pat : pattern) (sls : list slice),
  valid t src -> sub_kind_ok src = true ->
  valid_slices sls (dims src) -> Forall (slice_rep t) sls -> pat_ok t pat (exts src) ->
  exists m' off, submap t src pat sls = Ok (m', off) /\ 0 <= off.
Proof. exact submap_defined. Qed.
Print Assumptions C14_submdspan.

Theorem C14_substrides_representable : forall (t : ity) (src : mapping) (sls : list slice),
  valid t src -> sub_kind_ok src = true -> valid_slices sls (dims src) ->
  Forall (fun d => snd d <= imax t) (sub_dims sls (dims src)).
Proof. exact sub_strides_fit. Qed.
Print Assumptions C14_substrides_representable.

(* the mapping conversions: defined whenever the conversion's precondition holds (C08_conv_correct
   gives an Ok result), and the debug-mode stride check never overflows before it aborts *)
Theorem C14_conversion : forall (ts : ity) (src : mapping) (tgt : mtype) (m' : mapping),
  valid ts src -> valid (mt_t tgt) m' ->
  kind_of m' = mt_kind tgt -> conv_exists src (mt_kind tgt) = true ->
  exts m' = exts src -> spec_strides m' = spec_strides src ->
  conv_pre (mt_t tgt) (mt_pat tgt) (exts src) -> pad_ok tgt m' ->
  conv_mapping ts src tgt = Ok m'.
Proof. exact conv_correct. Qed.
Print Assumptions C14_conversion.

Theorem C14_debug_check : forall (left : bool) (ts tt : ity) (es ss : list Z),
  es <> [] -> length ss = length es -> admissible tt es -> nonneg_in ts ss ->
  exists b, stride_check left ts tt es ss = Ok b.
Proof. intros. eexists. apply stride_check_thm; auto. Qed.
Print Assumptions C14_debug_check.

(* the guard of the sub-mapping offset is not an optimisation: evaluating the source mapping at the slices'
   lower bounds unconditionally (and discarding the value when a slice is empty at the end of its extent) is
   undefined behaviour on an admissible input, although the guarded offset is defined *)
Theorem C14_unguarded_sub_offset_refuted :
  exists (t : ity) (src : mapping) (sls : list slice),
    valid t src /\ sub_kind_ok src = true /\ valid_slices sls (dims src) /\ Forall (slice_rep t) sls /\
    (exists off, sub_offset_impl t src sls = Ok off) /\ unguarded_first t src sls = UB.
Proof. exact unguarded_offset_refuted. Qed.
Print Assumptions C14_unguarded_sub_offset_refuted.
