(* Deduction.v — C17: the types class template argument deduction gives, the member types of each
   instantiation, and the operations the specification declares noexcept — as functions / tables over the
   type descriptors of Constraints.v. *)
From Coq Require Import ZArith List Bool.
From MdspanVerif Require Import MachInt ListAux Extents Constraints.
Import ListNotations.
Local Open Scope Z_scope.

(* dextents<I, N> as the library builds it: __make_dextents prepends dynamic_extent N times *)
Fixpoint make_dextents (n : nat) (acc : pattern) : pattern :=
  match n with O => acc | S n' => make_dextents n' (None :: acc) end.
Definition dextents (t : ity) (n : nat) : ext_t := mkE t (make_dextents n []).

Definition size_t : ity := U64.
Definition default_mds (el : elt) (e : ext_t) : mds_t := mkMds (mkM LR e) (ADefault el).

(* the forms of class template argument deduction *)
Inductive ctad :=
| FExtentsPack (args : list ity)                  (* extents(i, j, ...) *)
| FMdsPack (el : elt) (args : list ity)           (* mdspan(ptr, i, j, ...)   at least one integer *)
| FMdsPtr (el : elt)                              (* mdspan(ptr) *)
| FMdsCArray (el : elt) (n : Z)                   (* mdspan(T(&)[n]) *)
| FMdsArray (el : elt) (t : ity) (n : nat)        (* mdspan(ptr, array<I, n>) / mdspan(ptr, span<I, n>) *)
| FMdsExtents (el : elt) (e : ext_t)              (* mdspan(ptr, extents) *)
| FMdsMapping (el : elt) (m : map_t)              (* mdspan(ptr, mapping) *)
| FMdsMappingAcc (m : map_t) (a : acc_t)          (* mdspan(handle, mapping, accessor) *)
| FMapping (l : lay) (e : ext_t).                 (* Layout::mapping(extents [, strides]) *)

Inductive deduced := DExt (e : ext_t) | DMap (m : map_t) | DMds (d : mds_t).
Definition deduce (f : ctad) : deduced :=
  match f with
  | FExtentsPack args => DExt (dextents size_t (length args))
  | FMdsPack el args => DMds (default_mds el (dextents size_t (length args)))
  | FMdsPtr el => DMds (default_mds el (mkE size_t []))
  | FMdsCArray el n => DMds (default_mds el (mkE size_t [Some n]))
  | FMdsArray el _ n => DMds (default_mds el (dextents size_t n))
  | FMdsExtents el e => DMds (default_mds el e)
  | FMdsMapping el m => DMds (mkMds m (ADefault el))
  | FMdsMappingAcc m a => DMds (mkMds m a)
  | FMapping l e => DMap (mkM l e)
  end.

(* canonical encodings (what the driver's type describer prints) *)
Definition enc_opt (p : option Z) : Z := match p with Some v => v | None => -1 end.
Definition tnum (t : ity) : Z := match t with I8 => 0 | U8 => 1 | I16 => 2 | U16 => 3 | I32 => 4 | U32 => 5 | I64 => 6 | U64 => 7 end.
Definition enc_ext (e : ext_t) : list Z := tnum (x_t e) :: Z.of_nat (length (x_pat e)) :: map enc_opt (x_pat e).
Definition enc_lay (l : lay) : list Z :=
  match l with LL => [0; -1] | LR => [1; -1] | LS => [2; -1] | LLP pv => [3; enc_opt pv] | LRP pv => [4; enc_opt pv] end.
Definition enc_map (m : map_t) : list Z := enc_lay (m_lay m) ++ enc_ext (m_ext m).
Definition enc_elt (e : elt) : list Z := [Z.of_nat (el_base e); if el_const e then 1 else 0].
Definition enc_acc (a : acc_t) : list Z :=
  match a with ADefault e => 0 :: enc_elt e ++ [0] | AUser e id => 1 :: enc_elt e ++ [Z.of_nat id] end.
Definition enc_mds (d : mds_t) : list Z := enc_elt (acc_elt (md_acc d)) ++ enc_map (md_map d) ++ enc_acc (md_acc d).
Definition enc_deduced (d : deduced) : list Z :=
  match d with DExt e => 0 :: enc_ext e | DMap m => 1 :: enc_map m | DMds x => 2 :: enc_mds x end.

(* member types: index_type, size_type (the unsigned counterpart), rank_type (size_t) *)
Definition member_ints (t : ity) : list Z := [tnum t; tnum (unsigned_of t); tnum size_t].
