(* DeductionProofs.v — C17: consistency facts about the deduction table. *)
From Coq Require Import ZArith List Bool Lia.
From MdspanVerif Require Import MachInt ListAux Extents Constraints Deduction.
Import ListNotations.
Local Open Scope Z_scope.

(* dextents<I, N> is extents<I, dynamic_extent x N> *)
Lemma make_dextents_app n : forall acc, make_dextents n acc = repeat None n ++ acc.
Proof.
  induction n as [|n IH]; intros acc; cbn [make_dextents repeat app]; [reflexivity|].
  rewrite IH. change (None :: acc) with ([None] ++ acc). rewrite app_assoc. f_equal.
  clear. induction n as [|n IH]; cbn [repeat app]; [reflexivity|]. rewrite IH. reflexivity.
Qed.
Theorem dextents_all_dynamic t n : dextents t n = mkE t (repeat None n).
Proof. unfold dextents. rewrite make_dextents_app, app_nil_r. reflexivity. Qed.
Theorem dextents_rank t n : length (x_pat (dextents t n)) = n /\ rankd (x_pat (dextents t n)) = n.
Proof.
  rewrite dextents_all_dynamic. cbn [x_pat]. split; [apply repeat_length|].
  unfold rankd. induction n as [|n IH]; cbn [repeat filter is_dyn length]; auto.
Qed.

(* extents(ints...) and mdspan(ptr, ints...) deduce dextents<size_t, N>: N = number of integer arguments,
   all extents dynamic, index type size_t — whatever the argument types *)
Theorem pack_deduction args el :
  deduce (FExtentsPack args) = DExt (mkE U64 (repeat None (length args))) /\
  deduce (FMdsPack el args) = DMds (mkMds (mkM LR (mkE U64 (repeat None (length args)))) (ADefault el)).
Proof. cbn [deduce]. unfold default_mds, size_t. rewrite dextents_all_dynamic. split; reflexivity. Qed.

(* what is passed is carried into the deduced type unchanged *)
Theorem carried el e m a :
  deduce (FMdsExtents el e) = DMds (mkMds (mkM LR e) (ADefault el)) /\
  deduce (FMdsMapping el m) = DMds (mkMds m (ADefault el)) /\
  deduce (FMdsMappingAcc m a) = DMds (mkMds m a) /\
  deduce (FMapping (m_lay m) (m_ext m)) = DMap m.
Proof. destruct m. repeat split; reflexivity. Qed.

(* mdspan(pointer) is rank 0; mdspan(1-D C array) has that static extent *)
Theorem pointer_and_array el n :
  deduce (FMdsPtr el) = DMds (mkMds (mkM LR (mkE U64 [])) (ADefault el)) /\
  deduce (FMdsCArray el n) = DMds (mkMds (mkM LR (mkE U64 [Some n])) (ADefault el)).
Proof. split; reflexivity. Qed.

(* size_type is the unsigned counterpart of index_type: same width, unsigned, so every non-negative
   index_type value is representable *)
Theorem size_type_counterpart t :
  bits (unsigned_of t) = bits t /\ sgn (unsigned_of t) = false /\ imax t <= imax (unsigned_of t) /\ imin (unsigned_of t) = 0.
Proof. destruct t; cbn; repeat split; lia. Qed.

(* the encoding is injective on extents descriptors: equal printed descriptors mean equal types *)
Lemma enc_opt_inj a b : (forall v, a = Some v -> 0 <= v) -> (forall v, b = Some v -> 0 <= v) -> enc_opt a = enc_opt b -> a = b.
Proof.
  destruct a as [x|], b as [y|]; cbn [enc_opt]; intros Ha Hb E; auto; try congruence.
  - specialize (Ha x eq_refl). lia.
  - specialize (Hb y eq_refl). lia.
Qed.
Theorem tnum_inj a b : tnum a = tnum b -> a = b.
Proof. destruct a, b; cbn; intros; try reflexivity; discriminate. Qed.
