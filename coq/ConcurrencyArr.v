(* ConcurrencyArr.v — C19 for a shared *const mdarray*: its element access a(i...) and the view that
   to_mdspan() / the conversion operators produce designate the same cells as the view layer of
   Concurrency.v (handle 0 = start of the container), and programs that only read and observe — all a
   const mdarray allows — are index-disjoint whatever indices they use, leave the container unchanged in
   every interleaving, and every thread reads what it would read alone. *)
From Coq Require Import ZArith List Bool Lia.
From MdspanVerif Require Import MachInt ListAux Layouts LayoutSpec Extents Convert View ViewProofs MdArray
     Submdspan SubSpec SubProofs Concurrency ConcurrencyProofs.
Import ListNotations.
Local Open Scope Z_scope.

(* the shared object a const mdarray presents to the threads *)
Definition arr_shared (a : mdarr) (pat : pattern) : shared := mkshared (ar_t a) pat (arr_view a).

(* a(args...) on the (const) mdarray is ctr_[map_(static_cast<index_type>(args)...)]; the view layer's read
   through to_mdspan() in the pack form casts twice — the same cell, or the same undefined behaviour, for
   EVERY argument list (no validity hypothesis) *)
Theorem const_mdarray_cell a pat args :
  cell_of (arr_shared a pat) [] FPack args = rmap Z.to_nat (arr_offset a args).
Proof.
  unfold cell_of, derive, arr_shared, arr_offset. cbn [subchain sh_t sh_view sh_pat rmap bind fst snd v_handle v_map v_acc arr_view].
  unfold access, access_offset. cbn [v_map v_acc v_handle]. rewrite map_wrap_idem.
  destruct (offset_impl (ar_t a) (ar_map a) (map (wrap (ar_t a)) args)) as [o|]; cbn [rmap default_address]; [|reflexivity].
  rewrite Z.add_0_l. reflexivity.
Qed.

(* read-only programs: no TWrite *)
Definition read_only (ps : list (list taction)) : Prop := Forall (Forall (fun a => is_write a = false)) ps.
Definition nowrite (c : caction) : Prop := match c with CWrite _ _ => False | _ => True end.

Lemma read_only_index_disjoint ps : read_only ps -> index_disjoint ps.
Proof.
  intros Hro j k p q a b ia ib _ Hp Hq Ha Hb _ _ Hw. exfalso.
  unfold read_only in Hro. rewrite Forall_forall in Hro.
  pose proof (Hro p (nth_error_In _ _ Hp)) as Hpp. pose proof (Hro q (nth_error_In _ _ Hq)) as Hqq.
  rewrite Forall_forall in Hpp, Hqq. rewrite (Hpp a Ha), (Hqq b Hb) in Hw. discriminate.
Qed.

Lemma compile_nowrite sh a c : is_write a = false -> compile sh a = Ok c -> nowrite c.
Proof.
  destruct a as [levels f j x|levels f j| | |levels]; cbn [is_write compile]; intros Hw E; try discriminate.
  - destruct (cell_of sh levels f j); cbn [rmap] in E; [injection E as <-; exact I|discriminate].
  - injection E as <-. exact I.
  - injection E as <-. exact I.
  - destruct (derive sh levels); cbn [rmap] in E; [injection E as <-; exact I|discriminate].
Qed.

Lemma compile_prog_nowrite sh p : Forall (fun a => is_write a = false) p ->
  forall cp, compile_prog sh p = Ok cp -> Forall nowrite cp.
Proof.
  induction 1 as [|a p Ha _ IH]; cbn [compile_prog]; intros cp E.
  - injection E as <-. constructor.
  - destruct (compile sh a) as [c|] eqn:Ec; cbn [bind] in E; [|discriminate].
    destruct (compile_prog sh p) as [cp'|]; cbn [rmap] in E; [|discriminate]. injection E as <-.
    constructor; [eapply compile_nowrite; eauto|apply IH; reflexivity].
Qed.

Lemma compile_all_nowrite sh ps : read_only ps -> forall cps, compile_all sh ps = Ok cps -> Forall (Forall nowrite) cps.
Proof.
  induction 1 as [|p ps Hp _ IH]; cbn [compile_all]; intros cps E.
  - injection E as <-. constructor.
  - destruct (compile_prog sh p) as [cp|] eqn:Ec; cbn [bind] in E; [|discriminate].
    destruct (compile_all sh ps) as [cps'|]; cbn [rmap] in E; [|discriminate]. injection E as <-.
    constructor; [eapply compile_prog_nowrite; eauto|apply IH; reflexivity].
Qed.

Lemma crun_nowrite s : Forall (fun ta : tagged => nowrite (snd ta)) s -> forall st, cs_heap (crun s st) = cs_heap st.
Proof.
  unfold crun. induction 1 as [|[k c] s Hc _ IH]; cbn [fold_left]; intros st; [reflexivity|].
  rewrite IH. destruct c; cbn [snd nowrite] in Hc; [contradiction| |]; reflexivity.
Qed.

Lemma seq_from_nowrite cps : Forall (Forall nowrite) cps -> forall n, Forall (fun ta : tagged => nowrite (snd ta)) (seq_from n cps).
Proof.
  induction 1 as [|p cps Hp _ IH]; cbn [seq_from]; intros n; [constructor|].
  apply Forall_app. split; [|apply IH].
  rewrite Forall_map. cbn [snd]. exact Hp.
Qed.

(* the assembled statement for a shared const mdarray: any number of threads, any read / observe / copy /
   sub-view programs (the indices need NOT be distinct — nothing is written), every interleaving *)
Theorem const_mdarray_shared (a : mdarr) (pat : pattern) :
  valid (ar_t a) (ar_map a) -> pat_ok (ar_t a) pat (exts (ar_map a)) ->
  forall ps, Forall (Forall (wf_taction (arr_shared a pat))) ps -> read_only ps ->
  exists cps, compile_all (arr_shared a pat) ps = Ok cps /\ race_free cps /\
    forall st s, interleave cps s ->
      cs_heap (crun s st) = cs_heap st /\
      (forall k cp, nth_error cps k = Some cp -> (k < length (cs_logs st))%nat ->
         nth k (cs_logs (crun s st)) [] = nth k (cs_logs st) [] ++ solo_log cp (cs_heap st)).
Proof.
  intros Hv Hp ps Hwf Hro.
  destruct (shared_view_schedule_independent (arr_shared a pat) Hv Hp (Z.le_refl 0) ps Hwf (read_only_index_disjoint ps Hro))
    as (cps & E & Hrf & Hall).
  exists cps. split; [exact E|]. split; [exact Hrf|].
  intros st s Hil. destruct (Hall st s Hil) as (Eseq & Hlog & _). split; [|exact Hlog].
  rewrite Eseq. apply crun_nowrite. apply seq_from_nowrite. eapply compile_all_nowrite; eauto.
Qed.
