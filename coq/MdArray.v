(* MdArray.v — implementation model of mdarray (P1684 bits): an owning (mapping, container) pair; the
   constructors, element access, views onto the container, copy / move / assignment; the operation
   machine over a store of arrays (C12). *)
From Coq Require Import ZArith List Bool.
From MdspanVerif Require Import MachInt ListAux Layouts Extents Convert View.
Import ListNotations.
Local Open Scope Z_scope.

Record mdarr := mkarr { ar_t : ity; ar_map : mapping; ar_ctr : list Z }.

(* container_is_array<C>::construct(map): C(map.required_span_size()) value-initialised; a std::array<T,N>
   is value-initialised with its own size N *)
Inductive ckind := CVector | CArray (n : nat).
Definition construct_container (t : ity) (c : ckind) (m : mapping) : res (list Z) :=
  match c with
  | CVector => rmap (fun sp => repeat 0 (Z.to_nat (wrap U64 sp))) (span_impl t m)
  | CArray n => Ok (repeat 0 n)
  end.

(* mdarray(extents...) / mdarray(extents) / mdarray(mapping) [, allocator] *)
Definition arr_from_mapping (t : ity) (c : ckind) (m : mapping) : res mdarr :=
  rmap (mkarr t m) (construct_container t c m).
(* mdarray(extents|mapping, container [, allocator]) : the container's elements unchanged *)
Definition arr_from_container (t : ity) (m : mapping) (ctr : list Z) : mdarr := mkarr t m ctr.

(* element access: ctr_[map_(static_cast<index_type>(indices)...)] *)
Definition arr_offset (a : mdarr) (args : list Z) : res Z := offset_impl (ar_t a) (ar_map a) (map (wrap (ar_t a)) args).
Definition arr_read (a : mdarr) (args : list Z) : res Z :=
  bind (arr_offset a args) (fun o => nth_chk (ar_ctr a) (Z.to_nat o)).
Definition arr_write (a : mdarr) (args : list Z) (x : Z) : res mdarr :=
  bind (arr_offset a args) (fun o =>
  if Nat.ltb (Z.to_nat o) (length (ar_ctr a)) then Ok (mkarr (ar_t a) (ar_map a) (hwrite (ar_ctr a) (Z.to_nat o) x)) else UB).

(* to_mdspan() / conversion operators: mdspan(data(), map_) — a view whose handle is the start of the
   container; reading / writing through it acts on the container's cells *)
Definition arr_view (a : mdarr) : view := mkview 0 (ar_map a) AccDefault.
Definition view_read_arr (a : mdarr) (args : list Z) : res Z := view_read (ar_t a) FPack (arr_view a) args (ar_ctr a).
Definition view_write_arr (a : mdarr) (args : list Z) (x : Z) : res mdarr :=
  bind (access (ar_t a) FPack (arr_view a) args) (fun e =>
  let o := Z.to_nat (default_address e) in
  if Nat.ltb o (length (ar_ctr a)) then Ok (mkarr (ar_t a) (ar_map a) (hwrite (ar_ctr a) o x)) else UB).

(* size(): the product of the extents (accumulated in size_t, returned as index_type) *)
Definition arr_size (a : mdarr) : Z := wrap (ar_t a) (fold_times_right_u64 (exts (ar_map a))).

(* ---- the operation machine ---- *)
Inductive aop :=
| ACopy (i : nat)                          (* push(mdarray(store[i])) : deep copy *)
| AMove (i : nat) (is_array : bool)        (* push(mdarray(std::move(store[i]))) : elements transferred; a moved-from vector is empty *)
| AAssign (i j : nat)                      (* store[i] = store[j] *)
| AWrite (i : nat) (args : list Z) (x : Z)         (* store[i](args...) = x *)
| AWriteView (i : nat) (args : list Z) (x : Z).    (* store[i].to_mdspan()(args...) = x *)

Fixpoint set_arr (s : list mdarr) (i : nat) (a : mdarr) : list mdarr :=
  match s, i with
  | [], _ => []
  | _ :: s', O => a :: s'
  | x :: s', S i' => x :: set_arr s' i' a
  end.

Definition astep (s : list mdarr) (o : aop) : res (list mdarr) :=
  match o with
  | ACopy i => match nth_error s i with Some a => Ok (s ++ [a]) | None => UB end
  | AMove i is_array =>
      match nth_error s i with
      | Some a => Ok (set_arr s i (mkarr (ar_t a) (ar_map a) (if is_array then ar_ctr a else [])) ++ [a])
      | None => UB
      end
  | AAssign i j =>
      match nth_error s i, nth_error s j with Some _, Some a => Ok (set_arr s i a) | _, _ => UB end
  | AWrite i args x =>
      match nth_error s i with Some a => rmap (set_arr s i) (arr_write a args x) | None => UB end
  | AWriteView i args x =>
      match nth_error s i with Some a => rmap (set_arr s i) (view_write_arr a args x) | None => UB end
  end.
