(* C09 — submdspan result rank, static extents and layout type follow the slicing rules. *)
From Coq Require Import ZArith List.
From MdspanVerif Require Import MachInt ListAux Layouts LayoutSpec Extents Submdspan SubSpec SubProofs.
Import ListNotations.
Local Open Scope Z_scope.

(* the result rank is the number of non-index slices *)
Theorem C09_rank : forall (sls : list slice) (pat : pattern), length pat = length sls ->
  length (sub_pattern sls pat) = subrank sls.
Proof. exact sub_pattern_rank. Qed.
Print Assumptions C09_rank.

(* a result extent is static exactly when it comes from full_extent over a static source extent, from a
   pair/tuple of integral constants, or from a strided_slice whose extent and stride are both integral
   constants - with the prescribed value *)
Theorem C09_static_iff : forall (sl : slice) (sE : option Z) (v : Z),
  sub_static sl sE = Some (Some v) <->
    (sl = SFull /\ sE = Some v) \/
    (exists b e, sl = SRange (Const b) (Const e) /\ v = wrap U64 (e - b)) \/
    (exists o x s, sl = SStrided o (Const x) (Const s) /\ v = (if 0 <? x then 1 + (x - 1) / s else 0)).
Proof. exact sub_static_iff. Qed.
Print Assumptions C09_static_iff.

(* layout_left is kept exactly when the result has rank 0 or the leading slices are all full_extent,
   with at most the last of them a pair/tuple, and every remaining slice an index.  (The implementation's
   fold never checks the last clause; it follows by counting.) *)
Theorem C09_preserve_left_iff : forall (sls : list slice),
  pres_left sls = true <-> (subrank sls = 0%nat \/ left_shape sls).
Proof. exact pres_left_iff. Qed.
Print Assumptions C09_preserve_left_iff.

Theorem C09_preserve_right_iff : forall (sls : list slice),
  pres_right sls = true <-> (subrank sls = 0%nat \/ right_shape sls).
Proof. exact pres_right_iff. Qed.
Print Assumptions C09_preserve_right_iff.

(* every other case, and every layout_stride source, yields layout_stride; padded sources have no
   submdspan_mapping *)
Theorem C09_result_layout : forall (t : ity) (src : mapping) (pat : pattern) (sls : list slice) (m' : mapping) (off : Z),
  submap t src pat sls = Ok (m', off) ->
  match src with
  | MLeft _ => kind_code_sub m' = (if pres_left sls then 0 else 2)
  | MRight _ => kind_code_sub m' = (if pres_right sls then 1 else 2)
  | MStride _ _ => kind_code_sub m' = 2
  | _ => False
  end.
Proof. exact submap_layout. Qed.
Print Assumptions C09_result_layout.

(* when the layout is preserved, the canonical strides of the result extents are the source strides
   times the slice steps on the surviving dimensions: the preserved mapping designates the same elements *)
Theorem C09_preserved_is_sound_left : forall (lead : list slice) (last : slice) (rest : list slice) (es : list Z) (a : Z),
  Forall (fun s => is_full s = true) lead -> (is_full last = true \/ is_pairlike last = true) ->
  Forall (fun s => is_idx s = true) rest -> length es = length (lead ++ last :: rest) ->
  let sd := sub_dims (lead ++ last :: rest) (combine es (left_strides_go a es)) in
  left_strides_go a (map fst sd) = map snd sd.
Proof. exact left_preserved_strides. Qed.
Print Assumptions C09_preserved_is_sound_left.

Theorem C09_preserved_is_sound_right : forall (pre : list slice) (first : slice) (fulls : list slice) (es : list Z),
  Forall (fun s => is_idx s = true) pre -> (is_full first = true \/ is_pairlike first = true) ->
  Forall (fun s => is_full s = true) fulls -> length es = length (pre ++ first :: fulls) ->
  let sd := sub_dims (pre ++ first :: fulls) (combine es (right_strides es)) in
  right_strides (map fst sd) = map snd sd.
Proof. exact right_preserved_strides. Qed.
Print Assumptions C09_preserved_is_sound_right.
