(* Concurrency.v — C19: threads sharing one view.
   Two layers.
   (1) cell layer: tagged memory actions (thread id, write / read / pure) executed against the heap of
       View.v plus one read log per thread; schedules are arbitrary interleavings of the threads' programs.
   (2) view layer: a thread's actions are element writes / reads through the shared view, a copy of it or
       a sub-view obtained from it by a chain of submdspan calls (created inside the thread), and observer
       calls; they compile to cell actions using the implementation model (subchain + offset_impl).
   The library's operations have no hidden state in the model: observers, copies and sub-view creation
   are functions of the (immutable) view value only.  That this is true of the C++ source is what the
   purity audit of the harness checks on every run. *)
From Coq Require Import ZArith List Bool.
From MdspanVerif Require Import MachInt ListAux Layouts Extents Convert View Submdspan SubSpec.
Import ListNotations.
Local Open Scope Z_scope.

(* ---- (1) cell layer ------------------------------------------------------------------------------- *)
Inductive caction :=
| CWrite (c : nat) (x : Z)        (* store x into cell c *)
| CRead (c : nat)                 (* load cell c, append the value to the executing thread's log *)
| CPure.                          (* observer / copy / sub-view creation: no memory effect *)

Definition tagged := (nat * caction)%type.          (* (thread id, action) *)

Record cstate := mkcs { cs_heap : heap; cs_logs : list (list Z) }.

Fixpoint push_log (logs : list (list Z)) (k : nat) (x : Z) : list (list Z) :=
  match logs, k with
  | [], _ => []
  | l :: logs', O => (l ++ [x]) :: logs'
  | l :: logs', S k' => l :: push_log logs' k' x
  end.

Definition cexec (st : cstate) (a : tagged) : cstate :=
  match snd a with
  | CWrite c x => mkcs (hwrite (cs_heap st) c x) (cs_logs st)
  | CRead c => mkcs (cs_heap st) (push_log (cs_logs st) (fst a) (hread (cs_heap st) c))
  | CPure => st
  end.
Definition crun (s : list tagged) (st : cstate) : cstate := fold_left cexec s st.

(* all interleavings of the programs ps (thread k = k-th program): s is one schedule *)
Inductive interleave : list (list caction) -> list tagged -> Prop :=
| il_done ps : Forall (fun p => p = []) ps -> interleave ps []
| il_step ps1 a p ps2 s :
    interleave (ps1 ++ p :: ps2) s -> interleave (ps1 ++ (a :: p) :: ps2) ((length ps1, a) :: s).

(* the sequential composition: thread 0 to completion, then thread 1, ... *)
Fixpoint seq_from (n : nat) (ps : list (list caction)) : list tagged :=
  match ps with [] => [] | p :: ps' => map (pair n) p ++ seq_from (S n) ps' end.
Definition sequential (ps : list (list caction)) : list tagged := seq_from 0 ps.

(* two actions of different threads are compatible when neither writes a cell the other touches *)
Definition compat (a b : caction) : Prop :=
  match a, b with
  | CWrite c _, CWrite c' _ | CWrite c _, CRead c' | CRead c, CWrite c' _ => c <> c'
  | _, _ => True
  end.
Definition race_free (ps : list (list caction)) : Prop :=
  forall j k p q a b, j <> k -> nth_error ps j = Some p -> nth_error ps k = Some q -> In a p -> In b q -> compat a b.

(* executable check of race freedom (sound: ConcurrencyProofs.race_freeb_sound) *)
Definition compatb (a b : caction) : bool :=
  match a, b with
  | CWrite c _, CWrite c' _ | CWrite c _, CRead c' | CRead c, CWrite c' _ => negb (Nat.eqb c c')
  | _, _ => true
  end.
Definition race_free_with (p : list caction) (rest : list (list caction)) : bool :=
  forallb (fun q => forallb (fun a => forallb (fun b => compatb a b) q) p) rest.
Fixpoint race_freeb (ps : list (list caction)) : bool :=
  match ps with [] => true | p :: ps' => race_free_with p ps' && race_freeb ps' end.

(* the last value written to cell c in a schedule *)
Definition writes_to (c : nat) (a : caction) : bool := match a with CWrite c' _ => Nat.eqb c c' | _ => false end.
Fixpoint last_write (c : nat) (p : list caction) (d : Z) : Z :=
  match p with
  | [] => d
  | CWrite c' x :: p' => last_write c p' (if Nat.eqb c c' then x else d)
  | _ :: p' => last_write c p' d
  end.

(* the log a thread produces when it runs alone on heap hp *)
Fixpoint solo_log (p : list caction) (hp : heap) : list Z :=
  match p with
  | [] => []
  | CWrite c x :: p' => solo_log p' (hwrite hp c x)
  | CRead c :: p' => hread hp c :: solo_log p' hp
  | CPure :: p' => solo_log p' hp
  end.

(* ---- (2) view layer ------------------------------------------------------------------------------- *)
(* the shared object: a view over index type t with extents pattern pat, default accessor *)
Record shared := mkshared { sh_t : ity; sh_pat : pattern; sh_view : view }.

Inductive taction :=
| TWrite (levels : list (list slice)) (f : form) (j : list Z) (x : Z)
      (* element j of submdspan(...submdspan(copy of shared, levels_1...)..., levels_n...) = x;
         levels = [] is the shared view itself or a copy of it *)
| TRead (levels : list (list slice)) (f : form) (j : list Z)
| TObserve                         (* extents / strides / flags / size / required_span_size of the shared view *)
| TCopy                            (* copy-construct a private mdspan from the shared one *)
| TSub (levels : list (list slice)).   (* create a sub-view, do not access it *)

(* the derived view a thread obtains: same accessor, handle advanced by the chain's offsets *)
Definition derive (sh : shared) (levels : list (list slice)) : res view :=
  rmap (fun mh => mkview (snd mh) (fst mh) (v_acc (sh_view sh)))
       (subchain (sh_t sh) (v_map (sh_view sh)) (sh_pat sh) (v_handle (sh_view sh)) levels).

Definition cell_of (sh : shared) (levels : list (list slice)) (f : form) (j : list Z) : res nat :=
  bind (derive sh levels) (fun v => rmap (fun e => Z.to_nat (default_address e)) (access (sh_t sh) f v j)).

Definition compile (sh : shared) (a : taction) : res caction :=
  match a with
  | TWrite levels f j x => rmap (fun c => CWrite c x) (cell_of sh levels f j)
  | TRead levels f j => rmap CRead (cell_of sh levels f j)
  | TObserve | TCopy => Ok CPure
  | TSub levels => rmap (fun _ => CPure) (derive sh levels)
  end.
Fixpoint compile_prog (sh : shared) (p : list taction) : res (list caction) :=
  match p with
  | [] => Ok []
  | a :: p' => bind (compile sh a) (fun c => rmap (cons c) (compile_prog sh p'))
  end.
Fixpoint compile_all (sh : shared) (ps : list (list taction)) : res (list (list caction)) :=
  match ps with
  | [] => Ok []
  | p :: ps' => bind (compile_prog sh p) (fun c => rmap (cons c) (compile_all sh ps'))
  end.

(* the multi-index of the *shared* view an action designates *)
Definition root_index (a : taction) : option (list Z) :=
  match a with
  | TWrite levels _ j _ | TRead levels _ j => Some (chain_compose levels j)
  | _ => None
  end.
Definition is_write (a : taction) : bool := match a with TWrite _ _ _ _ => true | _ => false end.
