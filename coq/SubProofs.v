(* SubProofs.v — refinement of the submdspan implementation model to SubSpec (C04, C10), and the
   type-level slicing rules (C09). *)
From Coq Require Import ZArith List Lia Bool Arith Permutation.
From MdspanVerif Require Import MachInt ListAux Layouts LayoutSpec LayoutProofs LayoutTheorems FlagProofs
     Extents ExtentsProofs Convert ConvertProofs Submdspan SubSpec.
Import ListNotations.
Local Open Scope Z_scope.
Ltac Zify.zify_post_hook ::= Z.div_mod_to_equations.

(* every integer component of the slices is a non-negative value of the index type *)
Definition cval_rep (t : ity) (c : cval) : Prop := 0 <= cv c <= imax t.
Definition slice_rep (t : ity) (sl : slice) : Prop :=
  match sl with
  | SIdx i => cval_rep t i
  | SRange b e => cval_rep t b /\ cval_rep t e
  | SFull => True
  | SStrided o x s => cval_rep t o /\ cval_rep t x /\ cval_rep t s
  end.

(* the source extents pattern agrees with the extents (true of every extents object) *)
Fixpoint pat_ok (t : ity) (pat : pattern) (es : list Z) : Prop :=
  match pat, es with
  | [], [] => True
  | p :: pat', e :: es' => (match p with Some s => wrap t s = e | None => True end) /\ pat_ok t pat' es'
  | _, _ => False
  end.

Lemma cdiv_bounds x s : 0 <= x -> (0 < x -> 0 < s) -> 0 <= cdiv x s <= x.
Proof.
  intros Hx Hs. unfold cdiv. destruct (0 <? x) eqn:E; [|lia]. apply Z.ltb_lt in E. specialize (Hs E).
  assert (0 <= (x - 1) / s) by (apply Z.div_pos; lia).
  assert ((x - 1) / s <= x - 1) by (apply Z.div_le_upper_bound; nia). lia.
Qed.

(* ---- sub-extents: one slice ---- *)
(* the extent the result reports for a non-index slice: the static one if the rules make it static,
   otherwise the value handed to the extents constructor *)
Definition res_extent (t : ity) (sl : slice) (sE : option Z) (passed : Z) : Z :=
  match sub_static sl sE with Some (Some s) => wrap t s | _ => wrap t passed end.

Lemma sub_value_ok t sl E St sE :
  valid_slice sl E -> slice_rep t sl -> 0 <= E <= imax t ->
  (match sE with Some s => wrap t s = E | None => True end) ->
  match sub_dim sl E St with
  | None => sub_value t sl E = Ok None /\ sub_static sl sE = None
  | Some (e', _) =>
      exists passed p, sub_value t sl E = Ok (Some passed) /\ sub_static sl sE = Some p /\
                       res_extent t sl sE passed = e' /\ 0 <= e' <= imax t
  end.
Proof.
  intros Hv Hr HE HsE. destruct sl as [i|b e| |o x s]; cbn [sub_dim valid_slice slice_rep] in *.
  - split; reflexivity.
  - destruct Hr as [Hb He]. unfold cval_rep in *.
    assert (Hsub : sub_value t (SRange b e) E = Ok (Some (cv e - cv b))).
    { cbn [sub_value]. rewrite (wrap_small t (cv e)) by lia. rewrite (wrap_small t (cv b)) by lia.
      rewrite subP_small by lia. cbn [rmap]. rewrite wrap_small by lia. reflexivity. }
    exists (cv e - cv b).
    destruct b as [b|b], e as [e|e]; cbn [cv] in *; eexists; (split; [exact Hsub|]); (split; [reflexivity|]);
      unfold res_extent; cbn [sub_static]; (split; [|lia]); rewrite ?(wrap_u64_small t) by lia; apply wrap_small; lia.
  - cbn [sub_value]. rewrite (wrap_small t E) by lia. rewrite (wrap_small t 0) by (pose proof (imax_pos t); lia).
    rewrite subP_small by lia. cbn [rmap]. eexists; eexists. split; [reflexivity|]. split; [reflexivity|].
    unfold res_extent. cbn [sub_static]. rewrite Z.sub_0_r. destruct sE as [s|]; [split; [exact HsE|lia]|].
    rewrite !(wrap_small t E) by lia. split; [reflexivity|lia].
  - destruct Hr as (Ho & Hx & Hs). unfold cval_rep in *. destruct Hv as (Ho' & Hx' & Hox & Hpos).
    pose proof (cdiv_bounds (cv x) (cv s) Hx' Hpos) as Hc.
    assert (Hstatic : forall passed, is_const x = true -> is_const s = true ->
              res_extent t (SStrided o x s) sE passed = cdiv (cv x) (cv s)).
    { intros passed Cx Cs. destruct x as [x|x], s as [s|s]; try discriminate. unfold res_extent. cbn [sub_static cv] in *.
      fold (cdiv x s). apply wrap_small. lia. }
    destruct x as [x|x], s as [s|s]; cbn [sub_value cv] in *.
    + (* dynamic / dynamic *)
      destruct (0 <? x) eqn:E0.
      * apply Z.ltb_lt in E0. specialize (Hpos E0). rewrite (wrap_small t (x - 1)) by lia. rewrite (wrap_small t s) by lia.
        rewrite divP_small by lia. cbn [bind]. unfold cdiv in Hc. assert (E0' : (0 <? x) = true) by (apply Z.ltb_lt; lia). rewrite E0' in Hc.
        rewrite addP_small by lia. cbn [bind]. eexists; eexists. split; [reflexivity|]. split; [destruct o; reflexivity|].
        unfold res_extent. replace (sub_static (SStrided o (Dyn x) (Dyn s)) sE) with (Some (@None Z)) by (destruct o; reflexivity).
        rewrite !(wrap_small t (1 + (x - 1) / s)) by lia. unfold cdiv. rewrite E0'. split; [reflexivity|lia].
      * eexists; eexists. split; [reflexivity|]. split; [destruct o; reflexivity|].
        unfold res_extent. replace (sub_static (SStrided o (Dyn x) (Dyn s)) sE) with (Some (@None Z)) by (destruct o; reflexivity).
        unfold cdiv in *. rewrite E0 in *. pose proof (imax_pos t). rewrite !(wrap_small t 0) by lia. split; [reflexivity|lia].
    + destruct (0 <? x) eqn:E0.
      * apply Z.ltb_lt in E0. specialize (Hpos E0). rewrite (wrap_small t (x - 1)) by lia. rewrite (wrap_small t s) by lia.
        rewrite divP_small by lia. cbn [bind]. unfold cdiv in Hc. assert (E0' : (0 <? x) = true) by (apply Z.ltb_lt; lia). rewrite E0' in Hc.
        rewrite addP_small by lia. cbn [bind]. eexists; eexists. split; [reflexivity|]. split; [destruct o; reflexivity|].
        unfold res_extent. replace (sub_static (SStrided o (Dyn x) (Const s)) sE) with (Some (@None Z)) by (destruct o; reflexivity).
        rewrite !(wrap_small t (1 + (x - 1) / s)) by lia. unfold cdiv. rewrite E0'. split; [reflexivity|lia].
      * eexists; eexists. split; [reflexivity|]. split; [destruct o; reflexivity|].
        unfold res_extent. replace (sub_static (SStrided o (Dyn x) (Const s)) sE) with (Some (@None Z)) by (destruct o; reflexivity).
        unfold cdiv in *. rewrite E0 in *. pose proof (imax_pos t). rewrite !(wrap_small t 0) by lia. split; [reflexivity|lia].
    + destruct (0 <? x) eqn:E0.
      * apply Z.ltb_lt in E0. specialize (Hpos E0). rewrite (wrap_small t (x - 1)) by lia. rewrite (wrap_small t s) by lia.
        rewrite divP_small by lia. cbn [bind]. unfold cdiv in Hc. assert (E0' : (0 <? x) = true) by (apply Z.ltb_lt; lia). rewrite E0' in Hc.
        rewrite addP_small by lia. cbn [bind]. eexists; eexists. split; [reflexivity|]. split; [destruct o; reflexivity|].
        unfold res_extent. replace (sub_static (SStrided o (Const x) (Dyn s)) sE) with (Some (@None Z)) by (destruct o; reflexivity).
        rewrite !(wrap_small t (1 + (x - 1) / s)) by lia. unfold cdiv. rewrite E0'. split; [reflexivity|lia].
      * eexists; eexists. split; [reflexivity|]. split; [destruct o; reflexivity|].
        unfold res_extent. replace (sub_static (SStrided o (Const x) (Dyn s)) sE) with (Some (@None Z)) by (destruct o; reflexivity).
        unfold cdiv in *. rewrite E0 in *. pose proof (imax_pos t). rewrite !(wrap_small t 0) by lia. split; [reflexivity|lia].
    + (* constant / constant: the static extent is what the result reports *)
      assert (Hval : exists passed, Ok (Some (wrap t (if 0 <? x then 1 + (x - 1) / s else 0))) = Ok (Some passed)) by eauto.
      destruct Hval as (passed & Hp). exists passed. eexists. split; [destruct o; exact Hp|]. split; [destruct o; reflexivity|].
      split; [apply (Hstatic passed); reflexivity|lia].
Qed.

(* ---- sub-extents: all slices ---- *)
Lemma sub_exts_ok t : forall sls es ss pat,
  valid_slices sls (combine es ss) -> Forall (slice_rep t) sls -> length ss = length es ->
  Forall (fun e => 0 <= e <= imax t) es -> pat_ok t pat es ->
  sub_exts t sls es pat = Ok (map fst (sub_dims sls (combine es ss))) /\
  Forall (fun e => 0 <= e <= imax t) (map fst (sub_dims sls (combine es ss))).
Proof.
  unfold sub_exts.
  assert (G : forall sls es ss pat,
    valid_slices sls (combine es ss) -> Forall (slice_rep t) sls -> length ss = length es ->
    Forall (fun e => 0 <= e <= imax t) es -> pat_ok t pat es ->
    exists vs, sub_values t sls es = Ok vs /\
      fill_all t (sub_pattern sls pat) vs = map fst (sub_dims sls (combine es ss)) /\
      Forall (fun e => 0 <= e <= imax t) (map fst (sub_dims sls (combine es ss)))).
  { induction sls as [|sl sls IH]; intros [|E es] [|St ss] [|p pat] Hv Hr Hl He Hp; cbn [length combine valid_slices pat_ok] in *; try tauto; try discriminate.
    - exists []. repeat split; constructor.
    - destruct Hv as [Hv1 Hv2]. inversion Hr as [|? ? Hr1 Hr2]; subst. inversion He as [|? ? He1 He2]; subst. destruct Hp as [Hp1 Hp2].
      injection Hl as Hl. destruct (IH es ss pat Hv2 Hr2 Hl He2 Hp2) as (vs & Evs & Efill & Hrange).
      pose proof (sub_value_ok t sl E St p Hv1 Hr1 He1 Hp1) as Hone.
      cbn [sub_values sub_dims sub_pattern]. destruct (sub_dim sl E St) as [[e' s']|] eqn:Ed.
      + destruct Hone as (passed & p' & Eval & Est & Eres & Hre). rewrite Eval, Evs. cbn [bind]. rewrite Est.
        eexists. split; [reflexivity|]. cbn [map fst]. split.
        * unfold res_extent in Eres. rewrite Est in Eres. cbn [fill_all]. destruct p' as [sv|]; cbn [fill_all]; rewrite Efill, Eres; reflexivity.
        * constructor; assumption.
      + destruct Hone as [Eval Est]. rewrite Eval, Evs. cbn [bind]. rewrite Est. eexists. split; [reflexivity|]. split; assumption. }
  intros sls es ss pat Hv Hr Hl He Hp. destruct (G sls es ss pat Hv Hr Hl He Hp) as (vs & E1 & E2 & E3).
  rewrite E1. cbn [rmap]. rewrite E2. split; [reflexivity|exact E3].
Qed.

(* ---- sub-strides ---- *)
Fixpoint sub_strides_l (t : ity) (ss : list Z) (sls : list slice) {struct sls} : res (list Z) :=
  match sls with
  | [] => Ok []
  | sl :: sls' =>
      match ss with
      | [] => UB
      | sk :: ss' =>
          if is_idx sl then sub_strides_l t ss' sls'
          else bind (mulP t (wrap t sk) (wrap t (stride_of sl))) (fun p => rmap (cons (wrap t p)) (sub_strides_l t ss' sls'))
      end
  end.

Lemma sub_strides_as_list t src : valid t src -> forall sls k, (k + length sls <= length (exts src))%nat ->
  sub_strides t src k sls = sub_strides_l t (skipn k (spec_strides src)) sls.
Proof.
  intros Hv. assert (Hlen : length (spec_strides src) = length (exts src)).
  { pose proof (strides_list_ok t src Hv) as H. unfold strides_list in H.
    assert (forall {A} (l : list (res A)) r, seq_res l = Ok r -> length r = length l) as G.
    { intros A l. induction l as [|x l IH]; intros r Hr; cbn [seq_res] in Hr; [injection Hr as <-; reflexivity|].
      destruct x; cbn [bind] in Hr; [|discriminate]. destruct (seq_res l) eqn:E; cbn [rmap] in Hr; [|discriminate].
      injection Hr as <-. cbn [length]. f_equal. apply IH. reflexivity. }
    apply G in H. rewrite map_length, seq_length in H. exact H. }
  induction sls as [|sl sls IH]; intros k Hk; cbn [sub_strides sub_strides_l length] in *; [reflexivity|].
  assert (Hk' : (k < length (spec_strides src))%nat) by lia.
  rewrite (skipn_nth_cons (spec_strides src) k Hk').
  destruct (is_idx sl).
  - rewrite IH by lia. reflexivity.
  - rewrite stride_refines by (auto; lia). cbn [bind]. rewrite IH by lia. reflexivity.
Qed.

Lemma stride_of_step t sl : slice_rep t sl -> stride_of sl = step_of sl /\ 0 <= step_of sl <= imax t.
Proof.
  destruct sl as [i|b e| |o x s]; cbn [slice_rep stride_of step_of]; intros Hr; try (pose proof (imax_pos t); split; [reflexivity|lia]).
  destruct Hr as (_ & Hx & Hs). unfold cval_rep in *.
  rewrite (wrap_u64_small t (cv s)) by lia. rewrite (wrap_u64_small t (cv x)) by lia.
  pose proof (imax_pos t). destruct (cv s <? cv x); split; try reflexivity; lia.
Qed.

Lemma sub_strides_l_ok t : forall sls es ss,
  length ss = length es -> length sls = length es ->
  Forall (fun s => 0 <= s <= imax t) ss -> Forall (slice_rep t) sls ->
  valid_slices sls (combine es ss) ->
  Forall (fun d => snd d <= imax t) (sub_dims sls (combine es ss)) ->
  sub_strides_l t ss sls = Ok (map snd (sub_dims sls (combine es ss))).
Proof.
  induction sls as [|sl sls IH]; intros [|E es] [|St ss] Hl Hl2 Hs Hr Hv Hb; cbn [length combine valid_slices] in *; try discriminate; try tauto; try reflexivity.
  injection Hl as Hl. injection Hl2 as Hl2. inversion Hs as [|? ? Hs1 Hs2]; subst. inversion Hr as [|? ? Hr1 Hr2]; subst. destruct Hv as [Hv1 Hv2].
  cbn [sub_strides_l sub_dims].
  destruct sl as [i|b e| |o x s]; cbn [is_idx sub_dim] in *.
  - apply (IH es ss); auto.
  - inversion Hb as [|? ? Hb1 Hb2]; subst. cbn [snd] in Hb1. cbn [stride_of].
    rewrite (wrap_small t St) by lia. rewrite (wrap_small t 1) by (pose proof (imax_pos t); lia).
    rewrite mulP_small by lia. cbn [bind]. rewrite (IH es ss) by auto. cbn [rmap map snd]. rewrite wrap_small by lia. reflexivity.
  - inversion Hb as [|? ? Hb1 Hb2]; subst. cbn [snd] in Hb1. cbn [stride_of].
    rewrite (wrap_small t St) by lia. rewrite (wrap_small t 1) by (pose proof (imax_pos t); lia).
    rewrite mulP_small by lia. cbn [bind]. rewrite (IH es ss) by auto. cbn [rmap map snd]. rewrite wrap_small by lia. reflexivity.
  - inversion Hb as [|? ? Hb1 Hb2]; subst. cbn [snd] in Hb1.
    destruct (stride_of_step t (SStrided o x s) Hr1) as [Est Hrg]. rewrite Est.
    change (if cv s <? cv x then cv s else 1) with (step_of (SStrided o x s)) in Hb1.
    rewrite (wrap_small t St) by lia. rewrite (wrap_small t (step_of (SStrided o x s))) by lia.
    assert (0 <= St * step_of (SStrided o x s)) by nia.
    rewrite mulP_small by lia. cbn [bind]. rewrite (IH es ss) by auto. cbn [rmap map snd]. rewrite wrap_small by lia. reflexivity.
Qed.

(* ---- the offset ---- *)
Lemma any_oob_false t : forall sls es ss, length ss = length es ->
  valid_slices sls (combine es ss) -> Forall (slice_rep t) sls -> Forall (fun e => 0 <= e <= imax t) es ->
  any_oob t sls es = false -> firsts_inb sls (combine es ss).
Proof.
  induction sls as [|sl sls IH]; intros [|E es] [|St ss] Hl Hv Hr He Ho; cbn [length combine valid_slices firsts_inb any_oob] in *; try discriminate; try tauto.
  injection Hl as Hl. destruct Hv as [Hv1 Hv2]. inversion Hr as [|? ? Hr1 Hr2]; subst. inversion He as [|? ? He1 He2]; subst.
  apply orb_false_iff in Ho as [Ho1 Ho2]. split; [|apply IH; auto].
  assert (Hf : 0 <= first_of sl <= E /\ first_of sl <= imax t).
  { destruct sl as [i|b e| |o x s]; cbn [first_of valid_slice slice_rep] in *; unfold cval_rep in *; lia. }
  rewrite wrap_small in Ho1 by lia. apply Z.eqb_neq in Ho1. lia.
Qed.

Lemma map_wrap_firsts t sls : Forall (slice_rep t) sls -> Forall (fun sl => 0 <= first_of sl) sls ->
  map (fun sl => wrap t (first_of sl)) sls = map first_of sls.
Proof.
  induction 1 as [|sl sls Hr _ IH]; intros Hf; cbn [map]; [reflexivity|]. inversion Hf; subst. rewrite IH by assumption. f_equal.
  apply wrap_small. destruct sl as [i|b e| |o x s]; cbn [first_of slice_rep] in *; unfold cval_rep in *; try lia. pose proof (imax_pos t); lia.
Qed.

(* ================================================================================================ *)
(* C09: the type-level slicing rules                                                                 *)

Lemma subrank_app a b : subrank (a ++ b) = (subrank a + subrank b)%nat.
Proof. unfold subrank. rewrite filter_app, app_length. reflexivity. Qed.
Lemma subrank_cons sl sls : subrank (sl :: sls) = ((if is_idx sl then 0 else 1) + subrank sls)%nat.
Proof. unfold subrank. cbn [filter]. destruct (is_idx sl); reflexivity. Qed.
Lemma subrank_le sls : (subrank sls <= length sls)%nat.
Proof. induction sls as [|sl sls IH]; [cbn; lia|]. rewrite subrank_cons. cbn [length]. destruct (is_idx sl); lia. Qed.
Lemma subrank_all_full l : Forall (fun s => is_full s = true) l -> subrank l = length l.
Proof. induction 1 as [|s l Hs _ IH]; [reflexivity|]. rewrite subrank_cons, IH. destruct s; cbn in *; try discriminate; reflexivity. Qed.
Lemma subrank_all_idx l : Forall (fun s => is_idx s = true) l -> subrank l = 0%nat.
Proof. induction 1 as [|s l Hs _ IH]; [reflexivity|]. rewrite subrank_cons, IH, Hs. reflexivity. Qed.
Lemma subrank0_all_idx l : subrank l = 0%nat -> Forall (fun s => is_idx s = true) l.
Proof. induction l as [|s l IH]; intros H; constructor; rewrite subrank_cons in H; destruct (is_idx s); try lia; auto. Qed.

(* the result rank is the number of non-index slices *)
Theorem sub_pattern_rank : forall sls pat, length pat = length sls -> length (sub_pattern sls pat) = subrank sls.
Proof.
  induction sls as [|sl sls IH]; intros [|p pat] H; cbn [length] in H; try discriminate; [reflexivity|].
  injection H as H. cbn [sub_pattern]. rewrite subrank_cons. destruct sl as [i|b e| |o x s]; cbn [sub_static is_idx].
  - apply IH; auto.
  - destruct b, e; cbn [length]; rewrite IH; auto.
  - cbn [length]. rewrite IH; auto.
  - destruct x, s; cbn [length]; rewrite IH; auto.
Qed.

(* a result extent is static exactly in the three listed cases, with the prescribed value *)
Theorem sub_static_iff sl sE v :
  sub_static sl sE = Some (Some v) <->
    (sl = SFull /\ sE = Some v) \/
    (exists b e, sl = SRange (Const b) (Const e) /\ v = wrap U64 (e - b)) \/
    (exists o x s, sl = SStrided o (Const x) (Const s) /\ v = (if 0 <? x then 1 + (x - 1) / s else 0)).
Proof.
  split.
  - destruct sl as [i|b e| |o x s]; cbn [sub_static]; try discriminate.
    + destruct b, e; try discriminate. intros H. injection H as <-. right; left. eauto.
    + intros H. injection H as ->. left. auto.
    + destruct x, s; try discriminate. intros H. injection H as <-. right; right. eauto.
  - intros [[-> ->]|[(b & e & -> & ->)|(o & x & s & -> & ->)]]; reflexivity.
Qed.

(* ---- layout_left preservation ---- *)
Lemma pres_left_go_spec sr : forall sls idx, (1 <= sr)%nat ->
  pres_left_go sr idx sls = true -> (idx <= sr - 1)%nat -> (sr - idx <= length sls)%nat ->
  exists lead last rest, sls = lead ++ last :: rest /\ length lead = (sr - 1 - idx)%nat /\
     Forall (fun s => is_full s = true) lead /\ (is_full last = true \/ is_pairlike last = true).
Proof.
  induction sls as [|k ks IH]; intros idx Hsr Hgo Hidx Hlen; cbn [length] in Hlen; [lia|].
  cbn [pres_left_go] in Hgo. apply andb_prop in Hgo as [Hk Hrest].
  destruct (Nat.eq_dec idx (sr - 1)) as [E|NE].
  - exists [], k, ks. cbn [app length]. repeat split; auto; try lia.
    rewrite E in Hk. rewrite Nat.ltb_irrefl, Nat.eqb_refl in Hk. cbn [orb andb] in Hk.
    apply orb_prop in Hk. exact Hk.
  - assert (Hf : is_full k = true).
    { assert (E1 : Nat.ltb (sr - 1) idx = false) by (apply Nat.ltb_ge; lia).
      assert (E2 : Nat.eqb idx (sr - 1) = false) by (apply Nat.eqb_neq; auto).
      rewrite E1, E2 in Hk. cbn [orb andb] in Hk. rewrite orb_false_r in Hk. exact Hk. }
    destruct (IH (S idx) Hsr Hrest) as (lead & last & rest & -> & Hl & Hfl & Hlast); try lia.
    exists (k :: lead), last, rest. cbn [app length]. repeat split; auto; try lia.
Qed.

Definition left_shape (sls : list slice) : Prop :=
  exists lead last rest, sls = lead ++ last :: rest /\
     Forall (fun s => is_full s = true) lead /\ (is_full last = true \/ is_pairlike last = true) /\
     Forall (fun s => is_idx s = true) rest.

Lemma nonidx_of_full_or_pair s : is_full s = true \/ is_pairlike s = true -> is_idx s = false.
Proof. destruct s; cbn; intros [H|H]; try discriminate; reflexivity. Qed.

(* the implementation's fold never checks that the remaining slices are indices; counting recovers it *)
Theorem pres_left_sound sls : pres_left sls = true -> subrank sls = 0%nat \/ left_shape sls.
Proof.
  unfold pres_left. intros H. apply orb_prop in H as [H|H]; [left; apply Nat.eqb_eq; exact H|].
  destruct (Nat.eq_dec (subrank sls) 0) as [E|NE]; [left; exact E|right].
  destruct (pres_left_go_spec (subrank sls) sls 0) as (lead & last & rest & Hks & Hl & Hf & Hlast); auto; try lia.
  { pose proof (subrank_le sls). lia. }
  exists lead, last, rest. repeat split; auto.
  apply subrank0_all_idx.
  assert (Hc : subrank sls = (subrank lead + subrank [last] + subrank rest)%nat).
  { rewrite Hks. rewrite subrank_app. change (last :: rest) with ([last] ++ rest). rewrite subrank_app. lia. }
  rewrite (subrank_all_full lead Hf) in Hc.
  assert (subrank [last] = 1%nat) by (rewrite subrank_cons, (nonidx_of_full_or_pair last Hlast); reflexivity). lia.
Qed.

Lemma pres_left_go_complete sr : forall lead idx last rest,
  Forall (fun s => is_full s = true) lead -> (is_full last = true \/ is_pairlike last = true) ->
  (idx + length lead = sr - 1)%nat -> (1 <= sr)%nat ->
  pres_left_go sr idx (lead ++ last :: rest) = true.
Proof.
  induction lead as [|k lead IH]; intros idx last rest Hf Hlast Hidx Hsr; cbn [app length] in *.
  - cbn [pres_left_go]. assert (idx = sr - 1)%nat by lia. subst idx. rewrite Nat.ltb_irrefl, Nat.eqb_refl. cbn [orb andb].
    assert (Hl : (is_full last || is_pairlike last) = true) by (destruct Hlast as [->| ->]; [reflexivity|apply orb_true_r]).
    rewrite Hl. cbn [andb].
    assert (G : forall l i, (sr - 1 < i)%nat -> pres_left_go sr i l = true).
    { induction l as [|x l IHl]; intros i Hi; cbn [pres_left_go]; [reflexivity|].
      assert (E : Nat.ltb (sr - 1) i = true) by (apply Nat.ltb_lt; lia). rewrite E. cbn [orb andb]. apply IHl. lia. }
    apply G. lia.
  - inversion Hf as [|? ? Hk Hf']; subst. cbn [pres_left_go]. rewrite Hk, orb_true_r. cbn [orb andb]. apply IH; auto. lia.
Qed.

Theorem pres_left_iff sls : pres_left sls = true <-> (subrank sls = 0%nat \/ left_shape sls).
Proof.
  split; [apply pres_left_sound|]. unfold pres_left. intros [H|(lead & last & rest & -> & Hf & Hlast & Hr)].
  - rewrite H. reflexivity.
  - apply orb_true_iff. right. apply pres_left_go_complete; auto.
    + rewrite subrank_app, (subrank_all_full lead Hf). change (last :: rest) with ([last] ++ rest). rewrite subrank_app, (subrank_all_idx rest Hr).
      rewrite subrank_cons, (nonidx_of_full_or_pair last Hlast). cbn. lia.
    + rewrite subrank_app. change (last :: rest) with ([last] ++ rest). rewrite subrank_app.
      rewrite (subrank_cons last), (nonidx_of_full_or_pair last Hlast). lia.
Qed.

(* ---- layout_right preservation ---- *)
Lemma pres_right_go_after d : forall sls idx, (d < idx)%nat -> pres_right_go d idx sls = true -> Forall (fun s => is_full s = true) sls.
Proof.
  induction sls as [|k ks IH]; intros idx Hi Hgo; [constructor|]. cbn [pres_right_go] in Hgo. apply andb_prop in Hgo as [Hk Hrest].
  assert (E1 : Nat.ltb idx d = false) by (apply Nat.ltb_ge; lia). assert (E2 : Nat.eqb idx d = false) by (apply Nat.eqb_neq; lia).
  rewrite E1, E2 in Hk. cbn [orb andb] in Hk. rewrite orb_false_r in Hk. constructor; [exact Hk|]. apply (IH (S idx)); auto.
Qed.

Lemma pres_right_go_spec d : forall sls idx, pres_right_go d idx sls = true -> (idx <= d)%nat -> (d - idx < length sls)%nat ->
  exists pre first fulls, sls = pre ++ first :: fulls /\ length pre = (d - idx)%nat /\
    (is_full first = true \/ is_pairlike first = true) /\ Forall (fun s => is_full s = true) fulls.
Proof.
  induction sls as [|k ks IH]; intros idx Hgo Hidx Hlen; cbn [length] in Hlen; [lia|].
  cbn [pres_right_go] in Hgo. apply andb_prop in Hgo as [Hk Hrest].
  destruct (Nat.eq_dec idx d) as [E|NE].
  - subst idx. exists [], k, ks. cbn [app length]. repeat split; try lia.
    + rewrite Nat.ltb_irrefl, Nat.eqb_refl in Hk. cbn [orb andb] in Hk. apply orb_prop in Hk. exact Hk.
    + apply (pres_right_go_after d ks (S d)); auto.
  - destruct (IH (S idx) Hrest) as (pre & first & fulls & -> & Hl & Hfirst & Hfulls); try lia.
    exists (k :: pre), first, fulls. cbn [app length]. repeat split; auto. lia.
Qed.

Definition right_shape (sls : list slice) : Prop :=
  exists pre first fulls, sls = pre ++ first :: fulls /\
     Forall (fun s => is_idx s = true) pre /\ (is_full first = true \/ is_pairlike first = true) /\
     Forall (fun s => is_full s = true) fulls.

Theorem pres_right_sound sls : pres_right sls = true -> subrank sls = 0%nat \/ right_shape sls.
Proof.
  unfold pres_right. intros H. apply orb_prop in H as [H|H]; [left; apply Nat.eqb_eq; exact H|].
  destruct (Nat.eq_dec (subrank sls) 0) as [E|NE]; [left; exact E|right].
  pose proof (subrank_le sls) as Hle.
  destruct (pres_right_go_spec (length sls - subrank sls) sls 0 H) as (pre & first & fulls & Hks & Hl & Hfirst & Hfulls); try lia.
  exists pre, first, fulls. repeat split; auto. apply subrank0_all_idx.
  assert (Hc : subrank sls = (subrank pre + subrank [first] + subrank fulls)%nat).
  { rewrite Hks. rewrite subrank_app. change (first :: fulls) with ([first] ++ fulls). rewrite subrank_app. lia. }
  rewrite (subrank_all_full fulls Hfulls) in Hc.
  assert (subrank [first] = 1%nat) by (rewrite subrank_cons, (nonidx_of_full_or_pair first Hfirst); reflexivity).
  assert (Hlen : length sls = (length pre + 1 + length fulls)%nat) by (rewrite Hks, app_length; cbn [length]; lia).
  lia.
Qed.

Lemma pres_right_go_complete d : forall pre idx first fulls,
  (is_full first = true \/ is_pairlike first = true) -> Forall (fun s => is_full s = true) fulls ->
  (idx + length pre = d)%nat -> pres_right_go d idx (pre ++ first :: fulls) = true.
Proof.
  induction pre as [|k pre IH]; intros idx first fulls Hfirst Hfulls Hidx; cbn [app length] in *.
  - assert (idx = d) by lia. subst idx. cbn [pres_right_go]. rewrite Nat.ltb_irrefl, Nat.eqb_refl. cbn [orb andb].
    assert (Hl : (is_full first || is_pairlike first) = true) by (destruct Hfirst as [->| ->]; [reflexivity|apply orb_true_r]).
    rewrite Hl. cbn [andb]. clear - Hfulls. generalize (S d). induction Hfulls as [|x l Hx _ IHl]; intros i; cbn [pres_right_go]; [reflexivity|].
    rewrite Hx, orb_true_r. cbn [orb andb]. apply IHl.
  - cbn [pres_right_go]. assert (E : Nat.ltb idx d = true) by (apply Nat.ltb_lt; lia). rewrite E. cbn [orb andb]. apply IH; auto. lia.
Qed.

Theorem pres_right_iff sls : pres_right sls = true <-> (subrank sls = 0%nat \/ right_shape sls).
Proof.
  split; [apply pres_right_sound|]. unfold pres_right. intros [H|(pre & first & fulls & -> & Hp & Hfirst & Hf)].
  - rewrite H. reflexivity.
  - apply orb_true_iff. right. apply pres_right_go_complete; auto.
    rewrite subrank_app, (subrank_all_idx pre Hp). change (first :: fulls) with ([first] ++ fulls).
    rewrite subrank_app, (subrank_all_full fulls Hf), subrank_cons, (nonidx_of_full_or_pair first Hfirst).
    rewrite !app_length. change (subrank []) with 0%nat. cbn [length]. lia.
Qed.

(* ================================================================================================ *)
(* when the layout is preserved, the canonical strides of the result extents are exactly            *)
(* source stride x slice step on the surviving dimensions                                            *)

Lemma sub_dims_all_idx l ds : Forall (fun s => is_idx s = true) l -> sub_dims l ds = [].
Proof.
  intros H; revert ds; induction H as [|s l Hs _ IH]; intros [|[E St] ds]; cbn [sub_dims]; auto.
  destruct s; cbn in Hs; try discriminate. cbn [sub_dim]. apply IH.
Qed.

Lemma full_or_pair_dim last E St : is_full last = true \/ is_pairlike last = true -> exists e', sub_dim last E St = Some (e', St * 1).
Proof. destruct last; cbn; intros [H|H]; try discriminate; eauto. Qed.

Lemma left_preserved_strides : forall lead last rest es a,
  Forall (fun s => is_full s = true) lead -> (is_full last = true \/ is_pairlike last = true) ->
  Forall (fun s => is_idx s = true) rest -> length es = length (lead ++ last :: rest) ->
  let sd := sub_dims (lead ++ last :: rest) (combine es (left_strides_go a es)) in
  left_strides_go a (map fst sd) = map snd sd.
Proof.
  induction lead as [|k lead IH]; intros last rest es a Hf Hlast Hr Hl; cbn [app] in *.
  - destruct es as [|e es]; cbn [length] in Hl; [discriminate|]. cbn [left_strides_go combine sub_dims].
    destruct (full_or_pair_dim last e a Hlast) as (e' & ->). rewrite sub_dims_all_idx by exact Hr.
    cbn [map fst snd left_strides_go]. f_equal. lia.
  - destruct es as [|e es]; cbn [length] in Hl; [discriminate|]. injection Hl as Hl. inversion Hf as [|? ? Hk Hf']; subst.
    destruct k; cbn in Hk; try discriminate. cbn [left_strides_go combine sub_dims sub_dim map fst snd].
    specialize (IH last rest es (a * e) Hf' Hlast Hr Hl). cbn zeta in IH. rewrite IH. f_equal. lia.
Qed.

Lemma combine_app_right (a b : list Z) (sa sb : list Z) : length a = length sa ->
  combine (a ++ b) (sa ++ sb) = combine a sa ++ combine b sb.
Proof. revert sa; induction a as [|x a IH]; intros [|y sa] H; cbn [length] in H; try discriminate; [reflexivity|]. cbn [app combine]. rewrite IH by lia. reflexivity. Qed.

Lemma right_strides_app a b : right_strides (a ++ b) = map (fun s => s * prodl b) (right_strides a) ++ right_strides b.
Proof. induction a as [|x a IH]; cbn [app right_strides map]; [reflexivity|]. rewrite IH, prodl_app. reflexivity. Qed.

Lemma sub_dims_app l1 l2 d1 d2 : length l1 = length d1 -> sub_dims (l1 ++ l2) (d1 ++ d2) = sub_dims l1 d1 ++ sub_dims l2 d2.
Proof.
  revert d1; induction l1 as [|s l1 IH]; intros [|[E St] d1] H; cbn [length] in H; try discriminate; [reflexivity|].
  cbn [app sub_dims]. rewrite IH by lia. destruct (sub_dim s E St); reflexivity.
Qed.

Lemma sub_dims_all_full l es ss : Forall (fun s => is_full s = true) l -> length es = length l -> length ss = length l ->
  map fst (sub_dims l (combine es ss)) = es /\ map snd (sub_dims l (combine es ss)) = map (fun s => s * 1) ss.
Proof.
  intros H; revert es ss; induction H as [|s l Hs _ IH]; intros [|e es] [|st ss] H1 H2; cbn [length] in *; try discriminate; [split; reflexivity|].
  destruct s; cbn in Hs; try discriminate. cbn [combine sub_dims sub_dim map fst snd].
  destruct (IH es ss) as [E1 E2]; try lia. rewrite E1, E2. split; reflexivity.
Qed.

Lemma right_preserved_strides pre first fulls es :
  Forall (fun s => is_idx s = true) pre -> (is_full first = true \/ is_pairlike first = true) ->
  Forall (fun s => is_full s = true) fulls -> length es = length (pre ++ first :: fulls) ->
  let sd := sub_dims (pre ++ first :: fulls) (combine es (right_strides es)) in
  right_strides (map fst sd) = map snd sd.
Proof.
  intros Hp Hfirst Hf Hl. rewrite app_length in Hl. cbn [length] in Hl.
  assert (Hsplit : es = firstn (length pre) es ++ skipn (length pre) es) by (symmetry; apply firstn_skipn).
  set (ep := firstn (length pre) es) in *. set (er := skipn (length pre) es) in *.
  assert (Lep : length ep = length pre) by (unfold ep; rewrite firstn_length; lia).
  assert (Ler : length er = S (length fulls)) by (unfold er; rewrite skipn_length; lia).
  cbn zeta. rewrite Hsplit. rewrite right_strides_app. rewrite combine_app_right by (rewrite map_length, right_strides_length; reflexivity).
  assert (Lc : length pre = length (combine ep (map (fun s : Z => s * prodl er) (right_strides ep)))).
  { rewrite combine_length, map_length, right_strides_length. lia. }
  rewrite (sub_dims_app pre (first :: fulls) _ _ Lc).
  rewrite (sub_dims_all_idx pre) by exact Hp. cbn [app].
  destruct er as [|ef efs]; cbn [length] in Ler; [discriminate|]. injection Ler as Ler.
  cbn [right_strides combine sub_dims]. destruct (full_or_pair_dim first ef (prodl efs) Hfirst) as (e' & ->).
  destruct (sub_dims_all_full fulls efs (right_strides efs) Hf) as [E1 E2]; [lia|rewrite right_strides_length; lia|].
  cbn [map fst snd right_strides]. rewrite E1, E2. f_equal; [lia|].
  clear. induction (right_strides efs) as [|x l IH]; cbn [map]; [reflexivity|]. rewrite <- IH. f_equal. lia.
Qed.

(* ================================================================================================ *)
(* the refinement theorem for submdspan_mapping                                                      *)

Definition sub_kind_ok (m : mapping) : bool := match m with MLeft _ | MRight _ | MStride _ _ => true | _ => false end.

Lemma firsts_nonneg t sls es ss : valid_slices sls (combine es ss) -> Forall (slice_rep t) sls -> Forall (fun sl => 0 <= first_of sl) sls.
Proof.
  intros _ Hr. induction Hr as [|sl sls Hr _ IH]; constructor; auto.
  destruct sl as [i|b e| |o x s]; cbn [first_of slice_rep] in *; unfold cval_rep in *; lia.
Qed.

Theorem submap_refines t src pat sls :
  valid t src -> sub_kind_ok src = true ->
  valid_slices sls (dims src) -> Forall (slice_rep t) sls -> pat_ok t pat (exts src) ->
  Forall (fun d => snd d <= imax t) (sub_dims sls (dims src)) ->
  exists m' off sp,
    submap t src pat sls = Ok (m', off) /\ span_impl t src = Ok sp /\
    exts m' = map fst (sub_dims sls (dims src)) /\
    spec_strides m' = map snd (sub_dims sls (dims src)) /\
    off = (if any_oob t sls (exts src) then sp else sub_offset sls (dims src)) /\
    (any_oob t sls (exts src) = false -> firsts_inb sls (dims src)) /\
    sub_kind_ok m' = true.
Proof.
  intros Hv Hk Hvs Hr Hp Hb.
  pose proof (valid_exts_in t src Hv) as He. unfold nonneg_in in He.
  pose proof (strides_nonneg_in t src Hv) as Hs. unfold nonneg_in in Hs.
  assert (Hlen : length (spec_strides src) = length (exts src)).
  { pose proof (valid_slices_length _ _ Hvs) as H1. unfold dims in *. destruct src as [es|es|es ss|es ps|es ps]; cbn [spec_strides exts valid] in *; try discriminate.
    - apply left_strides_go_length. - apply right_strides_length. - tauto. }
  pose proof (valid_slices_length _ _ Hvs) as Hls. unfold dims, dim in Hls. rewrite (combine_length (exts src) (spec_strides src)) in Hls. rewrite Hlen in Hls. rewrite Nat.min_id in Hls.
  unfold dims in *.
  destruct (sub_exts_ok t sls (exts src) (spec_strides src) pat Hvs Hr Hlen He Hp) as [Eext Hrange].
  destruct (span_defined t src Hv) as (sp & Esp & Hsp0).
  assert (Estr : sub_strides t src 0 sls = Ok (map snd (sub_dims sls (combine (exts src) (spec_strides src))))).
  { rewrite (sub_strides_as_list t src Hv) by lia. cbn [skipn]. apply sub_strides_l_ok; auto. }
  assert (Eoff : sub_offset_impl t src sls = Ok (if any_oob t sls (exts src) then sp else sub_offset sls (combine (exts src) (spec_strides src)))).
  { unfold sub_offset_impl. destruct (any_oob t sls (exts src)) eqn:Eo.
    - rewrite Esp. cbn [rmap]. f_equal. apply (wrap_u64_small t).
      (* required_span_size is a value of index_type *)
      destruct (span_defined t src Hv) as (sp' & E' & _). rewrite Esp in E'. injection E' as <-.
      pose proof (span_fits t src sp Hv Esp). lia.
    - pose proof (any_oob_false t sls _ _ Hlen Hvs Hr He Eo) as Hfi. pose proof (firsts_inb_inb _ _ Hfi) as Hin.
      rewrite (map_wrap_firsts t sls Hr (firsts_nonneg t sls _ _ Hvs Hr)).
      assert (Hin' : inbe (map first_of sls) (exts src)) by (apply (inbe_inb _ _ (spec_strides src)); auto).
      rewrite (offset_refines t src _ Hv Hin'). cbn [rmap]. unfold spec_offset, dims.
      rewrite firsts_dot by (unfold dim; rewrite (combine_length (exts src) (spec_strides src)), Hlen, Nat.min_id; exact Hls).
      f_equal. apply (wrap_u64_small t).
      pose proof (spec_range_inj t src _ _ Hv Hin' Hin') as [Hrg _]. unfold spec_offset, dims in Hrg.
      destruct (span_ge_span1 t src Hv (inbe_no_zero _ _ Hin')) as (sp' & E' & Hge). rewrite Esp in E'. injection E' as <-.
      pose proof (span_fits t src sp Hv Esp). unfold dims in Hge. lia. }
  assert (Hfinb : any_oob t sls (exts src) = false -> firsts_inb sls (combine (exts src) (spec_strides src))).
  { intros Eo. apply (any_oob_false t sls _ _ Hlen Hvs Hr He Eo). }
  unfold submap. rewrite Hls, Nat.eqb_refl. cbn [negb]. rewrite Eext. cbn [bind]. rewrite Estr, Eoff. cbn [bind].
  set (sd := sub_dims sls (combine (exts src) (spec_strides src))) in *.
  destruct src as [es|es|es ss|es ps|es ps]; cbn [sub_kind_ok] in Hk; try discriminate; cbn [exts spec_strides] in *.
  - destruct (pres_left sls) eqn:Epl.
    + cbn [rmap]. do 3 eexists. split; [reflexivity|]. split; [exact Esp|]. cbn [exts spec_strides]. repeat split; auto.
      apply pres_left_sound in Epl as [E0|(lead & last & rest & -> & Hf & Hlast & Hrest)].
      * assert (sd = []).
        { unfold sd. apply subrank0_all_idx in E0. apply sub_dims_all_idx. exact E0. }
        rewrite H. reflexivity.
      * unfold left_strides. apply left_preserved_strides; auto; lia.
    + do 3 eexists. split; [reflexivity|]. split; [exact Esp|]. cbn [exts spec_strides]. repeat split; auto.
  - destruct (pres_right sls) eqn:Epr.
    + cbn [rmap]. do 3 eexists. split; [reflexivity|]. split; [exact Esp|]. cbn [exts spec_strides]. repeat split; auto.
      apply pres_right_sound in Epr as [E0|(pre & first & fulls & -> & Hpre & Hfirst & Hfulls)].
      * assert (sd = []).
        { unfold sd. apply subrank0_all_idx in E0. apply sub_dims_all_idx. exact E0. }
        rewrite H. reflexivity.
      * apply right_preserved_strides; auto; lia.
    + do 3 eexists. split; [reflexivity|]. split; [exact Esp|]. cbn [exts spec_strides]. repeat split; auto.
  - do 3 eexists. split; [reflexivity|]. split; [exact Esp|]. cbn [exts spec_strides]. repeat split; auto.
Qed.

(* ================================================================================================ *)
(* a non-empty sub-mapping is a valid mapping; implementation-level aliasing, containment, chains    *)

(* slices and dimensions zipped, so that a permutation of the dimensions carries the slices along *)
Fixpoint sub_dims_z (lz : list (slice * dim)) : list dim :=
  match lz with
  | [] => []
  | (sl, (E, St)) :: lz' => match sub_dim sl E St with Some d => d :: sub_dims_z lz' | None => sub_dims_z lz' end
  end.
Lemma sub_dims_z_combine sls ds : length sls = length ds -> sub_dims_z (combine sls ds) = sub_dims sls ds.
Proof.
  revert ds; induction sls as [|sl sls IH]; intros [|[E St] ds] H; cbn [length] in H; try discriminate; [reflexivity|].
  cbn [combine sub_dims_z sub_dims]. rewrite IH by lia. reflexivity.
Qed.
Lemma sub_dims_z_perm l l' : Permutation l l' -> Permutation (sub_dims_z l) (sub_dims_z l').
Proof.
  induction 1 as [| [sl [E St]] l l' _ IH | [sl [E St]] [sl' [E' St']] l | l l' l'' _ IH1 _ IH2]; cbn [sub_dims_z].
  - constructor.
  - destruct (sub_dim sl E St); [constructor|]; exact IH.
  - destruct (sub_dim sl E St), (sub_dim sl' E' St'); try apply Permutation_refl; apply perm_swap.
  - eapply perm_trans; eauto.
Qed.

Definition valid_z (lz : list (slice * dim)) : Prop := Forall (fun p => valid_slice (fst p) (fst (snd p))) lz.

Lemma chain_sub_z : forall lz, chain (map snd lz) -> valid_z lz -> allpos (sub_dims_z lz) ->
  chain (sub_dims_z lz) /\ 1 <= span1 (sub_dims_z lz) <= span1 (map snd lz).
Proof.
  induction lz as [|[sl [E St]] lz IH]; cbn [map snd chain sub_dims_z span1]; intros Hc Hv Hp; [repeat split; lia|].
  destruct Hc as (HS & Hsp & Hc). inversion Hv as [|? ? Hv1 Hv2]; subst. cbn [fst snd] in Hv1.
  destruct sl as [i|b e| |o x s]; cbn [sub_dim valid_slice] in *.
  - destruct (IH Hc Hv2 Hp) as (Hc' & Hs1 & Hs2). repeat split; auto; nia.
  - inversion Hp as [|? ? [Hp1 Hp2] Hp']; subst. cbn [fst snd] in *. destruct (IH Hc Hv2 Hp') as (Hc' & Hs1 & Hs2).
    cbn [chain span1]. repeat split; auto; try nia.
  - inversion Hp as [|? ? [Hp1 Hp2] Hp']; subst. cbn [fst snd] in *. destruct (IH Hc Hv2 Hp') as (Hc' & Hs1 & Hs2).
    cbn [chain span1]. repeat split; auto; try nia.
  - inversion Hp as [|? ? [Hp1 Hp2] Hp']; subst. cbn [fst snd] in *. destruct (IH Hc Hv2 Hp') as (Hc' & Hs1 & Hs2).
    destruct Hv1 as (Ho & Hx & Hox & Hpos). unfold cdiv in *. destruct (0 <? cv x) eqn:Ex; [|lia]. apply Z.ltb_lt in Ex.
    assert (0 < cv s) by tauto.
    assert (Hq : ((cv x - 1) / cv s) * cv s <= cv x - 1) by (pose proof (Z.mul_div_le (cv x - 1) (cv s) ltac:(lia)); lia).
    cbn [step_of] in *. destruct (cv s <? cv x) eqn:Esx.
    + cbn [chain span1]. repeat split; auto; nia.
    + apply Z.ltb_ge in Esx. assert ((cv x - 1) / cv s = 0) by (apply Z.div_small; lia).
      cbn [chain span1]. repeat split; auto; nia.
Qed.

Lemma chainable_sub ds sls : chainable ds -> valid_slices sls ds -> allpos (sub_dims sls ds) ->
  chainable (sub_dims sls ds) /\ span1 (sub_dims sls ds) <= span1 ds.
Proof.
  intros (l & Hperm & Hc) Hv Hp. pose proof (valid_slices_length _ _ Hv) as Hl.
  destruct (perm_combine_lift l ds Hperm sls Hl) as (sls' & Hl' & Hpz).
  set (lz := combine sls' l) in *.
  assert (Hms : map snd lz = l) by (apply map_snd_combine; exact Hl').
  assert (Hvz : valid_z lz).
  { unfold valid_z. eapply Permutation_Forall; [apply Permutation_sym; exact Hpz|].
    clear - Hv. revert ds Hv. induction sls as [|sl sls IH]; intros [|[E St] ds] Hv; cbn [valid_slices combine] in *; try tauto; constructor; [cbn [fst snd]; tauto|apply IH; tauto]. }
  pose proof (sub_dims_z_perm _ _ Hpz) as Hps. rewrite (sub_dims_z_combine sls ds Hl) in Hps.
  assert (Hpz' : allpos (sub_dims_z lz)) by (eapply allpos_perm; eauto).
  destruct (chain_sub_z lz) as (Hc' & Hs1 & Hs2); [rewrite Hms; exact Hc|exact Hvz|exact Hpz'|].
  split.
  - exists (sub_dims_z lz). split; auto.
  - rewrite <- (span1_perm _ _ Hps). rewrite Hms in Hs2. rewrite (span1_perm _ _ Hperm) in Hs2. lia.
Qed.

(* a non-empty result: every lower bound is a valid index *)
Lemma nonempty_firsts_inb : forall sls ds, valid_slices sls ds -> allpos (sub_dims sls ds) -> firsts_inb sls ds.
Proof.
  induction sls as [|sl sls IH]; intros [|[E St] ds]; cbn [valid_slices firsts_inb sub_dims]; try tauto.
  intros [Hv1 Hv2] Hp. destruct sl as [i|b e| |o x s]; cbn [sub_dim first_of valid_slice] in *.
  - split; [lia|apply IH; auto].
  - inversion Hp as [|? ? [Hp1 _] Hp']; subst. cbn [fst] in Hp1. split; [lia|apply IH; auto].
  - inversion Hp as [|? ? [Hp1 _] Hp']; subst. cbn [fst] in Hp1. split; [lia|apply IH; auto].
  - inversion Hp as [|? ? [Hp1 _] Hp']; subst. cbn [fst] in Hp1. unfold cdiv in Hp1. destruct (0 <? cv x) eqn:Ex; [|lia].
    apply Z.ltb_lt in Ex. split; [lia|apply IH; auto].
Qed.

Lemma firsts_inb_no_oob t : forall sls es ss, length ss = length es -> firsts_inb sls (combine es ss) ->
  Forall (slice_rep t) sls -> any_oob t sls es = false.
Proof.
  induction sls as [|sl sls IH]; intros [|E es] [|St ss] Hl Hf Hr; cbn [length combine firsts_inb any_oob] in *; try discriminate; try tauto; try reflexivity.
  injection Hl as Hl. destruct Hf as [Hf1 Hf2]. inversion Hr as [|? ? Hr1 Hr2]; subst.
  apply orb_false_iff. split; [|apply (IH es ss); auto].
  assert (first_of sl <= imax t).
  { destruct sl as [i|b e| |o x s]; cbn [first_of slice_rep] in *; unfold cval_rep in *; try lia. pose proof (imax_pos t); lia. }
  rewrite wrap_small by lia. apply Z.eqb_neq. lia.
Qed.

Lemma map_fst_sub_pos sd : allpos sd -> Forall (fun e => 1 <= e) (map fst sd).
Proof. induction 1 as [|[e s] l [He _] _ IH]; cbn [map fst]; constructor; auto. Qed.

(* the result of a non-empty slicing is again a valid mapping *)
Theorem sub_valid_nonempty t src pat sls m' off :
  valid t src -> sub_kind_ok src = true ->
  valid_slices sls (dims src) -> Forall (slice_rep t) sls -> pat_ok t pat (exts src) ->
  Forall (fun d => snd d <= imax t) (sub_dims sls (dims src)) ->
  allpos (sub_dims sls (dims src)) ->
  submap t src pat sls = Ok (m', off) ->
  valid t m' /\ sub_kind_ok m' = true /\ dims m' = sub_dims sls (dims src) /\ off = sub_offset sls (dims src).
Proof.
  intros Hv Hk Hvs Hr Hp Hb Hpos Hsub.
  destruct (submap_refines t src pat sls Hv Hk Hvs Hr Hp Hb) as (m2 & off2 & sp & E & Esp & Hex & Hst & Hoff & Hfi & Hk2).
  rewrite E in Hsub. injection Hsub as <- <-.
  set (sd := sub_dims sls (dims src)) in *.
  assert (Hlen : length (spec_strides src) = length (exts src)).
  { destruct src as [es|es|es ss|es ps|es ps]; cbn [spec_strides exts valid sub_kind_ok] in *; try discriminate.
    - apply left_strides_go_length. - apply right_strides_length. - tauto. }
  pose proof (nonempty_firsts_inb sls (dims src) Hvs Hpos) as Hfirsts.
  assert (Hoob : any_oob t sls (exts src) = false) by (apply (firsts_inb_no_oob t sls (exts src) (spec_strides src)); auto).
  rewrite Hoob in Hoff.
  (* the source is non-empty, hence chainable *)
  pose proof (firsts_inb_inb _ _ Hfirsts) as Hin0. unfold dims in Hin0.
  assert (Hin0' : inbe (map first_of sls) (exts src)) by (apply (inbe_inb _ _ (spec_strides src)); auto).
  destruct (dims_chainable t src _ Hv Hin0') as (Hch & Hap & _ & _).
  destruct (chainable_sub (dims src) sls Hch Hvs Hpos) as [Hch' Hspan].
  destruct (span_ge_span1 t src Hv (inbe_no_zero _ _ Hin0')) as (sp' & Esp' & Hge). rewrite Esp in Esp'. injection Esp' as <-.
  pose proof (span_fits t src sp Hv Esp) as Hfit.
  assert (Hdims : dims m2 = sd).
  { unfold dims. rewrite Hex, Hst. clear. induction sd as [|[e s] l IH]; cbn [map fst snd combine]; [reflexivity|]. rewrite IH. reflexivity. }
  assert (Hpos1 : Forall (fun e => 1 <= e) (exts m2)) by (rewrite Hex; apply map_fst_sub_pos; exact Hpos).
  assert (Hrange : Forall (fun e => 0 <= e <= imax t) (exts m2)).
  { rewrite Hex. unfold sd, dims. apply (sub_exts_ok t sls (exts src) (spec_strides src) pat); auto.
    pose proof (valid_exts_in t src Hv) as X. exact X. }
  assert (Hvalid : valid t m2).
  { assert (Hprod : prodl (exts m2) <= span1 sd).
    { rewrite Hex. apply chainable_prod_le_span; auto. }
    unfold sd in *. clear sd.
    destruct m2 as [es'|es'|es' ss'|es' ps'|es' ps']; cbn [exts spec_strides] in *.
    - split; [exact Hrange|]. rewrite (prod1_eq_prodl es' Hpos1). lia.
    - split; [exact Hrange|]. rewrite (prod1_eq_prodl es' Hpos1). lia.
    - cbn [valid]. assert (Hl' : length ss' = length es') by (rewrite Hex, Hst, !map_length; reflexivity).
      repeat split; auto.
      + rewrite Hst. apply Forall_forall. intros x Hx. apply in_map_iff in Hx as ([e s] & <- & Hd). cbn [snd].
        rewrite Forall_forall in Hb. specialize (Hb _ Hd). unfold allpos in Hpos. rewrite Forall_forall in Hpos. specialize (Hpos _ Hd). cbn [fst snd] in *. lia.
      + intros _. unfold dims in *. cbn [exts spec_strides] in Hdims. rewrite Hdims. exact Hch'.
      + rewrite (max1_id_pos es' Hpos1). unfold dims in *. cbn [exts spec_strides] in Hdims. rewrite Hdims. lia.
    - discriminate.
    - discriminate. }
  repeat split; auto.
Qed.

(* ---- element identity, implementation level ---- *)
Lemma sub_nonempty_src : forall sls ds, valid_slices sls ds ->
  Forall (fun d => 1 <= fst d) (sub_dims sls ds) -> Forall (fun d => 1 <= fst d) ds.
Proof.
  induction sls as [|sl sls IH]; intros [|[E St] ds]; cbn [valid_slices sub_dims]; try tauto; try (intros; constructor; fail).
  intros [Hv1 Hv2] Hp. destruct sl as [i|b e| |o x s]; cbn [sub_dim valid_slice] in *.
  - constructor; [cbn [fst]; lia|apply IH; auto].
  - inversion Hp as [|? ? Hp1 Hp']; subst. cbn [fst] in *. constructor; [cbn [fst]; lia|apply IH; auto].
  - inversion Hp as [|? ? Hp1 Hp']; subst. cbn [fst] in *. constructor; [cbn [fst]; lia|apply IH; auto].
  - inversion Hp as [|? ? Hp1 Hp']; subst. cbn [fst] in *. unfold cdiv in Hp1. destruct (0 <? cv x) eqn:Ex; [|lia]. apply Z.ltb_lt in Ex.
    constructor; [cbn [fst]; lia|apply IH; auto].
Qed.
Lemma sub_dims_allpos : forall sls ds, allpos ds -> valid_slices sls ds ->
  Forall (fun d => 1 <= fst d) (sub_dims sls ds) -> allpos (sub_dims sls ds).
Proof.
  induction sls as [|sl sls IH]; intros [|[E St] ds] Hap; cbn [valid_slices sub_dims]; try tauto; try (intros; constructor).
  inversion Hap as [|? ? [HE HS] Hap']; subst. cbn [fst snd] in *.
  intros [Hv1 Hv2] Hp. destruct sl as [i|b e| |o x s]; cbn [sub_dim valid_slice] in *.
  - apply IH; auto.
  - inversion Hp as [|? ? Hp1 Hp']; subst. cbn [fst] in *. constructor; [cbn [fst snd]; lia|apply IH; auto].
  - inversion Hp as [|? ? Hp1 Hp']; subst. cbn [fst] in *. constructor; [cbn [fst snd]; lia|apply IH; auto].
  - inversion Hp as [|? ? Hp1 Hp']; subst. cbn [fst] in *. unfold cdiv in Hp1. destruct (0 <? cv x) eqn:Ex; [|lia]. apply Z.ltb_lt in Ex.
    assert (0 < cv s) by tauto. assert (0 < step_of (SStrided o x s)) by (cbn [step_of]; destruct (cv s <? cv x); lia).
    constructor; [cbn [fst snd]; unfold cdiv; rewrite (proj2 (Z.ltb_lt 0 (cv x)) Ex); split; [lia|nia]|apply IH; auto].
Qed.

Lemma nonempty_result_allpos t src sls : valid t src -> valid_slices sls (dims src) ->
  Forall (fun e => 1 <= e) (map fst (sub_dims sls (dims src))) -> allpos (sub_dims sls (dims src)).
Proof.
  intros Hv Hvs H1.
  assert (H1' : Forall (fun d => 1 <= fst d) (sub_dims sls (dims src))).
  { rewrite Forall_forall in *. intros d Hd. apply H1. apply in_map. exact Hd. }
  pose proof (sub_nonempty_src sls (dims src) Hvs H1') as Hsrc.
  pose proof (valid_exts_nonneg t src Hv) as Hnn.
  assert (Hlen : length sls = length (dims src)) by (apply valid_slices_length; exact Hvs).
  assert (Hz : has_zero (exts src) = false).
  { destruct (has_zero (exts src)) eqn:Ez; [|reflexivity]. apply has_zero_true in Ez.
    (* a zero extent would be a dimension with fst = 0 *)
    exfalso. unfold dims in Hsrc.
    assert (G : forall es ss, Forall (fun d : dim => 1 <= fst d) (combine es ss) -> (length es <= length ss)%nat -> In 0 es -> False).
    { induction es as [|e es IHe]; intros [|s0 ss] Hf Hl Hin; cbn [In length combine] in *; try tauto; try lia.
      inversion Hf as [|? ? Hf1 Hf2]; subst. cbn [fst] in Hf1. destruct Hin as [->|Hin]; [lia|]. apply (IHe ss); auto. lia. }
    apply (G (exts src) (spec_strides src)); auto.
    unfold dims, dim in Hlen. rewrite (combine_length (exts src) (spec_strides src)) in Hlen.
    destruct src as [es|es|es ss|es ps|es ps]; cbn [spec_strides exts valid] in *.
    - unfold left_strides. rewrite left_strides_go_length. lia.
    - rewrite right_strides_length. lia.
    - destruct Hv as (Hl & _). lia.
    - unfold left_strides. rewrite left_strides_go_length, lpad_exts_length. lia.
    - rewrite right_strides_length, rpad_exts_length. lia. }
  pose proof (has_zero_inbe_exists _ Hnn Hz) as Hin0.
  destruct (dims_chainable t src _ Hv Hin0) as (_ & Hap & _ & _).
  apply sub_dims_allpos; auto.
Qed.

Theorem sub_alias_impl t src pat sls m' off j :
  valid t src -> sub_kind_ok src = true ->
  valid_slices sls (dims src) -> Forall (slice_rep t) sls -> pat_ok t pat (exts src) ->
  Forall (fun d => snd d <= imax t) (sub_dims sls (dims src)) ->
  submap t src pat sls = Ok (m', off) -> inbe j (exts m') ->
  exists o', offset_impl t m' j = Ok o' /\ inbe (compose sls j) (exts src) /\
             offset_impl t src (compose sls j) = Ok (off + o').
Proof.
  intros Hv Hk Hvs Hr Hp Hb Hsub Hj.
  destruct (submap_refines t src pat sls Hv Hk Hvs Hr Hp Hb) as (m2 & off2 & sp & E & Esp & Hex & Hst & Hoff & Hfi & Hk2).
  rewrite E in Hsub. injection Hsub as <- <-.
  assert (Hpos : allpos (sub_dims sls (dims src))).
  { apply (nonempty_result_allpos t); auto. rewrite <- Hex. eapply inbe_all_pos; eauto. }
  destruct (sub_valid_nonempty t src pat sls m2 off2 Hv Hk Hvs Hr Hp Hb Hpos E) as (Hv2 & _ & Hd2 & Hoff2).
  exists (spec_offset m2 j). split; [apply offset_refines; auto|].
  assert (Hlen : length (spec_strides m2) = length (exts m2)) by (rewrite Hex, Hst, !map_length; reflexivity).
  assert (Hjin : inb j (sub_dims sls (dims src))).
  { rewrite <- Hd2. unfold dims. apply (inbe_inb _ _ (spec_strides m2)); auto. }
  destruct (alias sls (dims src) j Hvs Hjin) as [Hb' Heq].
  assert (Hlen0 : length (spec_strides src) = length (exts src)).
  { destruct src as [es|es|es ss|es ps|es ps]; cbn [spec_strides exts valid sub_kind_ok] in *; try discriminate.
    - apply left_strides_go_length. - apply right_strides_length. - tauto. }
  assert (Hc : inbe (compose sls j) (exts src)) by (apply (inbe_inb _ _ (spec_strides src)); auto).
  split; [exact Hc|]. rewrite (offset_refines t src _ Hv Hc). f_equal.
  unfold spec_offset. rewrite Hd2, Hoff2. lia.
Qed.

(* ---- containment, implementation level (C10) ---- *)
Theorem sub_contained_impl t src pat sls m' off sp :
  valid t src -> sub_kind_ok src = true ->
  valid_slices sls (dims src) -> Forall (slice_rep t) sls -> pat_ok t pat (exts src) ->
  Forall (fun d => snd d <= imax t) (sub_dims sls (dims src)) ->
  submap t src pat sls = Ok (m', off) -> span_impl t src = Ok sp ->
  0 <= off <= sp /\
  (has_zero (exts m') = false -> exists sp', span_impl t m' = Ok sp' /\ off + sp' <= sp).
Proof.
  intros Hv Hk Hvs Hr Hp Hb Hsub Hsp.
  destruct (submap_refines t src pat sls Hv Hk Hvs Hr Hp Hb) as (m2 & off2 & sp2 & E & Esp & Hex & Hst & Hoff & Hfi & Hk2).
  rewrite E in Hsub. injection Hsub as <- <-. rewrite Hsp in Esp. injection Esp as <-.
  destruct (span_defined t src Hv) as (sp0 & Esp0 & Hsp0). rewrite Hsp in Esp0. injection Esp0 as <-.
  assert (Hlen0 : length (spec_strides src) = length (exts src)).
  { destruct src as [es|es|es ss|es ps|es ps]; cbn [spec_strides exts valid sub_kind_ok] in *; try discriminate.
    - apply left_strides_go_length. - apply right_strides_length. - tauto. }
  split.
  - destruct (any_oob t sls (exts src)) eqn:Eo; [lia|].
    pose proof (Hfi eq_refl) as Hf. pose proof (firsts_inb_inb _ _ Hf) as Hin.
    assert (Hin' : inbe (map first_of sls) (exts src)) by (apply (inbe_inb _ _ (spec_strides src)); auto).
    destruct (dims_chainable t src _ Hv Hin') as (Hch & _ & _ & _).
    pose proof (offset_lt_span (dims src) sls Hch Hf) as Hlt.
    destruct (span_ge_span1 t src Hv (inbe_no_zero _ _ Hin')) as (sp' & E' & Hge). rewrite Hsp in E'. injection E' as <-. lia.
  - intros Hz.
    pose proof (valid_exts_nonneg t src Hv) as Hnn0.
    assert (Hnn2 : Forall (fun e => 0 <= e) (exts m2)).
    { rewrite Hex. destruct (sub_exts_ok t sls (exts src) (spec_strides src) pat) as [_ Hrg]; auto.
      - pose proof (valid_exts_in t src Hv) as X. exact X.
      - unfold dims. eapply Forall_impl; [|exact Hrg]. cbn. intros; lia. }
    pose proof (has_zero_false _ Hnn2 Hz) as Hpos1. rewrite Hex in Hpos1.
    pose proof (nonempty_result_allpos t src sls Hv Hvs Hpos1) as Hpos.
    destruct (sub_valid_nonempty t src pat sls m2 off2 Hv Hk Hvs Hr Hp Hb Hpos E) as (Hv2 & Hk2' & Hd2 & Hoff2).
    pose proof (nonempty_firsts_inb sls (dims src) Hvs Hpos) as Hfirsts.
    pose proof (firsts_inb_inb _ _ Hfirsts) as Hin0.
    assert (Hin0' : inbe (map first_of sls) (exts src)) by (apply (inbe_inb _ _ (spec_strides src)); auto).
    destruct (dims_chainable t src _ Hv Hin0') as (Hch & _ & _ & _).
    destruct (contained (dims src) sls Hch Hvs Hpos) as [Ho1 Ho2].
    destruct (span_ge_span1 t src Hv (inbe_no_zero _ _ Hin0')) as (sp' & E' & Hge). rewrite Hsp in E'. injection E' as <-.
    (* the sub-mapping is left / right / stride: its span is exact *)
    assert (Elrs : is_lrs m2 = true) by (destruct m2; cbn in *; auto; discriminate).
    pose proof (span_refines_lrs t m2 Hv2 Elrs) as Es2. rewrite Hz in Es2.
    eexists. split; [exact Es2|]. rewrite Hd2, Hoff2. lia.
Qed.

(* ---- chains of views, implementation level ---- *)
Lemma pat_ok_fill_all t pat vs : length vs = length pat -> pat_ok t pat (fill_all t pat vs).
Proof.
  revert vs; induction pat as [|p pat IH]; intros [|v vs] H; cbn [length] in H; try discriminate; [exact I|].
  injection H as H. destruct p as [s|]; cbn [fill_all pat_ok]; split; auto.
Qed.

(* the per-level hypotheses of a chain, stated on the specification dimensions *)
Fixpoint chain_hyps (t : ity) (levels : list (list slice)) (ds : list dim) : Prop :=
  match levels with
  | [] => True
  | sls :: rest =>
      valid_slices sls ds /\ Forall (slice_rep t) sls /\
      Forall (fun d => snd d <= imax t) (sub_dims sls ds) /\
      allpos (sub_dims sls ds) /\                              (* every intermediate view is non-empty *)
      chain_hyps t rest (sub_dims sls ds)
  end.

Lemma sub_pattern_ok t src pat sls m' off :
  valid t src -> sub_kind_ok src = true ->
  valid_slices sls (dims src) -> Forall (slice_rep t) sls -> pat_ok t pat (exts src) ->
  Forall (fun d => snd d <= imax t) (sub_dims sls (dims src)) ->
  submap t src pat sls = Ok (m', off) -> pat_ok t (sub_pattern sls pat) (exts m').
Proof.
  intros Hv Hk Hvs Hr Hp Hb Hsub.
  (* the result extents are fill_all of the result pattern *)
  unfold submap in Hsub. destruct (negb (Nat.eqb (length sls) (length (exts src)))); [discriminate|].
  unfold sub_exts in Hsub. destruct (sub_values t sls (exts src)) as [vs|] eqn:Evs; cbn [rmap bind] in Hsub; [|discriminate].
  assert (Hlv : length vs = length (sub_pattern sls pat)).
  { clear - Evs Hp. revert pat vs Evs Hp. generalize (exts src) as es.
    induction sls as [|sl sls IH]; intros [|E es] [|p pat] vs Evs Hp; cbn [sub_values sub_pattern pat_ok] in *; try (injection Evs as <-; reflexivity); try discriminate; try tauto.
    destruct (sub_value t sl E) as [[v|]|] eqn:Ev; cbn [bind] in Evs; try discriminate;
    destruct (sub_values t sls es) as [rest|] eqn:Er; cbn [bind] in Evs; try discriminate; injection Evs as <-; destruct Hp as [_ Hp];
    specialize (IH es pat rest Er Hp).
    - destruct sl as [i|b e| |o x s]; cbn [sub_value sub_static] in *; try discriminate.
      + destruct b, e; cbn [length]; f_equal; exact IH.
      + cbn [length]. f_equal. exact IH.
      + destruct x as [x|x], s as [s|s]; cbn [length]; f_equal; exact IH.
    - destruct sl as [i|b e| |o x s]; cbn [sub_value sub_static] in *; try exact IH.
      + destruct (subP t (wrap t (cv e)) (wrap t (cv b))); discriminate.
      + destruct (subP t (wrap t E) (wrap t 0)); discriminate.
      + destruct x as [x|x], s as [s|s]; cbn [cv] in Ev;
        repeat match type of Ev with
               | context [if ?c then _ else _] => destruct c
               | context [bind ?r _] => destruct r; cbn [bind] in Ev
               end; discriminate. }
  set (des := fill_all t (sub_pattern sls pat) vs) in *.
  assert (Hex : exts m' = des).
  { destruct src as [es|es|es ss|es ps|es ps]; cbn [sub_kind_ok] in Hk; try discriminate.
    - destruct (pres_left sls); [destruct (sub_offset_impl t (MLeft es) sls); cbn [rmap] in Hsub; [injection Hsub as <- _; reflexivity|discriminate]|].
      destruct (sub_strides t (MLeft es) 0 sls); cbn [bind] in Hsub; [|discriminate].
      destruct (sub_offset_impl t (MLeft es) sls); cbn [bind] in Hsub; [injection Hsub as <- _; reflexivity|discriminate].
    - destruct (pres_right sls); [destruct (sub_offset_impl t (MRight es) sls); cbn [rmap] in Hsub; [injection Hsub as <- _; reflexivity|discriminate]|].
      destruct (sub_strides t (MRight es) 0 sls); cbn [bind] in Hsub; [|discriminate].
      destruct (sub_offset_impl t (MRight es) sls); cbn [bind] in Hsub; [injection Hsub as <- _; reflexivity|discriminate].
    - destruct (sub_strides t (MStride es ss) 0 sls); cbn [bind] in Hsub; [|discriminate].
      destruct (sub_offset_impl t (MStride es ss) sls); cbn [bind] in Hsub; [injection Hsub as <- _; reflexivity|discriminate]. }
  rewrite Hex. apply pat_ok_fill_all. exact Hlv.
Qed.

Theorem chain_alias_impl t : forall levels src pat h,
  valid t src -> sub_kind_ok src = true -> pat_ok t pat (exts src) ->
  chain_hyps t levels (dims src) ->
  exists mf hf, subchain t src pat h levels = Ok (mf, hf) /\ valid t mf /\
    dims mf = chain_dims levels (dims src) /\ hf = h + chain_offset levels (dims src) /\
    forall j, inbe j (exts mf) ->
      exists o', offset_impl t mf j = Ok o' /\ inbe (chain_compose levels j) (exts src) /\
                 offset_impl t src (chain_compose levels j) = Ok (hf - h + o').
Proof.
  induction levels as [|sls rest IH]; intros src pat h Hv Hk Hp Hh; cbn [chain_hyps subchain chain_dims chain_offset chain_compose] in *.
  - exists src, h. repeat split; auto; try lia. intros j Hj. exists (spec_offset src j).
    rewrite (offset_refines t src j Hv Hj). repeat split; auto. f_equal. lia.
  - destruct Hh as (Hvs & Hr & Hb & Hpos & Hrest).
    destruct (submap_refines t src pat sls Hv Hk Hvs Hr Hp Hb) as (m1 & off1 & sp & E & _).
    destruct (sub_valid_nonempty t src pat sls m1 off1 Hv Hk Hvs Hr Hp Hb Hpos E) as (Hv1 & Hk1 & Hd1 & Hoff1).
    pose proof (sub_pattern_ok t src pat sls m1 off1 Hv Hk Hvs Hr Hp Hb E) as Hp1.
    rewrite E. cbn [bind fst snd]. rewrite <- Hd1 in Hrest.
    destruct (IH m1 (sub_pattern sls pat) (h + off1) Hv1 Hk1 Hp1 Hrest) as (mf & hf & Ec & Hvf & Hdf & Hhf & Hal).
    exists mf, hf. split; [exact Ec|]. split; [exact Hvf|]. split; [rewrite Hdf, Hd1; reflexivity|]. split; [rewrite Hhf, Hd1, Hoff1; lia|].
    intros j Hj. destruct (Hal j Hj) as (o' & Eo & Hin1 & Eo1). exists o'. split; [exact Eo|].
    destruct (sub_alias_impl t src pat sls m1 off1 _ Hv Hk Hvs Hr Hp Hb E Hin1) as (o1 & Eo1' & Hin0 & Eo0).
    split; [exact Hin0|]. rewrite Eo0. f_equal. rewrite Eo1' in Eo1. injection Eo1 as ->. lia.
Qed.

(* ---- C09: which layout the result has ---- *)
Definition kind_code_sub (m : mapping) : Z :=
  match m with MLeft _ => 0 | MRight _ => 1 | MStride _ _ => 2 | MLPad _ _ => 3 | MRPad _ _ => 4 end.

Theorem submap_layout t src pat sls m' off :
  submap t src pat sls = Ok (m', off) ->
  match src with
  | MLeft _ => kind_code_sub m' = (if pres_left sls then 0 else 2)
  | MRight _ => kind_code_sub m' = (if pres_right sls then 1 else 2)
  | MStride _ _ => kind_code_sub m' = 2
  | _ => False
  end.
Proof.
  unfold submap. destruct (negb (Nat.eqb (length sls) (length (exts src)))); [discriminate|].
  destruct (sub_exts t sls (exts src) pat) as [des|]; cbn [bind]; [|discriminate].
  destruct src as [es|es|es ss|es ps|es ps]; try discriminate.
  - destruct (pres_left sls).
    + destruct (sub_offset_impl t (MLeft es) sls); cbn [rmap]; [|discriminate]. intros H. injection H as <- _. reflexivity.
    + destruct (sub_strides t (MLeft es) 0 sls); cbn [bind]; [|discriminate].
      destruct (sub_offset_impl t (MLeft es) sls); cbn [bind]; [|discriminate]. intros H. injection H as <- _. reflexivity.
  - destruct (pres_right sls).
    + destruct (sub_offset_impl t (MRight es) sls); cbn [rmap]; [|discriminate]. intros H. injection H as <- _. reflexivity.
    + destruct (sub_strides t (MRight es) 0 sls); cbn [bind]; [|discriminate].
      destruct (sub_offset_impl t (MRight es) sls); cbn [bind]; [|discriminate]. intros H. injection H as <- _. reflexivity.
  - destruct (sub_strides t (MStride es ss) 0 sls); cbn [bind]; [|discriminate].
    destruct (sub_offset_impl t (MStride es ss) sls); cbn [bind]; [|discriminate]. intros H. injection H as <- _. reflexivity.
Qed.

(* ================================================================================================ *)
(* C14 for submdspan: on a valid source and valid slices nothing overflows — the sub-stride products  *)
(* are representable as a consequence of validity (no extra hypothesis)                               *)

(* per dimension: the stride is a value of index_type and stride * (extent - 1) is representable *)
Fixpoint dims_fit (t : ity) (ds : list dim) : Prop :=
  match ds with
  | [] => True
  | (E, St) :: ds' => 0 <= St <= imax t /\ St * (E - 1) <= imax t /\ dims_fit t ds'
  end.

Lemma sub_strides_fit_gen t : forall sls ds, dims_fit t ds -> valid_slices sls ds ->
  Forall (fun d => snd d <= imax t) (sub_dims sls ds).
Proof.
  induction sls as [|sl sls IH]; intros [|[E St] ds]; cbn [dims_fit valid_slices sub_dims]; try tauto; try (intros; constructor; fail).
  intros (HS & HSE & Hf) [Hv1 Hv2]. destruct sl as [i|b e| |o x s]; cbn [sub_dim valid_slice] in *.
  - apply IH; auto.
  - constructor; [cbn [snd]; lia|apply IH; auto].
  - constructor; [cbn [snd]; lia|apply IH; auto].
  - constructor; [|apply IH; auto]. cbn [snd step_of]. destruct (cv s <? cv x) eqn:Esx; [|lia].
    apply Z.ltb_lt in Esx. destruct Hv1 as (Ho & Hx & Hox & Hpos). pose proof (imax_pos t).
    destruct (Z_lt_le_dec 0 (cv x)) as [Hx0|Hx0]; [assert (0 < cv s) by (apply Hpos; lia); nia|nia].
Qed.

Lemma dims_fit_left t : forall es a, Forall (fun e => 0 <= e) es -> 0 <= a -> a * prod1 es <= imax t ->
  dims_fit t (combine es (left_strides_go a es)).
Proof.
  induction es as [|e es IH]; intros a He Ha Hb; cbn [left_strides_go combine dims_fit]; [exact I|].
  inversion He as [|? ? He0 He']; subst. rewrite prod1_cons in Hb. pose proof (prod1_pos es).
  assert (Hm : 1 <= max1 e /\ e <= max1 e) by (unfold max1; lia).
  assert (Hx : 1 <= max1 e * prod1 es) by nia.
  assert (e - 1 <= max1 e * prod1 es) by nia.
  assert (a <= a * (max1 e * prod1 es)) by nia.
  assert (a * (e - 1) <= a * (max1 e * prod1 es)) by nia.
  repeat split; try lia. apply IH; auto; nia.
Qed.

Lemma dims_fit_right t : forall es, Forall (fun e => 0 <= e) es -> prod1 es <= imax t ->
  dims_fit t (combine es (right_strides es)).
Proof.
  induction es as [|e es IH]; intros He Hb; cbn [right_strides combine dims_fit]; [exact I|].
  inversion He as [|? ? He0 He']; subst. rewrite prod1_cons in Hb. pose proof (prod1_pos es).
  pose proof (prodl_nonneg es He'). pose proof (prodl_le_prod1 es He').
  assert (Hm : 1 <= max1 e /\ e <= max1 e) by (unfold max1; lia).
  assert (prodl es <= max1 e * prod1 es) by nia.
  assert (prodl es * (e - 1) <= prod1 es * max1 e) by nia.
  repeat split; try lia. apply IH; auto. nia.
Qed.

Lemma dims_fit_stride t : forall es ss, length ss = length es ->
  Forall (fun e => 0 <= e) es -> Forall (fun s => 0 <= s <= imax t) ss ->
  span1 (combine (map max1 es) ss) <= imax t -> dims_fit t (combine es ss).
Proof.
  induction es as [|e es IH]; intros [|s ss] Hl He Hs Hb; cbn [length] in Hl; try discriminate; cbn [combine dims_fit]; [exact I|].
  injection Hl as Hl. inversion He as [|? ? He0 He']; subst. inversion Hs as [|? ? Hs0 Hs']; subst.
  cbn [map combine span1] in Hb.
  assert (Hs'' : Forall (fun s => 0 <= s) ss) by (eapply Forall_impl; [|exact Hs']; cbn; intros; lia).
  pose proof (span1_max1_ge1 es ss Hs'').
  assert (Hm : 1 <= max1 e /\ e <= max1 e) by (unfold max1; lia).
  assert (0 <= (max1 e - 1) * s) by nia.
  assert (s * (e - 1) <= (max1 e - 1) * s) by nia.
  repeat split; try lia. apply IH; auto. lia.
Qed.

Lemma valid_dims_fit t src : valid t src -> sub_kind_ok src = true -> dims_fit t (dims src).
Proof.
  intros Hv Hk. unfold dims. destruct src as [es|es|es ss|es ps|es ps]; cbn [sub_kind_ok exts spec_strides valid] in *; try discriminate.
  - pose proof (admissible_nonneg t es Hv). destruct Hv as [_ Hb]. apply dims_fit_left; auto; lia.
  - pose proof (admissible_nonneg t es Hv). destruct Hv as [_ Hb]. apply dims_fit_right; auto.
  - destruct Hv as (Hl & He & Hs & _ & Hb). apply dims_fit_stride; auto.
    + eapply Forall_impl; [|exact He]. cbn; intros; lia.
    + eapply Forall_impl; [|exact Hs]. cbn; intros; lia.
Qed.

Theorem sub_strides_fit t src sls : valid t src -> sub_kind_ok src = true -> valid_slices sls (dims src) ->
  Forall (fun d => snd d <= imax t) (sub_dims sls (dims src)).
Proof. intros Hv Hk Hvs. apply sub_strides_fit_gen; auto. apply valid_dims_fit; auto. Qed.

(* submdspan_mapping executes no undefined behaviour on a valid source with valid, representable slices *)
Theorem submap_defined t src pat sls :
  valid t src -> sub_kind_ok src = true ->
  valid_slices sls (dims src) -> Forall (slice_rep t) sls -> pat_ok t pat (exts src) ->
  exists m' off, submap t src pat sls = Ok (m', off) /\ 0 <= off.
Proof.
  intros Hv Hk Hvs Hr Hp.
  destruct (submap_refines t src pat sls Hv Hk Hvs Hr Hp (sub_strides_fit t src sls Hv Hk Hvs)) as (m' & off & sp & E & Esp & _ & _ & _ & _ & _).
  exists m', off. split; [exact E|].
  destruct (sub_contained_impl t src pat sls m' off sp Hv Hk Hvs Hr Hp (sub_strides_fit t src sls Hv Hk Hvs) E Esp) as [H _]. lia.
Qed.
