(* C11 — mdspan construction, conversion, copy, move, assign and swap preserve the view. *)
From Coq Require Import ZArith List.
From MdspanVerif Require Import MachInt ListAux Layouts LayoutSpec Extents ExtentsProofs Convert ConvertProofs View ViewProofs.
Import ListNotations.
Local Open Scope Z_scope.

(* construction from a handle plus the dynamic or all extents: exactly the supplied handle, the
   layout's mapping of the extents those values denote (C06), a default accessor *)
Theorem C11_ctor_components : forall (t : ity) (pat : pattern) (mk : list Z -> mapping) (h : Z) (all : bool) (vals : list Z),
  (if all then length vals = length pat else length vals = ndyn pat) ->
  exists e, ctor_from_values t pat mk h all vals = Ok e /\
    v_handle (en_view e) = h /\ v_acc (en_view e) = AccDefault /\ en_t e = t /\ en_pat e = pat /\
    v_map (en_view e) = mk (if all then fill_all t pat vals else fill t pat (map (wrap t) vals)).
Proof. exact ctor_components. Qed.
Print Assumptions C11_ctor_components.

(* converting construction: handle and accessor carried over, mapping converted (C08); the result
   designates the same elements *)
Theorem C11_convert_components : forall (e : entry) (tgt : mtype) (m' : mapping),
  valid (en_t e) (v_map (en_view e)) -> valid (mt_t tgt) m' ->
  kind_of m' = mt_kind tgt -> conv_exists (v_map (en_view e)) (mt_kind tgt) = true ->
  exts m' = exts (v_map (en_view e)) -> spec_strides m' = spec_strides (v_map (en_view e)) ->
  conv_pre (mt_t tgt) (mt_pat tgt) (exts (v_map (en_view e))) -> pad_ok tgt m' ->
  exists e', convert_entry e tgt = Ok e' /\ same_view e' e /\ v_map (en_view e') = m' /\ en_t e' = mt_t tgt.
Proof. exact convert_components. Qed.
Print Assumptions C11_convert_components.

(* assignment makes the target equal to the source and touches nothing else *)
Theorem C11_assign_eq : forall (p : list entry) (i j : nat) (p' : list entry),
  vstep p (OAssign i j) = Ok p' ->
  nth_error p' i = nth_error p j /\ length p' = length p /\ (forall k, k <> i -> nth_error p' k = nth_error p k).
Proof. exact assign_eq. Qed.
Print Assumptions C11_assign_eq.

(* swap exchanges exactly the two views (all three components at once) and is an involution *)
Theorem C11_swap_exchanges : forall (p : list entry) (i j : nat) (p' : list entry), i <> j ->
  vstep p (OSwap i j) = Ok p' ->
  nth_error p' i = nth_error p j /\ nth_error p' j = nth_error p i /\ length p' = length p /\
  (forall k, k <> i -> k <> j -> nth_error p' k = nth_error p k).
Proof. exact swap_exchanges. Qed.
Print Assumptions C11_swap_exchanges.

Theorem C11_swap_involutive : forall (p : list entry) (i j : nat) (p1 p2 : list entry), i <> j ->
  vstep p (OSwap i j) = Ok p1 -> vstep p1 (OSwap i j) = Ok p2 -> p2 = p.
Proof. exact swap_involutive. Qed.
Print Assumptions C11_swap_involutive.

(* for every sequence of copy / move / assign / swap / convert operations, every view in the pool
   designates, for every multi-index, the same element as one of the views the pool started with.
   None of the operations reads or writes elements: the machine has no heap component. *)
Theorem C11_designation_invariant : forall (ops : list vop) (init p pf : list entry),
  derived init p -> all_conv_ok p ops -> vrun p ops = Ok pf -> derived init pf.
Proof. exact designation_invariant. Qed.
Print Assumptions C11_designation_invariant.

Theorem C11_same_view_same_elements : forall (a b : entry) (idx : list Z) (f : form),
  valid (en_t a) (v_map (en_view a)) -> valid (en_t b) (v_map (en_view b)) -> same_view a b ->
  inbe idx (exts (v_map (en_view a))) ->
  access (en_t a) f (en_view a) idx = access (en_t b) f (en_view b) idx.
Proof. exact same_view_same_elements. Qed.
Print Assumptions C11_same_view_same_elements.
