(* C01 — layout offsets are in range and collision-free for every valid mapping.
   Statements only; each is closed by `exact` of a lemma proved elsewhere. *)
From Coq Require Import ZArith List.
From MdspanVerif Require Import MachInt ListAux Layouts LayoutSpec LayoutProofs LayoutTheorems.
Local Open Scope Z_scope.

(* every in-bounds multi-index of a valid mapping (any of the five layouts, any index type, any rank)
   is mapped, without undefined behaviour, to an offset in [0, required_span_size()) *)
Theorem C01_range : forall (t : ity) (m : mapping) (idx : list Z),
  valid t m -> inbe idx (exts m) ->
  exists o sp, offset_impl t m idx = Ok o /\ span_impl t m = Ok sp /\ 0 <= o < sp.
Proof. exact range_thm. Qed.
Print Assumptions C01_range.

(* two multi-indices that are mapped to the same offset are the same multi-index *)
Theorem C01_injective : forall (t : ity) (m : mapping) (i1 i2 : list Z) (o : Z),
  valid t m -> inbe i1 (exts m) -> inbe i2 (exts m) ->
  offset_impl t m i1 = Ok o -> offset_impl t m i2 = Ok o -> i1 = i2.
Proof. exact injective_thm. Qed.
Print Assumptions C01_injective.

(* hence a buffer of required_span_size() elements is sufficient: every element lies inside it *)
Theorem C01_buffer_suffices : forall (t : ity) (m : mapping) (idx : list Z) (buf : list Z),
  valid t m -> inbe idx (exts m) -> span_impl t m = Ok (Z.of_nat (length buf)) ->
  exists o, offset_impl t m idx = Ok o /\ nth_error buf (Z.to_nat o) <> None.
Proof. exact buffer_suffices_thm. Qed.
Print Assumptions C01_buffer_suffices.
