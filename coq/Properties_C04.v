(* C04 — submdspan views alias exactly the selected elements of their source. *)
From Coq Require Import ZArith List.
From MdspanVerif Require Import MachInt ListAux Layouts LayoutSpec Extents Submdspan SubSpec SubProofs AccessorLaw.
Import ListNotations.
Local Open Scope Z_scope.

(* the view has one dimension per non-index slice with extent end-begin / the source extent /
   ceil(extent/stride) (0 for extent 0), and stride = source stride * step, where the step of a
   strided_slice is its stride when it selects more than one element and 1 otherwise *)
Theorem C04_result_dims : forall (sl : slice) (E St : Z),
  sub_dim sl E St =
    match sl with
    | SIdx _ => None
    | SRange b e => Some (cv e - cv b, St * 1)
    | SFull => Some (E, St * 1)
    | SStrided o x s => Some ((if 0 <? cv x then 1 + (cv x - 1) / cv s else 0), St * (if cv s <? cv x then cv s else 1))
    end.
Proof. intros sl E St. destruct sl; reflexivity. Qed.
Print Assumptions C04_result_dims.

(* specification level, arbitrary strided source, all ranks and slice kinds: element (j0..jm) of the
   result is the source element whose k-th index is first_k + j*step_k (and that index is in bounds) *)
Theorem C04_alias_spec : forall (sls : list slice) (ds : list dim) (j : list Z),
  valid_slices sls ds -> inb j (sub_dims sls ds) ->
  inb (compose sls j) ds /\ sub_offset sls ds + dot j (sub_dims sls ds) = dot (compose sls j) ds.
Proof. exact alias. Qed.
Print Assumptions C04_alias_spec.

(* the implementation computes exactly these extents, strides and offset (layout_left, layout_right and
   layout_stride sources; preserved or layout_stride result) ... *)
Theorem C04_refines : forall (t : ity) (src : mapping) (pat : pattern) (sls : list slice),
  valid t src -> sub_kind_ok src = true ->
  valid_slices sls (dims src) -> Forall (slice_rep t) sls -> pat_ok t pat (exts src) ->
  Forall (fun d => snd d <= imax t) (sub_dims sls (dims src)) ->
  exists m' off sp,
    submap t src pat sls = Ok (m', off) /\ span_impl t src = Ok sp /\
    exts m' = map fst (sub_dims sls (dims src)) /\
    spec_strides m' = map snd (sub_dims sls (dims src)) /\
    off = (if any_oob t sls (exts src) then sp else sub_offset sls (dims src)) /\
    (any_oob t sls (exts src) = false -> firsts_inb sls (dims src)) /\
    sub_kind_ok m' = true.
Proof. exact submap_refines. Qed.
Print Assumptions C04_refines.

(* ... so that, on the implementation model with machine integers, element j of the view is the very
   same address as element compose(j) of the source: handle' + offset'(j) = handle + offset(compose j) *)
Theorem C04_alias : forall (t : ity) (src : mapping) (pat : pattern) (sls : list slice) (m' : mapping) (off : Z) (j : list Z),
  valid t src -> sub_kind_ok src = true ->
  valid_slices sls (dims src) -> Forall (slice_rep t) sls -> pat_ok t pat (exts src) ->
  Forall (fun d => snd d <= imax t) (sub_dims sls (dims src)) ->
  submap t src pat sls = Ok (m', off) -> inbe j (exts m') ->
  exists o', offset_impl t m' j = Ok o' /\ inbe (compose sls j) (exts src) /\
             offset_impl t src (compose sls j) = Ok (off + o').
Proof. exact sub_alias_impl. Qed.
Print Assumptions C04_alias.

(* views of views to any depth: the innermost view's element j is the original source's element
   chain_compose(j); the data handle is the sum of the accessor offsets along the chain *)
Theorem C04_chain_spec : forall (levels : list (list slice)) (ds : list dim) (j : list Z),
  chain_valid levels ds -> inb j (chain_dims levels ds) ->
  inb (chain_compose levels j) ds /\
  chain_offset levels ds + dot j (chain_dims levels ds) = dot (chain_compose levels j) ds.
Proof. exact alias_chain. Qed.
Print Assumptions C04_chain_spec.

Theorem C04_chain : forall (t : ity) (levels : list (list slice)) (src : mapping) (pat : pattern) (h : Z),
  valid t src -> sub_kind_ok src = true -> pat_ok t pat (exts src) ->
  chain_hyps t levels (dims src) ->
  exists mf hf, subchain t src pat h levels = Ok (mf, hf) /\ valid t mf /\
    dims mf = chain_dims levels (dims src) /\ hf = h + chain_offset levels (dims src) /\
    forall j, inbe j (exts mf) ->
      exists o', offset_impl t mf j = Ok o' /\ inbe (chain_compose levels j) (exts src) /\
                 offset_impl t src (chain_compose levels j) = Ok (hf - h + o').
Proof. exact chain_alias_impl. Qed.
Print Assumptions C04_chain.

(* a non-empty result is again a valid mapping (so everything proved about mappings applies to views of views) *)
Theorem C04_result_valid : forall (t : ity) (src : mapping) (pat : pattern) (sls : list slice) (m' : mapping) (off : Z),
  valid t src -> sub_kind_ok src = true ->
  valid_slices sls (dims src) -> Forall (slice_rep t) sls -> pat_ok t pat (exts src) ->
  Forall (fun d => snd d <= imax t) (sub_dims sls (dims src)) ->
  allpos (sub_dims sls (dims src)) ->
  submap t src pat sls = Ok (m', off) ->
  valid t m' /\ sub_kind_ok m' = true /\ dims m' = sub_dims sls (dims src) /\ off = sub_offset sls (dims src).
Proof. exact sub_valid_nonempty. Qed.
Print Assumptions C04_result_valid.

(* "the new data handle is obtained only through the source accessor's offset() and offset_policy": for an
   ARBITRARY accessor - any handle types, any access / offset functions - the single law the accessor
   requirements give, offset_policy.access(a.offset(p, i), j) = a.access(p, i + j), suffices for the view
   (a.offset(p, off), sub-mapping) to alias exactly the selected source elements *)
Theorem C04_any_accessor : forall (H H' Obj : Type) (access : H -> Z -> Obj) (offset : H -> Z -> H') (access' : H' -> Z -> Obj),
  (forall p i j, 0 <= i -> 0 <= j -> access' (offset p i) j = access p (i + j)) ->
  forall (t : ity) (src : mapping) (pat : pattern) (sls : list slice) (m' : mapping) (off : Z) (j : list Z) (p : H),
  valid t src -> sub_kind_ok src = true ->
  valid_slices sls (dims src) -> Forall (slice_rep t) sls -> pat_ok t pat (exts src) ->
  Forall (fun d => snd d <= imax t) (sub_dims sls (dims src)) ->
  submap t src pat sls = Ok (m', off) -> inbe j (exts m') ->
  exists o' os, offset_impl t m' j = Ok o' /\ inbe (compose sls j) (exts src) /\
                offset_impl t src (compose sls j) = Ok os /\
                access' (offset p off) o' = access p os.
Proof. exact sub_alias_accessor. Qed.
Print Assumptions C04_any_accessor.

(* the hypothesis is satisfiable by an accessor whose offset is not pointer addition (interleaved storage),
   and on that accessor a handle formed as p + off instead of offset(p, off) designates another object *)
Theorem C04_interleaved_accessor_law : forall p i j, 0 <= i -> 0 <= j -> il_access (il_offset p i) j = il_access p (i + j).
Proof. exact interleaved_law. Qed.
Print Assumptions C04_interleaved_accessor_law.

Theorem C04_plain_pointer_add_refuted : exists p off o, 0 <= off /\ 0 <= o /\ il_access (p + off) o <> il_access p (off + o).
Proof. exact plain_add_refuted. Qed.
Print Assumptions C04_plain_pointer_add_refuted.
