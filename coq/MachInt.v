(* MachInt.v — machine integers of the C++ implementation: the eight index types, integer promotion,
   usual arithmetic conversions, modular narrowing, and arithmetic whose signed overflow / zero divisor
   is an explicit UB result.  Definitions are executable (extracted and run against the code). *)
From Coq Require Import ZArith List Lia Bool.
Import ListNotations.
Local Open Scope Z_scope.
Ltac Zify.zify_post_hook ::= Z.div_mod_to_equations.

Inductive ity := I8 | U8 | I16 | U16 | I32 | U32 | I64 | U64.

Definition ity_eqb (a b : ity) : bool :=
  match a, b with
  | I8,I8 | U8,U8 | I16,I16 | U16,U16 | I32,I32 | U32,U32 | I64,I64 | U64,U64 => true
  | _, _ => false
  end.

Definition bits t := match t with I8|U8 => 8 | I16|U16 => 16 | I32|U32 => 32 | I64|U64 => 64 end.
Definition sgn t := match t with I8|I16|I32|I64 => true | _ => false end.
Definition imin t := if sgn t then - 2^(bits t - 1) else 0.
Definition imax t := if sgn t then 2^(bits t - 1) - 1 else 2^(bits t) - 1.
Definition in_range t (z:Z) : bool := (imin t <=? z) && (z <=? imax t).

(* conversion to t: modular (what GCC/Clang do, and C++20 mandates); never UB *)
Definition wrap t z :=
  if sgn t then (z + 2^(bits t - 1)) mod 2^(bits t) - 2^(bits t - 1) else z mod 2^(bits t).

(* integer promotion: everything narrower than int becomes int *)
Definition promote t := match t with I8|U8|I16|U16 => I32 | _ => t end.

(* usual arithmetic conversions on two *promoted* types (LP64: long = 64 bit) *)
Definition uac_p a b :=
  match a, b with
  | U64, _ | _, U64 => U64
  | I64, _ | _, I64 => I64
  | U32, _ | _, U32 => U32
  | _, _ => I32
  end.
Definition uac a b := uac_p (promote a) (promote b).
(* std::common_type_t<A,B> for integer types: A itself when A = B, else the type of a mixed expression *)
Definition common a b := if ity_eqb a b then a else uac a b.
(* std::make_unsigned_t *)
Definition unsigned_of t := match t with I8|U8 => U8 | I16|U16 => U16 | I32|U32 => U32 | I64|U64 => U64 end.

Inductive res (A:Type) := Ok (a:A) | UB.
Arguments Ok {A}. Arguments UB {A}.
Definition bind {A B} (r : res A) (f : A -> res B) := match r with Ok a => f a | UB => UB end.
Definition rmap {A B} (f : A -> B) (r : res A) : res B := match r with Ok a => Ok (f a) | UB => UB end.

Fixpoint seq_res {A} (l : list (res A)) : res (list A) :=
  match l with
  | [] => Ok []
  | r :: l' => bind r (fun a => rmap (cons a) (seq_res l'))
  end.

(* result of an arithmetic operation evaluated in (already promoted) type t with mathematical result r *)
Definition arith t (r : Z) : res Z :=
  if sgn t then (if in_range t r then Ok r else UB) else Ok (wrap t r).

(* a op b with both operands of type T (or its promotion): evaluated in promote T *)
Definition mulP t a b := arith (promote t) (a * b).
Definition addP t a b := arith (promote t) (a + b).
Definition subP t a b := arith (promote t) (a - b).
Definition divP t a b := if b =? 0 then UB else
  (* C++ division truncates toward zero; operands here are converted to promote t first *)
  arith (promote t) (Z.quot a b).
Definition remP t a b := if b =? 0 then UB else arith (promote t) (Z.rem a b).
(* `x op= y` on a variable of type T:  x = (T)(P(x) op P(y)) *)
Definition mul_assign t a b := rmap (wrap t) (mulP t a b).
Definition add_assign t a b := rmap (wrap t) (addP t a b).

(* ------------------------------------------------------------------------------------------------ *)
(* range facts                                                                                       *)

Lemma imax_pos t : 0 < imax t.
Proof. destruct t; cbv; reflexivity. Qed.
Lemma imin_le0 t : imin t <= 0.
Proof. destruct t; cbv; congruence. Qed.
Lemma imax_promote t : imax t <= imax (promote t).
Proof. destruct t; cbv; congruence. Qed.
Lemma imin_promote t : imin (promote t) <= imin t.
Proof. destruct t; cbv; congruence. Qed.
Lemma imax_le_u64 t : imax t <= imax U64.
Proof. destruct t; cbv; congruence. Qed.

Lemma in_range_iff t z : in_range t z = true <-> imin t <= z <= imax t.
Proof. unfold in_range. rewrite andb_true_iff, !Z.leb_le. tauto. Qed.

Lemma in_range_nonneg t z : 0 <= z <= imax t -> in_range t z = true.
Proof. intros H. apply in_range_iff. pose proof (imin_le0 t). lia. Qed.

Lemma wrap_id t z : in_range t z = true -> wrap t z = z.
Proof.
  rewrite in_range_iff. unfold wrap, imin, imax. destruct t; cbn [sgn bits]; intros H;
  change (2^(8-1)) with 128 in *; change (2^8) with 256 in *;
  change (2^(16-1)) with 32768 in *; change (2^16) with 65536 in *;
  change (2^(32-1)) with 2147483648 in *; change (2^32) with 4294967296 in *;
  change (2^(64-1)) with 9223372036854775808 in *; change (2^64) with 18446744073709551616 in *; lia.
Qed.

Lemma wrap_small t z : 0 <= z <= imax t -> wrap t z = z.
Proof. intros H. apply wrap_id, in_range_nonneg, H. Qed.

Lemma wrap_in_range t z : in_range t (wrap t z) = true.
Proof.
  apply in_range_iff. unfold wrap, imin, imax. destruct t; cbn [sgn bits];
  change (2^(8-1)) with 128 in *; change (2^8) with 256 in *;
  change (2^(16-1)) with 32768 in *; change (2^16) with 65536 in *;
  change (2^(32-1)) with 2147483648 in *; change (2^32) with 4294967296 in *;
  change (2^(64-1)) with 9223372036854775808 in *; change (2^64) with 18446744073709551616 in *; lia.
Qed.

Lemma promote_range t z : in_range t z = true -> in_range (promote t) z = true.
Proof.
  rewrite !in_range_iff. pose proof (imax_promote t). pose proof (imin_promote t). lia.
Qed.

Lemma arith_ok t z : in_range t z = true -> arith (promote t) z = Ok z.
Proof.
  intros Hr. pose proof (promote_range t z Hr) as Hp. unfold arith.
  destruct (sgn (promote t)). now rewrite Hp. f_equal. apply wrap_id; auto.
Qed.

Lemma arithP_small t z : 0 <= z <= imax t -> arith (promote t) z = Ok z.
Proof. intros H. apply arith_ok, in_range_nonneg, H. Qed.

Lemma mulP_small t a b : 0 <= a * b <= imax t -> mulP t a b = Ok (a * b).
Proof. apply arithP_small. Qed.
Lemma addP_small t a b : 0 <= a + b <= imax t -> addP t a b = Ok (a + b).
Proof. apply arithP_small. Qed.
Lemma subP_small t a b : 0 <= a - b <= imax t -> subP t a b = Ok (a - b).
Proof. apply arithP_small. Qed.
Lemma mul_assign_small t a b : 0 <= a * b <= imax t -> mul_assign t a b = Ok (a * b).
Proof. intros H. unfold mul_assign. rewrite mulP_small by exact H. cbn [rmap]. f_equal. apply wrap_small, H. Qed.
Lemma add_assign_small t a b : 0 <= a + b <= imax t -> add_assign t a b = Ok (a + b).
Proof. intros H. unfold add_assign. rewrite addP_small by exact H. cbn [rmap]. f_equal. apply wrap_small, H. Qed.
Lemma divP_small t a b : 0 <= a <= imax t -> 0 < b -> divP t a b = Ok (a / b).
Proof.
  intros Ha Hb. unfold divP. destruct (b =? 0) eqn:E; [apply Z.eqb_eq in E; lia|].
  rewrite Z.quot_div_nonneg by lia. apply arithP_small.
  split. apply Z.div_pos; lia. assert (a / b <= a) by (apply Z.div_le_upper_bound; nia). lia.
Qed.

Lemma remP_small t a b : 0 <= a <= imax t -> 0 < b -> remP t a b = Ok (a mod b).
Proof.
  intros Ha Hb. unfold remP. destruct (b =? 0) eqn:E; [apply Z.eqb_eq in E; lia|].
  rewrite Z.rem_mod_nonneg by lia. apply arithP_small.
  pose proof (Z.mod_pos_bound a b Hb). assert (a mod b <= a) by (apply Z.mod_le; lia). lia.
Qed.

(* size_t round trip: T -> size_t -> T is the identity on representable non-negative values *)
Lemma wrap_u64_small t z : 0 <= z <= imax t -> wrap U64 z = z.
Proof. intros H. apply wrap_small. pose proof (imax_le_u64 t). lia. Qed.

Lemma bind_ok {A B} (r : res A) (f : A -> res B) a : r = Ok a -> bind r f = f a.
Proof. intros ->. reflexivity. Qed.
