(* C07 — is_unique / is_exhaustive / is_strided and their always-variants never overstate. *)
From Coq Require Import ZArith List.
From MdspanVerif Require Import MachInt ListAux Layouts LayoutSpec LayoutProofs LayoutTheorems FlagProofs View.
Import ListNotations.
Local Open Scope Z_scope.

(* whenever is_exhaustive() is true, every offset in [0, required_span_size()) is produced by some
   in-bounds multi-index (empty index spaces included) *)
Theorem C07_exhaustive_sound : forall (t : ity) (m : mapping) (sp : Z),
  valid t m -> span_impl t m = Ok sp -> is_exhaustive_impl t m = Ok true -> covers m sp.
Proof. exact exhaustive_sound_thm. Qed.
Print Assumptions C07_exhaustive_sound.

(* for a non-empty index space is_exhaustive() is true exactly when the mapping covers its span *)
Theorem C07_exhaustive_exact : forall (t : ity) (m : mapping) (sp : Z),
  valid t m -> has_zero (exts m) = false -> span_impl t m = Ok sp ->
  exists b, is_exhaustive_impl t m = Ok b /\ (b = true <-> covers m sp).
Proof. exact exhaustive_exact_thm. Qed.
Print Assumptions C07_exhaustive_exact.

(* covering is a counting fact: the index space has exactly required_span_size() points *)
Theorem C07_covers_iff_count : forall (t : ity) (m : mapping) (sp : Z),
  valid t m -> has_zero (exts m) = false -> span1 (dims m) <= sp ->
  (covers m sp <-> prodl (exts m) = sp).
Proof. exact covers_iff_count. Qed.
Print Assumptions C07_covers_iff_count.

(* whenever is_strided() is true the offset is the sum of i_r * stride(r) *)
Theorem C07_strided : forall (t : ity) (m : mapping) (idx : list Z),
  valid t m -> inbe idx (exts m) -> is_strided_impl m = true ->
  exists ss, length ss = length (exts m) /\
    (forall r, (r < length (exts m))%nat -> stride_impl t m r = Ok (nth r ss 0)) /\
    offset_impl t m idx = Ok (dot idx (combine (exts m) ss)).
Proof. exact strided_thm. Qed.
Print Assumptions C07_strided.

(* whenever is_unique() is true the mapping is injective *)
Theorem C07_unique : forall (t : ity) (m : mapping) (i1 i2 : list Z) (o : Z),
  valid t m -> is_unique_impl m = true -> inbe i1 (exts m) -> inbe i2 (exts m) ->
  offset_impl t m i1 = Ok o -> offset_impl t m i2 = Ok o -> i1 = i2.
Proof. intros t m i1 i2 o Hv _. exact (injective_thm t m i1 i2 o Hv). Qed.
Print Assumptions C07_unique.

(* is_always_exhaustive() of a padded mapping type implies is_exhaustive() of each of its instances *)
Theorem C07_always_exhaustive_padded : forall (t : ity) (left : bool) (rank : nat) (pv se : option Z) (m : mapping),
  pad_is_always_exhaustive rank pv se = true -> pad_instance t left rank pv se m ->
  is_exhaustive_impl t m = Ok true.
Proof. exact always_exhaustive_padded_thm. Qed.
Print Assumptions C07_always_exhaustive_padded.

(* layout_left / layout_right are always exhaustive (layout_stride claims nothing); every mapping is
   always unique and always strided, and every instance is *)
Theorem C07_always_flags : forall (t : ity) (m : mapping),
  (match m with MLeft _ | MRight _ => is_exhaustive_impl t m = Ok true | _ => True end) /\
  is_unique_impl m = true /\ is_strided_impl m = true.
Proof. exact always_flags_thm. Qed.
Print Assumptions C07_always_flags.

(* mdspan reports exactly its mapping's answers *)
Theorem C07_forward : forall (t : ity) (v : view),
  view_is_unique v = is_unique_impl (v_map v) /\
  view_is_exhaustive t v = is_exhaustive_impl t (v_map v) /\
  view_is_strided v = is_strided_impl (v_map v).
Proof. intros; repeat split. Qed.
Print Assumptions C07_forward.
