(* C05 — required_span_size is exact for left/right/stride and safely bounded for padded. *)
From Coq Require Import ZArith List.
From MdspanVerif Require Import MachInt ListAux Layouts LayoutSpec LayoutProofs LayoutTheorems.
Import ListNotations.
Local Open Scope Z_scope.

(* layout_left / layout_right / layout_stride: 0 if any extent is 0, otherwise span1 of the specified
   dimensions, i.e. 1 + sum (e_r - 1) * S_r ... *)
Theorem C05_exact_lrs : forall (t : ity) (m : mapping), valid t m -> is_lrs m = true ->
  span_impl t m = Ok (if has_zero (exts m) then 0 else span1 (dims m)).
Proof. exact span_refines_lrs. Qed.
Print Assumptions C05_exact_lrs.

(* ... which is exactly one more than the largest offset the mapping produces (any of the five
   layouts): the value span1 - 1 is attained by an in-bounds multi-index and never exceeded *)
Theorem C05_largest_offset : forall (t : ity) (m : mapping), valid t m -> has_zero (exts m) = false ->
  (exists idx, inbe idx (exts m) /\ spec_offset m idx = span1 (dims m) - 1) /\
  (forall idx, inbe idx (exts m) -> spec_offset m idx <= span1 (dims m) - 1).
Proof. exact largest_offset_thm. Qed.
Print Assumptions C05_largest_offset.

(* for the two exhaustive layouts that is the product of the extents (1 for rank 0) *)
Theorem C05_left_right_product : forall (t : ity) (es : list Z), admissible t es ->
  span_impl t (MLeft es) = Ok (prodl es) /\ span_impl t (MRight es) = Ok (prodl es).
Proof. exact span_left_right_is_product. Qed.
Print Assumptions C05_left_right_product.

(* padded layouts: 0 for an empty index space, 1 for rank 0, otherwise at least one more than the
   largest offset and exactly (hence at most) padded stride * product of the remaining extents *)
Theorem C05_padded_left : forall (t : ity) (es : list Z) (ps : Z), valid t (MLPad es ps) ->
  exists sp, span_impl t (MLPad es ps) = Ok sp /\
    (has_zero es = true -> sp = 0) /\ (es = [] -> sp = 1) /\
    (has_zero es = false -> span1 (dims (MLPad es ps)) <= sp /\ sp = prodl (lpad_exts es ps)).
Proof. exact span_padded_l. Qed.
Print Assumptions C05_padded_left.

Theorem C05_padded_right : forall (t : ity) (es : list Z) (ps : Z), valid t (MRPad es ps) ->
  exists sp, span_impl t (MRPad es ps) = Ok sp /\
    (has_zero es = true -> sp = 0) /\ (es = [] -> sp = 1) /\
    (has_zero es = false -> span1 (dims (MRPad es ps)) <= sp /\ sp = prodl (rpad_exts es ps)).
Proof. exact span_padded_r. Qed.
Print Assumptions C05_padded_right.
