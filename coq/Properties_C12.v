(* C12 — mdarray owns correctly sized storage; its views alias it; copies are independent. *)
From Coq Require Import ZArith List.
From MdspanVerif Require Import MachInt ListAux Layouts LayoutSpec Extents Convert View ViewProofs MdArray MdArrayProofs.
Import ListNotations.
Local Open Scope Z_scope.

(* constructed from extents or a mapping (with or without allocator): exactly required_span_size()
   value-initialised elements for size-constructible containers, N for std::array<T,N> *)
Theorem C12_construct_size : forall (t : ity) (c : ckind) (m : mapping), valid t m ->
  exists a sp, arr_from_mapping t c m = Ok a /\ span_impl t m = Ok sp /\ ar_map a = m /\ ar_t a = t /\
    Forall (fun x => x = 0) (ar_ctr a) /\
    match c with CVector => Z.of_nat (length (ar_ctr a)) = sp | CArray n => length (ar_ctr a) = n end.
Proof. exact construct_size. Qed.
Print Assumptions C12_construct_size.

(* constructed from a container it holds that container's elements unchanged *)
Theorem C12_adopts_container : forall (t : ity) (m : mapping) (ctr : list Z),
  ar_ctr (arr_from_container t m ctr) = ctr /\ ar_map (arr_from_container t m ctr) = m.
Proof. exact adopts_container. Qed.
Print Assumptions C12_adopts_container.

(* a(i...) is container()[mapping()(i...)] *)
Theorem C12_access : forall (a : mdarr) (args : list Z),
  valid (ar_t a) (ar_map a) -> inbe args (exts (ar_map a)) ->
  arr_read a args = nth_chk (ar_ctr a) (Z.to_nat (spec_offset (ar_map a) args)) /\
  arr_offset a args = Ok (spec_offset (ar_map a) args).
Proof. exact access_is_container_at_offset. Qed.
Print Assumptions C12_access.

(* to_mdspan() / conversion operators: same mapping, handle = data(); writes through either are visible through the other *)
Theorem C12_view_aliases : forall (a : mdarr) (args : list Z) (x : Z),
  valid (ar_t a) (ar_map a) -> inbe args (exts (ar_map a)) ->
  v_map (arr_view a) = ar_map a /\ v_handle (arr_view a) = 0 /\
  view_write_arr a args x = arr_write a args x /\
  (forall a', arr_write a args x = Ok a' -> arr_read a' args = Ok x /\ view_read_arr a' args = Ok x).
Proof. exact view_aliases. Qed.
Print Assumptions C12_view_aliases.

(* copies are deep and independent *)
Theorem C12_copy_independent : forall (s : list mdarr) (i : nat) (s1 : list mdarr) (args : list Z) (x : Z) (s2 : list mdarr),
  astep s (ACopy i) = Ok s1 ->
  (astep s1 (AWrite (length s) args x) = Ok s2 \/ astep s1 (AWriteView (length s) args x) = Ok s2) ->
  nth_error s1 (length s) = nth_error s i /\
  (forall k, (k < length s)%nat -> nth_error s2 k = nth_error s k).
Proof. exact copy_independent. Qed.
Print Assumptions C12_copy_independent.

Theorem C12_write_original_leaves_copy : forall (s : list mdarr) (i : nat) (s1 : list mdarr) (args : list Z) (x : Z) (s2 : list mdarr),
  astep s (ACopy i) = Ok s1 -> astep s1 (AWrite i args x) = Ok s2 -> nth_error s2 (length s) = nth_error s i.
Proof. exact write_original_leaves_copy. Qed.
Print Assumptions C12_write_original_leaves_copy.

(* moves transfer the elements *)
Theorem C12_move_transfers : forall (s : list mdarr) (i : nat) (b : bool) (s1 : list mdarr) (a : mdarr),
  nth_error s i = Some a -> astep s (AMove i b) = Ok s1 ->
  nth_error s1 (length s) = Some a /\ (forall k, (k < length s)%nat -> k <> i -> nth_error s1 k = nth_error s k).
Proof. exact move_transfers. Qed.
Print Assumptions C12_move_transfers.

(* size() equals the product of the extents *)
Theorem C12_size_is_product : forall (a : mdarr), valid (ar_t a) (ar_map a) -> arr_size a = prodl (exts (ar_map a)).
Proof. exact size_is_product. Qed.
Print Assumptions C12_size_is_product.
