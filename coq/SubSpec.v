(* SubSpec.v — specification of submdspan on strided index spaces (one (extent, stride) pair per
   dimension, unbounded Z) and the aliasing / containment theorems, for all ranks and slice kinds. *)
From Coq Require Import ZArith List Lia Bool Permutation.
From MdspanVerif Require Import MachInt ListAux Layouts Extents Submdspan.
Import ListNotations.
Local Open Scope Z_scope.
Ltac Zify.zify_post_hook ::= Z.div_mod_to_equations.

Definition valid_slice (sl : slice) (E : Z) : Prop :=
  match sl with
  | SIdx i => 0 <= cv i < E
  | SRange b e => 0 <= cv b <= cv e /\ cv e <= E
  | SFull => True
  | SStrided o x s => 0 <= cv o /\ 0 <= cv x /\ cv o + cv x <= E /\ (0 < cv x -> 0 < cv s)
  end.
Fixpoint valid_slices (sls : list slice) (ds : list dim) : Prop :=
  match sls, ds with
  | [], [] => True
  | sl :: sls', (E, _) :: ds' => valid_slice sl E /\ valid_slices sls' ds'
  | _, _ => False
  end.

(* ceil(x / s), 0 for x = 0 *)
Definition cdiv (x s : Z) : Z := if 0 <? x then 1 + (x - 1) / s else 0.

(* result dimension of a non-index slice over source dimension (E, St):
   extent end-begin / E / ceil(extent/stride); stride St * step *)
Definition sub_dim (sl : slice) (E St : Z) : option dim :=
  match sl with
  | SIdx _ => None
  | SRange b e => Some (cv e - cv b, St * 1)
  | SFull => Some (E, St * 1)
  | SStrided o x s => Some (cdiv (cv x) (cv s), St * step_of sl)
  end.
Fixpoint sub_dims (sls : list slice) (ds : list dim) : list dim :=
  match sls, ds with
  | sl :: sls', (E, St) :: ds' =>
      match sub_dim sl E St with Some d => d :: sub_dims sls' ds' | None => sub_dims sls' ds' end
  | _, _ => []
  end.
Fixpoint sub_offset (sls : list slice) (ds : list dim) : Z :=
  match sls, ds with sl :: sls', (_, St) :: ds' => first_of sl * St + sub_offset sls' ds' | _, _ => 0 end.

(* element (j0..jm) of the result is the source element whose k-th index is first_k + j*step_k *)
Theorem alias : forall sls ds j,
  valid_slices sls ds -> inb j (sub_dims sls ds) ->
  inb (compose sls j) ds /\
  sub_offset sls ds + dot j (sub_dims sls ds) = dot (compose sls j) ds.
Proof.
  induction sls as [|sl sls IH]; intros [|[E St] ds] j Hv Hin; cbn [valid_slices] in Hv; try tauto.
  - destruct j; cbn [sub_dims inb compose dot sub_offset] in *; try tauto; try (split; [exact I|lia]).
  - destruct Hv as [Hsl Hv].
    destruct sl as [i | b e | | o x s]; cbn [sub_dims sub_dim] in Hin.
    + destruct (IH ds j Hv Hin) as [Hb Heq].
      cbn [compose inb dot sub_offset sub_dims sub_dim first_of valid_slice] in *. split; [tauto|lia].
    + destruct j as [|jk j]; cbn [inb] in Hin; [tauto|]. destruct Hin as [Hjk Hin].
      destruct (IH ds j Hv Hin) as [Hb Heq].
      cbn [compose inb dot sub_offset sub_dims sub_dim first_of step_of valid_slice] in *. split; [split; [lia|tauto]|nia].
    + destruct j as [|jk j]; cbn [inb] in Hin; [tauto|]. destruct Hin as [Hjk Hin].
      destruct (IH ds j Hv Hin) as [Hb Heq].
      cbn [compose inb dot sub_offset sub_dims sub_dim first_of step_of valid_slice] in *. split; [split; [lia|tauto]|nia].
    + destruct j as [|jk j]; cbn [inb] in Hin; [tauto|]. destruct Hin as [Hjk Hin].
      destruct (IH ds j Hv Hin) as [Hb Heq].
      cbn [compose inb dot sub_offset sub_dims sub_dim first_of step_of valid_slice] in *. unfold cdiv in Hjk.
      destruct (0 <? cv x) eqn:Hx; [apply Z.ltb_lt in Hx | lia].
      assert (0 < cv s) by tauto.
      destruct (cv s <? cv x) eqn:Hsx.
      * split; [split; [|tauto]|nia]. assert (jk * cv s <= cv x - 1) by nia. lia.
      * apply Z.ltb_ge in Hsx. assert ((cv x - 1) / cv s = 0) by (apply Z.div_small; lia).
        assert (jk = 0) by lia. subst jk. split; [split; [lia|tauto]|nia].
Qed.

(* ---- chains: views of views to any depth --------------------------------------------------------- *)
(* a chain of slicings; each is valid for the dimensions produced by the previous one *)
Fixpoint chain_valid (levels : list (list slice)) (ds : list dim) : Prop :=
  match levels with
  | [] => True
  | sls :: rest => valid_slices sls ds /\ chain_valid rest (sub_dims sls ds)
  end.
Fixpoint chain_dims (levels : list (list slice)) (ds : list dim) : list dim :=
  match levels with [] => ds | sls :: rest => chain_dims rest (sub_dims sls ds) end.
Fixpoint chain_offset (levels : list (list slice)) (ds : list dim) : Z :=
  match levels with [] => 0 | sls :: rest => sub_offset sls ds + chain_offset rest (sub_dims sls ds) end.
(* the source multi-index designated by index j of the innermost view *)
Fixpoint chain_compose (levels : list (list slice)) (j : list Z) : list Z :=
  match levels with [] => j | sls :: rest => compose sls (chain_compose rest j) end.

Theorem alias_chain : forall levels ds j,
  chain_valid levels ds -> inb j (chain_dims levels ds) ->
  inb (chain_compose levels j) ds /\
  chain_offset levels ds + dot j (chain_dims levels ds) = dot (chain_compose levels j) ds.
Proof.
  induction levels as [|sls rest IH]; intros ds j Hv Hin; cbn [chain_valid chain_dims chain_offset chain_compose] in *.
  - split; [exact Hin|lia].
  - destruct Hv as [Hv1 Hv2]. destruct (IH _ j Hv2 Hin) as [Hb Heq].
    destruct (alias sls ds _ Hv1 Hb) as [Hb' Heq']. split; [exact Hb'|lia].
Qed.

(* ---- containment (C10), on the specification ---------------------------------------------------- *)
(* all lower bounds are valid indices: none of them sits at the end of its extent *)
Fixpoint firsts_inb (sls : list slice) (ds : list dim) : Prop :=
  match sls, ds with
  | [], [] => True
  | sl :: sls', (E, _) :: ds' => 0 <= first_of sl < E /\ firsts_inb sls' ds'
  | _, _ => False
  end.

Lemma firsts_dot sls ds : length sls = length ds -> sub_offset sls ds = dot (map first_of sls) ds.
Proof.
  revert ds; induction sls as [|sl sls IH]; intros [|[E St] ds]; cbn [length]; try discriminate; auto.
  intros H. cbn [sub_offset map dot]. rewrite IH by lia. reflexivity.
Qed.
Lemma firsts_inb_inb sls ds : firsts_inb sls ds -> inb (map first_of sls) ds.
Proof.
  revert ds; induction sls as [|sl sls IH]; intros [|[E St] ds]; cbn [firsts_inb map inb]; try tauto.
  intros [H1 H2]. split; auto.
Qed.
Lemma valid_slices_length sls ds : valid_slices sls ds -> length sls = length ds.
Proof.
  revert ds; induction sls as [|sl sls IH]; intros [|[E St] ds]; cbn [valid_slices length]; try tauto.
  intros [_ H]. f_equal. auto.
Qed.

Lemma span1_attained_ref ds : allpos ds ->
  inb (map (fun d => fst d - 1) ds) ds /\ dot (map (fun d => fst d - 1) ds) ds = span1 ds - 1.
Proof.
  induction 1 as [|[e s] ds [He Hs] _ [IH1 IH2]]; cbn [map inb dot span1 fst snd] in *; [split; [exact I|lia]|].
  split; [split; [lia|exact IH1]|lia].
Qed.

(* a non-empty view lies inside the span of its (chainable) source *)
Theorem contained ds sls :
  chainable ds -> valid_slices sls ds -> allpos (sub_dims sls ds) ->
  0 <= sub_offset sls ds /\ sub_offset sls ds + span1 (sub_dims sls ds) <= span1 ds.
Proof.
  intros Hc Hv Hpos. destruct (span1_attained_ref _ Hpos) as [Hin Hd].
  destruct (alias sls ds _ Hv Hin) as [Hb Heq].
  destruct (chainable_range_inj ds _ _ Hc Hb Hb) as [Hr _].
  assert (Hz : inb (map (fun _ => 0) (sub_dims sls ds)) (sub_dims sls ds)).
  { clear - Hpos. induction Hpos as [|[e s] l [He Hs] _ IH]; cbn [map inb fst snd] in *; [exact I|]. split; [lia|exact IH]. }
  destruct (alias sls ds _ Hv Hz) as [Hb0 Heq0].
  destruct (chainable_range_inj ds _ _ Hc Hb0 Hb0) as [Hr0 _].
  assert (Hdz : dot (map (fun _ => 0) (sub_dims sls ds)) (sub_dims sls ds) = 0).
  { clear. induction (sub_dims sls ds) as [|[e s] l IH]; cbn [map dot]; lia. }
  lia.
Qed.

(* when every lower bound is a valid index the offset is below the source span *)
Theorem offset_lt_span ds sls : chainable ds -> firsts_inb sls ds -> 0 <= sub_offset sls ds < span1 ds.
Proof.
  intros Hc Hf. pose proof (firsts_inb_inb _ _ Hf) as Hin.
  rewrite firsts_dot by (rewrite <- (inb_length _ _ Hin), map_length; reflexivity).
  destruct (chainable_range_inj ds _ _ Hc Hin Hin) as [Hr _]. exact Hr.
Qed.
