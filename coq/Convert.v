(* Convert.v — implementation model of the layout-mapping converting constructors, of mapping
   equality / inequality (C08) and of the debug-mode stride check (C20). *)
From Coq Require Import ZArith List Bool.
From MdspanVerif Require Import MachInt ListAux Layouts Extents.
Import ListNotations.
Local Open Scope Z_scope.

Inductive lkind := KLeft | KRight | KStride | KLPad | KRPad.
Definition kind_of (m : mapping) : lkind :=
  match m with MLeft _ => KLeft | MRight _ => KRight | MStride _ _ => KStride | MLPad _ _ => KLPad | MRPad _ _ => KRPad end.

(* a mapping *type*: index type, extents pattern, layout, padding_value (None = dynamic_extent) *)
Record mtype := mkmt { mt_t : ity; mt_pat : pattern; mt_kind : lkind; mt_pv : option Z }.

(* extents of the target: the converting constructor of extents (Extents.ext_convert; by
   ExtentsProofs.convert_thm its values are fill_all of the source values) *)
Definition conv_exts (tt : ity) (tpat : pattern) (es : list Z) : res (list Z) :=
  if Nat.eqb (length tpat) (length es) then Ok (fill_all tt tpat es) else UB.

Definition strides_list (ts : ity) (src : mapping) : res (list Z) :=
  seq_res (map (stride_impl ts src) (seq 0 (length (exts src)))).

Definition tgt_se (left : bool) (tpat : pattern) : option Z := if left then hd None tpat else last tpat None.

(* padded target: init_padding(other_mapping, integral_constant<padded_stride_idx>) = other.stride(idx)
   for rank > 1, nothing for rank <= 1; a static padded stride of the target type wins *)
Definition conv_to_padded (ts : ity) (src : mapping) (tgt : mtype) (left : bool) (es' : list Z) : res mapping :=
  let R := length es' in
  let mk ps := if left then MLPad es' ps else MRPad es' ps in
  if Nat.leb R 1 then Ok (mk 0) else
  let sps := static_padded_stride R (mt_pv tgt) (tgt_se left (mt_pat tgt)) in
  bind (stride_impl ts src (if left then 1%nat else (R - 2)%nat)) (fun s =>
  Ok (mk (pad_value (mt_t tgt) sps (wrap (mt_t tgt) s)))).

(* which converting constructors exist (overload participation, value level): *)
Definition conv_exists (src : mapping) (k : lkind) : bool :=
  let R := length (exts src) in
  match k, src with
  | KLeft, MLeft _ | KLeft, MStride _ _ | KLeft, MLPad _ _ => true
  | KLeft, MRight _ => Nat.leb R 1
  | KRight, MRight _ | KRight, MStride _ _ | KRight, MRPad _ _ => true
  | KRight, MLeft _ => Nat.leb R 1
  | KStride, _ => true
  | KLPad, MLeft _ | KLPad, MStride _ _ | KLPad, MLPad _ _ => true
  | KLPad, MRPad _ _ => Nat.leb R 1
  | KRPad, MRight _ | KRPad, MStride _ _ | KRPad, MRPad _ _ => true
  | KRPad, MLPad _ _ => Nat.leb R 1
  | _, _ => false
  end.

Definition conv_mapping (ts : ity) (src : mapping) (tgt : mtype) : res mapping :=
  if negb (conv_exists src (mt_kind tgt)) then UB else
  bind (conv_exts (mt_t tgt) (mt_pat tgt) (exts src)) (fun es' =>
  match mt_kind tgt with
  | KLeft => Ok (MLeft es')
  | KRight => Ok (MRight es')
  | KStride => bind (strides_list ts src) (fun ss => Ok (MStride es' (map (wrap (mt_t tgt)) ss)))
  | KLPad => conv_to_padded ts src tgt true es'
  | KRPad => conv_to_padded ts src tgt false es'
  end).

(* ---- debug-mode check of layout_stride -> layout_left / layout_right (C20) ------------------------ *)
(* index_type stride = 1; for r in order: if ((C)stride != (C)other.stride(r)) abort(); stride *= extent(r) *)
Fixpoint stride_check_loop (tt c : ity) (st : Z) (es ss : list Z) : res bool :=      (* true = aborts *)
  match es, ss with
  | [], [] => Ok false
  | e :: es', s :: ss' =>
      if negb (wrap c st =? wrap c s) then Ok true
      else bind (mul_assign tt st e) (fun st' => stride_check_loop tt c st' es' ss')
  | _, _ => UB
  end.
(* es: extents of the *target* (after conversion), ss: strides of the source *)
Definition stride_check (left : bool) (ts tt : ity) (es ss : list Z) : res bool :=
  match es with
  | [] => Ok false                                          (* if constexpr (rank() > 0) *)
  | _ => if left then stride_check_loop tt (common tt ts) 1 es ss
         else stride_check_loop tt (common tt ts) 1 (rev es) (rev ss)
  end.
(* with NDEBUG (or CUDA/HIP) the loop is not compiled *)
Definition stride_check_cfg (ndebug : bool) (left : bool) (ts tt : ity) (es ss : list Z) : res bool :=
  if ndebug then Ok false else stride_check left ts tt es ss.

(* ---- equality ------------------------------------------------------------------------------------- *)
Fixpoint all2 (f : Z -> Z -> bool) (a b : list Z) : bool :=
  match a, b with
  | [], [] => true
  | x :: a', y :: b' => f x y && all2 f a' b'
  | _, _ => false
  end.
Fixpoint any2 (f : Z -> Z -> bool) (a b : list Z) : bool :=
  match a, b with
  | x :: a', y :: b' => f x y || any2 f a' b'
  | _, _ => false
  end.
Definition eq_in (c : ity) (x y : Z) : bool := wrap c x =? wrap c y.
Definition ne_in (c : ity) (x y : Z) : bool := negb (wrap c x =? wrap c y).

(* extents operator== (values level): false when the ranks differ *)
Definition exts_eq (ta : ity) (a : list Z) (tb : ity) (b : list Z) : bool := all2 (eq_in (common ta tb)) a b.

(* layout_stride::_eq_impl / _not_eq_impl (fold over strides, then over extents) *)
Definition stride_eq_impl (c : ity) (ea sa eb sb : list Z) : bool := all2 (eq_in c) sa sb && all2 (eq_in c) ea eb.
Definition stride_not_eq_impl (c : ity) (ea sa eb sb : list Z) : bool := any2 (ne_in c) sa sb || any2 (ne_in c) ea eb.

(* operator== between two mappings; None: no such operator (different layout families or ranks) *)
Definition map_eq (ta : ity) (a : mapping) (tb : ity) (b : mapping) : res (option bool) :=
  let c := common ta tb in
  let Ra := length (exts a) in
  if negb (Nat.eqb Ra (length (exts b))) then Ok None else
  match a, b with
  | MLeft ea, MLeft eb | MRight ea, MRight eb => Ok (Some (exts_eq ta ea tb eb))
  | MStride ea sa, MStride eb sb => Ok (Some (stride_eq_impl c ea sa eb sb))
  | MStride ea sa, _ =>
      (* generic: strides_match loop first, then extents == && OFFSET(y) == 0 && strides_match *)
      bind (strides_list tb b) (fun sb =>
      bind (offset_impl tb b (map (fun _ => 0) (exts b))) (fun off =>
      Ok (Some (exts_eq ta ea tb (exts b) && (off =? 0) && all2 (eq_in c) sa sb))))
  | MLPad ea pa, MLPad eb pb =>
      if Nat.leb Ra 1 then Ok (Some (exts_eq ta ea tb eb)) else
      bind (stride_impl ta a 1) (fun x => bind (stride_impl tb b 1) (fun y =>
      Ok (Some (exts_eq ta ea tb eb && eq_in c x y))))
  | MRPad ea pa, MRPad eb pb =>
      if Nat.leb Ra 1 then Ok (Some (exts_eq ta ea tb eb)) else
      bind (stride_impl ta a (Ra - 2)) (fun x => bind (stride_impl tb b (Ra - 2)) (fun y =>
      Ok (Some (exts_eq ta ea tb eb && eq_in c x y))))
  | _, _ => Ok None
  end.

(* operator!= : C++20 synthesises !(a == b); before C++20 the hand-written forms *)
Definition map_neq_synth (ta : ity) (a : mapping) (tb : ity) (b : mapping) : res (option bool) :=
  rmap (option_map negb) (map_eq ta a tb b).
Definition map_neq_hand (ta : ity) (a : mapping) (tb : ity) (b : mapping) : res (option bool) :=
  let c := common ta tb in
  if negb (Nat.eqb (length (exts a)) (length (exts b))) then Ok None else
  match a, b with
  | MLeft ea, MLeft eb | MRight ea, MRight eb => Ok (Some (negb (exts_eq ta ea tb eb)))     (* lhs.extents() != rhs.extents() *)
  | MStride ea sa, MStride eb sb => Ok (Some (stride_not_eq_impl c ea sa eb sb))              (* _not_eq_impl *)
  | _, _ => rmap (option_map negb) (map_eq ta a tb b)                                         (* not (x == y) *)
  end.
