(* C08 — layout-mapping conversions preserve the mapping; mapping equality is sound. *)
From Coq Require Import ZArith List.
From MdspanVerif Require Import MachInt ListAux Layouts LayoutSpec LayoutProofs Extents ExtentsProofs Convert ConvertProofs Constraints ConstraintsProofs.
Import ListNotations.
Local Open Scope Z_scope.

(* Every converting constructor the library provides (conv_exists: same layout; left<->right and
   left_padded<->right_padded for rank <= 1; anything -> layout_stride; layout_stride -> left/right/padded;
   padded -> left/right): whenever its precondition holds - i.e. a valid mapping of the target type with the
   source's extents and strides exists - the constructor yields exactly that mapping ... *)
Theorem C08_conv_correct : forall (ts : ity) (src : mapping) (tgt : mtype) (m' : mapping),
  valid ts src -> valid (mt_t tgt) m' ->
  kind_of m' = mt_kind tgt -> conv_exists src (mt_kind tgt) = true ->
  exts m' = exts src -> spec_strides m' = spec_strides src ->
  conv_pre (mt_t tgt) (mt_pat tgt) (exts src) -> pad_ok tgt m' ->
  conv_mapping ts src tgt = Ok m'.
Proof. exact conv_correct. Qed.
Print Assumptions C08_conv_correct.

(* ... which has equal extents and maps every multi-index to the same offset *)
Theorem C08_conv_preserves_offsets : forall (ts : ity) (src : mapping) (tt : ity) (m' : mapping) (idx : list Z),
  valid ts src -> valid tt m' -> exts m' = exts src -> spec_strides m' = spec_strides src ->
  inbe idx (exts src) -> offset_impl tt m' idx = offset_impl ts src idx.
Proof. exact conv_offsets. Qed.
Print Assumptions C08_conv_preserves_offsets.

(* equality is sound: a == b implies equal extents and equal strides, hence identical offsets *)
Theorem C08_eq_sound : forall (ta : ity) (a : mapping) (tb : ity) (b : mapping),
  valid ta a -> valid tb b -> map_eq ta a tb b = Ok (Some true) ->
  exts a = exts b /\ spec_strides a = spec_strides b.
Proof. exact eq_sound. Qed.
Print Assumptions C08_eq_sound.

Theorem C08_eq_sound_offsets : forall (ta : ity) (a : mapping) (tb : ity) (b : mapping) (idx : list Z),
  valid ta a -> valid tb b -> map_eq ta a tb b = Ok (Some true) -> inbe idx (exts a) ->
  offset_impl tb b idx = offset_impl ta a idx.
Proof.
  intros ta a tb b idx Hva Hvb Heq Hin. destruct (eq_sound ta a tb b Hva Hvb Heq) as [He Hs].
  apply conv_offsets; auto.
Qed.
Print Assumptions C08_eq_sound_offsets.

(* a mapping equals its copy ... *)
Theorem C08_eq_refl_copy : forall (t : ity) (m : mapping), valid t m -> map_eq t m t m = Ok (Some true).
Proof. exact eq_refl_thm. Qed.
Print Assumptions C08_eq_refl_copy.

(* ... and its round-trip conversion *)
Theorem C08_roundtrip_eq : forall (ts : ity) (src : mapping) (stype tgt : mtype) (m' : mapping),
  valid ts src -> valid (mt_t tgt) m' ->
  kind_of m' = mt_kind tgt -> conv_exists src (mt_kind tgt) = true ->
  exts m' = exts src -> spec_strides m' = spec_strides src ->
  conv_pre (mt_t tgt) (mt_pat tgt) (exts src) -> pad_ok tgt m' ->
  mt_t stype = ts -> kind_of src = mt_kind stype -> conv_exists m' (mt_kind stype) = true ->
  conv_pre ts (mt_pat stype) (exts src) -> pad_ok stype src ->
  exists s2, bind (conv_mapping ts src tgt) (fun m => conv_mapping (mt_t tgt) m stype) = Ok s2 /\
             map_eq ts s2 ts src = Ok (Some true).
Proof. exact roundtrip_thm. Qed.
Print Assumptions C08_roundtrip_eq.

(* a != b is the negation of a == b: the C++20 synthesised form by definition, and each hand-written
   pre-C++20 form (extents !=, layout_stride::_not_eq_impl by De Morgan over all ranks, !(x == y)) *)
Theorem C08_neq_is_negation : forall (ta : ity) (a : mapping) (tb : ity) (b : mapping),
  valid ta a -> valid tb b ->
  map_neq_hand ta a tb b = map_neq_synth ta a tb b /\
  map_neq_synth ta a tb b = rmap (option_map negb) (map_eq ta a tb b).
Proof. exact neq_is_negation_map. Qed.
Print Assumptions C08_neq_is_negation.

Theorem C08_not_eq_impl_demorgan : forall (c : ity) (ea sa eb sb : list Z),
  length sa = length sb -> length ea = length eb ->
  stride_not_eq_impl c ea sa eb sb = negb (stride_eq_impl c ea sa eb sb).
Proof. exact stride_not_eq_demorgan. Qed.
Print Assumptions C08_not_eq_impl_demorgan.

(* layout_left / layout_right mappings are equal exactly when their extents are *)
Theorem C08_lr_eq_iff_extents : forall (ta : ity) (ea : list Z) (tb : ity) (eb : list Z),
  nonneg_in ta ea -> nonneg_in tb eb -> length ea = length eb ->
  (map_eq ta (MLeft ea) tb (MLeft eb) = Ok (Some true) <-> ea = eb) /\
  (map_eq ta (MRight ea) tb (MRight eb) = Ok (Some true) <-> ea = eb).
Proof. exact lr_eq_iff_extents. Qed.
Print Assumptions C08_lr_eq_iff_extents.

(* conversion to layout_stride is total: every valid mapping of any of the five layouts over a non-empty index space
   is, with its own strides, a valid layout_stride mapping (in its own and in every wider index type), and the
   converting constructor yields exactly it *)
Theorem C08_valid_as_stride : forall (t : ity) (m : mapping), valid t m -> has_zero (exts m) = false ->
  valid t (MStride (exts m) (spec_strides m)).
Proof. exact valid_as_stride. Qed.
Print Assumptions C08_valid_as_stride.
Theorem C08_to_stride_total : forall (ts tt : ity) (tpat : pattern) (m : mapping),
  valid ts m -> has_zero (exts m) = false -> imax ts <= imax tt -> conv_pre tt tpat (exts m) ->
  conv_mapping ts m (mkmt tt tpat KStride None) = Ok (MStride (exts m) (spec_strides m)) /\
  valid tt (MStride (exts m) (spec_strides m)).
Proof. exact to_stride_total. Qed.
Print Assumptions C08_to_stride_total.
