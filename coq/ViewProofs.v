(* ViewProofs.v — C03 (element access) and C11 (construction / copy / move / assign / swap / convert). *)
From Coq Require Import ZArith List Lia Bool Arith.
From MdspanVerif Require Import MachInt ListAux Layouts LayoutSpec LayoutProofs LayoutTheorems FlagProofs
     Extents ExtentsProofs Convert ConvertProofs View.
Import ListNotations.
Local Open Scope Z_scope.

Lemma wrap_idem t z : wrap t (wrap t z) = wrap t z.
Proof. apply wrap_id. apply wrap_in_range. Qed.
Lemma map_wrap_idem t l : map (wrap t) (map (wrap t) l) = map (wrap t) l.
Proof. rewrite map_map. apply map_ext. intros. apply wrap_idem. Qed.

(* all ways of passing the indices hand the accessor the same offset *)
Theorem forms_agree t v args f1 f2 : access t f1 v args = access t f2 v args.
Proof. unfold access, access_offset. destruct f1, f2; rewrite ?map_wrap_idem; reflexivity. Qed.

Lemma inbe_rep t idx es : Forall (fun e => 0 <= e <= imax t) es -> inbe idx es -> map (wrap t) idx = idx.
Proof.
  intros He; revert idx; induction He as [|e es He0 _ IH]; intros [|i idx]; cbn [inbe map]; try tauto.
  intros [Hi H]. rewrite IH by exact H. f_equal. apply wrap_small. lia.
Qed.

(* for in-range indices (of any argument type in which they are representable) every form yields
   accessor().access(data_handle(), mapping()(indices...)) with the specified offset *)
Theorem access_is_accessor_of_mapping t v args f :
  valid t (v_map v) -> inbe args (exts (v_map v)) ->
  access t f v args = Ok (v_acc v, v_handle v, spec_offset (v_map v) args) /\
  offset_impl t (v_map v) args = Ok (spec_offset (v_map v) args).
Proof.
  intros Hv Hin. pose proof (valid_exts_in t _ Hv) as He.
  rewrite (forms_agree t v args f FArray). unfold access, access_offset.
  rewrite (inbe_rep t args _ He Hin). rewrite (offset_refines t _ args Hv Hin). split; reflexivity.
Qed.

(* default accessor: the element is data_handle()[mapping()(indices...)], inside [handle, handle + span) *)
Theorem default_address_in_span t v args f sp :
  valid t (v_map v) -> inbe args (exts (v_map v)) -> span_impl t (v_map v) = Ok sp ->
  exists e, access t f v args = Ok e /\ v_handle v <= default_address e < v_handle v + sp.
Proof.
  intros Hv Hin Hsp. destruct (access_is_accessor_of_mapping t v args f Hv Hin) as [E _].
  eexists. split; [exact E|]. cbn [default_address].
  destruct (range_thm t (v_map v) args Hv Hin) as (o & sp' & Eo & Esp & Hr).
  rewrite (offset_refines t _ args Hv Hin) in Eo. injection Eo as <-. rewrite Hsp in Esp. injection Esp as <-. lia.
Qed.

(* distinct multi-indices designate distinct elements *)
Theorem distinct_elements t v i1 i2 f :
  valid t (v_map v) -> inbe i1 (exts (v_map v)) -> inbe i2 (exts (v_map v)) ->
  access t f v i1 = access t f v i2 -> i1 = i2.
Proof.
  intros Hv H1 H2 E. destruct (access_is_accessor_of_mapping t v i1 f Hv H1) as [E1 _].
  destruct (access_is_accessor_of_mapping t v i2 f Hv H2) as [E2 _]. rewrite E1, E2 in E. injection E as E.
  pose proof (spec_range_inj t (v_map v) i1 i2 Hv H1 H2) as [_ Hinj]. apply Hinj. exact E.
Qed.

(* ---- the heap: a write through the view changes exactly its own cell ---- *)
Lemma hwrite_length hp a x : length (hwrite hp a x) = length hp.
Proof. revert a; induction hp as [|c hp IH]; intros [|a]; cbn [hwrite length]; auto. Qed.
Lemma hwrite_same hp a x : (a < length hp)%nat -> hread (hwrite hp a x) a = x.
Proof. revert a; induction hp as [|c hp IH]; intros [|a] H; cbn [length] in H; try lia; cbn [hwrite hread nth]; auto. apply IH. lia. Qed.
Lemma hwrite_other hp a b x : a <> b -> hread (hwrite hp a x) b = hread hp b.
Proof.
  revert a b; induction hp as [|c hp IH]; intros [|a] [|b] H; cbn [hwrite hread nth]; auto; try congruence.
  all: try (apply IH; congruence).
Qed.

Theorem write_frame t v args f x hp sp :
  valid t (v_map v) -> inbe args (exts (v_map v)) -> span_impl t (v_map v) = Ok sp ->
  0 <= v_handle v -> v_handle v + sp <= Z.of_nat (length hp) ->
  exists hp' a, view_write t f v args x hp = Ok hp' /\ a = Z.to_nat (v_handle v + spec_offset (v_map v) args) /\
    length hp' = length hp /\ hread hp' a = x /\ (forall b, b <> a -> hread hp' b = hread hp b) /\
    view_read t f v args hp' = Ok x.
Proof.
  intros Hv Hin Hsp Hh Hb. destruct (access_is_accessor_of_mapping t v args f Hv Hin) as [E _].
  destruct (default_address_in_span t v args f sp Hv Hin Hsp) as (e & E' & Hr). rewrite E in E'. injection E' as <-.
  cbn [default_address] in Hr.
  unfold view_write, view_read. rewrite E. cbn [rmap default_address].
  eexists. eexists. split; [reflexivity|]. split; [reflexivity|]. split; [apply hwrite_length|].
  split; [apply hwrite_same; lia|]. split; [intros b Hb'; apply hwrite_other; congruence|].
  f_equal. apply hwrite_same. lia.
Qed.

(* ================================================================================================ *)
(* C11                                                                                               *)

(* two entries designate the same elements: same handle, same accessor, equal extents and strides *)
Definition same_view (a b : entry) : Prop :=
  v_handle (en_view a) = v_handle (en_view b) /\ v_acc (en_view a) = v_acc (en_view b) /\
  exts (v_map (en_view a)) = exts (v_map (en_view b)) /\
  spec_strides (v_map (en_view a)) = spec_strides (v_map (en_view b)).
Lemma same_view_refl a : same_view a a.
Proof. repeat split. Qed.
Lemma same_view_trans a b c : same_view a b -> same_view b c -> same_view a c.
Proof. intros (H1 & H2 & H3 & H4) (G1 & G2 & G3 & G4). repeat split; congruence. Qed.

(* hence every multi-index designates the same element *)
Theorem same_view_same_elements a b idx f :
  valid (en_t a) (v_map (en_view a)) -> valid (en_t b) (v_map (en_view b)) -> same_view a b ->
  inbe idx (exts (v_map (en_view a))) ->
  access (en_t a) f (en_view a) idx = access (en_t b) f (en_view b) idx.
Proof.
  intros Hva Hvb (H1 & H2 & H3 & H4) Hin.
  destruct (access_is_accessor_of_mapping _ _ idx f Hva Hin) as [E1 _].
  assert (Hin' : inbe idx (exts (v_map (en_view b)))) by (rewrite <- H3; exact Hin).
  destruct (access_is_accessor_of_mapping _ _ idx f Hvb Hin') as [E2 _].
  rewrite E1, E2. unfold spec_offset, dims. rewrite H1, H2, H3, H4. reflexivity.
Qed.

Lemma set_entry_length p i e : length (set_entry p i e) = length p.
Proof. revert i; induction p as [|x p IH]; intros [|i]; cbn [set_entry length]; auto. Qed.
Lemma set_entry_same p i e : (i < length p)%nat -> nth_error (set_entry p i e) i = Some e.
Proof. revert i; induction p as [|x p IH]; intros [|i] H; cbn [length] in H; try lia; cbn [set_entry nth_error]; auto. apply IH. lia. Qed.
Lemma set_entry_other p i j e : i <> j -> nth_error (set_entry p i e) j = nth_error p j.
Proof. revert i j; induction p as [|x p IH]; intros [|i] [|j] H; cbn [set_entry nth_error]; auto; try congruence; try (apply IH; congruence). Qed.
Lemma set_entry_in p i e x : In x (set_entry p i e) -> x = e \/ In x p.
Proof.
  revert i; induction p as [|y p IH]; intros i.
  - destruct i; cbn [set_entry In]; tauto.
  - destruct i as [|i']; cbn [set_entry In].
    + intros H. destruct H as [H|H]; [left; auto|right; right; auto].
    + intros H. destruct H as [H|H]; [auto|]. destruct (IH i' H); auto.
Qed.

(* assignment makes the target equal to the source *)
Theorem assign_eq p i j p' : vstep p (OAssign i j) = Ok p' -> nth_error p' i = nth_error p j /\ length p' = length p /\
  (forall k, k <> i -> nth_error p' k = nth_error p k).
Proof.
  cbn [vstep]. destruct (nth_error p i) eqn:Ei; [|discriminate]. destruct (nth_error p j) eqn:Ej; [|discriminate].
  intros H. injection H as <-. assert (i < length p)%nat by (apply nth_error_Some; congruence).
  split; [apply set_entry_same; auto|]. split; [apply set_entry_length|]. intros k Hk. apply set_entry_other. congruence.
Qed.

(* swap exchanges exactly the two views, and is an involution *)
Theorem swap_exchanges p i j p' : i <> j -> vstep p (OSwap i j) = Ok p' ->
  nth_error p' i = nth_error p j /\ nth_error p' j = nth_error p i /\ length p' = length p /\
  (forall k, k <> i -> k <> j -> nth_error p' k = nth_error p k).
Proof.
  intros Hij. cbn [vstep]. destruct (nth_error p i) as [a|] eqn:Ei; [|discriminate]. destruct (nth_error p j) as [b|] eqn:Ej; [|discriminate].
  intros H. injection H as <-.
  assert (Hi : (i < length p)%nat) by (apply nth_error_Some; congruence).
  assert (Hj : (j < length p)%nat) by (apply nth_error_Some; congruence).
  split; [rewrite set_entry_other by congruence; rewrite set_entry_same by auto; congruence|].
  split; [rewrite set_entry_same by (rewrite set_entry_length; auto); congruence|].
  split; [rewrite !set_entry_length; reflexivity|].
  intros k Hk1 Hk2. rewrite !set_entry_other by congruence. reflexivity.
Qed.

Lemma nth_error_ext {A} (l1 l2 : list A) : (forall k, nth_error l1 k = nth_error l2 k) -> l1 = l2.
Proof.
  revert l2; induction l1 as [|x l1 IH]; intros [|y l2] H; auto; try (specialize (H 0%nat); discriminate).
  pose proof (H 0%nat) as H0. cbn in H0. injection H0 as ->. f_equal. apply IH. intros k. exact (H (S k)).
Qed.

Theorem swap_involutive p i j p1 p2 : i <> j -> vstep p (OSwap i j) = Ok p1 -> vstep p1 (OSwap i j) = Ok p2 -> p2 = p.
Proof.
  intros Hij H1 H2. destruct (swap_exchanges p i j p1 Hij H1) as (A1 & A2 & A3 & A4).
  destruct (swap_exchanges p1 i j p2 Hij H2) as (B1 & B2 & B3 & B4).
  apply nth_error_ext. intros k. destruct (Nat.eq_dec k i) as [->|Hki]; [congruence|].
  destruct (Nat.eq_dec k j) as [->|Hkj]; [congruence|]. rewrite B4, A4; auto.
Qed.

(* the converting constructor yields (the conversion of) what was supplied *)
Theorem convert_components e tgt m' :
  valid (en_t e) (v_map (en_view e)) -> valid (mt_t tgt) m' ->
  kind_of m' = mt_kind tgt -> conv_exists (v_map (en_view e)) (mt_kind tgt) = true ->
  exts m' = exts (v_map (en_view e)) -> spec_strides m' = spec_strides (v_map (en_view e)) ->
  conv_pre (mt_t tgt) (mt_pat tgt) (exts (v_map (en_view e))) -> pad_ok tgt m' ->
  exists e', convert_entry e tgt = Ok e' /\ same_view e' e /\ v_map (en_view e') = m' /\ en_t e' = mt_t tgt.
Proof.
  intros. unfold convert_entry. rewrite (conv_correct _ _ tgt m'); auto. cbn [rmap].
  eexists. split; [reflexivity|]. cbn [en_view en_t v_handle v_acc v_map]. repeat split; auto.
Qed.

(* invariant over arbitrary operation sequences: every view in the pool designates the same elements
   as one of the views the pool started with; no operation reads or writes elements (the machine has
   no heap component at all) *)
Definition derived (init p : list entry) : Prop := forall x, In x p -> exists y, In y init /\ same_view x y.

(* a step whose conversions (if any) satisfy their preconditions *)
Definition conv_ok (e : entry) (tgt : mtype) : Prop :=
  exists e', convert_entry e tgt = Ok e' /\ same_view e' e.

Lemma derived_step init p o p' :
  derived init p -> vstep p o = Ok p' ->
  (forall i tgt e, (o = OConvert i tgt \/ exists j, o = OAssignConv j i tgt) -> nth_error p i = Some e -> conv_ok e tgt) ->
  derived init p'.
Proof.
  intros Hd Hs Hc. destruct o as [i|i|i j|i j|i j|i tgt|i j tgt]; cbn [vstep] in Hs.
  - destruct (nth_error p i) as [e|] eqn:E; [|discriminate]. injection Hs as <-. intros x Hx. apply in_app_iff in Hx as [Hx|[<-|[]]]; [auto|].
    apply Hd. eapply nth_error_In; eauto.
  - destruct (nth_error p i) as [e|] eqn:E; [|discriminate]. injection Hs as <-. intros x Hx. apply in_app_iff in Hx as [Hx|[<-|[]]]; [auto|].
    apply Hd. eapply nth_error_In; eauto.
  - destruct (nth_error p i) as [ei|]; [|discriminate]. destruct (nth_error p j) as [e|] eqn:E; [|discriminate]. injection Hs as <-.
    intros x Hx. apply set_entry_in in Hx as [->|Hx]; [apply Hd; eapply nth_error_In; eauto|auto].
  - destruct (nth_error p i) as [ei|]; [|discriminate]. destruct (nth_error p j) as [e|] eqn:E; [|discriminate]. injection Hs as <-.
    intros x Hx. apply set_entry_in in Hx as [->|Hx]; [apply Hd; eapply nth_error_In; eauto|auto].
  - destruct (nth_error p i) as [a|] eqn:Ea; [|discriminate]. destruct (nth_error p j) as [b|] eqn:Eb; [|discriminate]. injection Hs as <-.
    intros x Hx. apply set_entry_in in Hx as [->|Hx]; [apply Hd; eapply nth_error_In; eauto|].
    apply set_entry_in in Hx as [->|Hx]; [apply Hd; eapply nth_error_In; eauto|auto].
  - destruct (nth_error p i) as [e|] eqn:E; [|discriminate].
    destruct (Hc i tgt e (or_introl eq_refl) E) as (e' & Ec & Hsv). rewrite Ec in Hs. cbn [rmap] in Hs. injection Hs as <-.
    intros x Hx. apply in_app_iff in Hx as [Hx|[<-|[]]]; [auto|].
    destruct (Hd e (nth_error_In _ _ E)) as (y & Hy & Hsy). exists y. split; [exact Hy|]. eapply same_view_trans; eauto.
  - destruct (nth_error p i) as [ei|]; [|discriminate]. destruct (nth_error p j) as [e|] eqn:E; [|discriminate].
    destruct (Hc j tgt e (or_intror (ex_intro _ i eq_refl)) E) as (e' & Ec & Hsv). rewrite Ec in Hs. cbn [rmap] in Hs. injection Hs as <-.
    intros x Hx. apply set_entry_in in Hx as [->|Hx]; [|auto].
    destruct (Hd e (nth_error_In _ _ E)) as (y & Hy & Hsy). exists y. split; [exact Hy|]. eapply same_view_trans; eauto.
Qed.

(* the steps of a run, with the pool each is applied to *)
Fixpoint all_conv_ok (p : list entry) (ops : list vop) : Prop :=
  match ops with
  | [] => True
  | o :: ops' =>
      (forall i tgt e, (o = OConvert i tgt \/ exists j, o = OAssignConv j i tgt) -> nth_error p i = Some e -> conv_ok e tgt) /\
      (forall p', vstep p o = Ok p' -> all_conv_ok p' ops')
  end.

Theorem designation_invariant : forall ops init p pf,
  derived init p -> all_conv_ok p ops -> vrun p ops = Ok pf -> derived init pf.
Proof.
  induction ops as [|o ops IH]; intros init p pf Hd Hok Hr; cbn [vrun all_conv_ok] in *.
  - injection Hr as <-. exact Hd.
  - destruct Hok as [Hc Hnext]. destruct (vstep p o) as [p'|] eqn:Es; cbn [bind] in Hr; [|discriminate].
    apply (IH init p' pf); auto. eapply derived_step; eauto.
Qed.

(* constructors: handle + dynamic-or-all extents yields exactly the supplied handle, the mapping of the
   extents built from the values (C06), and a default-constructed accessor *)
Theorem ctor_components t pat mk h (all : bool) vals :
  (if all : bool then length vals = length pat else length vals = ndyn pat) ->
  exists e, ctor_from_values t pat mk h all vals = Ok e /\
    v_handle (en_view e) = h /\ v_acc (en_view e) = AccDefault /\ en_t e = t /\ en_pat e = pat /\
    v_map (en_view e) = mk (if all then fill_all t pat vals else fill t pat (map (wrap t) vals)).
Proof.
  intros Hl. unfold ctor_from_values. destruct all.
  - destruct (from_all_thm t pat vals Hl) as (e & E & _ & _ & Hx). rewrite E. cbn [bind]. rewrite Hx. cbn [rmap].
    eexists. split; [reflexivity|]. repeat split.
  - destruct (from_dynamic_thm t pat vals Hl) as (e & E & _ & _ & Hx). rewrite E. cbn [bind]. rewrite Hx. cbn [rmap].
    eexists. split; [reflexivity|]. repeat split.
Qed.
