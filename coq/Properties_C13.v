(* C13 — mdspan size / empty / extent / rank observers agree with its extents and mapping. *)
From Coq Require Import ZArith List.
From MdspanVerif Require Import MachInt ListAux Layouts LayoutSpec LayoutProofs LayoutTheorems FlagProofs View DriverFacts.
Import ListNotations.
Local Open Scope Z_scope.

(* size() is the product of the extents reduced modulo 2^width(size_type): it is computed in size_t and
   converted to the unsigned size_type, never evaluated in the signed index type; 1 for rank 0 *)
Theorem C13_size_general : forall (t : ity) (es : list Z), size_impl t es = prodl es mod 2 ^ bits t.
Proof. exact size_general_thm. Qed.
Print Assumptions C13_size_general.

Theorem C13_size_representable : forall (t : ity) (es : list Z),
  0 <= prodl es < 2 ^ bits t -> size_impl t es = prodl es.
Proof. exact size_exact_thm. Qed.
Print Assumptions C13_size_representable.

(* in particular: the exact product whenever the view's mapping is valid *)
Theorem C13_size_valid : forall (t : ity) (v : view), valid t (v_map v) -> view_size t v = prodl (view_extents v).
Proof. intros t v. exact (size_valid_thm t (v_map v)). Qed.
Print Assumptions C13_size_valid.

Theorem C13_size_rank0 : forall (t : ity), size_impl t [] = 1.
Proof. intros t. rewrite size_general_thm. destruct t; reflexivity. Qed.
Print Assumptions C13_size_rank0.

(* empty() is true exactly when some extent is 0, and never for rank 0 *)
Theorem C13_empty_iff : forall (es : list Z), empty_impl es = true <-> (exists e, In e es /\ e = 0).
Proof. exact empty_iff_thm. Qed.
Print Assumptions C13_empty_iff.

(* ... and this is NOT the same as size() == 0: over a layout that is not unique the extents need not fit any
   span, and a product of non-zero extents that is a multiple of 2^bits(size_type) wraps to 0 *)
Theorem C13_empty_is_not_size_zero_refuted :
  exists (t : ity) (es : list Z), Forall (fun e => 0 < e <= imax t) es /\ size_impl t es = 0 /\ empty_impl es = false.
Proof. exact empty_is_not_size_zero_refuted. Qed.
Print Assumptions C13_empty_is_not_size_zero_refuted.

Theorem C13_empty_rank0 : empty_impl [] = false.
Proof. exact empty_rank0_thm. Qed.
Print Assumptions C13_empty_rank0.

(* rank / extent / extents / stride / flags return exactly what the extents and the mapping return *)
Theorem C13_forwarders : forall (t : ity) (v : view) (r : nat),
  view_rank v = length (exts (v_map v)) /\
  view_extents v = exts (v_map v) /\
  view_extent v r = nth_chk (exts (v_map v)) r /\
  view_stride t v r = stride_impl t (v_map v) r /\
  view_size t v = size_impl t (exts (v_map v)) /\
  view_empty v = empty_impl (exts (v_map v)).
Proof. intros; repeat split. Qed.
Print Assumptions C13_forwarders.
