(* AccessorLaw.v — submdspan over an *arbitrary* accessor (C04, last sentence: "the new data handle is
   obtained only through the source accessor's offset() and offset_policy").

   The accessor is abstract: a handle type, `access`, `offset` (yielding the handle type of the
   offset_policy) and the offset_policy's `access`, tied by the one law the accessor requirements
   give:  offset_policy.access(a.offset(p, i), j)  is the same object as  a.access(p, i + j).
   Under that law alone the view built as  (a.offset(p, off), sub-mapping)  aliases the selected source
   elements; a handle formed any other way (the seeded change `p + off`) does not, and the counterexample
   below exhibits an accessor satisfying the law on which it fails. *)
From Coq Require Import ZArith List Lia.
From MdspanVerif Require Import MachInt ListAux Layouts LayoutSpec LayoutProofs LayoutTheorems FlagProofs Extents Submdspan SubSpec SubProofs.
Import ListNotations.
Local Open Scope Z_scope.

Section AccessorLaw.
  Variables H H' Obj : Type.
  Variable access : H -> Z -> Obj.          (* accessor_type::access(p, i) — which object *)
  Variable offset : H -> Z -> H'.           (* accessor_type::offset(p, i) : offset_policy::data_handle_type *)
  Variable access' : H' -> Z -> Obj.        (* offset_policy::access *)
  Hypothesis law : forall p i j, 0 <= i -> 0 <= j -> access' (offset p i) j = access p (i + j).

  (* one level: element j of submdspan(src_view, slices...) is the source element compose(j) *)
  Theorem sub_alias_accessor t src pat sls m' off j (p : H) :
    valid t src -> sub_kind_ok src = true ->
    valid_slices sls (dims src) -> Forall (slice_rep t) sls -> pat_ok t pat (exts src) ->
    Forall (fun d => snd d <= imax t) (sub_dims sls (dims src)) ->
    submap t src pat sls = Ok (m', off) -> inbe j (exts m') ->
    exists o' os, offset_impl t m' j = Ok o' /\ inbe (compose sls j) (exts src) /\
                  offset_impl t src (compose sls j) = Ok os /\
                  access' (offset p off) o' = access p os.
  Proof.
    intros Hv Hk Hvs Hr Hp Hb Hsub Hj.
    destruct (sub_alias_impl t src pat sls m' off j Hv Hk Hvs Hr Hp Hb Hsub Hj) as (o' & Eo & Hin & Es).
    exists o', (off + o'). split; [exact Eo|]. split; [exact Hin|]. split; [exact Es|].
    destruct (span_defined t src Hv) as (sp & Esp & _).
    destruct (sub_contained_impl t src pat sls m' off sp Hv Hk Hvs Hr Hp Hb Hsub Esp) as [Hoff _].
    assert (Ho : 0 <= o').
    { destruct (submap_refines t src pat sls Hv Hk Hvs Hr Hp Hb) as (m2 & off2 & sp3 & E & _ & Hex & _).
      assert (Hm : m2 = m') by congruence. subst m2.
      assert (Hpos : allpos (sub_dims sls (dims src))).
      { apply (nonempty_result_allpos t); auto. rewrite <- Hex. eapply inbe_all_pos; eauto. }
      destruct (sub_valid_nonempty t src pat sls m' off Hv Hk Hvs Hr Hp Hb Hpos Hsub) as (Hv2 & _).
      destruct (range_thm t m' j Hv2 Hj) as (o2 & sp2 & Eo2 & _ & Ho2).
      rewrite Eo in Eo2. injection Eo2 as <-. lia. }
    apply law; lia.
  Qed.
End AccessorLaw.

(* The law is what makes this work, and `offset` is the only way to form the handle: with the accessor
   over interleaved storage (element i at slot 2i, offset(p, i) = p + 2i — the law holds), a handle formed
   as p + off puts element 0 of the view on slot off, while the selected source element is on slot 2*off. *)
Definition il_access (p i : Z) : Z := p + 2 * i.
Definition il_offset (p i : Z) : Z := p + 2 * i.

Lemma interleaved_law p i j : 0 <= i -> 0 <= j -> il_access (il_offset p i) j = il_access p (i + j).
Proof. intros _ _. unfold il_access, il_offset. lia. Qed.

Lemma plain_add_refuted : exists p off o, 0 <= off /\ 0 <= o /\ il_access (p + off) o <> il_access p (off + o).
Proof. exists 0, 1, 0. unfold il_access. lia. Qed.

(* instance: any accessor satisfying the law, e.g. the interleaved one *)
Corollary sub_alias_interleaved t src pat sls m' off j (p : Z) :
  valid t src -> sub_kind_ok src = true ->
  valid_slices sls (dims src) -> Forall (slice_rep t) sls -> pat_ok t pat (exts src) ->
  Forall (fun d => snd d <= imax t) (sub_dims sls (dims src)) ->
  submap t src pat sls = Ok (m', off) -> inbe j (exts m') ->
  exists o' os, offset_impl t m' j = Ok o' /\ inbe (compose sls j) (exts src) /\
                offset_impl t src (compose sls j) = Ok os /\
                il_access (il_offset p off) o' = il_access p os.
Proof. apply (sub_alias_accessor Z Z Z il_access il_offset il_access interleaved_law). Qed.

(* ---- why the end-empty test must come BEFORE the mapping is evaluated (C14) ---------------------------
   `sub_offset_impl` evaluates the source mapping at the slices' lower bounds only when no slice is an empty
   slice starting at the end of its extent.  Evaluating it unconditionally (and discarding the value) is not
   equivalent: on this admissible input - valid layout_right mapping of int with span 2147483644, slices
   ([4,4), 536870910) - the lower bounds are not a valid multi-index and the evaluation overflows. *)
Definition unguarded_first (t : ity) (src : mapping) (sls : list slice) : res Z :=
  offset_impl t src (map (fun sl => wrap t (first_of sl)) sls).

Lemma unguarded_offset_refuted :
  exists (t : ity) (src : mapping) (sls : list slice),
    valid t src /\ sub_kind_ok src = true /\ valid_slices sls (dims src) /\ Forall (slice_rep t) sls /\
    (exists off, sub_offset_impl t src sls = Ok off) /\ unguarded_first t src sls = UB.
Proof.
  exists I32, (MRight [4; 536870911]), [SRange (Dyn 4) (Dyn 4); SIdx (Dyn 536870910)].
  split; [|split; [reflexivity|split; [|split; [|split]]]].
  - cbn [valid]. unfold admissible. split; [repeat constructor; cbv; intuition congruence|cbv; congruence].
  - cbv. intuition congruence.
  - repeat constructor; cbv; intuition congruence.
  - eexists. vm_compute. reflexivity.
  - vm_compute. reflexivity.
Qed.
