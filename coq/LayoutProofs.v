(* LayoutProofs.v — refinement of the implementation model to the specification (which is at the same
   time "no undefined behaviour"), and the arithmetic consequences: range, injectivity, exact span. *)
From Coq Require Import ZArith List Lia Bool Permutation.
From MdspanVerif Require Import MachInt ListAux Layouts LayoutSpec.
Import ListNotations.
Local Open Scope Z_scope.
Ltac Zify.zify_post_hook ::= Z.div_mod_to_equations.

(* ------------------------------------------------------------------------------------------------ *)
(* small facts                                                                                       *)

Lemma inbe_prodl_pos idx es : inbe idx es -> 1 <= prodl es.
Proof. revert idx; induction es as [|e es IH]; intros [|i idx]; cbn [inbe prodl]; try tauto; try lia. intros [? H]. specialize (IH _ H). nia. Qed.
Lemma inbe_all_pos idx es : inbe idx es -> Forall (fun e => 1 <= e) es.
Proof. revert idx; induction es as [|e es IH]; intros [|i idx]; cbn [inbe]; try tauto; [constructor|]. intros [? H]. constructor; [lia|eauto]. Qed.
Lemma inbe_length idx es : inbe idx es -> length idx = length es.
Proof. revert idx; induction es as [|e es IH]; intros [|i idx]; cbn [inbe length]; try tauto. intros [_ H]. f_equal; auto. Qed.
Lemma inbe_inb idx es ss : length ss = length es -> (inbe idx es <-> inb idx (combine es ss)).
Proof.
  revert idx ss; induction es as [|e es IH]; intros [|i idx] [|s ss]; cbn [length inbe inb combine]; try discriminate; try tauto.
  intros H. injection H as H. rewrite (IH idx ss H). tauto.
Qed.
Lemma inbe_nonneg idx es : inbe idx es -> Forall (fun i => 0 <= i) idx.
Proof. revert idx; induction es as [|e es IH]; intros [|i idx]; cbn [inbe]; try tauto; [constructor|]. intros [? H]. constructor; [lia|eauto]. Qed.

Lemma right_strides_length es : length (right_strides es) = length es.
Proof. induction es; cbn [right_strides length]; auto. Qed.
Lemma left_strides_go_length a es : length (left_strides_go a es) = length es.
Proof. revert a; induction es; intros; cbn [left_strides_go length]; auto. Qed.

Lemma admissible_prodl t idx es : admissible t es -> inbe idx es -> prodl es <= imax t.
Proof. intros [_ H] Hin. rewrite <- (prod1_eq_prodl es); [exact H|]. eapply inbe_all_pos; eauto. Qed.

Lemma round_trip_small t a : 0 <= a <= imax t -> wrap t (wrap U64 a) = a.
Proof. intros H. rewrite (wrap_u64_small t a H). apply wrap_small, H. Qed.

(* ------------------------------------------------------------------------------------------------ *)
(* layout_right                                                                                      *)

Lemma right_dot_range idx es : inbe idx es -> 0 <= dot idx (combine es (right_strides es)) < prodl es.
Proof.
  revert idx; induction es as [|e es IH]; intros [|i idx]; cbn [inbe prodl right_strides combine dot]; try tauto; try lia.
  intros [Hi H]. pose proof (inbe_prodl_pos _ _ H). specialize (IH _ H). nia.
Qed.

Lemma right_go_ok t : forall es idx acc,
  inbe idx es -> 0 <= acc -> acc * prodl es + dot idx (combine es (right_strides es)) <= imax t ->
  right_go t acc es idx = Ok (acc * prodl es + dot idx (combine es (right_strides es))).
Proof.
  induction es as [|e es IH]; intros [|i idx] acc; cbn [inbe right_go prodl right_strides combine dot]; try tauto.
  - intros _ ? ?. f_equal. lia.
  - intros [Hi Hin] Hacc Hb.
    pose proof (inbe_prodl_pos _ _ Hin) as Hp. pose proof (right_dot_range _ _ Hin) as Hr.
    set (d := dot idx (combine es (right_strides es))) in *. set (P := prodl es) in *.
    assert (0 <= acc * e) by nia.
    assert (acc * e <= acc * e * P) by nia.
    assert (0 <= i * P) by nia.
    assert (i <= i * P) by nia.
    assert (acc * (e * P) = acc * e * P) by ring.
    rewrite mulP_small by lia. cbn [bind].
    rewrite addP_small by lia. cbn [bind].
    rewrite wrap_small by lia.
    rewrite IH; auto; try lia. subst P d. f_equal; ring.
Qed.

Theorem right_offset_ok t es idx :
  admissible t es -> inbe idx es ->
  right_offset t es idx = Ok (dot idx (combine es (right_strides es))).
Proof.
  intros Ha Hin. pose proof (admissible_prodl t idx es Ha Hin) as Hb.
  pose proof (right_dot_range idx es Hin) as Hr.
  destruct es as [|e es]; destruct idx as [|i idx]; cbn [inbe] in Hin; try tauto; try reflexivity.
  destruct Hin as [Hi Hin]. cbn [right_offset prodl right_strides combine dot] in *.
  pose proof (inbe_prodl_pos _ _ Hin). pose proof (right_dot_range _ _ Hin).
  rewrite right_go_ok; auto; try lia. cbn [rmap]. f_equal. apply round_trip_small. lia.
Qed.

(* ------------------------------------------------------------------------------------------------ *)
(* layout_left                                                                                       *)

Fixpoint lspec (ms idx : list Z) : Z :=
  match ms, idx with m :: ms', i :: idx' => i + m * lspec ms' idx' | _, _ => 0 end.

Lemma lspec_range idx ms : inbe idx ms -> 0 <= lspec ms idx < prodl ms.
Proof.
  revert idx; induction ms as [|m ms IH]; intros [|i idx]; cbn [inbe prodl lspec]; try tauto; try lia.
  intros [Hi H]. specialize (IH _ H). nia.
Qed.
Lemma left_dot_lspec a idx es : length idx = length es ->
  dot idx (combine es (left_strides_go a es)) = a * lspec es idx.
Proof.
  revert a idx; induction es as [|e es IH]; intros a [|i idx]; cbn [length left_strides_go combine dot lspec]; try discriminate; try lia.
  intros H. injection H as H. rewrite IH by exact H. ring.
Qed.

Lemma left_go_ok t : forall es idx,
  es <> [] -> inbe idx es -> prodl es <= imax t ->
  left_go t es idx = Ok (lspec es idx).
Proof.
  induction es as [|e es IH]; intros [|i idx] Hne; cbn [inbe]; try tauto.
  intros [Hi Hin] Hb. cbn [left_go].
  destruct es as [|e' es].
  - destruct idx; cbn [inbe] in Hin; try tauto. cbn [lspec]. f_equal. lia.
  - assert (Hne' : e' :: es <> []) by discriminate.
    pose proof (lspec_range _ _ Hin) as Hr. pose proof (inbe_prodl_pos _ _ Hin) as Hp.
    set (es' := e' :: es) in *. cbn [prodl] in Hb. fold es' in Hb.
    rewrite (IH idx Hne' Hin) by nia. cbn [bind].
    cbn [lspec]. fold es'. set (r := lspec es' idx) in *.
    assert (0 <= r * e) by nia. assert (r * e + i < e * prodl es') by nia.
    rewrite mulP_small by lia. cbn [bind].
    rewrite addP_small by lia. cbn [bind].
    f_equal. rewrite wrap_small by lia. ring.
Qed.

Theorem left_offset_ok t es idx :
  admissible t es -> inbe idx es ->
  left_offset t es idx = Ok (dot idx (combine es (left_strides es))).
Proof.
  intros Ha Hin. pose proof (admissible_prodl t idx es Ha Hin) as Hb.
  unfold left_strides. rewrite left_dot_lspec by (eapply inbe_length; eauto). rewrite Z.mul_1_l.
  destruct es as [|e es]; destruct idx as [|i idx]; cbn [inbe] in Hin; try tauto; try reflexivity.
  unfold left_offset. apply left_go_ok; auto. discriminate.
Qed.

(* ------------------------------------------------------------------------------------------------ *)
(* layout_stride                                                                                     *)

Lemma stride_go_ok t : forall idx ss es,
  length ss = length es -> inbe idx es -> Forall (fun s => 0 <= s) ss ->
  dot idx (combine es ss) <= imax t ->
  stride_go t idx ss = Ok (dot idx (combine es ss)) /\ 0 <= dot idx (combine es ss).
Proof.
  induction idx as [|i idx IH]; intros [|s ss] [|e es]; cbn [length inbe]; try discriminate; try tauto.
  - intros _ _ _ _. cbn. split; [reflexivity|lia].
  - intros Hl [Hi Hin] Hs Hb. injection Hl as Hl. inversion Hs as [|? ? Hs0 Hs']; subst.
    cbn [combine dot stride_go] in *.
    assert (0 <= i * s) by nia.
    assert (Hrec : dot idx (combine es ss) <= imax t).
    { assert (0 <= dot idx (combine es ss)).
      { clear - Hin Hs' Hl. revert ss es Hl Hin Hs'. induction idx as [|j idx IHj]; intros [|s ss] [|e es]; cbn [length inbe combine dot]; try discriminate; try tauto; try lia.
        intros Hl [Hj Hin] Hs. injection Hl as Hl. inversion Hs; subst. specialize (IHj ss es Hl Hin H2). nia. }
      lia. }
    destruct (IH ss es Hl Hin Hs' Hrec) as [E Hnn]. rewrite E.
    rewrite mulP_small by lia. cbn [bind].
    rewrite addP_small by lia. split; [reflexivity|lia].
Qed.

Theorem stride_offset_ok t es ss idx :
  length ss = length es -> inbe idx es -> Forall (fun s => 0 <= s) ss ->
  dot idx (combine es ss) <= imax t ->
  stride_offset t ss idx = Ok (dot idx (combine es ss)).
Proof.
  intros Hl Hin Hs Hb. unfold stride_offset.
  destruct (stride_go_ok t idx ss es Hl Hin Hs Hb) as [E Hnn]. rewrite E. cbn [rmap]. f_equal.
  apply round_trip_small. lia.
Qed.

(* ------------------------------------------------------------------------------------------------ *)
(* padded layouts                                                                                    *)

Lemma lpad_go_ok t : forall ms idx,
  inbe idx ms -> prodl ms <= imax t ->
  lpad_go t ms idx = Ok (lspec ms idx).
Proof.
  induction ms as [|m ms IH]; intros [|i idx]; cbn [inbe]; try tauto; try reflexivity.
  intros [Hi Hin] Hb. cbn [lpad_go lspec prodl] in *.
  pose proof (lspec_range _ _ Hin) as Hr. pose proof (inbe_prodl_pos _ _ Hin) as Hp.
  rewrite (IH idx Hin) by nia. cbn [bind]. set (r := lspec ms idx) in *.
  assert (0 <= m * r) by nia. assert (i + m * r < m * prodl ms) by nia.
  rewrite mulP_small by lia. cbn [bind].
  rewrite addP_small by lia. cbn [bind].
  f_equal. apply wrap_small. lia.
Qed.

Lemma rpad_go_right_go t : forall ms idx acc, rpad_go t acc ms idx = right_go t acc ms idx.
Proof.
  induction ms as [|m ms IH]; intros [|i idx] acc; cbn [rpad_go right_go]; auto.
  unfold mulP, addP. rewrite (Z.mul_comm m acc).
  destruct (arith (promote t) (acc * m)) as [p|]; cbn [bind]; auto.
  rewrite (Z.add_comm i p). destruct (arith (promote t) (p + i)) as [s|]; cbn [bind]; auto.
Qed.

(* replacing the padded extent by a padded stride that is at least as large keeps indices in bounds *)
Lemma inbe_lpad idx es ps : inbe idx es -> hd 0 es <= ps -> inbe idx (lpad_exts es ps).
Proof.
  destruct es as [|e0 [|e1 es]]; cbn [lpad_exts]; auto.
  destruct idx as [|i idx]; cbn [inbe hd]; try tauto. intros [Hi H] Hps. split; [lia|exact H].
Qed.
Lemma inbe_app_last idx es e ps : inbe idx (es ++ [e]) -> e <= ps -> inbe idx (es ++ [ps]).
Proof.
  revert idx; induction es as [|x es IH]; intros [|i idx]; cbn [app inbe]; try tauto.
  - destruct idx; cbn [inbe]; try tauto. intros [Hi _] Hps. split; [lia|exact I].
  - intros [Hi H] Hps. split; [exact Hi|]. apply IH; auto.
Qed.
Lemma inbe_rpad idx es ps : inbe idx es -> last es 0 <= ps -> inbe idx (rpad_exts es ps).
Proof.
  destruct es as [|e0 [|e1 es]]; cbn [rpad_exts]; auto.
  set (l := e0 :: e1 :: es). intros Hin Hps.
  assert (Hne : l <> []) by discriminate.
  rewrite (app_removelast_last 0 Hne) in Hin. eapply inbe_app_last; eauto.
Qed.

Lemma prod1_lpad es ps : (2 <= length es)%nat -> prod1 (lpad_exts es ps) = max1 ps * prod1 (tl es).
Proof. destruct es as [|e0 [|e1 es]]; cbn [length]; try lia. intros _. reflexivity. Qed.
Lemma prod1_rpad es ps : (2 <= length es)%nat -> prod1 (rpad_exts es ps) = prod1 (removelast es) * max1 ps.
Proof.
  destruct es as [|e0 [|e1 es]]; cbn [length]; try lia. intros _. cbn [rpad_exts].
  rewrite prod1_app. cbn [prod1 map prodl]. lia.
Qed.

Lemma lpad_exts_length es ps : length (lpad_exts es ps) = length es.
Proof. destruct es as [|e0 [|e1 es]]; reflexivity. Qed.
Lemma rpad_exts_length es ps : length (rpad_exts es ps) = length es.
Proof.
  destruct es as [|e0 [|e1 es]]; try reflexivity. cbn [rpad_exts].
  rewrite app_length. cbn [length].
  assert (H : e0 :: e1 :: es <> []) by discriminate.
  pose proof (app_removelast_last 0 H) as E. apply (f_equal (@length Z)) in E. rewrite app_length in E. cbn [length] in *. lia.
Qed.

(* the strided offset only looks at strides: replacing extents does not change it *)
Lemma dot_combine_ext idx es es' ss : length es = length es' ->
  dot idx (combine es ss) = dot idx (combine es' ss).
Proof.
  revert idx es' ss; induction es as [|e es IH]; intros idx [|e' es'] ss; cbn [length]; try discriminate; auto.
  intros H. injection H as H. destruct ss as [|s ss]; destruct idx as [|i idx]; cbn [combine dot]; auto.
  f_equal. apply IH. exact H.
Qed.

Definition pad_valid_l t es ps := admissible t es /\ ((2 <= length es)%nat -> hd 0 es <= ps /\ max1 ps * prod1 (tl es) <= imax t).
Definition pad_valid_r t es ps := admissible t es /\ ((2 <= length es)%nat -> last es 0 <= ps /\ prod1 (removelast es) * max1 ps <= imax t).

Lemma lpad_prodl_bound t es ps idx : pad_valid_l t es ps -> inbe idx es ->
  inbe idx (lpad_exts es ps) /\ prodl (lpad_exts es ps) <= imax t.
Proof.
  intros [Ha Hp] Hin.
  destruct (Nat.le_gt_cases 2 (length es)) as [H2|H2].
  - destruct (Hp H2) as [Hps Hb]. pose proof (inbe_lpad idx es ps Hin Hps) as Hin'. split; [exact Hin'|].
    rewrite <- (prod1_eq_prodl (lpad_exts es ps)) by (eapply inbe_all_pos; eauto).
    rewrite prod1_lpad by exact H2. exact Hb.
  - assert (E : lpad_exts es ps = es) by (destruct es as [|e0 [|e1 es]]; cbn [length] in H2; try lia; reflexivity).
    rewrite E. split; [exact Hin|]. eapply admissible_prodl; eauto.
Qed.
Lemma rpad_prodl_bound t es ps idx : pad_valid_r t es ps -> inbe idx es ->
  inbe idx (rpad_exts es ps) /\ prodl (rpad_exts es ps) <= imax t.
Proof.
  intros [Ha Hp] Hin.
  destruct (Nat.le_gt_cases 2 (length es)) as [H2|H2].
  - destruct (Hp H2) as [Hps Hb]. pose proof (inbe_rpad idx es ps Hin Hps) as Hin'. split; [exact Hin'|].
    rewrite <- (prod1_eq_prodl (rpad_exts es ps)) by (eapply inbe_all_pos; eauto).
    rewrite prod1_rpad by exact H2. exact Hb.
  - assert (E : rpad_exts es ps = es) by (destruct es as [|e0 [|e1 es]]; cbn [length] in H2; try lia; reflexivity).
    rewrite E. split; [exact Hin|]. eapply admissible_prodl; eauto.
Qed.

Theorem lpad_offset_ok t es ps idx :
  pad_valid_l t es ps -> inbe idx es ->
  lpad_offset t es ps idx = Ok (dot idx (combine es (left_strides (lpad_exts es ps)))).
Proof.
  intros Hv Hin. destruct (lpad_prodl_bound t es ps idx Hv Hin) as [Hin' Hb].
  pose proof (lspec_range _ _ Hin') as Hr.
  rewrite (dot_combine_ext idx es (lpad_exts es ps)) by (symmetry; apply lpad_exts_length).
  unfold left_strides. rewrite left_dot_lspec by (eapply inbe_length; eauto). rewrite Z.mul_1_l.
  destruct es as [|e0 [|e1 es]]; destruct idx as [|i idx]; cbn [inbe] in Hin; try (exfalso; tauto).
  - reflexivity.
  - destruct idx; cbn [inbe] in Hin; try (exfalso; tauto). cbn [lpad_offset lpad_exts lspec prodl] in *.
    f_equal. rewrite (wrap_small t i) by lia. rewrite (wrap_u64_small t) by lia. lia.
  - cbn [lpad_offset]. cbn [lpad_exts] in *. rewrite lpad_go_ok by assumption. cbn [rmap]. f_equal.
    apply (wrap_u64_small t). lia.
Qed.

Theorem rpad_offset_ok t es ps idx :
  pad_valid_r t es ps -> inbe idx es ->
  rpad_offset t es ps idx = Ok (dot idx (combine es (right_strides (rpad_exts es ps)))).
Proof.
  intros Hv Hin. destruct (rpad_prodl_bound t es ps idx Hv Hin) as [Hin' Hb].
  pose proof (right_dot_range _ _ Hin') as Hr.
  rewrite (dot_combine_ext idx es (rpad_exts es ps)) by (symmetry; apply rpad_exts_length).
  destruct es as [|e0 [|e1 es]]; destruct idx as [|i idx]; cbn [inbe] in Hin; try (exfalso; tauto).
  - reflexivity.
  - destruct idx; cbn [inbe] in Hin; try (exfalso; tauto). cbn [rpad_offset rpad_exts right_strides combine dot prodl] in *.
    f_equal. rewrite (wrap_small t i) by lia. rewrite (wrap_u64_small t) by lia. lia.
  - cbn [rpad_offset]. change (removelast (e0 :: e1 :: es) ++ [ps]) with (rpad_exts (e0 :: e1 :: es) ps).
    set (ms := rpad_exts (e0 :: e1 :: es) ps) in *.
    rewrite rpad_go_right_go. rewrite right_go_ok; auto; try lia. cbn [rmap]. f_equal.
    rewrite Z.mul_0_l, Z.add_0_l. apply (wrap_u64_small t). lia.
Qed.

(* ------------------------------------------------------------------------------------------------ *)
(* the specified dimensions of a valid mapping can be ordered into a chain                           *)

Definition ptw_le (es ms : list Z) : Prop := Forall2 (fun e m => 1 <= e <= m) es ms.

Lemma ptw_le_refl es : Forall (fun e => 1 <= e) es -> ptw_le es es.
Proof. induction 1; constructor; auto; lia. Qed.
Lemma ptw_le_prodl_pos es ms : ptw_le es ms -> 1 <= prodl ms.
Proof. induction 1 as [|e m es ms Hem _ IH]; cbn [prodl]; nia. Qed.

Lemma right_chain es ms : ptw_le es ms ->
  chain (combine es (right_strides ms)) /\ 1 <= span1 (combine es (right_strides ms)) <= prodl ms.
Proof.
  induction 1 as [|e m es ms Hem Hrest IH]; cbn [right_strides combine chain span1 prodl]; [repeat split; lia|].
  destruct IH as [Hc Hs]. pose proof (ptw_le_prodl_pos _ _ Hrest). repeat split; auto; try nia.
Qed.
Lemma right_span_exact es : Forall (fun e => 1 <= e) es -> span1 (combine es (right_strides es)) = prodl es.
Proof. induction 1 as [|e es He _ IH]; cbn [right_strides combine span1 prodl]; [reflexivity|]. rewrite IH. ring. Qed.

Lemma left_asc a es ms : ptw_le es ms -> 0 < a ->
  asc (combine es (left_strides_go a ms)) /\ allpos (combine es (left_strides_go a ms)).
Proof.
  intros H; revert a; induction H as [|e m es ms Hem Hrest IH]; intros a Ha; cbn [left_strides_go combine]; [split; [exact I|constructor]|].
  assert (Ham : 0 < a * m) by nia. destruct (IH (a * m) Ham) as [Hasc Hpos]. split.
  - destruct Hrest as [|e' m' es' ms' Hem' Hrest']; cbn [left_strides_go combine] in *; [exact I|].
    split; [nia|exact Hasc].
  - constructor; [cbn [fst snd]; lia|exact Hpos].
Qed.
Lemma left_span_exact a es : span1 (combine es (left_strides_go a es)) = a * (prodl es - 1) + 1.
Proof. revert a; induction es as [|e es IH]; intros a; cbn [left_strides_go combine span1 prodl]; [ring|]. rewrite IH. ring. Qed.

Lemma right_allpos es ms : ptw_le es ms -> allpos (combine es (right_strides ms)).
Proof.
  induction 1 as [|e m es ms Hem Hrest IH]; cbn [right_strides combine]; [constructor|].
  pose proof (ptw_le_prodl_pos _ _ Hrest). constructor; [cbn [fst snd]; lia|exact IH].
Qed.

Lemma ptw_le_lpad idx es ps : inbe idx es -> ((2 <= length es)%nat -> hd 0 es <= ps) -> ptw_le es (lpad_exts es ps).
Proof.
  intros Hin Hps. pose proof (inbe_all_pos _ _ Hin) as Hpos.
  destruct es as [|e0 [|e1 es]]; cbn [lpad_exts]; try (apply ptw_le_refl; assumption).
  inversion Hpos as [|? ? H0 Hpos']; subst. cbn [length hd] in Hps.
  constructor; [split; [lia|apply Hps; lia]|apply ptw_le_refl; assumption].
Qed.
Lemma ptw_le_app es ms e m : ptw_le es ms -> 1 <= e <= m -> ptw_le (es ++ [e]) (ms ++ [m]).
Proof. intros H Hem. induction H; cbn [app]; [repeat constructor; lia|constructor; auto]. Qed.
Lemma ptw_le_rpad idx es ps : inbe idx es -> ((2 <= length es)%nat -> last es 0 <= ps) -> ptw_le es (rpad_exts es ps).
Proof.
  intros Hin Hps. pose proof (inbe_all_pos _ _ Hin) as Hpos.
  destruct es as [|e0 [|e1 es]]; cbn [rpad_exts]; try (apply ptw_le_refl; assumption).
  set (l := e0 :: e1 :: es) in *. assert (Hne : l <> []) by discriminate.
  assert (Hl : (2 <= length l)%nat) by (cbn; lia). specialize (Hps Hl).
  rewrite (app_removelast_last 0 Hne) at 1. rewrite (app_removelast_last 0 Hne) in Hpos.
  apply Forall_app in Hpos as [Hp1 Hp2]. apply ptw_le_app; [apply ptw_le_refl; exact Hp1|].
  apply Forall_inv in Hp2. lia.
Qed.

Lemma dims_chainable t m idx : valid t m -> inbe idx (exts m) ->
  chainable (dims m) /\ allpos (dims m) /\ inb idx (dims m) /\ length (spec_strides m) = length (exts m).
Proof.
  intros Hv Hin. pose proof (inbe_all_pos _ _ Hin) as Hpos.
  destruct m as [es|es|es ss|es ps|es ps]; unfold dims; cbn [valid exts spec_strides] in *.
  - destruct (left_asc 1 es es (ptw_le_refl es Hpos)) as [Hasc Hap]; [lia|].
    unfold left_strides. rewrite left_strides_go_length. repeat split; auto.
    + apply orderable_chainable; auto. exists (combine es (left_strides_go 1 es)). split; auto.
    + apply inbe_inb; auto. apply left_strides_go_length.
  - destruct (right_chain es es (ptw_le_refl es Hpos)) as [Hc _].
    rewrite right_strides_length. repeat split; auto.
    + exists (combine es (right_strides es)). split; auto.
    + apply right_allpos, ptw_le_refl, Hpos.
    + apply inbe_inb; auto. apply right_strides_length.
  - destruct Hv as (Hl & He & Hs & Hord & Hsp).
    assert (Hap : allpos (combine es ss)).
    { clear - Hl Hpos Hs. revert ss Hl Hs. induction Hpos as [|e es He _ IH]; intros [|s ss] Hl Hs; cbn [length combine] in *; try discriminate; [constructor|].
      injection Hl as Hl. inversion Hs; subst. constructor; [cbn [fst snd]; lia|apply IH; auto]. }
    repeat split; auto.
    + apply Hord. clear - Hpos. induction Hpos as [|e es He _ IH]; cbn [existsb]; [reflexivity|].
      rewrite IH, orb_false_r. apply Z.eqb_neq. lia.
    + apply inbe_inb; auto.
  - destruct Hv as [Ha Hp].
    assert (Hle : ptw_le es (lpad_exts es ps)) by (eapply ptw_le_lpad; eauto; intros H2; apply Hp; exact H2).
    destruct (left_asc 1 es (lpad_exts es ps) Hle) as [Hasc Hap]; [lia|].
    unfold left_strides. rewrite left_strides_go_length, lpad_exts_length. repeat split; auto.
    + apply orderable_chainable; auto. eexists. split; [apply Permutation_refl|exact Hasc].
    + apply inbe_inb; auto. rewrite left_strides_go_length. apply lpad_exts_length.
  - destruct Hv as [Ha Hp].
    assert (Hle : ptw_le es (rpad_exts es ps)) by (eapply ptw_le_rpad; eauto; intros H2; apply Hp; exact H2).
    destruct (right_chain es (rpad_exts es ps) Hle) as [Hc _].
    rewrite right_strides_length, rpad_exts_length. repeat split; auto.
    + eexists. split; [apply Permutation_refl|exact Hc].
    + apply right_allpos, Hle.
    + apply inbe_inb; auto. rewrite right_strides_length. apply rpad_exts_length.
Qed.

(* the standard's precondition for layout_stride (all strides positive, and some permutation p with
   s[p_i] >= s[p_{i-1}] * e[p_{i-1}]) implies the chain condition `valid` asks for *)
Lemma std_precondition_chainable es ss : length ss = length es ->
  Forall (fun e => 0 <= e) es -> Forall (fun s => 0 < s) ss -> orderable (combine es ss) ->
  existsb (Z.eqb 0) es = false -> chainable (combine es ss).
Proof.
  intros Hl He Hs Ho Hz. apply orderable_chainable; auto.
  clear Ho. revert ss Hl Hs Hz. induction He as [|e es He0 _ IH]; intros [|s ss] Hl Hs Hz; cbn [length combine existsb] in *; try discriminate; [constructor|].
  apply orb_false_iff in Hz as [Hz1 Hz2]. apply Z.eqb_neq in Hz1. injection Hl as Hl. inversion Hs; subst.
  constructor; [cbn [fst snd]; lia|apply IH; auto].
Qed.

(* ------------------------------------------------------------------------------------------------ *)
(* the two central theorems for offsets                                                              *)

Theorem spec_range_inj t m i1 i2 :
  valid t m -> inbe i1 (exts m) -> inbe i2 (exts m) ->
  0 <= spec_offset m i1 < span1 (dims m) /\ (spec_offset m i1 = spec_offset m i2 -> i1 = i2).
Proof.
  intros Hv H1 H2. destruct (dims_chainable t m i1 Hv H1) as (Hc & _ & Hi1 & _).
  destruct (dims_chainable t m i2 Hv H2) as (_ & _ & Hi2 & _).
  unfold spec_offset. apply chainable_range_inj; auto.
Qed.

Lemma max1_id_pos es : Forall (fun e => 1 <= e) es -> map max1 es = es.
Proof. induction 1 as [|e es He _ IH]; cbn [map]; [reflexivity|]. rewrite IH. unfold max1. f_equal. lia. Qed.

Theorem offset_refines t m idx :
  valid t m -> inbe idx (exts m) -> offset_impl t m idx = Ok (spec_offset m idx).
Proof.
  intros Hv Hin. pose proof (spec_range_inj t m idx idx Hv Hin Hin) as [Hr _].
  destruct m as [es|es|es ss|es ps|es ps]; cbn [valid exts offset_impl] in *; unfold spec_offset, dims in *; cbn [exts spec_strides] in *.
  - apply left_offset_ok; auto.
  - apply right_offset_ok; auto.
  - destruct Hv as (Hl & He & Hs & Hord & Hsp). rewrite <- Hl, Nat.eqb_refl.
    apply stride_offset_ok; auto.
    + eapply Forall_impl; [|exact Hs]. cbn. intros; lia.
    + rewrite (max1_id_pos es) in Hsp by (eapply inbe_all_pos; eauto). lia.
  - apply lpad_offset_ok; auto.
  - apply rpad_offset_ok; auto.
Qed.

(* ------------------------------------------------------------------------------------------------ *)
(* required_span_size                                                                                *)

Definition has_zero (es : list Z) : bool := existsb (Z.eqb 0) es.

Lemma has_zero_false es : Forall (fun e => 0 <= e) es -> has_zero es = false -> Forall (fun e => 1 <= e) es.
Proof.
  induction 1 as [|e es He _ IH]; cbn [has_zero existsb]; [constructor|]. intros H. apply orb_false_iff in H as [H1 H2].
  apply Z.eqb_neq in H1. constructor; [lia|apply IH; exact H2].
Qed.
Lemma has_zero_true es : has_zero es = true -> In 0 es.
Proof. unfold has_zero. rewrite existsb_exists. intros (x & Hx & E). apply Z.eqb_eq in E. subst. exact Hx. Qed.

Lemma prod_loop_ok t : forall es v,
  Forall (fun e => 0 <= e) es -> 0 <= v -> v * prod1 es <= imax t ->
  prod_loop t v es = Ok (v * prodl es).
Proof.
  induction es as [|e es IH]; intros v He Hv Hb; cbn [prod_loop prodl]; [f_equal; lia|].
  inversion He as [|? ? He0 He']; subst. rewrite prod1_cons in Hb. pose proof (prod1_pos es).
  assert (max1 e = Z.max e 1) by reflexivity.
  assert (0 <= v * e) by nia.
  assert (v * e <= v * max1 e) by nia.
  assert (v * max1 e <= v * max1 e * prod1 es) by nia.
  rewrite mul_assign_small by nia. cbn [bind].
  rewrite IH; auto; [f_equal; ring|nia].
Qed.

Lemma span1_max1_ge1 es ss : Forall (fun s => 0 <= s) ss -> 1 <= span1 (combine (map max1 es) ss).
Proof.
  revert ss; induction es as [|e es IH]; intros [|s ss] Hs; cbn [map combine span1]; try lia.
  inversion Hs as [|? ? Hs0 Hs']; subst. specialize (IH ss Hs').
  assert (0 <= max1 e - 1) by (unfold max1; lia). nia.
Qed.

Lemma stride_span_go_ok t : forall es ss sp,
  length ss = length es -> Forall (fun e => 0 <= e <= imax t) es -> Forall (fun s => 0 <= s) ss -> 0 <= sp ->
  sp + (span1 (combine (map max1 es) ss) - 1) <= imax t ->
  stride_span_go t sp es ss = Ok (if has_zero es then 0 else sp + (span1 (combine es ss) - 1)).
Proof.
  induction es as [|e es IH]; intros [|s ss] sp Hl He Hs Hsp Hb; cbn [length] in Hl; try discriminate.
  - cbn. f_equal. lia.
  - injection Hl as Hl. inversion He as [|? ? He0 He']; subst. inversion Hs as [|? ? Hs0 Hs']; subst.
    cbn [stride_span_go has_zero existsb map combine span1] in *.
    destruct (e =? 0) eqn:E0.
    + apply Z.eqb_eq in E0. subst e. reflexivity.
    + apply Z.eqb_neq in E0. assert (E0' : (0 =? e) = false) by (apply Z.eqb_neq; lia). rewrite E0'. cbn [orb].
      assert (Hm : max1 e = e) by (unfold max1; lia). rewrite Hm in Hb.
      pose proof (span1_max1_ge1 es ss Hs').
      assert (0 <= (e - 1) * s) by nia.
      rewrite subP_small by lia. cbn [bind].
      rewrite (wrap_small t (e - 1)) by lia.
      rewrite mulP_small by lia. cbn [bind].
      rewrite add_assign_small by lia. cbn [bind].
      rewrite IH; auto; try lia.
      change (existsb (Z.eqb 0) es) with (has_zero es). destruct (has_zero es); f_equal; lia.
Qed.

Definition is_lrs (m : mapping) : bool := match m with MLeft _ | MRight _ | MStride _ _ => true | _ => false end.

Lemma admissible_nonneg t es : admissible t es -> Forall (fun e => 0 <= e) es.
Proof. intros [H _]. eapply Forall_impl; [|exact H]. cbn. intros; lia. Qed.

Lemma prodl_span_left es : Forall (fun e => 0 <= e) es ->
  prodl es = if has_zero es then 0 else span1 (combine es (left_strides es)).
Proof.
  intros He. destruct (has_zero es) eqn:Hz.
  - apply prodl_zero, has_zero_true, Hz.
  - unfold left_strides. rewrite left_span_exact. ring.
Qed.
Lemma prodl_span_right es : Forall (fun e => 0 <= e) es ->
  prodl es = if has_zero es then 0 else span1 (combine es (right_strides es)).
Proof.
  intros He. destruct (has_zero es) eqn:Hz.
  - apply prodl_zero, has_zero_true, Hz.
  - rewrite right_span_exact; [reflexivity|]. apply has_zero_false; auto.
Qed.

(* required_span_size of layout_left / layout_right / layout_stride: 0 for an empty index space,
   otherwise 1 + the largest offset (span1 of the specified dimensions) *)
Theorem span_refines_lrs t m : valid t m -> is_lrs m = true ->
  span_impl t m = Ok (if has_zero (exts m) then 0 else span1 (dims m)).
Proof.
  intros Hv Hk. destruct m as [es|es|es ss|es ps|es ps]; try discriminate; unfold dims; cbn [valid exts spec_strides span_impl] in *.
  - pose proof (admissible_nonneg t es Hv) as Hnn. destruct Hv as [_ Hb].
    rewrite prod_loop_ok by (auto; lia). f_equal. rewrite Z.mul_1_l. apply prodl_span_left; auto.
  - pose proof (admissible_nonneg t es Hv) as Hnn. destruct Hv as [_ Hb].
    rewrite prod_loop_ok by (auto; lia). f_equal. rewrite Z.mul_1_l. apply prodl_span_right; auto.
  - destruct Hv as (Hl & He & Hs & Hord & Hsp).
    rewrite stride_span_go_ok; auto; try lia.
    + destruct (has_zero es); f_equal; lia.
    + eapply Forall_impl; [|exact Hs]. cbn. intros; lia.
Qed.

Theorem span_left_right_is_product t es :
  admissible t es -> span_impl t (MLeft es) = Ok (prodl es) /\ span_impl t (MRight es) = Ok (prodl es).
Proof.
  intros Ha. pose proof (admissible_nonneg t es Ha) as Hnn. destruct Ha as [_ Hb]. cbn [span_impl].
  rewrite prod_loop_ok by (auto; lia). rewrite Z.mul_1_l. auto.
Qed.

(* the last multi-index of a non-empty space attains span1 - 1: span1 is exactly 1 + the largest offset *)
Lemma span1_attained ds : allpos ds ->
  inb (map (fun d => fst d - 1) ds) ds /\ dot (map (fun d => fst d - 1) ds) ds = span1 ds - 1.
Proof.
  induction 1 as [|[e s] ds [He Hs] _ [IH1 IH2]]; cbn [map inb dot span1 fst snd] in *; [split; [exact I|lia]|].
  split; [split; [lia|exact IH1]|lia].
Qed.

Lemma left_span_le a es ms : ptw_le es ms -> 0 < a ->
  span1 (combine es (left_strides_go a ms)) <= a * (prodl ms - 1) + 1.
Proof.
  intros H; revert a; induction H as [|e m es ms Hem Hrest IH]; intros a Ha; cbn [left_strides_go combine span1 prodl]; [lia|].
  assert (Ham : 0 < a * m) by nia. specialize (IH (a * m) Ham). pose proof (ptw_le_prodl_pos _ _ Hrest). nia.
Qed.

Lemma has_zero_inbe_exists es : Forall (fun e => 0 <= e) es -> has_zero es = false -> inbe (map (fun _ => 0) es) es.
Proof.
  intros He Hz. pose proof (has_zero_false es He Hz) as Hp. clear He Hz.
  induction Hp as [|e es H1 _ IH]; cbn [map inbe]; [exact I|]. split; [lia|exact IH].
Qed.

(* padded layouts: 0 for an empty index space, 1 for rank 0, otherwise
   1 + largest offset <= required_span_size = padded stride * product of the remaining extents *)
Theorem span_padded_l t es ps : pad_valid_l t es ps ->
  exists sp, span_impl t (MLPad es ps) = Ok sp /\
    (has_zero es = true -> sp = 0) /\ (es = [] -> sp = 1) /\
    (has_zero es = false -> span1 (dims (MLPad es ps)) <= sp /\ sp = prodl (lpad_exts es ps)).
Proof.
  intros [Ha Hp]. pose proof (admissible_nonneg t es Ha) as Hnn.
  destruct es as [|e0 [|e1 es]].
  - exists 1. cbn. repeat split; auto; try discriminate; lia.
  - exists e0. cbn [span_impl has_zero existsb lpad_exts prodl]. repeat split; auto; try discriminate.
    + intros H. rewrite orb_false_r in H. apply Z.eqb_eq in H. lia.
    + unfold dims. cbn [exts spec_strides lpad_exts left_strides left_strides_go combine span1]. lia.
    + lia.
  - set (es' := e1 :: es) in *. assert (H2 : (2 <= length (e0 :: es'))%nat) by (cbn; lia).
    destruct (Hp H2) as [Hps Hb]. cbn [hd tl] in Hps, Hb.
    inversion Hnn as [|? ? H0 Hnn']; subst.
    cbn [span_impl]. fold es'. change (existsb (Z.eqb 0) (e0 :: es')) with (has_zero (e0 :: es')).
    destruct (has_zero (e0 :: es')) eqn:Hz.
    + exists 0. repeat split; auto; discriminate.
    + assert (0 <= ps) by lia. assert (ps <= max1 ps) by (unfold max1; lia). pose proof (prod1_pos es').
      exists (ps * prodl es'). rewrite prod_loop_ok by (auto; nia). repeat split; auto; try discriminate.
      unfold dims. cbn [exts spec_strides]. change (lpad_exts (e0 :: es') ps) with (ps :: es').
      pose proof (has_zero_false _ Hnn Hz) as Hpos.
      assert (Hle : ptw_le (e0 :: es') (ps :: es')).
      { inversion Hpos; subst. constructor; [lia|apply ptw_le_refl; assumption]. }
      pose proof (left_span_le 1 _ _ Hle) as Hs. unfold left_strides. cbn [prodl] in Hs. lia.
Qed.

Theorem span_padded_r t es ps : pad_valid_r t es ps ->
  exists sp, span_impl t (MRPad es ps) = Ok sp /\
    (has_zero es = true -> sp = 0) /\ (es = [] -> sp = 1) /\
    (has_zero es = false -> span1 (dims (MRPad es ps)) <= sp /\ sp = prodl (rpad_exts es ps)).
Proof.
  intros [Ha Hp]. pose proof (admissible_nonneg t es Ha) as Hnn.
  destruct es as [|e0 [|e1 es]].
  - exists 1. cbn. repeat split; auto; try discriminate; lia.
  - exists e0. cbn [span_impl has_zero existsb rpad_exts prodl]. repeat split; auto; try discriminate.
    + intros H. rewrite orb_false_r in H. apply Z.eqb_eq in H. lia.
    + unfold dims. cbn [exts spec_strides rpad_exts right_strides combine span1 prodl]. lia.
    + lia.
  - set (l := e0 :: e1 :: es) in *. assert (H2 : (2 <= length l)%nat) by (cbn; lia).
    destruct (Hp H2) as [Hps Hb]. assert (Hne : l <> []) by discriminate.
    assert (Esp : span_impl t (MRPad l ps) = if has_zero l then Ok 0 else
              bind (prod_loop t 1 (removelast l)) (fun v => rmap (wrap t) (mulP t v ps))) by reflexivity.
    destruct (has_zero l) eqn:Hz.
    + exists 0. rewrite Esp. repeat split; auto; discriminate.
    + pose proof (has_zero_false _ Hnn Hz) as Hpos.
      assert (Hnn' : Forall (fun e => 0 <= e) (removelast l)).
      { rewrite (app_removelast_last 0 Hne) in Hnn. apply Forall_app in Hnn. tauto. }
      assert (Hlast : 1 <= last l 0).
      { rewrite (app_removelast_last 0 Hne) in Hpos. apply Forall_app in Hpos as [_ Hp2]. apply Forall_inv in Hp2. exact Hp2. }
      assert (0 <= ps) by lia. assert (ps <= max1 ps) by (unfold max1; lia). pose proof (prod1_pos (removelast l)).
      pose proof (prodl_nonneg _ Hnn') as Hpn. pose proof (prodl_le_prod1 _ Hnn') as Hple.
      exists (prodl (removelast l) * ps). rewrite Esp. assert (1 <= max1 ps) by (unfold max1; lia).
      rewrite prod_loop_ok by (auto; nia). cbn [bind]. rewrite Z.mul_1_l.
      rewrite mulP_small by nia. cbn [rmap]. rewrite wrap_small by nia.
      repeat split; auto; try discriminate.
      * unfold dims. cbn [exts spec_strides]. fold l.
        assert (Hle : ptw_le l (rpad_exts l ps)).
        { eapply (ptw_le_rpad (map (fun _ => 0) l)); [apply has_zero_inbe_exists; auto|]. intros _. exact Hps. }
        destruct (right_chain _ _ Hle) as [_ [_ Hsp]].
        replace (prodl (rpad_exts l ps)) with (prodl (removelast l) * ps) in Hsp; [exact Hsp|].
        unfold l. cbn [rpad_exts]. fold l. rewrite prodl_app. cbn [prodl]. ring.
      * unfold l. cbn [rpad_exts]. fold l. rewrite prodl_app. cbn [prodl]. ring.
Qed.

(* ------------------------------------------------------------------------------------------------ *)
(* stride(r) and strides()                                                                           *)

Lemma prod1_firstn_le n es : prod1 (firstn n es) <= prod1 es.
Proof.
  rewrite <- (firstn_skipn n es) at 2. rewrite prod1_app.
  pose proof (prod1_pos (firstn n es)). pose proof (prod1_pos (skipn n es)). nia.
Qed.
Lemma prod1_skipn_le n es : prod1 (skipn n es) <= prod1 es.
Proof.
  rewrite <- (firstn_skipn n es) at 2. rewrite prod1_app.
  pose proof (prod1_pos (firstn n es)). pose proof (prod1_pos (skipn n es)). nia.
Qed.
Lemma prod1_rev l : prod1 (rev l) = prod1 l.
Proof. unfold prod1. rewrite map_rev. apply prodl_rev. Qed.

Lemma left_strides_go_nth a es r : (r < length es)%nat -> nth r (left_strides_go a es) 0 = a * prodl (firstn r es).
Proof.
  revert a r; induction es as [|e es IH]; intros a [|r]; cbn [length left_strides_go nth firstn prodl]; try lia.
  intros H. rewrite IH by lia. ring.
Qed.
Lemma right_strides_nth es r : (r < length es)%nat -> nth r (right_strides es) 0 = prodl (skipn (S r) es).
Proof.
  revert r; induction es as [|e es IH]; intros r Hr; cbn [length] in Hr; [lia|].
  destruct r as [|r].
  - cbn [right_strides nth]. destruct es; reflexivity.
  - cbn [right_strides nth]. rewrite IH by lia. reflexivity.
Qed.

Lemma Forall_firstn {A} (P : A -> Prop) n l : Forall P l -> Forall P (firstn n l).
Proof. intros H. rewrite <- (firstn_skipn n l) in H. apply Forall_app in H. tauto. Qed.
Lemma Forall_skipn {A} (P : A -> Prop) n l : Forall P l -> Forall P (skipn n l).
Proof. intros H. rewrite <- (firstn_skipn n l) in H. apply Forall_app in H. tauto. Qed.
Lemma Forall_rev' {A} (P : A -> Prop) l : Forall P l -> Forall P (rev l).
Proof. intros H. rewrite Forall_forall in *. intros x Hx. apply H. apply in_rev. exact Hx. Qed.
Lemma Forall_removelast {A} (P : A -> Prop) l : Forall P l -> Forall P (removelast l).
Proof.
  destruct l as [|x l]; [auto|]. intros H. assert (Hne : x :: l <> []) by discriminate.
  rewrite (app_removelast_last x Hne) in H. apply Forall_app in H. tauto.
Qed.
Lemma Forall_tl {A} (P : A -> Prop) l : Forall P l -> Forall P (tl l).
Proof. destruct l; cbn [tl]; auto. intros H. inversion H; auto. Qed.

Lemma removelast_length {A} (l : list A) : length (removelast l) = (length l - 1)%nat.
Proof.
  destruct l as [|x l]; [reflexivity|]. assert (Hne : x :: l <> []) by discriminate.
  pose proof (app_removelast_last x Hne) as E. apply (f_equal (@length A)) in E. rewrite app_length in E. cbn [length] in *. lia.
Qed.

Theorem stride_refines t m r : valid t m -> (r < length (exts m))%nat ->
  stride_impl t m r = Ok (nth r (spec_strides m) 0).
Proof.
  intros Hv Hr. unfold stride_impl. assert (E : Nat.ltb r (length (exts m)) = true) by (apply Nat.ltb_lt; exact Hr).
  rewrite E. cbn [negb].
  destruct m as [es|es|es ss|es ps|es ps]; cbn [valid exts spec_strides] in *.
  - pose proof (admissible_nonneg t es Hv) as Hnn. destruct Hv as [_ Hb].
    rewrite prod_loop_ok; [| apply Forall_firstn; auto | lia | pose proof (prod1_firstn_le r es); lia].
    unfold left_strides. rewrite left_strides_go_nth by exact Hr. reflexivity.
  - pose proof (admissible_nonneg t es Hv) as Hnn. destruct Hv as [_ Hb].
    rewrite prod_loop_ok; [| apply Forall_rev', Forall_skipn; auto | lia | rewrite prod1_rev; pose proof (prod1_skipn_le (S r) es); lia].
    rewrite prodl_rev, right_strides_nth by exact Hr. f_equal. ring.
  - destruct Hv as (Hl & _). unfold nth_chk. rewrite <- Hl in Hr.
    rewrite (nth_error_nth' ss 0 Hr). reflexivity.
  - destruct Hv as [Ha Hp]. pose proof (admissible_nonneg t es Ha) as Hnn.
    destruct (Nat.eqb r 0) eqn:E0.
    + apply Nat.eqb_eq in E0. subst r. destruct es as [|e0 [|e1 es]]; cbn [length] in Hr; try lia; reflexivity.
    + apply Nat.eqb_neq in E0. destruct es as [|e0 [|e1 es]]; cbn [length] in Hr; try lia.
      set (es' := e1 :: es) in *. assert (H2 : (2 <= length (e0 :: es'))%nat) by (cbn; lia).
      destruct (Hp H2) as [Hps Hb]. cbn [hd tl] in *. inversion Hnn as [|? ? H0 Hnn']; subst.
      assert (0 <= ps) by lia. assert (ps <= max1 ps) by (unfold max1; lia).
      pose proof (prod1_firstn_le (r - 1) es'). pose proof (prod1_pos (firstn (r - 1) es')). pose proof (prod1_pos es').
      rewrite prod_loop_ok; [| apply Forall_firstn; auto | lia | nia].
      change (lpad_exts (e0 :: es') ps) with (ps :: es'). unfold left_strides. rewrite left_strides_go_nth by (unfold es'; cbn [length] in *; lia).
      destruct r as [|r]; [lia|]. cbn [firstn prodl]. replace (S r - 1)%nat with r by lia. f_equal. ring.
  - destruct Hv as [Ha Hp]. pose proof (admissible_nonneg t es Ha) as Hnn.
    destruct (Nat.eqb r (length es - 1)) eqn:E0.
    + apply Nat.eqb_eq in E0. f_equal.
      rewrite right_strides_nth by (rewrite rpad_exts_length; exact Hr).
      rewrite skipn_all2; [reflexivity|]. rewrite rpad_exts_length. lia.
    + apply Nat.eqb_neq in E0. destruct es as [|e0 [|e1 es]]; cbn [length] in Hr, E0; try lia.
      set (l := e0 :: e1 :: es) in *. assert (H2 : (2 <= length l)%nat) by (cbn; lia).
      destruct (Hp H2) as [Hps Hb].
      assert (Hnn' : Forall (fun e => 0 <= e) (removelast l)) by (apply Forall_removelast; auto).
      assert (Hlast : 0 <= last l 0).
      { assert (Hne : l <> []) by discriminate. rewrite (app_removelast_last 0 Hne) in Hnn. apply Forall_app in Hnn as [_ Hp2]. apply Forall_inv in Hp2. exact Hp2. }
      assert (0 <= ps) by lia. assert (ps <= max1 ps) by (unfold max1; lia).
      pose proof (prod1_skipn_le (S r) (removelast l)). pose proof (prod1_pos (skipn (S r) (removelast l))). pose proof (prod1_pos (removelast l)).
      rewrite prod_loop_ok; [| apply Forall_rev', Forall_skipn; auto | lia | rewrite prod1_rev; nia].
      rewrite prodl_rev. rewrite right_strides_nth by (rewrite rpad_exts_length; exact Hr).
      unfold l at 2. cbn [rpad_exts]. fold l.
      rewrite skipn_app. rewrite prodl_app.
      assert (Hlen : length (removelast l) = S (length es)) by (rewrite removelast_length; reflexivity).
      replace (S r - length (removelast l))%nat with 0%nat by lia. cbn [skipn prodl]. f_equal. ring.
Qed.

Lemma left_strides_go_app a l x : left_strides_go a (l ++ [x]) = left_strides_go a l ++ [a * prodl l].
Proof. revert a; induction l as [|e l IH]; intros a; cbn [app left_strides_go prodl]; [rewrite Z.mul_1_r; reflexivity|]. rewrite IH, Z.mul_assoc. reflexivity. Qed.

Lemma rev_right_strides ms : rev (right_strides ms) = left_strides_go 1 (rev ms).
Proof.
  induction ms as [|m ms IH]; cbn [right_strides rev]; [reflexivity|].
  rewrite left_strides_go_app, IH, prodl_rev, Z.mul_1_l. reflexivity.
Qed.

Lemma pad_strides_go_ok t : forall es v,
  Forall (fun e => 0 <= e) es -> 0 <= v -> v * prod1 es <= imax t ->
  pad_strides_go t v es = Ok (left_strides_go v es ++ [v * prodl es]).
Proof.
  induction es as [|e es IH]; intros v He Hv Hb; cbn [pad_strides_go left_strides_go prodl app]; [rewrite Z.mul_1_r; reflexivity|].
  inversion He as [|? ? He0 He']; subst. rewrite prod1_cons in Hb. pose proof (prod1_pos es).
  assert (max1 e = Z.max e 1) by reflexivity.
  assert (0 <= v * e) by nia.
  assert (v * e <= v * max1 e) by nia.
  assert (v * max1 e <= v * max1 e * prod1 es) by nia.
  rewrite mul_assign_small by nia. cbn [bind].
  rewrite IH; auto; [|nia]. cbn [rmap]. rewrite Z.mul_assoc. reflexivity.
Qed.

Theorem strides_refines t m : valid t m ->
  match m with MLeft _ | MRight _ => True | _ => strides_impl t m = Ok (spec_strides m) end.
Proof.
  intros Hv. destruct m as [es|es|es ss|es ps|es ps]; cbn [valid spec_strides strides_impl] in *; auto.
  - destruct Hv as [Ha Hp]. pose proof (admissible_nonneg t es Ha) as Hnn.
    destruct es as [|e0 [|e1 es]]; try reflexivity.
    set (es' := e1 :: es) in *. assert (H2 : (2 <= length (e0 :: es'))%nat) by (cbn; lia).
    destruct (Hp H2) as [Hps Hb]. cbn [hd tl] in *. inversion Hnn as [|? ? H0 Hnn']; subst.
    assert (0 <= ps) by lia. assert (ps <= max1 ps) by (unfold max1; lia). pose proof (prod1_pos es').
    rewrite mul_assign_small by nia. cbn [bind]. rewrite Z.mul_1_l.
    assert (Hne : es' <> []) by discriminate.
    assert (Hrl : prod1 (removelast es') <= prod1 es').
    { rewrite (app_removelast_last 0 Hne) at 2. rewrite prod1_app. pose proof (prod1_pos (removelast es')). pose proof (prod1_pos [last es' 0]). nia. }
    pose proof (prod1_pos (removelast es')).
    rewrite pad_strides_go_ok; [| apply Forall_removelast; auto | lia | nia].
    cbn [rmap]. change (lpad_exts (e0 :: es') ps) with (ps :: es'). unfold left_strides. cbn [left_strides_go]. rewrite Z.mul_1_l.
    rewrite (app_removelast_last 0 Hne) at 3. rewrite left_strides_go_app. reflexivity.
  - destruct Hv as [Ha Hp]. pose proof (admissible_nonneg t es Ha) as Hnn.
    destruct es as [|e0 [|e1 es]]; try reflexivity.
    set (es' := e1 :: es) in *. set (l := e0 :: es') in *. assert (H2 : (2 <= length l)%nat) by (cbn; lia).
    destruct (Hp H2) as [Hps Hb].
    assert (Hne' : es' <> []) by discriminate. assert (Hne : l <> []) by discriminate.
    assert (Erl : removelast l = e0 :: removelast es') by reflexivity.
    assert (Hlast : 0 <= last l 0).
    { rewrite (app_removelast_last 0 Hne) in Hnn. apply Forall_app in Hnn as [_ Hp2]. apply Forall_inv in Hp2. exact Hp2. }
    inversion Hnn as [|? ? H0 Hnn']; subst.
    assert (0 <= ps) by lia. assert (ps <= max1 ps) by (unfold max1; lia).
    rewrite Erl in Hb. rewrite prod1_cons in Hb. pose proof (prod1_pos (removelast es')).
    assert (1 <= max1 e0) by (unfold max1; lia).
    assert (Hx : prod1 (removelast es') <= max1 e0 * prod1 (removelast es')) by nia.
    set (X := max1 e0 * prod1 (removelast es')) in *.
    assert (Hb1 : max1 ps <= X * max1 ps) by nia.
    assert (Hb2 : ps * prod1 (removelast es') <= X * max1 ps) by nia.
    rewrite mul_assign_small by lia. cbn [bind]. rewrite Z.mul_1_l.
    rewrite pad_strides_go_ok; [| apply Forall_rev', Forall_removelast; auto | lia | rewrite prod1_rev; lia].
    cbn [rmap]. f_equal.
    rewrite <- (rev_involutive (right_strides (rpad_exts l ps))). f_equal.
    rewrite rev_right_strides. change (rpad_exts l ps) with ((e0 :: removelast es') ++ [ps]).
    rewrite rev_app_distr. cbn [rev app].
    cbn [left_strides_go]. rewrite Z.mul_1_l, left_strides_go_app. reflexivity.
Qed.
