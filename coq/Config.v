(* Config.v — C15: the alternative code paths selected by the configuration macros compute the same
   functions, and the debug-mode checks evaluate to "pass" on valid inputs.
   Paths modelled: native fold expressions vs the recursive-template emulation (macros.hpp), the
   synthesised vs the hand-written operator!= (C++20 vs earlier), the operator spellings and index forms
   (bracket / paren, pack / array / span), the [[no_unique_address]] member pair vs its base-class
   emulation (the same triple, accessed through first/second), and every assert / abort of the headers as a
   boolean function. *)
From Coq Require Import ZArith List Bool Lia.
From MdspanVerif Require Import MachInt ListAux Layouts LayoutSpec LayoutProofs Extents ExtentsProofs Convert ConvertProofs
     View ViewProofs Submdspan SubSpec SubProofs MdArray MdArrayProofs.
Import ListNotations.
Local Open Scope Z_scope.

(* ---- fold expressions ------------------------------------------------------------------------------- *)
(* native:  (pack op ... op init)  =  a1 op (a2 op (... (an op init)))
   emulation: __fold_right_<op>_impl(a1, ..., an, init): the one-argument specialisation returns its argument,
   the general one computes  arg1 op __impl(arg2, args...) *)
Section Folds.
Variable A : Type.
Variable op : A -> A -> A.
Definition fold_native (pack : list A) (init : A) : A := fold_right op init pack.
Fixpoint fold_emul (arg : A) (args : list A) : A :=
  match args with
  | [] => arg
  | arg2 :: args' => op arg (fold_emul arg2 args')
  end.
(* the emulation is called with the pack followed by the seed *)
Definition fold_emul_call (pack : list A) (init : A) : A :=
  match pack ++ [init] with a :: rest => fold_emul a rest | [] => init end.
Theorem fold_paths_equal pack init : fold_emul_call pack init = fold_native pack init.
Proof.
  unfold fold_emul_call, fold_native. induction pack as [|a pack IH]; cbn [app fold_right fold_emul]; [reflexivity|].
  destruct (pack ++ [init]) as [|b rest] eqn:E; [destruct pack; discriminate|]. cbn [fold_emul]. rewrite IH. reflexivity.
Qed.
End Folds.

(* instance: mdspan::size() = _MDSPAN_FOLD_TIMES_RIGHT(extent(r), size_t(1)) in size_t arithmetic *)
Theorem size_fold_paths_equal es :
  fold_emul_call Z (fun a b => wrap U64 (wrap U64 a * b)) es 1 = fold_times_right_u64 es.
Proof.
  rewrite fold_paths_equal. unfold fold_native. induction es as [|e es IH]; cbn [fold_right fold_times_right_u64]; [reflexivity|].
  rewrite IH. reflexivity.
Qed.

(* ---- operator!= : synthesised from == (C++20) vs hand-written (earlier) ---- *)
Theorem neq_paths_equal ta a tb b : valid ta a -> valid tb b -> map_neq_hand ta a tb b = map_neq_synth ta a tb b.
Proof. intros Ha Hb. apply (neq_is_negation_map ta a tb b Ha Hb). Qed.
Theorem ext_neq_is_negation a b : ext_neq a b = rmap negb (ext_eq a b).
Proof. reflexivity. Qed.

(* ---- operator spellings and index forms ---- *)
Theorem access_paths_equal t v args f1 f2 : access t f1 v args = access t f2 v args.
Proof. apply forms_agree. Qed.

(* ---- storage: [[no_unique_address]] pair vs base-class emulation ---- *)
(* both hold the triple (handle, mapping, accessor) and expose it through __first() / __second(); whichever
   specialisation is selected, what is read is what was stored *)
Inductive pair_impl := PAttr | PEmuFirstEmpty | PEmuSecondEmpty | PEmuBothEmpty.
Record cpair (X Y : Type) := mkcp { cp_impl : pair_impl; cp_first : X; cp_second : Y }.
Theorem pair_paths_equal X Y (i j : pair_impl) (x : X) (y : Y) :
  cp_first X Y (mkcp X Y i x y) = cp_first X Y (mkcp X Y j x y) /\ cp_second X Y (mkcp X Y i x y) = cp_second X Y (mkcp X Y j x y).
Proof. split; reflexivity. Qed.

(* ---- debug-mode checks pass on valid inputs ---- *)
(* (1) layout_stride -> layout_left / layout_right with the canonical strides: no abort (C20) *)
Theorem debug_stride_check_passes (left : bool) ts tt es :
  es <> [] -> admissible tt es -> nonneg_in ts (if left then left_strides es else right_strides es) ->
  stride_check left ts tt es (if left then left_strides es else right_strides es) = Ok false.
Proof. apply stride_check_silent_on_canonical. Qed.

(* (2) the _MDSPAN_DEBUG assert of the all-values extents constructor on the values submdspan_extents passes:
       every static position receives its static value *)
Lemma sub_value_debug t sl E (St : Z) sE s passed :
  valid_slice sl E -> slice_rep t sl -> 0 <= E <= imax t ->
  (match sE with Some x => wrap t x = E | None => True end) ->
  sub_static sl sE = Some (Some s) -> sub_value t sl E = Ok (Some passed) -> wrap t passed = wrap t s.
Proof.
  intros Hv Hr HE HsE Hst Hval. pose proof (sub_value_ok t sl E St sE Hv Hr HE HsE) as H.
  destruct sl as [i|b e| |o x st]; cbn [sub_dim sub_static] in *; try discriminate.
  - destruct b as [b|b], e as [e|e]; try discriminate. injection Hst as <-.
    destruct H as (p1 & p2 & E1 & E2 & E3 & E4). rewrite Hval in E1. injection E1 as <-.
    unfold res_extent in E3. cbn [sub_static] in E3. cbn [cv] in *.
    (* passed is the run-time difference; E3 says the static value wraps to the extent *)
    cbn [sub_value cv] in Hval. destruct Hr as [Hb He]. unfold cval_rep in *. cbn [cv] in *. destruct Hv as (H0 & H1).
    rewrite (wrap_small t e), (wrap_small t b), subP_small in Hval by lia. cbn [rmap] in Hval. injection Hval as <-.
    rewrite wrap_idem. rewrite (wrap_u64_small t) by lia. reflexivity.
  - destruct sE as [x|]; [|discriminate]. injection Hst as <-.
    cbn [sub_value] in Hval. rewrite (wrap_small t E), (wrap_small t 0), subP_small in Hval by (pose proof (imax_pos t); lia).
    cbn [rmap] in Hval. injection Hval as <-. rewrite wrap_idem, Z.sub_0_r, HsE. apply wrap_small. lia.
  - destruct x as [x|x], st as [st|st]; try discriminate. injection Hst as <-.
    cbn [sub_value] in Hval. injection Hval as <-. apply wrap_idem.
Qed.

Theorem debug_sub_extents_pass t : forall sls es ss spat vs,
  valid_slices sls (combine es ss) -> Forall (slice_rep t) sls -> length ss = length es ->
  Forall (fun e => 0 <= e <= imax t) es -> pat_ok t spat es ->
  sub_values t sls es = Ok vs -> ctor_debug_ok t (sub_pattern sls spat) vs = true.
Proof.
  induction sls as [|sl sls IH]; intros [|E es] [|St ss] [|p spat] vs Hv Hr Hl He Hp Hs;
    cbn [length combine valid_slices pat_ok sub_values sub_pattern] in *; try tauto; try discriminate; try reflexivity.
  destruct Hv as [Hv1 Hv2]. inversion Hr as [|? ? Hr1 Hr2]; subst. inversion He as [|? ? He1 He2]; subst. destruct Hp as [Hp1 Hp2].
  injection Hl as Hl.
  destruct (sub_value t sl E) as [v|] eqn:Ev; cbn [bind] in Hs; [|discriminate].
  destruct (sub_values t sls es) as [rest|] eqn:Er; cbn [bind] in Hs; [|discriminate]. injection Hs as <-.
  specialize (IH es ss spat rest Hv2 Hr2 Hl He2 Hp2 Er).
  pose proof (sub_value_ok t sl E St p Hv1 Hr1 He1 Hp1) as Hone.
  destruct (sub_dim sl E St) as [[e' s']|].
  - destruct Hone as (passed & p' & Eval & Est & _ & _). rewrite Ev in Eval. injection Eval as ->. rewrite Est.
    destruct p' as [sv|]; cbn [ctor_debug_ok].
    + rewrite (sub_value_debug t sl E St p sv passed Hv1 Hr1 He1 Hp1 Est Ev), Z.eqb_refl. exact IH.
    + exact IH.
  - destruct Hone as [Eval Est]. rewrite Ev in Eval. injection Eval as ->. rewrite Est. exact IH.
Qed.

(* (3) the size asserts of mdarray's size-constructing constructors hold: the container has at least
       required_span_size() elements *)
Theorem debug_mdarray_size_passes t c m : valid t m ->
  exists a sp, arr_from_mapping t c m = Ok a /\ span_impl t m = Ok sp /\
    match c with CVector => Z.of_nat (length (ar_ctr a)) = sp | CArray n => length (ar_ctr a) = n end.
Proof.
  intros Hv. destruct (construct_size t c m Hv) as (a & sp & E & Esp & _ & _ & _ & Hsz). exists a, sp. auto.
Qed.
