(* Submdspan.v — implementation model of submdspan_extents / submdspan_mapping / submdspan
   (P2630 bits): slice specifiers with run-time or compile-time components, the sub-extents arithmetic,
   the inverse rank map, the sub-strides, the offset, and the layout-preservation metaprograms. *)
From Coq Require Import ZArith List Bool.
From MdspanVerif Require Import MachInt ListAux Layouts Extents.
Import ListNotations.
Local Open Scope Z_scope.

(* an integer component of a slice specifier: run-time value or std::integral_constant *)
Inductive cval := Dyn (v : Z) | Const (v : Z).
Definition cv (c : cval) : Z := match c with Dyn v | Const v => v end.
Definition is_const (c : cval) : bool := match c with Const _ => true | Dyn _ => false end.

Inductive slice :=
| SIdx (i : cval)                    (* anything convertible to size_t: an index, rank-reducing *)
| SRange (b e : cval)                (* pair / tuple [b, e) *)
| SFull                              (* full_extent *)
| SStrided (o x s : cval).           (* strided_slice{offset, extent, stride} *)

Definition is_idx (sl : slice) : bool := match sl with SIdx _ => true | _ => false end.
Definition is_full (sl : slice) : bool := match sl with SFull => true | _ => false end.
Definition is_pairlike (sl : slice) : bool := match sl with SRange _ _ => true | _ => false end.

(* detail::first_of / stride_of *)
Definition first_of (sl : slice) : Z :=
  match sl with SIdx i => cv i | SRange b _ => cv b | SFull => 0 | SStrided o _ _ => cv o end.
(* stride_of: a strided_slice that selects at most one element (stride >= extent) keeps the source
   stride: (size_t)stride < (size_t)extent ? (size_t)stride : 1 *)
Definition stride_of (sl : slice) : Z :=
  match sl with
  | SStrided _ x s => if wrap U64 (cv s) <? wrap U64 (cv x) then wrap U64 (cv s) else 1
  | _ => 1
  end.
(* the same, on unbounded integers (specification) *)
Definition step_of (sl : slice) : Z :=
  match sl with SStrided _ x s => if cv s <? cv x then cv s else 1 | _ => 1 end.

(* ---- submdspan_extents ----------------------------------------------------------------------------- *)
(* static extent of the result dimension produced by a slice over a source dimension with static extent
   sE (None = dynamic).  Outer None: an index slice produces no dimension. *)
Definition sub_static (sl : slice) (sE : option Z) : option (option Z) :=
  match sl with
  | SIdx _ => None
  | SRange (Const b) (Const e) => Some (Some (wrap U64 (e - b)))          (* StaticExtentFromRange: val1 - val0 *)
  | SRange _ _ => Some None
  | SFull => Some sE                                                     (* last_of(full) is a constant iff the source extent is static *)
  | SStrided _ (Const x) (Const s) =>                                    (* StaticExtentFromStridedRange *)
      Some (Some (if 0 <? x then 1 + (x - 1) / s else 0))
  | SStrided _ _ _ => Some None
  end.

(* the run-time value handed to the extents constructor for that dimension *)
Definition sub_value (t : ity) (sl : slice) (E : Z) : res (option Z) :=
  match sl with
  | SIdx _ => Ok None
  | SRange b e => rmap (fun v => Some (wrap t v)) (subP t (wrap t (cv e)) (wrap t (cv b)))   (* index_t(last) - index_t(first) *)
  | SFull => rmap (fun v => Some (wrap t v)) (subP t (wrap t E) (wrap t 0))
  | SStrided _ (Const x) (Const s) =>
      (* index_t(new_static_extent): the static extent 1 + (v0-1)/v1 (0 for v0 = 0) itself *)
      Ok (Some (wrap t (if 0 <? x then 1 + (x - 1) / s else 0)))
  | SStrided _ x s =>
      (* r.extent > 0 ? 1 + divide<index_t>(r.extent - 1, r.stride) : 0 *)
      if 0 <? cv x then
        bind (divP t (wrap t (cv x - 1)) (wrap t (cv s))) (fun q =>
        bind (addP t 1 q) (fun r => Ok (Some (wrap t r))))
      else Ok (Some 0)
  end.

(* pattern and values of the result extents; extents<index_t, NewStatic...>(new_exts...) is the
   all-values constructor: static positions report the static value *)
Fixpoint sub_pattern (sls : list slice) (spat : pattern) : pattern :=
  match sls, spat with
  | sl :: sls', sE :: spat' =>
      match sub_static sl sE with Some p => p :: sub_pattern sls' spat' | None => sub_pattern sls' spat' end
  | _, _ => []
  end.
Fixpoint sub_values (t : ity) (sls : list slice) (es : list Z) : res (list Z) :=
  match sls, es with
  | [], [] => Ok []
  | sl :: sls', E :: es' =>
      bind (sub_value t sl E) (fun v =>
      bind (sub_values t sls' es') (fun rest =>
      Ok (match v with Some x => x :: rest | None => rest end)))
  | _, _ => UB
  end.
Definition sub_exts (t : ity) (sls : list slice) (es : list Z) (spat : pattern) : res (list Z) :=
  rmap (fill_all t (sub_pattern sls spat)) (sub_values t sls es).

(* the _MDSPAN_DEBUG precondition check of the all-values constructor: a static position must be
   given its static value *)
Fixpoint ctor_debug_ok (t : ity) (pat : pattern) (vals : list Z) : bool :=
  match pat, vals with
  | Some s :: pat', v :: vals' => (wrap t v =? wrap t s) && ctor_debug_ok t pat' vals'
  | None :: pat', _ :: vals' => ctor_debug_ok t pat' vals'
  | _, _ => true
  end.

(* ---- submdspan_mapping ------------------------------------------------------------------------------ *)
Definition subrank (sls : list slice) : nat := length (filter (fun sl => negb (is_idx sl)) sls).

(* preserve_layout_left_mapping: fold over positions Idx of
     (Idx > SubRank-1) || is_same<full_extent_t> || (Idx == SubRank-1 && pair-like)        (SubRank >= 1) *)
Fixpoint pres_left_go (sr idx : nat) (sls : list slice) : bool :=
  match sls with
  | [] => true
  | sl :: sls' =>
      (Nat.ltb (sr - 1) idx || is_full sl || (Nat.eqb idx (sr - 1) && is_pairlike sl))
      && pres_left_go sr (S idx) sls'
  end.
Definition pres_left (sls : list slice) : bool :=
  let sr := subrank sls in Nat.eqb sr 0 || pres_left_go sr 0 sls.
(* preserve_layout_right_mapping: (Idx < SrcRank-SubRank) || full || (Idx == SrcRank-SubRank && pair-like) *)
Fixpoint pres_right_go (d idx : nat) (sls : list slice) : bool :=
  match sls with
  | [] => true
  | sl :: sls' =>
      (Nat.ltb idx d || is_full sl || (Nat.eqb idx d && is_pairlike sl))
      && pres_right_go d (S idx) sls'
  end.
Definition pres_right (sls : list slice) : bool :=
  let sr := subrank sls in Nat.eqb sr 0 || pres_right_go (length sls - sr) 0 sls.

(* construct_sub_strides over inv_map_rank: for every non-index slice k:
     (index_type)src.stride(k) * (index_type)stride_of(slice_k)   -> index_type *)
Fixpoint sub_strides (t : ity) (src : mapping) (k : nat) (sls : list slice) : res (list Z) :=
  match sls with
  | [] => Ok []
  | sl :: sls' =>
      if is_idx sl then sub_strides t src (S k) sls'
      else bind (stride_impl t src k) (fun sk =>
           bind (mulP t (wrap t sk) (wrap t (stride_of sl))) (fun p =>
           rmap (cons (wrap t p)) (sub_strides t src (S k) sls')))
  end.

(* detail::any_slice_out_of_bounds: (index_type)first_of(slice_k) == extent(k) for some k *)
Fixpoint any_oob (t : ity) (sls : list slice) (es : list Z) : bool :=
  match sls, es with
  | sl :: sls', e :: es' => (wrap t (first_of sl) =? e) || any_oob t sls' es'
  | _, _ => false
  end.
(* offset = (size_t)(any_slice_out_of_bounds ? required_span_size() : src(first_of(slices)...)) *)
Definition sub_offset_impl (t : ity) (src : mapping) (sls : list slice) : res Z :=
  rmap (wrap U64)
    (if any_oob t sls (exts src) then span_impl t src
     else offset_impl t src (map (fun sl => wrap t (first_of sl)) sls)).

Definition submap (t : ity) (src : mapping) (spat : pattern) (sls : list slice) : res (mapping * Z) :=
  if negb (Nat.eqb (length sls) (length (exts src))) then UB else
  bind (sub_exts t sls (exts src) spat) (fun des =>
  let strided :=
    bind (sub_strides t src 0 sls) (fun ss =>
    bind (sub_offset_impl t src sls) (fun off => Ok (MStride des ss, off))) in
  match src with
  | MLeft _ => if pres_left sls then rmap (fun off => (MLeft des, off)) (sub_offset_impl t src sls) else strided
  | MRight _ => if pres_right sls then rmap (fun off => (MRight des, off)) (sub_offset_impl t src sls) else strided
  | MStride _ _ => strided
  | _ => UB                               (* the padded layouts provide no submdspan_mapping *)
  end).

(* the source multi-index designated by result index j *)
Fixpoint compose (sls : list slice) (j : list Z) : list Z :=
  match sls with
  | [] => []
  | SIdx i :: sls' => cv i :: compose sls' j
  | sl :: sls' => match j with jk :: j' => (first_of sl + jk * step_of sl) :: compose sls' j' | [] => [] end
  end.


(* a chain of slicings: views of views; the data handle accumulates accessor.offset(handle, offset) *)
Fixpoint subchain (t : ity) (m : mapping) (pat : pattern) (h : Z) (levels : list (list slice)) : res (mapping * Z) :=
  match levels with
  | [] => Ok (m, h)
  | sls :: rest =>
      bind (submap t m pat sls) (fun r => subchain t (fst r) (sub_pattern sls pat) (h + snd r) rest)
  end.
