(* ConcurrencyProofs.v — C19: every interleaving of race-free thread programs equals the sequential
   composition; each cell holds its only writer's last value; each thread reads what it would read
   alone; element accesses through the shared view, copies and sub-views on distinct multi-indices of
   the shared view are race-free. *)
From Coq Require Import ZArith List Bool Lia.
From MdspanVerif Require Import MachInt ListAux Layouts LayoutSpec LayoutProofs LayoutTheorems Extents Convert View ViewProofs
     Submdspan SubSpec SubProofs Concurrency.
Import ListNotations.
Local Open Scope Z_scope.

(* ---- heap and log facts ---- *)
Lemma hwrite_comm hp : forall a b x y, a <> b -> hwrite (hwrite hp a x) b y = hwrite (hwrite hp b y) a x.
Proof.
  induction hp as [|c hp IH]; intros [|a] [|b] x y Hab; cbn [hwrite]; try reflexivity; try congruence.
  f_equal. apply IH. congruence.
Qed.
Lemma hwrite_oob hp : forall a x, (length hp <= a)%nat -> hwrite hp a x = hp.
Proof.
  induction hp as [|c hp IH]; intros [|a] x Hl; cbn [hwrite length] in *; try reflexivity; try lia.
  f_equal. apply IH. lia.
Qed.
Lemma push_log_comm logs : forall j k x y, j <> k -> push_log (push_log logs j x) k y = push_log (push_log logs k y) j x.
Proof.
  induction logs as [|l logs IH]; intros [|j] [|k] x y Hjk; cbn [push_log]; try reflexivity; try congruence.
  f_equal. apply IH. congruence.
Qed.
Lemma push_log_length logs : forall k x, length (push_log logs k x) = length logs.
Proof. induction logs as [|l logs IH]; intros [|k] x; cbn [push_log length]; auto. Qed.
Lemma push_log_same logs : forall k x, (k < length logs)%nat -> nth k (push_log logs k x) [] = nth k logs [] ++ [x].
Proof.
  induction logs as [|l logs IH]; intros [|k] x Hk; cbn [push_log length nth] in *; try lia; auto. apply IH. lia.
Qed.
Lemma push_log_other logs : forall j k x, j <> k -> nth k (push_log logs j x) [] = nth k logs [].
Proof.
  induction logs as [|l logs IH]; intros [|j] [|k] x Hjk; cbn [push_log nth]; try reflexivity; try congruence.
  apply IH. congruence.
Qed.

(* ---- commutation of compatible actions of different threads ---- *)
Lemma cexec_comm st a b : fst a <> fst b -> compat (snd a) (snd b) -> cexec (cexec st a) b = cexec (cexec st b) a.
Proof.
  destruct a as [j [c x|c|]], b as [k [c' x'|c'|]]; unfold cexec; cbn [fst snd compat cs_heap cs_logs]; intros Hjk Hc; try reflexivity.
  - f_equal. apply hwrite_comm. exact Hc.
  - f_equal. f_equal. first [apply hwrite_other; exact Hc | symmetry; apply hwrite_other; exact Hc].
  - f_equal. f_equal. first [apply hwrite_other; congruence | symmetry; apply hwrite_other; congruence].
  - f_equal. apply push_log_comm. exact Hjk.
Qed.

Lemma crun_app s1 s2 st : crun (s1 ++ s2) st = crun s2 (crun s1 st).
Proof. unfold crun. apply fold_left_app. Qed.

(* an action moves in front of a block of compatible actions of other threads *)
Lemma crun_move X : forall a st,
  (forall b, In b X -> fst b <> fst a /\ compat (snd b) (snd a)) ->
  cexec (crun X st) a = crun X (cexec st a).
Proof.
  induction X as [|b X IH]; intros a st H; cbn [crun fold_left]; [reflexivity|].
  fold (crun X (cexec st b)). fold (crun X (cexec (cexec st a) b)).
  rewrite IH by (intros b' Hb'; apply H; right; exact Hb').
  f_equal. destruct (H b (or_introl eq_refl)) as [Hne Hc]. apply cexec_comm; auto.
Qed.

(* ---- sequential composition ---- *)
Lemma seq_from_app ps1 : forall n ps2, seq_from n (ps1 ++ ps2) = seq_from n ps1 ++ seq_from (n + length ps1) ps2.
Proof.
  induction ps1 as [|p ps1 IH]; intros n ps2; cbn [seq_from app length].
  - rewrite Nat.add_0_r. reflexivity.
  - rewrite IH, <- app_assoc. replace (n + S (length ps1))%nat with (S n + length ps1)%nat by lia. reflexivity.
Qed.
Lemma seq_from_nil ps : forall n, Forall (fun p => p = []) ps -> seq_from n ps = [].
Proof. induction ps as [|p ps IH]; intros n H; cbn [seq_from]; auto. inversion H; subst. cbn. apply IH. auto. Qed.
Lemma in_seq_from ps : forall n b, In b (seq_from n ps) ->
  exists j p, nth_error ps j = Some p /\ fst b = (n + j)%nat /\ In (snd b) p.
Proof.
  induction ps as [|p ps IH]; intros n b Hb; cbn [seq_from] in Hb; [contradiction|].
  apply in_app_or in Hb. destruct Hb as [Hb|Hb].
  - apply in_map_iff in Hb. destruct Hb as (a & <- & Ha). exists 0%nat, p. cbn [nth_error fst snd]. split; [reflexivity|]. split; [lia|exact Ha].
  - destruct (IH _ _ Hb) as (j & q & Hj & Hf & Hi). exists (S j), q. cbn [nth_error]. split; [exact Hj|]. split; [lia|exact Hi].
Qed.

Lemma race_free_step ps1 a p ps2 : race_free (ps1 ++ (a :: p) :: ps2) -> race_free (ps1 ++ p :: ps2).
Proof.
  intros H j k q1 q2 x y Hjk Hj Hk Hx Hy.
  assert (Hsub : forall i q, nth_error (ps1 ++ p :: ps2) i = Some q ->
            exists q', nth_error (ps1 ++ (a :: p) :: ps2) i = Some q' /\ incl q q').
  { intros i q Hi. destruct (Nat.lt_ge_cases i (length ps1)).
    - rewrite nth_error_app1 in Hi by lia. exists q. rewrite nth_error_app1 by lia. split; auto. apply incl_refl.
    - rewrite nth_error_app2 in Hi by lia. rewrite nth_error_app2 by lia. destruct (i - length ps1)%nat; cbn [nth_error] in *.
      + injection Hi as <-. exists (a :: p). split; auto. apply incl_tl, incl_refl.
      + exists q. split; auto. apply incl_refl. }
  destruct (Hsub j q1 Hj) as (q1' & Hj' & I1). destruct (Hsub k q2 Hk) as (q2' & Hk' & I2).
  apply (H j k q1' q2' x y Hjk Hj' Hk'); auto.
Qed.

(* every interleaving of race-free programs ends in the state of the sequential composition *)
Theorem interleaving_is_sequential ps s : interleave ps s -> race_free ps ->
  forall st, crun s st = crun (sequential ps) st.
Proof.
  unfold sequential. induction 1 as [ps Hall | ps1 a p ps2 s Hil IH]; intros Hrf st.
  - rewrite seq_from_nil by exact Hall. reflexivity.
  - cbn [crun fold_left]. fold (crun s (cexec st (length ps1, a))).
    rewrite (IH (race_free_step _ _ _ _ Hrf)).
    rewrite !seq_from_app. cbn [seq_from map]. rewrite !crun_app. cbn [Nat.add].
    change (crun ((length ps1, a) :: map (pair (length ps1)) p) (crun (seq_from 0 ps1) st))
      with (crun (map (pair (length ps1)) p) (cexec (crun (seq_from 0 ps1) st) (length ps1, a))).
    rewrite crun_move; [reflexivity|].
    intros b Hb. destruct (in_seq_from _ _ _ Hb) as (j & q & Hj & Hf & Hi). cbn [fst snd].
    assert (Hjl : (j < length ps1)%nat) by (apply nth_error_Some; congruence).
    split; [lia|].
    apply (Hrf j (length ps1) q (a :: p) (snd b) a); [lia| | |exact Hi|left; reflexivity].
    + rewrite nth_error_app1 by lia. exact Hj.
    + rewrite nth_error_app2, Nat.sub_diag by lia. reflexivity.
Qed.

Theorem schedule_independent ps s1 s2 st : interleave ps s1 -> interleave ps s2 -> race_free ps ->
  crun s1 st = crun s2 st.
Proof. intros H1 H2 Hrf. rewrite (interleaving_is_sequential ps s1 H1 Hrf), (interleaving_is_sequential ps s2 H2 Hrf). reflexivity. Qed.

(* the executable race-freedom check is sound *)
Lemma compatb_sound a b : compatb a b = true -> compat a b /\ compat b a.
Proof.
  destruct a as [c x|c|], b as [c' x'|c'|]; cbn [compatb compat]; intros H; try (split; exact I);
    apply negb_true_iff in H; apply Nat.eqb_neq in H; split; congruence.
Qed.
Lemma race_freeb_sound ps : race_freeb ps = true -> race_free ps.
Proof.
  induction ps as [|p ps IH]; cbn [race_freeb]; intros H j k q1 q2 a b Hjk Hj Hk Ha Hb.
  - destruct j; discriminate.
  - apply andb_true_iff in H. destruct H as [Hw Hr]. unfold race_free_with in Hw. rewrite forallb_forall in Hw.
    assert (Hcross : forall q x y, In q ps -> In x p -> In y q -> compat x y /\ compat y x).
    { intros q x y Hq Hx Hy. specialize (Hw q Hq). rewrite forallb_forall in Hw. specialize (Hw x Hx).
      rewrite forallb_forall in Hw. apply compatb_sound, Hw, Hy. }
    destruct j as [|j], k as [|k]; cbn [nth_error] in Hj, Hk; try congruence.
    + injection Hj as <-. apply (Hcross q2 a b (nth_error_In _ _ Hk) Ha Hb).
    + injection Hk as <-. apply (Hcross q1 b a (nth_error_In _ _ Hj) Hb Ha).
    + apply (IH Hr j k q1 q2 a b); auto.
Qed.

(* ---- the content of each cell at the end ---- *)
Lemma crun_heap_length s : forall st, length (cs_heap (crun s st)) = length (cs_heap st).
Proof.
  induction s as [|[k a] s IH]; intros st; cbn [crun fold_left]; auto. fold (crun s (cexec st (k, a))). rewrite IH.
  destruct a; unfold cexec; cbn [snd cs_heap]; auto. apply hwrite_length.
Qed.
Lemma cell_last_write s : forall st c, (c < length (cs_heap st))%nat ->
  hread (cs_heap (crun s st)) c = last_write c (map snd s) (hread (cs_heap st) c).
Proof.
  induction s as [|[k a] s IH]; intros st c Hc; cbn [crun fold_left map snd last_write]; auto.
  fold (crun s (cexec st (k, a))). destruct a as [c' x|c'|]; unfold cexec at 1; cbn [snd fst]; rewrite IH; cbn [cs_heap]; auto.
  - f_equal. destruct (Nat.eqb_spec c c') as [->|Hne].
    + apply hwrite_same. exact Hc.
    + apply hwrite_other. congruence.
  - rewrite hwrite_length. exact Hc.
Qed.
Lemma last_write_app c p : forall q d, last_write c (p ++ q) d = last_write c q (last_write c p d).
Proof. induction p as [|[c' x|c'|] p IH]; intros q d; cbn [app last_write]; auto. Qed.
Lemma last_write_none c p : forall d, (forall a, In a p -> writes_to c a = false) -> last_write c p d = d.
Proof.
  induction p as [|a p IH]; intros d H; cbn [last_write]; auto.
  pose proof (H a (or_introl eq_refl)) as Ha. destruct a as [c' x|c'|]; cbn [writes_to] in Ha; try rewrite Ha; apply IH; intros b Hb; apply H; right; exact Hb.
Qed.
Lemma map_snd_pair {A B} (n : A) (p : list B) : map snd (map (pair n) p) = p.
Proof. induction p as [|a p IH]; cbn; congruence. Qed.

Lemma no_write_seq c ps n d :
  (forall j p a, nth_error ps j = Some p -> In a p -> writes_to c a = false) ->
  last_write c (map snd (seq_from n ps)) d = d.
Proof.
  intros H. apply last_write_none. intros a Ha. apply in_map_iff in Ha. destruct Ha as (b & <- & Hb).
  destruct (in_seq_from _ _ _ Hb) as (j & p & Hj & _ & Hi). apply (H j p); auto.
Qed.
Lemma last_write_seq c k ps : forall n d, (n <= k)%nat ->
  (forall j p a, nth_error ps j = Some p -> (n + j)%nat <> k -> In a p -> writes_to c a = false) ->
  last_write c (map snd (seq_from n ps)) d = last_write c (nth (k - n) ps []) d.
Proof.
  induction ps as [|p ps IH]; intros n d Hnk H; cbn [seq_from map last_write].
  - destruct (k - n)%nat; reflexivity.
  - rewrite map_app, map_snd_pair, last_write_app.
    destruct (Nat.eq_dec n k) as [->|Hne].
    + rewrite Nat.sub_diag. cbn [nth]. apply no_write_seq.
      intros j q a Hj Ha. apply (H (S j) q a); auto. lia.
    + rewrite (last_write_none c p) by (intros a Ha; apply (H 0%nat p a); auto; lia).
      replace (k - n)%nat with (S (k - S n)) by lia. cbn [nth]. apply IH; [lia|].
      intros j q a Hj Hjk Ha. apply (H (S j) q a); auto. lia.
Qed.

(* every cell holds, at the end of every interleaving, the last value its only writer wrote —
   or its initial content if that thread (or nobody) never wrote it *)
Theorem final_cell ps s st c k : interleave ps s -> race_free ps ->
  (c < length (cs_heap st))%nat ->
  (forall j p a, nth_error ps j = Some p -> j <> k -> In a p -> writes_to c a = false) ->
  hread (cs_heap (crun s st)) c = last_write c (nth k ps []) (hread (cs_heap st) c).
Proof.
  intros Hil Hrf Hc Hown. rewrite (interleaving_is_sequential ps s Hil Hrf). unfold sequential.
  rewrite cell_last_write by exact Hc. rewrite (last_write_seq c k ps 0); [|lia|].
  - rewrite Nat.sub_0_r. reflexivity.
  - intros j p a Hj Hne Ha. apply (Hown j p a); auto.
Qed.

(* ---- what a thread reads ---- *)
Lemma interleave_in ps s : interleave ps s -> forall b, In b s -> exists p, nth_error ps (fst b) = Some p /\ In (snd b) p.
Proof.
  induction 1 as [ps Hall | ps1 a p ps2 s Hil IH]; intros b Hb; [contradiction|].
  destruct Hb as [<-|Hb]; cbn [fst snd].
  - exists (a :: p). rewrite nth_error_app2, Nat.sub_diag by lia. split; [reflexivity|left; reflexivity].
  - destruct (IH b Hb) as (q & Hq & Hi). destruct (Nat.lt_ge_cases (fst b) (length ps1)).
    + exists q. rewrite nth_error_app1 in * by lia. auto.
    + rewrite nth_error_app2 in * by lia. destruct (fst b - length ps1)%nat; cbn [nth_error] in *.
      * injection Hq as <-. exists (a :: p). split; auto. right; exact Hi.
      * exists q. auto.
Qed.

(* the sequential composition is itself an interleaving *)
Lemma sequential_interleave_gen : forall ps2 (ps1 : list (list caction)),
  interleave (map (fun _ => @nil caction) ps1 ++ ps2) (seq_from (length ps1) ps2).
Proof.
  induction ps2 as [|p ps2 IH]; intros ps1; cbn [seq_from].
  - rewrite app_nil_r. apply il_done. apply Forall_forall. intros x Hx. apply in_map_iff in Hx. destruct Hx as (? & <- & _). reflexivity.
  - induction p as [|a p IHp]; cbn [map app].
    + specialize (IH (ps1 ++ [[]])). rewrite map_app, <- app_assoc, app_length in IH. cbn [map app length] in IH.
      rewrite Nat.add_1_r in IH. exact IH.
    + pose proof (il_step (map (fun _ => []) ps1) a p ps2 _ IHp) as H. rewrite map_length in H. exact H.
Qed.
Lemma sequential_interleave ps : interleave ps (sequential ps).
Proof. apply (sequential_interleave_gen ps []). Qed.

Lemma thread_first_interleave ps1 ps2 s' : forall p,
  interleave (ps1 ++ [] :: ps2) s' -> interleave (ps1 ++ p :: ps2) (map (pair (length ps1)) p ++ s').
Proof. induction p as [|a p IH]; intros H; cbn [map app]; auto. apply il_step. apply IH. exact H. Qed.

Lemma solo_run k p : forall st, (k < length (cs_logs st))%nat ->
  nth k (cs_logs (crun (map (pair k) p) st)) [] = nth k (cs_logs st) [] ++ solo_log p (cs_heap st) /\
  length (cs_logs (crun (map (pair k) p) st)) = length (cs_logs st).
Proof.
  induction p as [|a p IH]; intros st Hk; cbn [map crun fold_left solo_log].
  - rewrite app_nil_r. auto.
  - fold (crun (map (pair k) p) (cexec st (k, a))). destruct a as [c x|c|]; unfold cexec; cbn [snd fst].
    + destruct (IH (mkcs (hwrite (cs_heap st) c x) (cs_logs st)) Hk) as [E L]. cbn [cs_heap cs_logs] in *. auto.
    + destruct (IH (mkcs (cs_heap st) (push_log (cs_logs st) k (hread (cs_heap st) c)))) as [E L].
      * cbn [cs_logs]. rewrite push_log_length. exact Hk.
      * cbn [cs_heap cs_logs] in *. rewrite E, L, push_log_same, push_log_length, <- app_assoc by exact Hk. auto.
    + apply IH. exact Hk.
Qed.
Lemma others_keep_log k s : forall st, (forall b, In b s -> fst b <> k) ->
  nth k (cs_logs (crun s st)) [] = nth k (cs_logs st) [].
Proof.
  induction s as [|[j a] s IH]; intros st H; cbn [crun fold_left]; auto. fold (crun s (cexec st (j, a))).
  rewrite IH by (intros b Hb; apply H; right; exact Hb).
  pose proof (H (j, a) (or_introl eq_refl)) as Hj. cbn [fst] in Hj.
  destruct a; unfold cexec; cbn [snd fst cs_logs]; auto. apply push_log_other. exact Hj.
Qed.

(* in every interleaving, thread k logs exactly what it would read running alone on the initial heap *)
Theorem thread_reads_as_alone ps s st k p : interleave ps s -> race_free ps ->
  nth_error ps k = Some p -> (k < length (cs_logs st))%nat ->
  nth k (cs_logs (crun s st)) [] = nth k (cs_logs st) [] ++ solo_log p (cs_heap st).
Proof.
  intros Hil Hrf Hk Hlen.
  destruct (nth_error_split ps k Hk) as (ps1 & ps2 & -> & <-).
  pose proof (sequential_interleave (ps1 ++ [] :: ps2)) as Hrest.
  pose proof (thread_first_interleave ps1 ps2 _ p Hrest) as Hfirst.
  rewrite (schedule_independent _ _ _ st Hil Hfirst Hrf). rewrite crun_app.
  destruct (solo_run (length ps1) p st Hlen) as [E _].
  rewrite others_keep_log; [exact E|].
  intros b Hb Hf. destruct (interleave_in _ _ Hrest b Hb) as (q & Hq & Hi).
  rewrite Hf, nth_error_app2, Nat.sub_diag in Hq by lia. cbn in Hq. injection Hq as <-. contradiction.
Qed.

(* ---- view layer: accesses through the shared view, copies and sub-views ---------------------------- *)
Section ViewLayer.
Variable sh : shared.
Let t := sh_t sh.
Let m := v_map (sh_view sh).
Let h := v_handle (sh_view sh).

Definition wf_levels (levels : list (list slice)) : Prop :=
  (levels = [] \/ sub_kind_ok m = true) /\ chain_hyps t levels (dims m).
Definition wf_taction (a : taction) : Prop :=
  match a with
  | TWrite levels _ j _ | TRead levels _ j =>
      wf_levels levels /\ exists v, derive sh levels = Ok v /\ inbe j (exts (v_map v))
  | TSub levels => wf_levels levels
  | TObserve | TCopy => True
  end.

Hypothesis Hvalid : valid t m.
Hypothesis Hpat : pat_ok t (sh_pat sh) (exts m).
Hypothesis Hh : 0 <= h.

Lemma derive_alias levels : wf_levels levels ->
  exists v, derive sh levels = Ok v /\ valid t (v_map v) /\
    forall j, inbe j (exts (v_map v)) ->
      exists o', offset_impl t (v_map v) j = Ok o' /\ inbe (chain_compose levels j) (exts m) /\
                 offset_impl t m (chain_compose levels j) = Ok (v_handle v - h + o').
Proof.
  intros [[->|Hk] Hc]; unfold derive.
  - cbn [subchain rmap fst snd]. eexists. split; [reflexivity|]. cbn [v_map v_handle]. split; [exact Hvalid|].
    intros j Hj. exists (spec_offset m j). cbn [chain_compose]. fold m in Hj |- *.
    rewrite (offset_refines t m j Hvalid Hj). split; [reflexivity|]. split; [exact Hj|]. f_equal. unfold h. lia.
  - destruct (chain_alias_impl t levels m (sh_pat sh) h Hvalid Hk Hpat Hc) as (mf & hf & E & Hvf & _ & _ & Hal).
    fold t m h. rewrite E. cbn [rmap fst snd]. eexists. split; [reflexivity|]. cbn [v_map v_handle]. auto.
Qed.

(* an element access through a derived view touches the cell of the shared view's element
   chain_compose levels j:  handle + mapping(chain_compose levels j) *)
Lemma cell_of_root levels f j : wf_levels levels ->
  (exists v, derive sh levels = Ok v /\ inbe j (exts (v_map v))) ->
  inbe (chain_compose levels j) (exts m) /\
  cell_of sh levels f j = Ok (Z.to_nat (h + spec_offset m (chain_compose levels j))).
Proof.
  intros Hw (v & Ev & Hj). destruct (derive_alias levels Hw) as (v' & Ev' & Hv' & Hal).
  rewrite Ev in Ev'. injection Ev' as <-. destruct (Hal j Hj) as (o' & Eo & Hin & Eroot).
  split; [exact Hin|]. unfold cell_of. rewrite Ev. cbn [bind]. fold t.
  destruct (access_is_accessor_of_mapping t v j f Hv' Hj) as [Ea Eo2]. rewrite Ea. cbn [rmap default_address].
  rewrite (offset_refines t m _ Hvalid Hin) in Eroot. injection Eroot as Eroot. rewrite Eo2 in Eo. injection Eo as <-.
  do 2 f_equal. lia.
Qed.

Lemma compile_ok a : wf_taction a -> exists c, compile sh a = Ok c /\
  match root_index a with
  | Some i => inbe i (exts m) /\
              c = (if is_write a then CWrite (Z.to_nat (h + spec_offset m i)) (match a with TWrite _ _ _ x => x | _ => 0 end)
                   else CRead (Z.to_nat (h + spec_offset m i)))
  | None => c = CPure
  end.
Proof.
  destruct a as [levels f j x|levels f j| | |levels]; cbn [wf_taction compile root_index is_write].
  - intros [Hw He]. destruct (cell_of_root levels f j Hw He) as [Hin E]. rewrite E. cbn [rmap]. eexists; split; [reflexivity|]. auto.
  - intros [Hw He]. destruct (cell_of_root levels f j Hw He) as [Hin E]. rewrite E. cbn [rmap]. eexists; split; [reflexivity|]. auto.
  - intros _. eexists; split; reflexivity.
  - intros _. eexists; split; reflexivity.
  - intros Hw. destruct (derive_alias levels Hw) as (v & Ev & _). rewrite Ev. cbn [rmap]. eexists; split; reflexivity.
Qed.

Lemma compile_prog_ok p : Forall wf_taction p -> exists cp, compile_prog sh p = Ok cp /\
  Forall2 (fun a c => compile sh a = Ok c) p cp.
Proof.
  induction 1 as [|a p Ha _ IH]; cbn [compile_prog].
  - exists []. split; auto.
  - destruct (compile_ok a Ha) as (c & Ec & _). destruct IH as (cp & Ecp & F). rewrite Ec, Ecp. cbn [bind rmap].
    exists (c :: cp). split; auto.
Qed.
Lemma compile_all_ok ps : Forall (Forall wf_taction) ps -> exists cps, compile_all sh ps = Ok cps /\
  Forall2 (fun p cp => Forall2 (fun a c => compile sh a = Ok c) p cp) ps cps.
Proof.
  induction 1 as [|p ps Hp _ IH]; cbn [compile_all].
  - exists []. split; auto.
  - destruct (compile_prog_ok p Hp) as (cp & Ecp & F). destruct IH as (cps & Ecps & F2). rewrite Ecp, Ecps. cbn [bind rmap].
    exists (cp :: cps). split; auto.
Qed.

(* threads whose accesses designate pairwise distinct elements of the shared view (whenever one of the
   two is a write) are race-free at the level of memory cells — by injectivity of the mapping (C01) and
   the aliasing theorem of submdspan (C04) *)
Definition index_disjoint (ps : list (list taction)) : Prop :=
  forall j k p q a b ia ib, j <> k -> nth_error ps j = Some p -> nth_error ps k = Some q -> In a p -> In b q ->
    root_index a = Some ia -> root_index b = Some ib -> (is_write a || is_write b) = true -> ia <> ib.

Lemma Forall2_nth_error {A B} (R : A -> B -> Prop) l1 l2 : Forall2 R l1 l2 ->
  forall k y, nth_error l2 k = Some y -> exists x, nth_error l1 k = Some x /\ R x y.
Proof.
  induction 1 as [|x0 y0 l1 l2 H0 _ IH]; intros [|k] y Hk; cbn [nth_error] in *; try discriminate.
  - injection Hk as <-. eauto.
  - apply IH. exact Hk.
Qed.
Lemma Forall2_in_r {A B} (R : A -> B -> Prop) l1 l2 : Forall2 R l1 l2 -> forall y, In y l2 -> exists x, In x l1 /\ R x y.
Proof.
  induction 1 as [|x0 y0 l1 l2 H0 _ IH]; intros y Hy; [contradiction|]. destruct Hy as [<-|Hy].
  - exists x0. split; auto. left; reflexivity.
  - destruct (IH y Hy) as (x & Hx & Hr). exists x. split; auto. right; exact Hx.
Qed.

Theorem compiled_race_free ps cps : Forall (Forall wf_taction) ps -> index_disjoint ps ->
  compile_all sh ps = Ok cps -> race_free cps.
Proof.
  intros Hwf Hdis Ecps. destruct (compile_all_ok ps Hwf) as (cps' & E' & F). rewrite Ecps in E'. injection E' as <-.
  intros j k cp cq ca cb Hjk Hj Hk Hca Hcb.
  destruct (Forall2_nth_error _ _ _ F j cp Hj) as (p & Hp & Fp). destruct (Forall2_nth_error _ _ _ F k cq Hk) as (q & Hq & Fq).
  destruct (Forall2_in_r _ _ _ Fp ca Hca) as (a & Ha & Ea). destruct (Forall2_in_r _ _ _ Fq cb Hcb) as (b & Hb & Eb).
  assert (Hwa : wf_taction a).
  { rewrite Forall_forall in Hwf. pose proof (Hwf p (nth_error_In _ _ Hp)) as Hwp. rewrite Forall_forall in Hwp. auto. }
  assert (Hwb : wf_taction b).
  { rewrite Forall_forall in Hwf. pose proof (Hwf q (nth_error_In _ _ Hq)) as Hwq. rewrite Forall_forall in Hwq. auto. }
  destruct (compile_ok a Hwa) as (ca' & Ea' & Sa). rewrite Ea in Ea'. injection Ea' as <-.
  destruct (compile_ok b Hwb) as (cb' & Eb' & Sb). rewrite Eb in Eb'. injection Eb' as <-.
  pose proof (Hdis j k p q a b) as Hd.
  destruct (root_index a) as [ia|] eqn:Ra; [|subst ca; destruct cb; exact I].
  destruct (root_index b) as [ib|] eqn:Rb; [|subst cb; destruct ca; exact I].
  destruct Sa as [Ia ->], Sb as [Ib ->].
  specialize (Hd ia ib Hjk Hp Hq Ha Hb eq_refl eq_refl).
  assert (Hcell : ia <> ib -> Z.to_nat (h + spec_offset m ia) <> Z.to_nat (h + spec_offset m ib)).
  { intros Hne Heq. destruct (spec_range_inj t m ia ib Hvalid Ia Ib) as [R1 Hinj].
    destruct (spec_range_inj t m ib ib Hvalid Ib Ib) as [R2 _]. apply Hne, Hinj. lia. }
  destruct (is_write a) eqn:Wa, (is_write b) eqn:Wb; cbn [compat orb] in *; try exact I; apply Hcell; apply Hd; reflexivity.
Qed.

(* the assembled statement *)
Theorem shared_view_schedule_independent ps : Forall (Forall wf_taction) ps -> index_disjoint ps ->
  exists cps, compile_all sh ps = Ok cps /\ race_free cps /\
    forall st s, interleave cps s ->
      crun s st = crun (sequential cps) st /\
      (forall k cp, nth_error cps k = Some cp -> (k < length (cs_logs st))%nat ->
         nth k (cs_logs (crun s st)) [] = nth k (cs_logs st) [] ++ solo_log cp (cs_heap st)) /\
      (forall c k, (c < length (cs_heap st))%nat ->
         (forall j p a, nth_error cps j = Some p -> j <> k -> In a p -> writes_to c a = false) ->
         hread (cs_heap (crun s st)) c = last_write c (nth k cps []) (hread (cs_heap st) c)).
Proof.
  intros Hwf Hdis. destruct (compile_all_ok ps Hwf) as (cps & E & _). exists cps. split; [exact E|].
  pose proof (compiled_race_free ps cps Hwf Hdis E) as Hrf. split; [exact Hrf|].
  intros st s Hil. split; [apply interleaving_is_sequential; auto|]. split.
  - intros k cp Hk Hl. apply (thread_reads_as_alone cps s st k cp); auto.
  - intros c k Hc Hown. apply (final_cell cps s st c k); auto.
Qed.

End ViewLayer.

(* observers, copies and sub-view creation leave memory and logs untouched *)
Theorem pure_actions_no_effect sh a c st k : root_index a = None -> compile sh a = Ok c -> cexec st (k, c) = st.
Proof.
  destruct a as [levels f j x|levels f j| | |levels]; cbn [root_index compile]; try discriminate; intros _ E.
  - injection E as <-. reflexivity.
  - injection E as <-. reflexivity.
  - destruct (derive sh levels); cbn [rmap] in E; [injection E as <-; reflexivity|discriminate].
Qed.
