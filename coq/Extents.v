(* Extents.v — implementation model of `extents` (extents.hpp): a static/dynamic pattern in the type,
   the run-time values of the dynamic positions in storage, the prefix-count map between them, every
   constructor path, the converting constructor and comparison. *)
From Coq Require Import ZArith List Bool.
From MdspanVerif Require Import MachInt Layouts.
Import ListNotations.
Local Open Scope Z_scope.

Definition pattern := list (option Z).        (* None = dynamic_extent, Some s = static extent s *)

Record extents := mkext { e_t : ity; e_pat : pattern; e_dyn : list Z }.

Definition is_dyn (p : option Z) : bool := match p with None => true | Some _ => false end.
Definition flags (pat : pattern) : list nat := map (fun p => if is_dyn p then 1%nat else 0%nat) pat.

(* index_sequence_scan_impl<R, Values...>::get(r) — the recursion as written, including its odd
   last level `R > r ? FirstVal : 0` *)
Fixpoint scan_get (R : nat) (fl : list nat) (r : nat) : nat :=
  match fl with
  | [] => 0                                                   (* index_sequence_scan_impl<0> *)
  | f :: fs =>
      match fs with
      | [] => if Nat.ltb r R then f else 0                    (* <R, FirstVal> : R > r ? FirstVal : 0 *)
      | _ => if Nat.ltb R r then (f + scan_get (S R) fs r)%nat else 0%nat     (* r > R ? FirstVal + next : 0 *)
      end
  end.
Definition dyn_map (pat : pattern) (r : nat) : nat := scan_get 0 (flags pat) r.

Definition rank (e : extents) : nat := length (e_pat e).
Definition rank_dynamic (e : extents) : nat := length (filter is_dyn (e_pat e)).
Definition static_extent (e : extents) (r : nat) : res (option Z) := nth_chk (e_pat e) r.

(* maybe_static_array::value(r) *)
Definition extent (e : extents) (r : nat) : res Z :=
  match nth_error (e_pat e) r with
  | None => UB
  | Some (Some s) => Ok (wrap (e_t e) s)
  | Some None => nth_chk (e_dyn e) (dyn_map (e_pat e) r)
  end.
Definition all_extents (e : extents) : res (list Z) := seq_res (map (extent e) (seq 0 (rank e))).

(* extents() : value-initialised storage *)
Definition ext_default (t : ity) (pat : pattern) : extents :=
  mkext t pat (repeat 0 (length (filter is_dyn pat))).

(* construction from the dynamic values only (pack, std::array, std::span of N == rank_dynamic values
   of any convertible type): every value is static_cast to index_type and stored in order *)
Definition ext_from_dynamic (t : ity) (pat : pattern) (dv : list Z) : res extents :=
  if Nat.eqb (length dv) (length (filter is_dyn pat)) then Ok (mkext t pat (map (wrap t) dv)) else UB.

(* `m_dyn_vals[k] = v` on the storage array *)
Fixpoint set_nth (l : list Z) (k : nat) (v : Z) : res (list Z) :=
  match l, k with
  | [], _ => UB
  | _ :: l', O => Ok (v :: l')
  | x :: l', S k' => rmap (cons x) (set_nth l' k' v)
  end.

(* construction from all values (N == rank != rank_dynamic, rank_dynamic > 0): the loop
     for r: if (static_vals[r] == dyn_tag) m_dyn_vals[dyn_map(r)] = values[r]                         *)
Fixpoint from_all_loop (t : ity) (pat_all : pattern) (pat : pattern) (r : nat) (vals : list Z) (st : list Z) : res (list Z) :=
  match pat, vals with
  | [], [] => Ok st
  | p :: pat', v :: vals' =>
      if is_dyn p then bind (set_nth st (dyn_map pat_all r) (wrap t v)) (fun st' => from_all_loop t pat_all pat' (S r) vals' st')
      else from_all_loop t pat_all pat' (S r) vals' st
  | _, _ => UB
  end.
Definition ext_from_all (t : ity) (pat : pattern) (av : list Z) : res extents :=
  let nd := length (filter is_dyn pat) in
  if negb (Nat.eqb (length av) (length pat)) then UB else
  if Nat.eqb nd 0 then Ok (mkext t pat [])                       (* all static: values ignored *)
  else if Nat.eqb nd (length pat) then ext_from_dynamic t pat av    (* all dynamic: the dynamic-only path *)
  else rmap (mkext t pat) (from_all_loop t pat pat 0 av (repeat 0 nd)).

(* converting constructor: __construct_vals_from_extents gathers other.extent(R) for every dynamic
   position R of the *target* pattern, then builds the storage through the dynamic-only path *)
Fixpoint gather (pat : pattern) (r : nat) (src : extents) : res (list Z) :=
  match pat with
  | [] => Ok []
  | p :: pat' =>
      if is_dyn p then bind (extent src r) (fun v => rmap (cons v) (gather pat' (S r) src))
      else gather pat' (S r) src
  end.
Definition ext_convert (t : ity) (pat : pattern) (src : extents) : res extents :=
  if negb (Nat.eqb (length pat) (rank src)) then UB else
  bind (gather pat 0 src) (fun dv => ext_from_dynamic t pat dv).

(* operator== : rank differs -> false; else every extent(r) equal after conversion to the common type *)
Fixpoint ext_eq_loop (c : ity) (a b : extents) (r n : nat) : res bool :=
  match n with
  | O => Ok true
  | S n' =>
      bind (extent b r) (fun y => bind (extent a r) (fun x =>
      if negb (wrap c y =? wrap c x) then Ok false else ext_eq_loop c a b (S r) n'))
  end.
Definition ext_eq (a b : extents) : res bool :=
  if negb (Nat.eqb (rank a) (rank b)) then Ok false
  else ext_eq_loop (common (e_t a) (e_t b)) a b 0 (rank a).
(* operator!= : synthesised in C++20; hand-written `!(lhs == rhs)` before *)
Definition ext_neq (a b : extents) : res bool := rmap negb (ext_eq a b).

(* type-level facts used by the constructor constraints *)
Definition compatible_pat (p q : pattern) : bool :=
  Nat.eqb (length p) (length q) &&
  forallb (fun pq => match pq with (Some a, Some b) => a =? b | _ => true end) (combine p q).

(* the values a pattern + stored dynamic values denote *)
Fixpoint fill (t : ity) (pat : pattern) (dv : list Z) : list Z :=
  match pat with
  | [] => []
  | Some s :: pat' => wrap t s :: fill t pat' dv
  | None :: pat' => match dv with v :: dv' => v :: fill t pat' dv' | [] => 0 :: fill t pat' [] end
  end.


(* the extents a pattern + all values denote: static positions win *)
Fixpoint fill_all (t : ity) (pat : pattern) (av : list Z) : list Z :=
  match pat, av with
  | Some s :: pat', _ :: av' => wrap t s :: fill_all t pat' av'
  | None :: pat', v :: av' => wrap t v :: fill_all t pat' av'
  | _, _ => []
  end.
