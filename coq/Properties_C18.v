(* C18 — static information costs no storage; all vocabulary types are trivially copyable.
   Statements about the object-layout model (ObjLayout.v: Itanium ABI allocation of data members with
   [[no_unique_address]]), for every index type, rank and static/dynamic pattern.  The model is tied to
   g++ and clang++ by the correspondence check (sizeof / is_empty / is_trivially_copyable of generated
   instantiations). *)
From Coq Require Import ZArith List Arith.
From MdspanVerif Require Import MachInt Layouts ObjLayout ObjLayoutProofs.
Import ListNotations.
Local Open Scope nat_scope.

(* sizeof(extents) is rank_dynamic() x sizeof(index_type); an empty class when there are none *)
Theorem C18_extents : forall (t : ity) (pat : list (option Z)),
  storage (c_extents t pat) = ndyn pat * width t /\
  is_empty (c_extents t pat) = Nat.eqb (ndyn pat) 0 /\
  sizeof (c_extents t pat) = (if Nat.eqb (ndyn pat) 0 then 1 else ndyn pat * width t) /\
  triv_copyable (c_extents t pat) = true.
Proof. exact extents_size. Qed.
Print Assumptions C18_extents.

(* layout_left / layout_right mappings add nothing to their extents *)
Theorem C18_left_right_add_nothing : forall (t : ity) (pat : list (option Z)),
  sizeof (c_left t pat) = sizeof (c_extents t pat) /\ is_empty (c_left t pat) = is_empty (c_extents t pat) /\
  sizeof (c_right t pat) = sizeof (c_extents t pat) /\ is_empty (c_right t pat) = is_empty (c_extents t pat) /\
  triv_copyable (c_left t pat) = true /\ triv_copyable (c_right t pat) = true.
Proof. exact left_right_add_nothing. Qed.
Print Assumptions C18_left_right_add_nothing.

(* layout_stride adds rank() strides *)
Theorem C18_stride_adds_rank : forall (t : ity) (pat : list (option Z)),
  storage (c_stride t pat) = (ndyn pat + length pat) * width t /\ triv_copyable (c_stride t pat) = true.
Proof. exact stride_adds_rank. Qed.
Print Assumptions C18_stride_adds_rank.

(* the padded layouts add at most one padded stride (one index_type value, subject to alignment) *)
Theorem C18_padded_at_most_one : forall (t : ity) (right : bool) (pat : list (option Z)) (pv spad : option Z),
  (sizeof (c_extents t pat) <= sizeof (c_padded right t pat pv spad) <= round_up (sizeof (c_extents t pat) + width t) (width t)) /\
  triv_copyable (c_padded right t pat pv spad) = true.
Proof. exact padded_at_most_one. Qed.
Print Assumptions C18_padded_at_most_one.

(* an mdspan is its data handle plus its non-empty mapping and accessor *)
Theorem C18_mdspan : forall (M A : ty) (szM dM aM : nat) (eM : bool) (sA aA : nat),
  shape (layout M) szM dM aM eM -> pow2_8 aM ->
  (if eM then dM = 0 /\ aM = 1 /\ 1 <= szM <= 8 else 0 < dM /\ dM <= szM) ->
  acc_shape A sA aA ->
  sizeof (c_mdspan (Scalar 8) M A) = round_up (8 + (round_up dM aA + sA)) 8 /\ is_empty (c_mdspan (Scalar 8) M A) = false.
Proof. exact mdspan_size. Qed.
Print Assumptions C18_mdspan.

(* ... pointer-sized for all-static extents with the default accessor (layout_left / layout_right), for every
   index type, rank and static extents *)
Theorem C18_mdspan_pointer_sized : forall (t : ity) (pat : list (option Z)) (el : Z), ndyn pat = 0 ->
  sizeof (c_mdspan (Scalar 8) (c_left t pat) (c_default_accessor el)) = 8 /\
  sizeof (c_mdspan (Scalar 8) (c_right t pat) (c_default_accessor el)) = 8.
Proof. exact mdspan_pointer_sized. Qed.
Print Assumptions C18_mdspan_pointer_sized.

(* and, with dynamic extents: the pointer plus the dynamic extents (plus the strides for layout_stride) *)
Theorem C18_mdspan_left_right_stride : forall (t : ity) (pat : list (option Z)) (el : Z),
  sizeof (c_mdspan (Scalar 8) (c_left t pat) (c_default_accessor el)) = round_up (8 + ndyn pat * width t) 8 /\
  sizeof (c_mdspan (Scalar 8) (c_right t pat) (c_default_accessor el)) = round_up (8 + ndyn pat * width t) 8 /\
  sizeof (c_mdspan (Scalar 8) (c_stride t pat) (c_default_accessor el)) = round_up (8 + (ndyn pat + length pat) * width t) 8.
Proof. exact mdspan_left_right_stride. Qed.
Print Assumptions C18_mdspan_left_right_stride.

(* non-vacuity and a cross-check of the model against numbers measured with g++ 12 / clang++ 14 *)
Example C18_examples :
  sizeof (c_extents I32 [None; Some 3%Z; None]) = 8 /\
  sizeof (c_stride I64 []) = 2 /\ is_empty (c_stride I64 []) = true /\
  sizeof (c_stride I32 [None; None]) = 16 /\
  sizeof (c_padded false I32 [Some 3%Z; Some 4%Z] None None) = 8 /\
  sizeof (c_padded false I32 [Some 3%Z; Some 4%Z] (Some 4%Z) (Some 4%Z)) = 2 /\
  sizeof (c_mdspan (Scalar 8) (c_left I32 [Some 3%Z; Some 4%Z]) (c_default_accessor 0)) = 8 /\
  sizeof (c_mdspan (Scalar 8) (c_left I32 [None; Some 4%Z]) (c_state_accessor 1)) = 16 /\
  sizeof (c_mdspan (Scalar 8) (c_padded false I32 [Some 3%Z; Some 4%Z] None None) (c_state_accessor 1)) = 16.
Proof. vm_compute. repeat split; reflexivity. Qed.
