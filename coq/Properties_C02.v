(* C02 — each layout computes exactly its specified offset formula and strides. *)
From Coq Require Import ZArith List.
From MdspanVerif Require Import MachInt ListAux Layouts LayoutSpec LayoutProofs LayoutTheorems.
Import ListNotations.
Local Open Scope Z_scope.

(* the offset is the sum of i_r * S_r with S_r the specified stride of the layout *)
Theorem C02_offset_formula : forall (t : ity) (m : mapping) (idx : list Z),
  valid t m -> inbe idx (exts m) -> offset_impl t m idx = Ok (dot idx (combine (exts m) (spec_strides m))).
Proof. exact offset_refines. Qed.
Print Assumptions C02_offset_formula.

(* what the specified strides are: row-major products to the right ... *)
Theorem C02_right_strides : forall (es : list Z) (r : nat), (r < length es)%nat ->
  nth r (spec_strides (MRight es)) 0 = prodl (skipn (S r) es).
Proof. exact right_strides_nth. Qed.
Print Assumptions C02_right_strides.

(* ... column-major products to the left ... *)
Theorem C02_left_strides : forall (es : list Z) (r : nat), (r < length es)%nat ->
  nth r (spec_strides (MLeft es)) 0 = 1 * prodl (firstn r es).
Proof. exact (left_strides_go_nth 1). Qed.
Print Assumptions C02_left_strides.

(* ... exactly the given strides for layout_stride ... *)
Theorem C02_stride_strides : forall (es ss : list Z), spec_strides (MStride es ss) = ss.
Proof. reflexivity. Qed.
Print Assumptions C02_stride_strides.

(* ... and for the padded layouts the same products with the padded extent replaced by the padded
   stride (no replacement at all for rank 0 and 1) *)
Theorem C02_padded_strides : forall (es : list Z) (ps : Z),
  spec_strides (MLPad es ps) = spec_strides (MLeft (lpad_exts es ps)) /\
  spec_strides (MRPad es ps) = spec_strides (MRight (rpad_exts es ps)) /\
  ((length es <= 1)%nat -> lpad_exts es ps = es /\ rpad_exts es ps = es) /\
  (forall e0 e1 es', es = e0 :: e1 :: es' -> lpad_exts es ps = ps :: e1 :: es' /\ rpad_exts es ps = removelast es ++ [ps]).
Proof. exact padded_strides_thm. Qed.
Print Assumptions C02_padded_strides.

(* the padded stride built by a constructor from a padding value is the least multiple of that value
   not smaller than the padded extent *)
Theorem C02_least_multiple : forall (t : ity) (a o : Z),
  0 < a <= imax t -> 0 <= o -> a * ((o + a - 1) / a) <= imax t ->
  find_next_multiple t a o = Ok (a * ((o + a - 1) / a)) /\
  o <= a * ((o + a - 1) / a) < o + a /\ (a * ((o + a - 1) / a)) mod a = 0.
Proof. exact least_multiple_thm. Qed.
Print Assumptions C02_least_multiple.

Theorem C02_least_multiple_zero : forall (t : ity) (o : Z), find_next_multiple t 0 o = Ok 0.
Proof. reflexivity. Qed.
Print Assumptions C02_least_multiple_zero.

(* stride(r) reports S_r, strides() reports all of them *)
Theorem C02_stride_fn : forall (t : ity) (m : mapping) (r : nat),
  valid t m -> (r < length (exts m))%nat -> stride_impl t m r = Ok (nth r (spec_strides m) 0).
Proof. exact stride_refines. Qed.
Print Assumptions C02_stride_fn.

Theorem C02_strides_fn : forall (t : ity) (m : mapping), valid t m ->
  match m with MLeft _ | MRight _ => True | _ => strides_impl t m = Ok (spec_strides m) end.
Proof. exact strides_refines. Qed.
Print Assumptions C02_strides_fn.

(* a default-constructed layout_stride mapping has the row-major strides of its default extents *)
Theorem C02_default_stride : forall (t : ity) (es : list Z), admissible t es ->
  default_stride_strides t es = Ok (spec_strides (MRight es)).
Proof. exact default_stride_thm. Qed.
Print Assumptions C02_default_stride.
