(* C15 — results are identical across language modes, compilers and emulation paths; valid inputs never trip a
   debug-mode check.  The model is configuration independent: each configuration's transcript is compared
   with the one model transcript by the matrix check.  The theorems here show that the alternative source
   paths selected by the configuration macros compute the same functions, and that each debug-mode check
   evaluates to "pass" on valid inputs. *)
From Coq Require Import ZArith List Bool.
From MdspanVerif Require Import MachInt ListAux Layouts LayoutSpec Extents ExtentsProofs Convert View Submdspan SubSpec SubProofs MdArray Config.
Import ListNotations.
Local Open Scope Z_scope.

(* native fold expressions vs the recursive-template emulation: any operator, any pack *)
Theorem C15_fold_paths_equal : forall (A : Type) (op : A -> A -> A) (pack : list A) (init : A),
  fold_emul_call A op pack init = fold_native A op pack init.
Proof. exact fold_paths_equal. Qed.
Print Assumptions C15_fold_paths_equal.
Theorem C15_size_fold_paths_equal : forall es : list Z,
  fold_emul_call Z (fun a b => wrap U64 (wrap U64 a * b)) es 1 = fold_times_right_u64 es.
Proof. exact size_fold_paths_equal. Qed.
Print Assumptions C15_size_fold_paths_equal.

(* synthesised (C++20) vs hand-written operator!= *)
Theorem C15_neq_paths_equal : forall (ta : ity) (a : mapping) (tb : ity) (b : mapping),
  valid ta a -> valid tb b -> map_neq_hand ta a tb b = map_neq_synth ta a tb b.
Proof. exact neq_paths_equal. Qed.
Print Assumptions C15_neq_paths_equal.

(* operator[] vs operator(), pack vs array vs span *)
Theorem C15_access_paths_equal : forall (t : ity) (v : view) (args : list Z) (f1 f2 : form), access t f1 v args = access t f2 v args.
Proof. exact access_paths_equal. Qed.
Print Assumptions C15_access_paths_equal.

(* [[no_unique_address]] pair vs each base-class emulation specialisation *)
Theorem C15_pair_paths_equal : forall (X Y : Type) (i j : pair_impl) (x : X) (y : Y),
  cp_first X Y (mkcp X Y i x y) = cp_first X Y (mkcp X Y j x y) /\ cp_second X Y (mkcp X Y i x y) = cp_second X Y (mkcp X Y j x y).
Proof. exact pair_paths_equal. Qed.
Print Assumptions C15_pair_paths_equal.

(* valid inputs never trip a debug-mode check *)
Theorem C15_debug_stride_check_passes : forall (left : bool) (ts tt : ity) (es : list Z),
  es <> [] -> admissible tt es -> nonneg_in ts (if left then left_strides es else right_strides es) ->
  stride_check left ts tt es (if left then left_strides es else right_strides es) = Ok false.
Proof. exact debug_stride_check_passes. Qed.
Print Assumptions C15_debug_stride_check_passes.
Theorem C15_debug_sub_extents_pass : forall (t : ity) (sls : list slice) (es ss : list Z) (spat : pattern) (vs : list Z),
  valid_slices sls (combine es ss) -> Forall (slice_rep t) sls -> length ss = length es ->
  Forall (fun e => 0 <= e <= imax t) es -> pat_ok t spat es ->
  sub_values t sls es = Ok vs -> ctor_debug_ok t (sub_pattern sls spat) vs = true.
Proof. exact debug_sub_extents_pass. Qed.
Print Assumptions C15_debug_sub_extents_pass.
Theorem C15_debug_mdarray_size_passes : forall (t : ity) (c : ckind) (m : mapping), valid t m ->
  exists a sp, arr_from_mapping t c m = Ok a /\ span_impl t m = Ok sp /\
    match c with CVector => Z.of_nat (length (ar_ctr a)) = sp | CArray n => length (ar_ctr a) = n end.
Proof. exact debug_mdarray_size_passes. Qed.
Print Assumptions C15_debug_mdarray_size_passes.
