(* C03 — mdspan element access is accessor.access(handle, mapping(idx)) in every form. *)
From Coq Require Import ZArith List.
From MdspanVerif Require Import MachInt ListAux Layouts LayoutSpec Extents Convert View ViewProofs.
Import ListNotations.
Local Open Scope Z_scope.

(* separate indices, std::array and std::span hand the accessor the same (handle, offset) - whatever
   the values and types of the index arguments (the forms differ only in how often the arguments are
   converted to index_type, and that conversion is idempotent) *)
Theorem C03_forms_agree : forall (t : ity) (v : view) (args : list Z) (f1 f2 : form),
  access t f1 v args = access t f2 v args.
Proof. exact forms_agree. Qed.
Print Assumptions C03_forms_agree.

(* for in-range indices every form yields exactly accessor().access(data_handle(), mapping()(indices...)),
   with mapping()(indices...) the specified offset of the layout (any layout, any accessor) *)
Theorem C03_access_is_accessor_of_mapping : forall (t : ity) (v : view) (args : list Z) (f : form),
  valid t (v_map v) -> inbe args (exts (v_map v)) ->
  access t f v args = Ok (v_acc v, v_handle v, spec_offset (v_map v) args) /\
  offset_impl t (v_map v) args = Ok (spec_offset (v_map v) args).
Proof. exact access_is_accessor_of_mapping. Qed.
Print Assumptions C03_access_is_accessor_of_mapping.

(* default accessor: the element is data_handle()[offset], inside [data_handle(), data_handle() + required_span_size()) *)
Theorem C03_default_address : forall (t : ity) (v : view) (args : list Z) (f : form) (sp : Z),
  valid t (v_map v) -> inbe args (exts (v_map v)) -> span_impl t (v_map v) = Ok sp ->
  exists e, access t f v args = Ok e /\ v_handle v <= default_address e < v_handle v + sp.
Proof. exact default_address_in_span. Qed.
Print Assumptions C03_default_address.

(* different multi-indices designate different elements *)
Theorem C03_distinct_elements : forall (t : ity) (v : view) (i1 i2 : list Z) (f : form),
  valid t (v_map v) -> inbe i1 (exts (v_map v)) -> inbe i2 (exts (v_map v)) ->
  access t f v i1 = access t f v i2 -> i1 = i2.
Proof. exact distinct_elements. Qed.
Print Assumptions C03_distinct_elements.

(* a write through the view changes exactly its own cell of the heap (and nothing outside the span);
   reading it back yields the written value *)
Theorem C03_write_frame : forall (t : ity) (v : view) (args : list Z) (f : form) (x : Z) (hp : heap) (sp : Z),
  valid t (v_map v) -> inbe args (exts (v_map v)) -> span_impl t (v_map v) = Ok sp ->
  0 <= v_handle v -> v_handle v + sp <= Z.of_nat (length hp) ->
  exists hp' a, view_write t f v args x hp = Ok hp' /\ a = Z.to_nat (v_handle v + spec_offset (v_map v) args) /\
    length hp' = length hp /\ hread hp' a = x /\ (forall b, b <> a -> hread hp' b = hread hp b) /\
    view_read t f v args hp' = Ok x.
Proof. exact write_frame. Qed.
Print Assumptions C03_write_frame.
