(* MdArrayProofs.v — C12. *)
From Coq Require Import ZArith List Lia Bool Arith.
From MdspanVerif Require Import MachInt ListAux Layouts LayoutSpec LayoutProofs LayoutTheorems FlagProofs
     Extents ExtentsProofs Convert ConvertProofs View ViewProofs MdArray.
Import ListNotations.
Local Open Scope Z_scope.

(* constructed from extents or a mapping: exactly required_span_size() value-initialised elements for a
   size-constructible container; N value-initialised elements for std::array<T,N> (the caller's
   precondition is N >= required_span_size()) *)
Theorem construct_size t c m : valid t m ->
  exists a sp, arr_from_mapping t c m = Ok a /\ span_impl t m = Ok sp /\ ar_map a = m /\ ar_t a = t /\
    Forall (fun x => x = 0) (ar_ctr a) /\
    match c with CVector => Z.of_nat (length (ar_ctr a)) = sp | CArray n => length (ar_ctr a) = n end.
Proof.
  intros Hv. destruct (span_defined t m Hv) as (sp & Esp & Hsp). pose proof (span_fits t m sp Hv Esp) as Hfit.
  unfold arr_from_mapping, construct_container. destruct c as [|n].
  - rewrite Esp. cbn [rmap]. eexists; exists sp. split; [reflexivity|]. cbn [ar_map ar_t ar_ctr]. repeat split; auto.
    + apply Forall_forall. intros x Hx. apply repeat_spec in Hx. exact Hx.
    + rewrite repeat_length. rewrite (wrap_u64_small t sp) by lia. lia.
  - cbn [rmap]. eexists; exists sp. split; [reflexivity|]. cbn [ar_map ar_t ar_ctr]. repeat split; auto.
    + apply Forall_forall. intros x Hx. apply repeat_spec in Hx. exact Hx.
    + apply repeat_length.
Qed.

Theorem adopts_container t m ctr : ar_ctr (arr_from_container t m ctr) = ctr /\ ar_map (arr_from_container t m ctr) = m.
Proof. split; reflexivity. Qed.

(* a(i...) is container()[mapping()(i...)] *)
Theorem access_is_container_at_offset a args :
  valid (ar_t a) (ar_map a) -> inbe args (exts (ar_map a)) ->
  arr_read a args = nth_chk (ar_ctr a) (Z.to_nat (spec_offset (ar_map a) args)) /\
  arr_offset a args = Ok (spec_offset (ar_map a) args).
Proof.
  intros Hv Hin. unfold arr_read, arr_offset. pose proof (valid_exts_in _ _ Hv) as He.
  rewrite (inbe_rep _ args _ He Hin). rewrite (offset_refines _ _ args Hv Hin). split; reflexivity.
Qed.

(* to_mdspan(): same mapping, handle = start of the container; writes through either are visible through the other *)
Theorem view_aliases a args x :
  valid (ar_t a) (ar_map a) -> inbe args (exts (ar_map a)) ->
  v_map (arr_view a) = ar_map a /\ v_handle (arr_view a) = 0 /\
  view_write_arr a args x = arr_write a args x /\
  (forall a', arr_write a args x = Ok a' -> arr_read a' args = Ok x /\ view_read_arr a' args = Ok x).
Proof.
  intros Hv Hin. pose proof (valid_exts_in _ _ Hv) as He.
  assert (Eo : arr_offset a args = Ok (spec_offset (ar_map a) args)) by (apply access_is_container_at_offset; auto).
  destruct (access_is_accessor_of_mapping (ar_t a) (arr_view a) args FPack Hv Hin) as [Ea _].
  split; [reflexivity|]. split; [reflexivity|]. split.
  - unfold view_write_arr, arr_write. rewrite Ea, Eo. cbn [bind default_address arr_view v_handle]. rewrite Z.add_0_l. reflexivity.
  - intros a' Hw. unfold arr_write in Hw. rewrite Eo in Hw. cbn [bind] in Hw.
    destruct (Nat.ltb (Z.to_nat (spec_offset (ar_map a) args)) (length (ar_ctr a))) eqn:El; [|discriminate].
    injection Hw as <-. apply Nat.ltb_lt in El.
    unfold arr_read, arr_offset, view_read_arr, view_read, arr_view. cbn [ar_t ar_map ar_ctr].
    rewrite (inbe_rep _ args _ He Hin), (offset_refines _ _ args Hv Hin). cbn [bind].
    change (mkview 0 (ar_map a) AccDefault) with (arr_view a). rewrite Ea. cbn [rmap default_address arr_view v_handle]. rewrite Z.add_0_l.
    split.
    + unfold nth_chk. rewrite (nth_error_nth' _ 0) by (rewrite hwrite_length; exact El). f_equal. apply hwrite_same. exact El.
    + f_equal. apply hwrite_same. exact El.
Qed.

(* size() is the product of the extents *)
Theorem size_is_product a : valid (ar_t a) (ar_map a) -> arr_size a = prodl (exts (ar_map a)).
Proof.
  intros Hv. unfold arr_size. rewrite fold_times_right_u64_mod.
  pose proof (size_valid_thm (ar_t a) (ar_map a) Hv) as Hs. unfold size_impl in Hs. rewrite fold_times_right_u64_mod in Hs.
  pose proof (valid_exts_nonneg _ _ Hv) as Hnn. pose proof (prodl_nonneg _ Hnn) as Hp.
  (* the product is at most imax index_type: it is a representable size *)
  assert (Hb : prodl (exts (ar_map a)) <= imax (ar_t a)).
  { destruct (has_zero (exts (ar_map a))) eqn:Hz.
    - rewrite (prodl_zero _ (has_zero_true _ Hz)). pose proof (imax_pos (ar_t a)). lia.
    - pose proof (has_zero_inbe_exists _ Hnn Hz) as Hin0.
      destruct (dims_chainable _ _ _ Hv Hin0) as (Hch & Hap & _ & Hlen).
      pose proof (chainable_prod_le_span _ Hch Hap) as Hle. unfold dims in Hle.
      rewrite (map_fst_combine' _ _ Hlen) in Hle.
      destruct (span_ge_span1 _ _ Hv Hz) as (sp & E & Hge). pose proof (span_fits _ _ sp Hv E). unfold dims in Hge. lia. }
  pose proof (imax_le_u64 (ar_t a)). rewrite Z.mod_small by (change (2^64) with (imax U64 + 1); lia).
  apply wrap_small. lia.
Qed.

(* ---- the store: copies are deep and independent, moves transfer the elements ---- *)
Lemma set_arr_same s i a : (i < length s)%nat -> nth_error (set_arr s i a) i = Some a.
Proof. revert i; induction s as [|x s IH]; intros [|i] H; cbn [length] in H; try lia; cbn [set_arr nth_error]; auto. apply IH. lia. Qed.
Lemma set_arr_other s i j a : i <> j -> nth_error (set_arr s i a) j = nth_error s j.
Proof. revert i j; induction s as [|x s IH]; intros [|i] [|j] H; cbn [set_arr nth_error]; auto; try congruence; try (apply IH; congruence). Qed.
Lemma set_arr_length s i a : length (set_arr s i a) = length s.
Proof. revert i; induction s as [|x s IH]; intros [|i]; cbn [set_arr length]; auto. Qed.

Theorem copy_independent s i s1 args x s2 :
  astep s (ACopy i) = Ok s1 ->
  (* the copy is the last array; write to it (directly or through a view) *)
  (astep s1 (AWrite (length s) args x) = Ok s2 \/ astep s1 (AWriteView (length s) args x) = Ok s2) ->
  nth_error s1 (length s) = nth_error s i /\            (* the copy holds the same elements *)
  (forall k, (k < length s)%nat -> nth_error s2 k = nth_error s k).   (* writing to the copy changes no other array *)
Proof.
  intros H1 H2. cbn [astep] in H1. destruct (nth_error s i) as [a|] eqn:Ei; [|discriminate]. injection H1 as <-.
  split; [rewrite nth_error_app2 by lia; rewrite Nat.sub_diag; reflexivity|].
  intros k Hk. assert (Hne : length s <> k) by lia.
  destruct H2 as [H2|H2]; cbn [astep] in H2; rewrite nth_error_app2 in H2 by lia; rewrite Nat.sub_diag in H2; cbn [nth_error] in H2.
  - destruct (arr_write a args x) as [a'|]; cbn [rmap] in H2; [|discriminate]. injection H2 as <-.
    rewrite set_arr_other by exact Hne. apply nth_error_app1. exact Hk.
  - destruct (view_write_arr a args x) as [a'|]; cbn [rmap] in H2; [|discriminate]. injection H2 as <-.
    rewrite set_arr_other by exact Hne. apply nth_error_app1. exact Hk.
Qed.

Theorem write_original_leaves_copy s i s1 args x s2 :
  astep s (ACopy i) = Ok s1 -> astep s1 (AWrite i args x) = Ok s2 ->
  nth_error s2 (length s) = nth_error s i.
Proof.
  intros H1 H2. cbn [astep] in H1. destruct (nth_error s i) as [a|] eqn:Ei; [|discriminate]. injection H1 as <-.
  assert (Hi : (i < length s)%nat) by (apply nth_error_Some; congruence).
  cbn [astep] in H2. rewrite nth_error_app1 in H2 by exact Hi. rewrite Ei in H2.
  destruct (arr_write a args x) as [a'|]; cbn [rmap] in H2; [|discriminate]. injection H2 as <-.
  rewrite set_arr_other by lia. rewrite nth_error_app2 by lia. rewrite Nat.sub_diag. reflexivity.
Qed.

Theorem move_transfers s i b s1 a : nth_error s i = Some a -> astep s (AMove i b) = Ok s1 ->
  nth_error s1 (length s) = Some a /\ (forall k, (k < length s)%nat -> k <> i -> nth_error s1 k = nth_error s k).
Proof.
  intros Ei H. cbn [astep] in H. rewrite Ei in H. injection H as <-.
  assert (Hi : (i < length s)%nat) by (apply nth_error_Some; congruence).
  split.
  - rewrite nth_error_app2 by (rewrite set_arr_length; lia). rewrite set_arr_length, Nat.sub_diag. reflexivity.
  - intros k Hk Hki. rewrite nth_error_app1 by (rewrite set_arr_length; exact Hk). apply set_arr_other. congruence.
Qed.
