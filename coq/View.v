(* View.v — mdspan as the triple (data handle, mapping, accessor); observers forward to the mapping.
   (Element access and the construction / assignment machine are added further below.) *)
From Coq Require Import ZArith List Bool.
From MdspanVerif Require Import MachInt ListAux Layouts.
Import ListNotations.
Local Open Scope Z_scope.

(* accessors: the default accessor, and user accessors distinguished by an identifying state *)
Inductive accessor :=
| AccDefault                      (* default_accessor<T>: access(p, i) = p[i], offset(p, i) = p + i *)
| AccUser (id : Z).               (* a user accessor with state `id` (non-pointer handle / proxy reference) *)

Record view := mkview { v_handle : Z; v_map : mapping; v_acc : accessor }.

(* mdspan::extent / stride / is_* / size / empty : all implemented by calling the mapping / extents *)
Definition view_extents (v : view) : list Z := exts (v_map v).
Definition view_extent (v : view) (r : nat) : res Z := nth_chk (exts (v_map v)) r.
Definition view_stride (t : ity) (v : view) (r : nat) : res Z := stride_impl t (v_map v) r.
Definition view_is_unique (v : view) : bool := is_unique_impl (v_map v).
Definition view_is_exhaustive (t : ity) (v : view) : res bool := is_exhaustive_impl t (v_map v).
Definition view_is_strided (v : view) : bool := is_strided_impl (v_map v).
Definition view_size (t : ity) (v : view) : Z := size_impl t (exts (v_map v)).
Definition view_empty (v : view) : bool := empty_impl (exts (v_map v)).
Definition view_rank (v : view) : nat := length (exts (v_map v)).
