(* View.v — mdspan as the triple (data handle, mapping, accessor); observers forward to the mapping.
   (Element access and the construction / assignment machine are added further below.) *)
From Coq Require Import ZArith List Bool.
From MdspanVerif Require Import MachInt ListAux Layouts Extents Convert.
Import ListNotations.
Local Open Scope Z_scope.

(* accessors: the default accessor, and user accessors distinguished by an identifying state *)
Inductive accessor :=
| AccDefault                      (* default_accessor<T>: access(p, i) = p[i], offset(p, i) = p + i *)
| AccUser (id : Z).               (* a user accessor with state `id` (non-pointer handle / proxy reference) *)

Record view := mkview { v_handle : Z; v_map : mapping; v_acc : accessor }.

(* mdspan::extent / stride / is_* / size / empty : all implemented by calling the mapping / extents *)
Definition view_extents (v : view) : list Z := exts (v_map v).
Definition view_extent (v : view) (r : nat) : res Z := nth_chk (exts (v_map v)) r.
Definition view_stride (t : ity) (v : view) (r : nat) : res Z := stride_impl t (v_map v) r.
Definition view_is_unique (v : view) : bool := is_unique_impl (v_map v).
Definition view_is_exhaustive (t : ity) (v : view) : res bool := is_exhaustive_impl t (v_map v).
Definition view_is_strided (v : view) : bool := is_strided_impl (v_map v).
Definition view_size (t : ity) (v : view) : Z := size_impl t (exts (v_map v)).
Definition view_empty (v : view) : bool := empty_impl (exts (v_map v)).
Definition view_rank (v : view) : nat := length (exts (v_map v)).

(* ---- element access (C03) ------------------------------------------------------------------------- *)
Inductive form := FPack | FArray | FSpan.        (* separate indices / std::array / std::span *)

(* offset handed to the accessor.  Pack forms (operator[] / operator() with separate indices):
     mapping(static_cast<index_type>(std::move(indices))...)   — and the mapping casts again;
   array / span forms (__callop): mapping(indices[Idxs]...) — only the mapping's own cast.
   `args` are the mathematical values of the index arguments, of whatever (convertible) type. *)
Definition access_offset (t : ity) (f : form) (v : view) (args : list Z) : res Z :=
  match f with
  | FPack => offset_impl t (v_map v) (map (wrap t) (map (wrap t) args))
  | FArray | FSpan => offset_impl t (v_map v) (map (wrap t) args)
  end.
(* the element designated: accessor().access(data_handle(), offset) *)
Definition access (t : ity) (f : form) (v : view) (args : list Z) : res (accessor * Z * Z) :=
  rmap (fun o => (v_acc v, v_handle v, o)) (access_offset t f v args).
(* default_accessor: access(p, i) = p[i], the element at address p + i; offset(p, i) = p + i *)
Definition default_address (e : accessor * Z * Z) : Z := let '(_, h, o) := e in h + o.
Definition acc_offset (a : accessor) (h i : Z) : Z := h + i.

(* a heap of cells; reads and writes through a view with the default accessor *)
Definition heap := list Z.
Fixpoint hwrite (hp : heap) (a : nat) (x : Z) : heap :=
  match hp, a with
  | [], _ => []
  | _ :: hp', O => x :: hp'
  | c :: hp', S a' => c :: hwrite hp' a' x
  end.
Definition hread (hp : heap) (a : nat) : Z := nth a hp 0.
Definition view_write (t : ity) (f : form) (v : view) (args : list Z) (x : Z) (hp : heap) : res heap :=
  rmap (fun e => hwrite hp (Z.to_nat (default_address e)) x) (access t f v args).
Definition view_read (t : ity) (f : form) (v : view) (args : list Z) (hp : heap) : res Z :=
  rmap (fun e => hread hp (Z.to_nat (default_address e))) (access t f v args).

(* ---- construction, copy, move, assignment, swap, conversion on a pool of views (C11) -------------- *)
(* a pool entry: a view together with its (static) type *)
Record entry := mkentry { en_t : ity; en_pat : Extents.pattern; en_view : view }.

Inductive vop :=
| OCopy (i : nat)                          (* push(T(pool[i]))                 copy constructor *)
| OMove (i : nat)                          (* push(T(std::move(pool[i])))      move constructor (trivially copyable: source unchanged) *)
| OAssign (i j : nat)                      (* pool[i] = pool[j]                same type *)
| OMoveAssign (i j : nat)                  (* pool[i] = std::move(pool[j]) *)
| OSwap (i j : nat)                        (* swap(pool[i], pool[j])           same type *)
| OConvert (i : nat) (tgt : Convert.mtype) (* push(U(pool[i]))                 converting constructor *)
| OAssignConv (i j : nat) (tgt : Convert.mtype).   (* pool[i] = U(pool[j])     assignment from a converted view *)

Fixpoint set_entry (p : list entry) (i : nat) (e : entry) : list entry :=
  match p, i with
  | [], _ => []
  | _ :: p', O => e :: p'
  | x :: p', S i' => x :: set_entry p' i' e
  end.

(* converting constructor: handle copied, mapping through the mapping's converting constructor,
   accessor through the accessor's (identity on the model's accessor state) *)
Definition convert_entry (e : entry) (tgt : Convert.mtype) : res entry :=
  rmap (fun m' => mkentry (Convert.mt_t tgt) (Convert.mt_pat tgt) (mkview (v_handle (en_view e)) m' (v_acc (en_view e))))
       (Convert.conv_mapping (en_t e) (v_map (en_view e)) tgt).

Definition vstep (p : list entry) (o : vop) : res (list entry) :=
  match o with
  | OCopy i | OMove i => match nth_error p i with Some e => Ok (p ++ [e]) | None => UB end
  | OAssign i j | OMoveAssign i j =>
      match nth_error p i, nth_error p j with Some _, Some e => Ok (set_entry p i e) | _, _ => UB end
  | OSwap i j =>
      match nth_error p i, nth_error p j with Some a, Some b => Ok (set_entry (set_entry p i b) j a) | _, _ => UB end
  | OConvert i tgt =>
      match nth_error p i with Some e => rmap (fun e' => p ++ [e']) (convert_entry e tgt) | None => UB end
  | OAssignConv i j tgt =>
      match nth_error p i, nth_error p j with
      | Some _, Some e => rmap (fun e' => set_entry p i e') (convert_entry e tgt)
      | _, _ => UB
      end
  end.
Fixpoint vrun (p : list entry) (ops : list vop) : res (list entry) :=
  match ops with [] => Ok p | o :: ops' => bind (vstep p o) (fun p' => vrun p' ops') end.

(* the constructors of mdspan: (handle, dynamic or all extents...), (handle, extents), (handle, mapping),
   (handle, mapping, accessor).  `mk` turns extents values into the layout's mapping. *)
Definition ctor_from_values (t : ity) (pat : Extents.pattern) (mk : list Z -> mapping) (h : Z) (all : bool) (vals : list Z) : res entry :=
  bind (if all then Extents.ext_from_all t pat vals else Extents.ext_from_dynamic t pat vals) (fun e =>
  rmap (fun es => mkentry t pat (mkview h (mk es) AccDefault)) (Extents.all_extents e)).
Definition ctor_from_mapping (t : ity) (pat : Extents.pattern) (h : Z) (m : mapping) (a : accessor) : entry :=
  mkentry t pat (mkview h m a).
