(* LayoutSpec.v — specification layer for the five layouts, in unbounded Z: the strides each layout
   is specified to have, validity of a mapping for an index type, in-bounds multi-indices. *)
From Coq Require Import ZArith List Lia Bool Permutation.
From MdspanVerif Require Import MachInt ListAux Layouts.
Import ListNotations.
Local Open Scope Z_scope.

(* S_r = product of the extents to the right of r (row-major) *)
Fixpoint right_strides (es : list Z) : list Z :=
  match es with [] => [] | _ :: es' => prodl es' :: right_strides es' end.
(* S_r = a * product of the extents to the left of r (column-major, a = 1) *)
Fixpoint left_strides_go (a : Z) (es : list Z) : list Z :=
  match es with [] => [] | e :: es' => a :: left_strides_go (a * e) es' end.
Definition left_strides (es : list Z) : list Z := left_strides_go 1 es.

(* the extents with the padded one replaced by the padded stride (rank >= 2 only) *)
Definition lpad_exts (es : list Z) (ps : Z) : list Z :=
  match es with _ :: (_ :: _) as es' => ps :: es' | _ => es end.
Definition rpad_exts (es : list Z) (ps : Z) : list Z :=
  match es with _ :: _ :: _ => removelast es ++ [ps] | _ => es end.

Definition spec_strides (m : mapping) : list Z :=
  match m with
  | MLeft es => left_strides es
  | MRight es => right_strides es
  | MStride _ ss => ss
  | MLPad es ps => left_strides (lpad_exts es ps)
  | MRPad es ps => right_strides (rpad_exts es ps)
  end.

Definition dims (m : mapping) : list dim := combine (exts m) (spec_strides m).
(* the specified offset: sum of i_r * S_r *)
Definition spec_offset (m : mapping) (idx : list Z) : Z := dot idx (dims m).

(* "index-space size, with zero extents counted as one, is representable" *)
Definition admissible (t : ity) (es : list Z) : Prop :=
  Forall (fun e => 0 <= e <= imax t) es /\ prod1 es <= imax t.

Definition valid (t : ity) (m : mapping) : Prop :=
  match m with
  | MLeft es | MRight es => admissible t es
  | MStride es ss =>
      length ss = length es /\
      Forall (fun e => 0 <= e <= imax t) es /\
      Forall (fun s => 0 < s <= imax t) ss /\
      (existsb (Z.eqb 0) es = false -> chainable (combine es ss)) /\   (* some ordering of the dimensions is a descending chain
                                                                        (implied by the standard's permutation precondition, see
                                                                        LayoutProofs.std_precondition_chainable) *)
      span1 (combine (map max1 es) ss) <= imax t            (* REQUIRED-SPAN-SIZE, zeros counted as one *)
  | MLPad es ps =>
      admissible t es /\
      ((2 <= length es)%nat -> hd 0 es <= ps /\ max1 ps * prod1 (tl es) <= imax t)
  | MRPad es ps =>
      admissible t es /\
      ((2 <= length es)%nat -> last es 0 <= ps /\ prod1 (removelast es) * max1 ps <= imax t)
  end.
