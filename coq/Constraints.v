(* Constraints.v — C16: which constructors / conversions / call operators take part in overload resolution
   and which are explicit, as decision functions over type descriptors.  Each function is a transcription
   of the constraint and explicit(...) expressions of the headers (extents.hpp, layout_*.hpp,
   layout_padded.hpp, default_accessor.hpp, mdspan.hpp).  `cxx20 = false` is the C++17 mode in which
   MDSPAN_CONDITIONAL_EXPLICIT expands to nothing (every conditional explicit is implicit). *)
From Coq Require Import ZArith List Bool.
From MdspanVerif Require Import MachInt ListAux Extents.
Import ListNotations.
Local Open Scope Z_scope.

Definition ity_eqb (a b : ity) : bool :=
  match a, b with
  | I8, I8 | U8, U8 | I16, I16 | U16, U16 | I32, I32 | U32, U32 | I64, I64 | U64, U64 => true
  | _, _ => false
  end.
Definition optz_eqb (a b : option Z) : bool :=
  match a, b with Some x, Some y => x =? y | None, None => true | _, _ => false end.
Fixpoint pat_eqb (p q : pattern) : bool :=
  match p, q with
  | [], [] => true
  | a :: p', b :: q' => optz_eqb a b && pat_eqb p' q'
  | _, _ => false
  end.

(* ---- extents ---------------------------------------------------------------------------------------- *)
Record ext_t := mkE { x_t : ity; x_pat : pattern }.
Definition ext_same (a b : ext_t) : bool := ity_eqb (x_t a) (x_t b) && pat_eqb (x_pat a) (x_pat b).
(* __check_compatible_extents: equal rank, and equal static extents wherever both are static *)
Definition ext_compatible (s d : ext_t) : bool := compatible_pat (x_pat s) (x_pat d).
(* explicit(((Extents != dynamic_extent) && (OtherExtents == dynamic_extent)) || ... ||
            numeric_limits<index_type>::max() < numeric_limits<OtherIndexType>::max()) *)
Definition dyn_to_static (s d : pattern) : bool :=
  existsb (fun pq => is_dyn (fst pq) && negb (is_dyn (snd pq))) (combine s d).
Definition ext_explicit (s d : ext_t) : bool := dyn_to_static (x_pat s) (x_pat d) || (imax (x_t d) <? imax (x_t s)).
(* is_constructible<D, S> / is_convertible<S, D>; identical types go through the copy constructor *)
Definition ext_constructible (s d : ext_t) : bool := ext_same s d || ext_compatible s d.
Definition ext_convertible (cxx20 : bool) (s d : ext_t) : bool :=
  ext_same s d || (ext_compatible s d && (negb cxx20 || negb (ext_explicit s d))).

(* ---- layout mappings -------------------------------------------------------------------------------- *)
Inductive lay := LL | LR | LS | LLP (pv : option Z) | LRP (pv : option Z).
Record map_t := mkM { m_lay : lay; m_ext : ext_t }.
Definition lay_eqb (a b : lay) : bool :=
  match a, b with
  | LL, LL | LR, LR | LS, LS => true
  | LLP p, LLP q | LRP p, LRP q => optz_eqb p q
  | _, _ => false
  end.
Definition map_same (a b : map_t) : bool := lay_eqb (m_lay a) (m_lay b) && ext_same (m_ext a) (m_ext b).
Definition is_none (p : option Z) : bool := match p with None => true | Some _ => false end.

(* the converting constructor D(const S&) of the mapping templates: None = no such constructor takes part in
   overload resolution, Some e = it does and its explicit(...) expression evaluates to e *)
Definition map_ctor (cxx20 : bool) (s d : map_t) : option bool :=
  let r := length (x_pat (m_ext d)) in
  let ec := ext_constructible (m_ext s) (m_ext d) in
  let ecv := ext_convertible cxx20 (m_ext s) (m_ext d) in
  match m_lay d, m_lay s with
  | LL, LL | LR, LR => if ec then Some (negb ecv) else None
  | LL, LR | LR, LL => if ec && (r <=? 1)%nat then Some (negb ecv) else None
  | LL, LS | LR, LS => if ec then Some (0 <? r)%nat else None
  | LL, LLP _ | LR, LRP _ => if ec then Some (negb ecv) else None
  | LS, LL | LS, LR | LS, LS => if ec then Some (negb ecv) else None
  | LS, LLP _ | LS, LRP _ => if ec then Some true else None
  | LLP _, LL | LRP _, LR => if ec then Some (negb ecv) else None
  | LLP _, LS | LRP _, LS => if ec then Some (0 <? r)%nat else None
  | LLP pd, LLP ps | LRP pd, LRP ps => if ec then Some ((1 <? r)%nat && (is_none pd || is_none ps)) else None
  | LLP _, LRP _ | LRP _, LLP _ => if ec && (r <=? 1)%nat then Some (negb ecv) else None
  | _, _ => None
  end.
Definition map_constructible (cxx20 : bool) (s d : map_t) : bool :=
  map_same s d || match map_ctor cxx20 s d with Some _ => true | None => false end.
Definition map_convertible (cxx20 : bool) (s d : map_t) : bool :=
  map_same s d || match map_ctor cxx20 s d with Some e => negb cxx20 || negb e | None => false end.
(* is_constructible<mapping_type, extents_type>: every layout but layout_stride *)
Definition map_from_extents (l : lay) : bool := match l with LS => false | _ => true end.

(* ---- accessors -------------------------------------------------------------------------------------- *)
(* element types: a base type and const-ness *)
Record elt := mkEl { el_base : nat; el_const : bool }.
Inductive acc_t :=
| ADefault (e : elt)            (* default_accessor<e> *)
| AUser (e : elt) (id : nat).   (* a user accessor without converting or default constructor *)
Definition elt_eqb (a b : elt) : bool := Nat.eqb (el_base a) (el_base b) && Bool.eqb (el_const a) (el_const b).
Definition acc_same (a b : acc_t) : bool :=
  match a, b with
  | ADefault x, ADefault y => elt_eqb x y
  | AUser x i, AUser y j => elt_eqb x y && Nat.eqb i j
  | _, _ => false
  end.
(* is_convertible<U-array-pointer, T-array-pointer>: same type up to added const *)
Definition arrptr_convertible (u t : elt) : bool := Nat.eqb (el_base u) (el_base t) && (el_const t || negb (el_const u)).
(* default_accessor(const default_accessor<U>&): never explicit *)
Definition acc_convertible (s d : acc_t) : bool :=
  acc_same s d || match s, d with ADefault u, ADefault t => arrptr_convertible u t | _, _ => false end.
Definition acc_default_constructible (a : acc_t) : bool := match a with ADefault _ => true | AUser _ _ => false end.
Definition acc_elt (a : acc_t) : elt := match a with ADefault e | AUser e _ => e end.

(* ---- mdspan ----------------------------------------------------------------------------------------- *)
Record mds_t := mkMds { md_map : map_t; md_acc : acc_t }.      (* element_type is the accessor's *)
Definition mds_same (a b : mds_t) : bool := map_same (md_map a) (md_map b) && acc_same (md_acc a) (md_acc b).
Definition mds_constructible (cxx20 : bool) (s d : mds_t) : bool :=
  mds_same s d || (map_constructible cxx20 (md_map s) (md_map d) && acc_convertible (md_acc s) (md_acc d)).
Definition mds_explicit (cxx20 : bool) (s d : mds_t) : bool :=
  negb (map_convertible cxx20 (md_map s) (md_map d)) || negb (acc_convertible (md_acc s) (md_acc d)).
Definition mds_convertible (cxx20 : bool) (s d : mds_t) : bool :=
  mds_same s d || (mds_constructible cxx20 s d && (negb cxx20 || negb (mds_explicit cxx20 s d))).

(* ---- index / extent arguments ------------------------------------------------------------------------ *)
Inductive arg :=
| AInt (t : ity)      (* a built-in integer type *)
| AFloat              (* double: convertible and nothrow-constructible *)
| AClassNt            (* class type with a noexcept conversion to every integer type *)
| AClassThrow         (* class type whose conversion may throw: convertible, not nothrow-constructible *)
| AClassExplicit      (* class type with an EXPLICIT noexcept conversion: nothrow-constructible, not convertible *)
| ANone.              (* a type without conversion to integers *)
Definition arg_valid (a : arg) : bool := match a with AInt _ | AFloat | AClassNt => true | AClassThrow | AClassExplicit | ANone => false end.
Definition count_ok (n R Rd : nat) : bool := Nat.eqb n R || Nat.eqb n Rd.
Definition rankd (p : pattern) : nat := length (filter is_dyn p).

(* extents(OtherIndexTypes...)  [explicit]; extents() for no arguments *)
Definition ext_from_pack (e : ext_t) (args : list arg) : bool :=
  match args with
  | [] => true
  | _ => forallb arg_valid args && count_ok (length args) (length (x_pat e)) (rankd (x_pat e))
  end.
(* extents(const array<T, N>&) / extents(const span<T, N>&): (constructible, convertible) *)
Definition ext_from_array (cxx20 : bool) (e : ext_t) (a : arg) (n : nat) : bool * bool :=
  let c := arg_valid a && count_ok n (length (x_pat e)) (rankd (x_pat e)) in
  (c, c && (negb cxx20 || Nat.eqb n (rankd (x_pat e)))).

(* mdspan(data_handle_type, SizeTypes...) [explicit] *)
Definition mds_from_pack (m : mds_t) (args : list arg) : bool :=
  let p := x_pat (m_ext (md_map m)) in
  forallb arg_valid args && count_ok (length args) (length p) (rankd p) &&
  map_from_extents (m_lay (md_map m)) && acc_default_constructible (md_acc m).
(* mdspan(data_handle_type, const array<T,N>&) / span *)
Definition mds_from_array (m : mds_t) (a : arg) (n : nat) : bool :=
  let p := x_pat (m_ext (md_map m)) in
  arg_valid a && count_ok n (length p) (rankd p) && map_from_extents (m_lay (md_map m)) && acc_default_constructible (md_acc m).
(* mdspan(handle, extents) ; mdspan(handle, mapping) ; mdspan(handle, mapping, accessor) *)
Definition mds_from_extents (m : mds_t) : bool := map_from_extents (m_lay (md_map m)) && acc_default_constructible (md_acc m).
Definition mds_from_mapping (m : mds_t) : bool := acc_default_constructible (md_acc m).

(* mapping::operator()(Indices...), mdspan::operator[] / operator() with an index pack *)
Definition call_ok (p : pattern) (args : list arg) : bool := Nat.eqb (length args) (length p) && forallb arg_valid args.
(* mdspan::operator[](const array<T, N>&) / span: N is part of the parameter type *)
Definition index_array_ok (p : pattern) (a : arg) (n : nat) : bool := Nat.eqb n (length p) && arg_valid a.
