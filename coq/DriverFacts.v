(* DriverFacts.v — facts about the correspondence drivers' own design (not about mdspan). *)
From Coq Require Import ZArith List Bool Lia.
From MdspanVerif Require Import MachInt ListAux Layouts Extents DriverModel.
Import ListNotations.
Local Open Scope Z_scope.

(* the three user layouts of family X / kind 3 tell the six observers apart: any two different observers
   answer differently on at least one of the layouts, so a forwarder wired to the wrong observer changes
   the printed 18 bits *)
Definition obs_bit (k j : Z) : bool := Z.testbit (k + 1) j.

Lemma view_flags_distinguish : forall k1 k2, 0 <= k1 < 6 -> 0 <= k2 < 6 -> k1 <> k2 ->
  exists j, 0 <= j < 3 /\ obs_bit k1 j <> obs_bit k2 j.
Proof.
  intros k1 k2 H1 H2 Hne.
  assert (C1 : k1 = 0 \/ k1 = 1 \/ k1 = 2 \/ k1 = 3 \/ k1 = 4 \/ k1 = 5) by lia.
  assert (C2 : k2 = 0 \/ k2 = 1 \/ k2 = 2 \/ k2 = 3 \/ k2 = 4 \/ k2 = 5) by lia.
  destruct C1 as [E1|[E1|[E1|[E1|[E1|E1]]]]]; destruct C2 as [E2|[E2|[E2|[E2|[E2|E2]]]]]; subst k1 k2;
    try (exfalso; apply Hne; reflexivity);
    first [ exists 0; split; [lia|vm_compute; discriminate]
          | exists 1; split; [lia|vm_compute; discriminate]
          | exists 2; split; [lia|vm_compute; discriminate] ].
Qed.

Lemma view_flags_value : view_flags = map (fun p => obs_bit (snd p) (fst p))
  (flat_map (fun j => map (fun k => (j, k)) [0; 1; 2; 3; 4; 5]) [0; 1; 2]).
Proof. vm_compute. reflexivity. Qed.

(* size() / empty() on the index spaces the view stream aims at: a product that is exactly 2^bits wraps to 0
   although no extent is 0 — size() == 0 is not a test for emptiness *)
Example wrap_not_empty : size_impl I32 [65536; 65536] = 0 /\ empty_impl [65536; 65536] = false.
Proof. split; vm_compute; reflexivity. Qed.

Lemma empty_is_not_size_zero_refuted :
  exists (t : ity) (es : list Z), Forall (fun e => 0 < e <= imax t) es /\ size_impl t es = 0 /\ empty_impl es = false.
Proof. exists I32, [65536; 65536]. split; [repeat constructor; cbv; intuition congruence|split; vm_compute; reflexivity]. Qed.
