(* C19 — shared views are free of hidden state: concurrent disjoint access is race-free and every
   write lands in exactly its own element regardless of how the threads interleave. *)
From Coq Require Import ZArith List Lia.
From MdspanVerif Require Import MachInt ListAux Layouts LayoutSpec Extents Convert View Submdspan SubSpec SubProofs
     MdArray Concurrency ConcurrencyProofs ConcurrencyArr.
Import ListNotations.
Local Open Scope Z_scope.

(* cell layer: for EVERY interleaving of race-free thread programs, the final memory and every
   thread's read log are those of the sequential composition (no bound on threads, program lengths
   or schedules) *)
Theorem C19_interleaving_is_sequential : forall (ps : list (list caction)) (s : list tagged),
  interleave ps s -> race_free ps -> forall st, crun s st = crun (sequential ps) st.
Proof. exact interleaving_is_sequential. Qed.
Print Assumptions C19_interleaving_is_sequential.

Theorem C19_schedule_independent : forall (ps : list (list caction)) (s1 s2 : list tagged) (st : cstate),
  interleave ps s1 -> interleave ps s2 -> race_free ps -> crun s1 st = crun s2 st.
Proof. exact schedule_independent. Qed.
Print Assumptions C19_schedule_independent.

(* every write lands in exactly its own element: at the end of every interleaving a cell holds the
   last value written by the one thread that writes it; a cell nobody writes keeps its content
   (take for k a thread that does not write it, or an index past the last thread) *)
Theorem C19_final_cell : forall (ps : list (list caction)) (s : list tagged) (st : cstate) (c k : nat),
  interleave ps s -> race_free ps -> (c < length (cs_heap st))%nat ->
  (forall j p a, nth_error ps j = Some p -> j <> k -> In a p -> writes_to c a = false) ->
  hread (cs_heap (crun s st)) c = last_write c (nth k ps []) (hread (cs_heap st) c).
Proof. exact final_cell. Qed.
Print Assumptions C19_final_cell.

(* every thread reads, in every interleaving, exactly what it would read running alone *)
Theorem C19_thread_reads_as_alone : forall (ps : list (list caction)) (s : list tagged) (st : cstate) (k : nat) (p : list caction),
  interleave ps s -> race_free ps -> nth_error ps k = Some p -> (k < length (cs_logs st))%nat ->
  nth k (cs_logs (crun s st)) [] = nth k (cs_logs st) [] ++ solo_log p (cs_heap st).
Proof. exact thread_reads_as_alone. Qed.
Print Assumptions C19_thread_reads_as_alone.

(* view layer: threads that access — through the shared view, copies of it, or sub-views of any depth
   created inside the threads, with any of the access forms — pairwise distinct elements of the shared
   view (whenever one of the two accesses is a write) compile to race-free cell programs: distinct
   multi-indices are distinct memory cells (C01 injectivity + C04 aliasing) *)
Theorem C19_disjoint_indices_race_free : forall (sh : shared),
  valid (sh_t sh) (v_map (sh_view sh)) -> pat_ok (sh_t sh) (sh_pat sh) (exts (v_map (sh_view sh))) ->
  0 <= v_handle (sh_view sh) ->
  forall (ps : list (list taction)) (cps : list (list caction)),
  Forall (Forall (wf_taction sh)) ps -> index_disjoint ps -> compile_all sh ps = Ok cps -> race_free cps.
Proof. exact compiled_race_free. Qed.
Print Assumptions C19_disjoint_indices_race_free.

Theorem C19_shared_view : forall (sh : shared),
  valid (sh_t sh) (v_map (sh_view sh)) -> pat_ok (sh_t sh) (sh_pat sh) (exts (v_map (sh_view sh))) ->
  0 <= v_handle (sh_view sh) ->
  forall (ps : list (list taction)),
  Forall (Forall (wf_taction sh)) ps -> index_disjoint ps ->
  exists cps, compile_all sh ps = Ok cps /\ race_free cps /\
    forall st s, interleave cps s ->
      crun s st = crun (sequential cps) st /\
      (forall k cp, nth_error cps k = Some cp -> (k < length (cs_logs st))%nat ->
         nth k (cs_logs (crun s st)) [] = nth k (cs_logs st) [] ++ solo_log cp (cs_heap st)) /\
      (forall c k, (c < length (cs_heap st))%nat ->
         (forall j p a, nth_error cps j = Some p -> j <> k -> In a p -> writes_to c a = false) ->
         hread (cs_heap (crun s st)) c = last_write c (nth k cps []) (hread (cs_heap st) c)).
Proof. exact shared_view_schedule_independent. Qed.
Print Assumptions C19_shared_view.

(* observers, copies and sub-view creation have no effect on memory or on any thread's log *)
Theorem C19_pure_actions : forall (sh : shared) (a : taction) (c : caction) (st : cstate) (k : nat),
  root_index a = None -> compile sh a = Ok c -> cexec st (k, c) = st.
Proof. exact pure_actions_no_effect. Qed.
Print Assumptions C19_pure_actions.

(* a shared *const mdarray*: a(i...) designates, for EVERY argument list, the cell (or the undefined
   behaviour) that a pack-form read through to_mdspan() designates in the view layer ... *)
Theorem C19_const_mdarray_cell : forall (a : mdarr) (pat : pattern) (args : list Z),
  cell_of (arr_shared a pat) [] FPack args = rmap Z.to_nat (arr_offset a args).
Proof. exact const_mdarray_cell. Qed.
Print Assumptions C19_const_mdarray_cell.

(* ... and any number of threads that read (any elements, not necessarily distinct ones — through the
   mdarray, to_mdspan(), copies or sub-views of any depth) and observe are race-free, leave the container
   unchanged in every interleaving, and each reads what it would read alone *)
Theorem C19_const_mdarray_shared : forall (a : mdarr) (pat : pattern),
  valid (ar_t a) (ar_map a) -> pat_ok (ar_t a) pat (exts (ar_map a)) ->
  forall ps, Forall (Forall (wf_taction (arr_shared a pat))) ps -> read_only ps ->
  exists cps, compile_all (arr_shared a pat) ps = Ok cps /\ race_free cps /\
    forall st s, interleave cps s ->
      cs_heap (crun s st) = cs_heap st /\
      (forall k cp, nth_error cps k = Some cp -> (k < length (cs_logs st))%nat ->
         nth k (cs_logs (crun s st)) [] = nth k (cs_logs st) [] ++ solo_log cp (cs_heap st)).
Proof. exact const_mdarray_shared. Qed.
Print Assumptions C19_const_mdarray_shared.

(* non-vacuity: a 3x4 layout_right view shared by two threads; thread 0 writes row 0 directly and
   element (0,2) through the column sub-view submdspan(v, full_extent, 2); thread 1 writes row 1 through
   submdspan(v, 1, full_extent) and reads it back.  The hypotheses hold and the programs compile. *)
Definition ex_sh := mkshared I32 [None; None] (mkview 0 (MRight [3; 4]) AccDefault).
Definition ex_ps : list (list taction) :=
  [ [TWrite [] FPack [0; 0] 10; TObserve; TWrite [[SFull; SIdx (Dyn 2)]] FArray [0] 11; TCopy];
    [TSub [[SIdx (Dyn 1); SFull]]; TWrite [[SIdx (Dyn 1); SFull]] FPack [3] 20; TRead [[SIdx (Dyn 1); SFull]] FSpan [3]] ].
Example C19_nonvacuous :
  valid I32 (MRight [3; 4]) /\ pat_ok I32 [None; None] [3; 4] /\
  Forall (Forall (wf_taction ex_sh)) ex_ps /\ index_disjoint ex_ps /\
  compile_all ex_sh ex_ps = Ok [[CWrite 0 10; CPure; CWrite 2 11; CPure]; [CPure; CWrite 7 20; CRead 7]].
Proof.
  split; [|split; [|split; [|split]]].
  - cbn [valid]. unfold admissible. split; [repeat constructor; cbn; lia|cbn; lia].
  - cbn. tauto.
  - unfold ex_ps, wf_taction, wf_levels. repeat constructor; cbn [chain_hyps sub_kind_ok ex_sh sh_view v_map];
      try (right; reflexivity); try (left; reflexivity);
      try (eexists; split; [vm_compute; reflexivity|cbn; lia]);
      cbn; unfold cval_rep; cbn; repeat split; try lia; repeat constructor; cbn; lia.
  - intros j k p q a b ia ib Hjk Hj Hk Ha Hb Ra Rb _.
    destruct j as [|[|j]], k as [|[|k]]; cbn in Hj, Hk; try congruence;
      try (destruct j; discriminate); try (destruct k; discriminate);
      injection Hj as <-; injection Hk as <-; cbn in Ha, Hb;
      repeat (destruct Ha as [<-|Ha]; [|]); try contradiction;
      repeat (destruct Hb as [<-|Hb]; [|]); try contradiction;
      cbn in Ra, Rb; try discriminate; injection Ra as <-; injection Rb as <-; discriminate.
  - vm_compute. reflexivity.
Qed.
