(* DriverModel.v — the transcripts the correspondence check compares: for each family of driver case
   the model computes exactly the observables the C++ driver prints.  Executable; extracted. *)
From Coq Require Import ZArith List Bool.
From MdspanVerif Require Import MachInt ListAux Layouts Extents Convert View MdArray Submdspan SubSpec Concurrency ObjLayout Constraints Deduction.
Import ListNotations.
Local Open Scope Z_scope.

Inductive tval :=
| TZ (r : res Z)
| TL (r : res (list Z))
| TB (r : res (list bool)).

Definition ity_of_nat (n : nat) : ity :=
  match n with 0 => I8 | 1 => U8 | 2 => I16 | 3 => U16 | 4 => I32 | 5 => U32 | 6 => I64 | _ => U64 end%nat.

(* run-time extents as observed through extent(r): a static position reports its static value *)
Fixpoint ext_values (t : ity) (pat : list (option Z)) (vals : list Z) : list Z :=
  match pat, vals with
  | Some s :: pat', _ :: vals' => wrap t s :: ext_values t pat' vals'
  | None :: pat', v :: vals' => wrap t v :: ext_values t pat' vals'
  | _, _ => []
  end.

Definition pad_se (left : bool) (pat : list (option Z)) : option Z :=
  if left then hd None pat else last pat None.

(* layout: 0 left, 1 right, 2 stride, 3 left_padded, 4 right_padded
   ctor:   0 from extents; 1 from extents+strides; 2 from extents + run-time padding value; 3 default;
           4 (padded layouts) converted from layout_stride::mapping(extents, strides) *)
Definition build_mapping (t : ity) (lay : nat) (pv : option Z) (pat : list (option Z)) (ctor : nat)
           (es ss : list Z) (dpv : Z) : res mapping :=
  match lay with
  | 0%nat => Ok (MLeft es)
  | 1%nat => Ok (MRight es)
  | 2%nat => if Nat.eqb ctor 3 then rmap (MStride es) (default_stride_strides t es)     (* mapping() *)
             else Ok (MStride es (map (wrap t) ss))
  | 3%nat => if Nat.eqb ctor 2 then pad_ctor_ext_pv t true pv (pad_se true pat) es dpv
             else if Nat.eqb ctor 4 then conv_mapping t (MStride es (map (wrap t) ss)) (mkmt t pat KLPad pv)   (* mapping(layout_stride::mapping) *)
             else pad_ctor_ext t true pv (pad_se true pat) es
  | _ => if Nat.eqb ctor 2 then pad_ctor_ext_pv t false pv (pad_se false pat) es dpv
         else if Nat.eqb ctor 4 then conv_mapping t (MStride es (map (wrap t) ss)) (mkmt t pat KRPad pv)
         else pad_ctor_ext t false pv (pad_se false pat) es
  end.

Definition is_always_exhaustive_model (lay : nat) (pv : option Z) (pat : list (option Z)) : bool :=
  match lay with
  | 0%nat | 1%nat => true
  | 2%nat => false
  | 3%nat => pad_is_always_exhaustive (length pat) pv (pad_se true pat)
  | _ => pad_is_always_exhaustive (length pat) pv (pad_se false pat)
  end.

Definition has_strides_member (lay : nat) : bool := negb (Nat.ltb lay 2).

Definition map_transcript (t : ity) (lay : nat) (pv : option Z) (pat : list (option Z)) (ctor : nat)
           (vals ss : list Z) (dpv : Z) (idxs : option (list (list Z))) : list tval :=
  let es := ext_values t pat vals in
  match build_mapping t lay pv pat ctor es ss dpv with
  | UB => [TZ UB]
  | Ok m =>
    let R := length es in
    let pts := match idxs with Some l => l | None => all_indices es end in
    [ TL (Ok (exts m));
      TZ (span_impl t m);
      TL (seq_res (map (stride_impl t m) (seq 0 R)));
      TL (if has_strides_member lay then strides_impl t m else Ok []);
      TB (bind (is_exhaustive_impl t m) (fun e =>
            Ok [is_unique_impl m; e; is_strided_impl m; true; is_always_exhaustive_model lay pv pat; true]));
      TB (bind (is_exhaustive_impl t m) (fun e =>
            Ok [is_unique_impl m; e; is_strided_impl m; true; is_always_exhaustive_model lay pv pat; true]));
      TZ (Ok (size_impl t (exts m)));
      TB (Ok [empty_impl (exts m)]);
      TL (Ok (exts m));
      TL (seq_res (map (stride_impl t m) (seq 0 R)));
      TL (Ok [Z.of_nat R; Z.of_nat (length (filter (fun p => match p with None => true | Some _ => false end) pat))]);
      TL (Ok (map (fun p => match p with None => -1 | Some v => v end) pat));
      TL (seq_res (map (offset_impl t m) pts)) ]
  end.

(* ---- family X: extents ----------------------------------------------------------------------------- *)
Definition ext_fields (e : res extents) : list tval :=
  match e with
  | UB => [TZ UB]
  | Ok e =>
    [ TL (Ok [Z.of_nat (rank e); Z.of_nat (rank_dynamic e)]);
      TL (Ok (map (fun p => match p with None => -1 | Some v => v end) (e_pat e)));
      TL (all_extents e) ]
  end.
(* mode 0: from the dynamic values only; 1: from all values *)
Definition x_ctor (t : ity) (pat : pattern) (mode : nat) (vals : list Z) : list tval :=
  ext_fields (if Nat.eqb mode 0 then ext_from_dynamic t pat vals else ext_from_all t pat vals).
Definition x_conv (ts : ity) (pats : pattern) (tt : ity) (patt : pattern) (vals : list Z) : list tval :=
  ext_fields (bind (ext_from_all ts pats vals) (fun s => ext_convert tt patt s)).
Definition x_cmp (ta : ity) (pata : pattern) (tb : ity) (patb : pattern) (va vb : list Z) : list tval :=
  match ext_from_all ta pata va, ext_from_all tb patb vb with
  | Ok a, Ok b => [TB (rmap (fun x => [x]) (ext_eq a b)); TB (rmap (fun x => [x]) (ext_neq a b))]
  | _, _ => [TZ UB]
  end.

(* kind 3: an mdspan over USER layouts built from these extents.  size() / empty() over a non-unique layout (every index -> offset 0), where the
   index space may be larger than any span; and the six observers forwarded from three layouts whose answers are fixed bits: observer k
   (is_unique, is_exhaustive, is_strided, is_always_unique, is_always_exhaustive, is_always_strided = 0..5) answers bit j of k + 1 on layout j,
   so any two observers differ on some layout *)
Definition view_flags : list bool :=
  flat_map (fun j => map (fun k => Z.testbit (k + 1) j) [0; 1; 2; 3; 4; 5]) [0; 1; 2].
Definition x_view (t : ity) (pat : pattern) (vals : list Z) : list tval :=
  match bind (ext_from_all t pat vals) all_extents with
  | UB => [TZ UB]
  | Ok es => [TZ (Ok (size_impl t es)); TB (Ok [empty_impl es]); TL (Ok es); TB (Ok view_flags)]
  end.

(* ---- family V: conversions and equality ------------------------------------------------------------ *)
Definition lkind_of_nat (n : nat) : lkind :=
  match n with 0 => KLeft | 1 => KRight | 2 => KStride | 3 => KLPad | _ => KRPad end%nat.
Definition opt_tb (r : res (option bool)) : tval :=
  TB (rmap (fun o => match o with Some b => [b] | None => [] end) r).

(* a mapping value as the drivers describe it *)
Record mval := mkmval { mv_t : ity; mv_lay : nat; mv_pv : option Z; mv_pat : pattern; mv_ctor : nat;
                        mv_vals : list Z; mv_ss : list Z; mv_dpv : Z }.
Definition mval_build (v : mval) : res mapping :=
  build_mapping (mv_t v) (mv_lay v) (mv_pv v) (mv_pat v) (mv_ctor v) (ext_values (mv_t v) (mv_pat v) (mv_vals v)) (mv_ss v) (mv_dpv v).
Definition mval_type (v : mval) : mtype := mkmt (mv_t v) (mv_pat v) (lkind_of_nat (mv_lay v)) (mv_pv v).

Definition points (es : list Z) (idxs : option (list (list Z))) : list (list Z) :=
  match idxs with Some l => l | None => all_indices es end.

Definition mapping_fields (t : ity) (m : mapping) : list tval :=
  [ TL (Ok (exts m)); TZ (span_impl t m); TL (strides_list t m) ].

Definition v_conv (sv : mval) (tgt : mtype) (idxs : option (list (list Z))) : list tval :=
  match mval_build sv with
  | UB => [TZ UB]
  | Ok s =>
    match conv_mapping (mv_t sv) s tgt with
    | UB => [TZ UB]
    | Ok m =>
      let ts := mv_t sv in let tt := mt_t tgt in
      let pts := points (exts s) idxs in
      mapping_fields tt m ++
      [ TL (seq_res (map (offset_impl tt m) pts));
        TL (seq_res (map (offset_impl ts s) pts));
        opt_tb (map_eq tt m ts s); opt_tb (map_neq_synth tt m ts s);
        opt_tb (map_eq ts s tt m); opt_tb (map_neq_synth ts s tt m);
        opt_tb (map_eq tt m tt m);
        (if conv_exists m (mt_kind (mval_type sv))
         then opt_tb (bind (conv_mapping tt m (mval_type sv)) (fun s2 => map_eq ts s2 ts s))
         else TB (Ok [])) ]
    end
  end.

Definition v_cmp (av bv : mval) (idxs : option (list (list Z))) : list tval :=
  match mval_build av, mval_build bv with
  | Ok a, Ok b =>
    let ta := mv_t av in let tb := mv_t bv in
    let same := exts_eq ta (exts a) tb (exts b) in
    [ opt_tb (map_eq ta a tb b); opt_tb (map_neq_synth ta a tb b); TB (Ok [same]) ] ++
    mapping_fields ta a ++ mapping_fields tb b ++
    (if same then
       let pts := points (exts a) idxs in
       [ TL (seq_res (map (offset_impl ta a) pts)); TL (seq_res (map (offset_impl tb b) pts)) ]
     else [ TL (Ok []); TL (Ok []) ])
  | _, _ => [TZ UB]
  end.

(* ---- family K: debug-mode stride check ------------------------------------------------------------- *)
Definition k_dbgconv (sv : mval) (tgt : mtype) : list tval :=
  match mval_build sv with
  | Ok (MStride es ss) =>
      match conv_exts (mt_t tgt) (mt_pat tgt) es with
      | Ok es' =>
          let left := match mt_kind tgt with KLeft => true | _ => false end in
          [ TB (rmap (fun b => [b]) (stride_check_cfg false left (mv_t sv) (mt_t tgt) es' ss));
            TB (rmap (fun b => [b]) (stride_check_cfg true left (mv_t sv) (mt_t tgt) es' ss));
            TL (Ok es') ]
      | UB => [TZ UB]
      end
  | _ => [TZ UB]
  end.

(* ---- family S: submdspan chains -------------------------------------------------------------------- *)
Definition kind_code (m : mapping) : Z :=
  match m with MLeft _ => 0 | MRight _ => 1 | MStride _ _ => 2 | MLPad _ _ => 3 | MRPad _ _ => 4 end.

Definition s_level (t : ity) (m : mapping) (pat : pattern) (h : Z) (sls : list slice)
  : list tval * option (mapping * pattern * Z) :=
  match submap t m pat sls with
  | UB => ([TZ UB], None)
  | Ok (m', off) =>
    let pat' := sub_pattern sls pat in
    let h' := h + off in
    let n := prodl (exts m') in
    let pts := if (0 <? n) && (n <=? 400) then all_indices (exts m') else [] in
    ([ TZ (Ok (Z.of_nat (length (exts m'))));
       TZ (Ok (kind_code m'));
       TL (Ok (map (fun p => match p with None => -1 | Some v => v end) pat'));
       TL (Ok (exts m'));
       TL (strides_list t m');
       TZ (Ok off);
       TZ (span_impl t m');
       TZ (Ok h');
       TL (rmap (map (fun o => h' + o)) (seq_res (map (offset_impl t m') pts)));
       TL (rmap (map (fun o => h + o)) (seq_res (map (fun j => offset_impl t m (compose sls j)) pts)));
       TZ (Ok 0) ],          (* accessor of the result: the source accessor's offset_policy *)
     Some (m', pat', h'))
  end.

Fixpoint s_levels (t : ity) (m : mapping) (pat : pattern) (h : Z) (levels : list (list slice)) : list tval :=
  match levels with
  | [] => []
  | sls :: rest =>
      match s_level t m pat h sls with
      | (tv, Some (m', pat', h')) => tv ++ s_levels t m' pat' h' rest
      | (tv, None) => tv
      end
  end.

Definition s_chain (sv : mval) (levels : list (list slice)) : list tval :=
  match mval_build sv with
  | UB => [TZ UB]
  | Ok m => TZ (span_impl (mv_t sv) m) :: s_levels (mv_t sv) m (mv_pat sv) 0 levels
  end.

(* ---- family A: element access --------------------------------------------------------------------- *)
(* offsets through each access form; the heap (span + 2*8 cells, canary -1) after writing 100+k through the
   view at point k; the values read back *)
Fixpoint write_all (t : ity) (v : view) (pts : list (list Z)) (k : Z) (hp : heap) : res heap :=
  match pts with
  | [] => Ok hp
  | p :: pts' => bind (view_write t FPack v p (100 + k) hp) (fun hp' => write_all t v pts' (k + 1) hp')
  end.
Definition a_access (sv : mval) (idxs : option (list (list Z))) : list tval :=
  match mval_build sv with
  | UB => [TZ UB]
  | Ok m =>
    let t := mv_t sv in
    let pts := points (exts m) idxs in
    let v := mkview 8 m AccDefault in
    let offs f := rmap (map (fun e => default_address e - 8)) (seq_res (map (access t f v) pts)) in
    match span_impl t m with
    | UB => [TZ UB]
    | Ok sp =>
      if 4096 <? sp then [ TL (offs FPack); TL (offs FArray); TL (offs FSpan); TL (Ok []); TL (Ok []) ]   (* huge spans: identities only *)
      else
      let hp0 := repeat (-1) (Z.to_nat (sp + 16)) in
      let hp := write_all t v pts 0 hp0 in
      [ TL (offs FPack); TL (offs FArray); TL (offs FSpan);
        TL (bind hp (fun h => if Z.of_nat (length h) <=? 96 then Ok h else Ok []));
        TL (bind hp (fun h => seq_res (map (fun p => view_read t FPack v p h) pts))) ]
    end
  end.

Fixpoint pick_dyn_vals (pat : pattern) (av : list Z) : list Z :=
  match pat, av with
  | p :: pat', v :: av' => if is_dyn p then v :: pick_dyn_vals pat' av' else pick_dyn_vals pat' av'
  | _, _ => []
  end.

(* ---- family P: construction / copy / move / assign / swap / convert on a pool of views ------------- *)
Inductive pop :=
| PCtor (ty : nat) (kind : nat) (h : Z)       (* construct a view of type ty from (handle, ...) *)
| PCopy (i : nat) | PMove (i : nat)
| PAssign (i j : nat) | PMoveAssign (i j : nat) | PSwap (i j : nat)
| PConv (i : nat) (ty : nat) | PAssignConv (i j : nat).

(* a view type of the program: index type, layout kind, pattern, accessor kind (0 default, 1 stateful) *)
Record ptype := mkptype { pt_t : ity; pt_lay : nat; pt_pat : pattern; pt_acc : nat }.
Definition ptype_mtype (ty : ptype) : mtype := mkmt (pt_t ty) (pt_pat ty) (lkind_of_nat (pt_lay ty)) None.

(* entries carry their program type index so that assignment-from-conversion knows its target *)
Definition pentry := (nat * entry)%type.

Definition p_mapping (ty : ptype) (es ss : list Z) : mapping :=
  match pt_lay ty with 0%nat => MLeft es | 1%nat => MRight es | _ => MStride es ss end.

(* constructor kinds: 0 (h, dynamic extents...)  1 (h, all extents...)  2 (h, array of dynamic)  3 (h, array of all)  9 / 10 (h, span of dynamic / of all)  8 (h, second mapping value, accessor)
   5 (h, extents)  6 (h, mapping)  7 (h, mapping, accessor) *)
Definition p_ctor (ty : ptype) (kind : nat) (h : Z) (es ss es2 ss2 : list Z) : res entry :=
  let t := pt_t ty in
  let acc := if Nat.eqb (pt_acc ty) 0 then AccDefault else AccUser (10 + h) in
  match kind with
  | 0%nat | 2%nat | 9%nat => rmap (fun e => mkentry (en_t e) (en_pat e) (mkview h (v_map (en_view e)) acc))
                      (ctor_from_values t (pt_pat ty) (fun x => p_mapping ty x ss) h false (pick_dyn_vals (pt_pat ty) es))
  | 1%nat | 3%nat | 10%nat => rmap (fun e => mkentry (en_t e) (en_pat e) (mkview h (v_map (en_view e)) acc))
                      (ctor_from_values t (pt_pat ty) (fun x => p_mapping ty x ss) h true es)
  | 8%nat => Ok (ctor_from_mapping t (pt_pat ty) h (p_mapping ty (ext_values t (pt_pat ty) es2) ss2) acc)   (* the second mapping value *)
  | _ => Ok (ctor_from_mapping t (pt_pat ty) h (p_mapping ty (ext_values t (pt_pat ty) es) ss) acc)
  end.

Definition p_step (tys : list ptype) (es ss es2 ss2 : list Z) (p : list pentry) (o : pop) : res (list pentry) :=
  let ents := map snd p in
  let retag (l : list entry) := combine (map fst p) l in
  match o with
  | PCtor ty kind h =>
      match nth_error tys ty with
      | Some pty => rmap (fun e => p ++ [(ty, e)]) (p_ctor pty kind h es ss es2 ss2)
      | None => UB
      end
  | PCopy i | PMove i => match nth_error p i with Some x => Ok (p ++ [x]) | None => UB end
  | PAssign i j => rmap retag (vstep ents (OAssign i j))
  | PMoveAssign i j => rmap retag (vstep ents (OMoveAssign i j))
  | PSwap i j => rmap retag (vstep ents (OSwap i j))
  | PConv i ty =>
      match nth_error tys ty, nth_error ents i with
      | Some pty, Some e => rmap (fun e' => p ++ [(ty, e')]) (convert_entry e (ptype_mtype pty))
      | _, _ => UB
      end
  | PAssignConv i j =>
      match nth_error p i, nth_error ents j with
      | Some (ty, _), Some e =>
          match nth_error tys ty with
          | Some pty => rmap (fun e' => combine (map fst p) (set_entry ents i e')) (convert_entry e (ptype_mtype pty))
          | None => UB
          end
      | _, _ => UB
      end
  end.

Definition p_dump (p : list pentry) : res (list Z) :=
  rmap (fun l => concat l ++ [0])
    (seq_res (map (fun x : pentry =>
       let e := snd x in let v := en_view e in
       bind (strides_list (en_t e) (v_map v)) (fun st =>
       Ok ([v_handle v; (match v_acc v with AccDefault => 0 | AccUser _ => 20 + v_handle v end);
            (match v_acc v with AccDefault => 0 | AccUser k => k end)] ++ exts (v_map v) ++ st))) p)).

Fixpoint p_run (tys : list ptype) (es ss es2 ss2 : list Z) (p : list pentry) (ops : list pop) : list tval :=
  match ops with
  | [] => []
  | o :: ops' =>
      match p_step tys es ss es2 ss2 p o with
      | UB => [TZ UB]
      | Ok p' => TL (p_dump p') :: p_run tys es ss es2 ss2 p' ops'
      end
  end.
Definition p_program (tys : list ptype) (es ss es2 ss2 : list Z) (ops : list pop) : list tval := p_run tys es ss es2 ss2 [] ops.

(* ---- family R: mdarray ---------------------------------------------------------------------------- *)
Inductive rop :=
| RCtorMap (h : nat)                      (* from extents / mapping [/ allocator]: value-initialised container *)
| RCtorCtr (n : nat)                      (* from extents / mapping + container of n elements 1000, 1001, ... *)
| RCopy (i : nat) | RMove (i : nat) | RAssign (i j : nat)
| RWrite (i : nat) (args : list Z) (x : Z) | RWriteView (i : nat) (args : list Z) (x : Z).

Definition r_step (t : ity) (m : mapping) (c : ckind) (s : list mdarr) (o : rop) : res (list mdarr) :=
  match o with
  | RCtorMap _ => rmap (fun a => s ++ [a]) (arr_from_mapping t c m)
  | RCtorCtr n => Ok (s ++ [arr_from_container t m (map (fun k => 1000 + Z.of_nat k) (seq 0 n))])
  | RCopy i => astep s (ACopy i)
  | RMove i => astep s (AMove i (match c with CArray _ => true | CVector => false end))
  | RAssign i j => astep s (AAssign i j)
  | RWrite i a x => astep s (AWrite i a x)
  | RWriteView i a x => astep s (AWriteView i a x)
  end.
Definition r_dump (s : list mdarr) : list Z :=
  concat (map (fun a => [Z.of_nat (length (ar_ctr a)); arr_size a; 1] ++ exts (ar_map a) ++ [-7] ++
                        (if Nat.leb (length (ar_ctr a)) 48 then ar_ctr a else []) ++ [-9]) s).
Fixpoint r_run (t : ity) (m : mapping) (c : ckind) (s : list mdarr) (ops : list rop) : list tval :=
  match ops with
  | [] => []
  | o :: ops' =>
      match r_step t m c s o with
      | UB => [TZ UB]
      | Ok s' => TL (Ok (r_dump s')) :: r_run t m c s' ops'
      end
  end.
Definition r_program (sv : mval) (arrN : option Z) (ops : list rop) : list tval :=
  match mval_build sv with
  | UB => [TZ UB]
  | Ok m => r_run (mv_t sv) m (match arrN with Some n => CArray (Z.to_nat n) | None => CVector end) [] ops
  end.

(* ---- family T: threads sharing one view (C19) ------------------------------------------------------ *)
(* an action as the harness writes it: kind (0 write, 1 read, 2 observe, 3 copy, 4 create sub-view),
   derived view (0 = the shared view / a private copy, d+1 = d-th chain), form, index, value *)
Inductive tact := TA (kind der form : nat) (idx : list Z) (x : Z).
Definition form_of_nat (n : nat) : form := match n with 1%nat => FArray | 2%nat => FSpan | _ => FPack end.
Definition t_action (ders : list (list (list slice))) (a : tact) : taction :=
  let '(TA kind der f idx x) := a in
  let levels := match der with O => [] | S d => nth d ders [] end in
  match kind with
  | 0%nat => TWrite levels (form_of_nat f) idx x
  | 1%nat => TRead levels (form_of_nat f) idx
  | 2%nat => TObserve
  | 3%nat => TCopy
  | _ => TSub levels
  end.
(* the buffer: 8 canary cells (-1), span cells holding 5000 + k, 8 canary cells; the view's handle is 8.
   The result is the state after the sequential composition — by C19_interleaving_is_sequential the state
   after every interleaving — preceded by the verdict of the verified race-freedom check. *)
Definition t_threads (sv : mval) (ders : list (list (list slice))) (progs : list (list tact)) : list tval :=
  match mval_build sv with
  | UB => [TZ UB]
  | Ok m =>
    let t := mv_t sv in
    match span_impl t m with
    | UB => [TZ UB]
    | Ok sp =>
      let sh := mkshared t (mv_pat sv) (mkview 8 m AccDefault) in
      let hp0 := repeat (-1) 8 ++ map (fun k => 5000 + Z.of_nat k) (seq 0 (Z.to_nat sp)) ++ repeat (-1) 8 in
      match compile_all sh (map (map (t_action ders)) progs) with
      | UB => [TZ UB]
      | Ok cps =>
        let st := crun (sequential cps) (mkcs hp0 (map (fun _ => []) progs)) in
        TZ (Ok (if race_freeb cps then 1 else 0)) :: TL (Ok (cs_heap st)) :: map (fun l => TL (Ok l)) (cs_logs st) ++ [TZ (Ok 0)]
      end
    end
  end.

(* ---- family L: object layout (C18) ------------------------------------------------------------------ *)
Definition l_layout (t : ity) (lay : nat) (pat : pattern) (pv : option Z) (acc : nat) : list tval :=
  let E := c_extents t pat in
  let M := c_mapping lay t pat pv in
  let MD := c_mdspan (Scalar 8) M (c_accessor acc) in
  let b2z (b : bool) := if b then 1 else 0 in
  [ TL (Ok [Z.of_nat (sizeof E); b2z (is_empty E); Z.of_nat (sizeof M); b2z (is_empty M); Z.of_nat (sizeof MD); b2z (is_empty MD)]);
    TL (Ok [b2z (triv_copyable E); b2z (triv_copyable M); b2z (triv_copyable (c_accessor acc)); b2z (triv_copyable MD)]) ].

(* ---- family Q: overload participation and explicitness (C16) ---------------------------------------- *)
Inductive qdesc := QE (e : ext_t) | QM (m : map_t) | QA (a : acc_t) | QD (d : mds_t).
Inductive query :=
| QPair (s d : qdesc)                        (* is_constructible<D, const S&>, is_convertible<const S&, D> *)
| QExtPack (e : ext_t) (args : list arg)     (* is_constructible<E, Args...> *)
| QExtArr (e : ext_t) (a : arg) (n : nat)    (* from const array<A,n>& and span<A,n>: constructible, convertible *)
| QMdsPack (m : mds_t) (args : list arg)     (* is_constructible<MD, handle, Args...> *)
| QMdsArr (m : mds_t) (a : arg) (n : nat)    (* (handle, array<A,n>) and (handle, span<A,n>) *)
| QMdsParts (m : mds_t)                      (* (handle, extents), (handle, mapping), (handle, mapping, accessor) *)
| QCall (m : mds_t) (args : list arg)        (* mapping(args...) invocable; mdspan[args...] / mdspan(args...) *)
| QIndexArr (m : mds_t) (a : arg) (n : nat). (* mdspan[array<A,n>], mdspan[span<A,n>] *)
Definition b2z (b : bool) : Z := if b then 1 else 0.
Definition q_eval (cxx20 : bool) (q : query) : list Z :=
  match q with
  | QPair (QE s) (QE d) => [b2z (ext_constructible s d); b2z (ext_convertible cxx20 s d)]
  | QPair (QM s) (QM d) => [b2z (map_constructible cxx20 s d); b2z (map_convertible cxx20 s d)]
  | QPair (QA s) (QA d) => [b2z (acc_convertible s d); b2z (acc_convertible s d)]
  | QPair (QD s) (QD d) => [b2z (mds_constructible cxx20 s d); b2z (mds_convertible cxx20 s d)]
  | QPair _ _ => [0; 0]
  | QExtPack e args => [b2z (ext_from_pack e args)]
  | QExtArr e a n => let '(c, v) := ext_from_array cxx20 e a n in [b2z c; b2z v; b2z c; b2z v]
  | QMdsPack m args => [b2z (mds_from_pack m args)]
  | QMdsArr m a n => [b2z (mds_from_array m a n); b2z (mds_from_array m a n)]
  | QMdsParts m => [b2z (mds_from_extents m); b2z (mds_from_mapping m); 1]
  | QCall m args => let p := x_pat (m_ext (md_map m)) in [b2z (call_ok p args); b2z (call_ok p args)]
  | QIndexArr m a n => let p := x_pat (m_ext (md_map m)) in [b2z (index_array_ok p a n); b2z (index_array_ok p a n)]
  end.
Definition q_query (q : query) : list tval := [TL (Ok (q_eval false q)); TL (Ok (q_eval true q))].

(* ---- family G: deduction guides, member types, noexcept (C17) --------------------------------------- *)
Inductive gquery :=
| GCtad (f : ctad)                 (* descriptor of decltype(<CTAD expression>) *)
| GDextents (t : ity) (n : nat)    (* descriptor of dextents<I, n> *)
| GMembersExt (e : ext_t)          (* index_type, size_type, rank_type of extents<...> *)
| GMembersMap (m : map_t)          (* ... of a mapping, then is_same flags (extents_type, layout_type) *)
| GMembersMds (d : mds_t)          (* ... of an mdspan, then is_same flags *)
| GNoexcept (kind : nat) (n : nat).   (* n flags, all required to be 1 *)
Definition g_query (q : gquery) : list tval :=
  match q with
  | GCtad f => [TL (Ok (enc_deduced (deduce f)))]
  | GDextents t n => [TL (Ok (0 :: enc_ext (dextents t n)))]
  | GMembersExt e => [TL (Ok (member_ints (x_t e)))]
  | GMembersMap m => [TL (Ok (member_ints (x_t (m_ext m)) ++ [1; 1]))]
  | GMembersMds d => [TL (Ok (member_ints (x_t (m_ext (md_map d))) ++ [1; 1; 1; 1; 1; 1; 1; 1]))]
  | GNoexcept _ n => [TL (Ok (repeat 1 n))]
  end.
