(* C20 — debug builds reject layout_stride -> layout_left/right conversion with wrong strides. *)
From Coq Require Import ZArith List.
From MdspanVerif Require Import MachInt ListAux Layouts LayoutSpec LayoutProofs Extents ExtentsProofs Convert ConvertProofs.
Import ListNotations.
Local Open Scope Z_scope.

(* without NDEBUG, for rank > 0: the conversion terminates the program exactly when the source strides
   differ from the canonical strides of the target layout for the same extents; the check itself never
   executes undefined behaviour (the theorem gives an Ok result for every admissible input) *)
Theorem C20_abort_iff : forall (left : bool) (ts tt : ity) (es ss : list Z),
  es <> [] -> length ss = length es -> admissible tt es -> nonneg_in ts ss ->
  stride_check left ts tt es ss =
    Ok (negb (list_eqb ss (if left then left_strides es else right_strides es))).
Proof. exact stride_check_thm. Qed.
Print Assumptions C20_abort_iff.

Theorem C20_abort_iff_prop : forall (left : bool) (ts tt : ity) (es ss : list Z),
  es <> [] -> length ss = length es -> admissible tt es -> nonneg_in ts ss ->
  exists aborts, stride_check left ts tt es ss = Ok aborts /\
    (aborts = true <-> ss <> (if left then left_strides es else right_strides es)).
Proof.
  intros left ts tt es ss H1 H2 H3 H4. eexists. split; [apply stride_check_thm; auto|].
  destruct (list_eqb ss _) eqn:E; cbn [negb].
  - apply list_eqb_eq in E. split; [discriminate|intros H; contradiction].
  - split; [intros _ Heq; apply list_eqb_eq in Heq; congruence|reflexivity].
Qed.
Print Assumptions C20_abort_iff_prop.

(* it never terminates when all strides are canonical *)
Theorem C20_silent_on_canonical : forall (left : bool) (ts tt : ity) (es : list Z),
  es <> [] -> admissible tt es -> nonneg_in ts (if left then left_strides es else right_strides es) ->
  stride_check left ts tt es (if left then left_strides es else right_strides es) = Ok false.
Proof. exact stride_check_silent_on_canonical. Qed.
Print Assumptions C20_silent_on_canonical.

(* builds with NDEBUG perform the conversion unchecked; rank 0 is never checked *)
Theorem C20_ndebug_unchecked : forall (left : bool) (ts tt : ity) (es ss : list Z),
  stride_check_cfg true left ts tt es ss = Ok false.
Proof. exact stride_check_ndebug. Qed.
Print Assumptions C20_ndebug_unchecked.

Theorem C20_rank0_unchecked : forall (left : bool) (ts tt : ity) (ss : list Z), stride_check left ts tt [] ss = Ok false.
Proof. exact stride_check_rank0. Qed.
Print Assumptions C20_rank0_unchecked.
