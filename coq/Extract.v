(* Extract.v — extraction of the executable model for the correspondence check.
   Only ExtrOcamlBasic is used (bool, option, unit, list, prod, sumbool mapped to OCaml's own types);
   Z, positive and nat stay the extracted inductive types; no Extract Constant. *)
From Coq Require Import ZArith List.
From Coq Require Extraction.
From Coq Require Import ExtrOcamlBasic.
From MdspanVerif Require Import MachInt ListAux Layouts Extents Convert View MdArray Submdspan SubSpec Concurrency ObjLayout Constraints Deduction DriverModel.
Extraction Language OCaml.
Extraction "model.ml" ity_of_nat map_transcript x_ctor x_conv x_cmp x_view v_conv v_cmp lkind_of_nat k_dbgconv s_chain a_access p_program r_program t_threads l_layout q_query g_query.
