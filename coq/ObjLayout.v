(* ObjLayout.v — C18: object layout of the vocabulary types under the Itanium C++ ABI (x86-64) when
   [[no_unique_address]] is available, and trivially-copyable as a structural flag.
   A class is a list of non-static data members, each marked or not with [[no_unique_address]];
   there are no base classes and no virtual functions in the attribute configuration of the library.
   The layout function follows the ABI's allocation of data members:
     * a marked member of empty class type is placed at offset 0 unless an empty subobject of the same
       type is already there; then at dsize(C), dsize(C)+1, ... ; it does not advance dsize;
     * every other member goes to dsize(C) rounded up to its alignment (moved on while an empty
       subobject inside it would collide with one of the same type at the same offset); a marked
       member advances dsize by its dsize (its tail padding is reusable), an unmarked one by its size;
     * sizeof is max(size, dsize) rounded up to the alignment, 1 for a class without any storage;
     * a class is empty iff all its members are marked members of empty class type.
   The class models below are transcribed from the headers (extents.hpp, layout_*.hpp,
   compressed_pair.hpp, mdspan.hpp, layout_padded.hpp). *)
From Coq Require Import ZArith List Bool Arith Lia.
From MdspanVerif Require Import MachInt Layouts.
Import ListNotations.
Local Open Scope nat_scope.

Definition tname := (nat * list Z)%type.       (* class template code, template arguments *)
Definition tname_eqb (a b : tname) : bool :=
  Nat.eqb (fst a) (fst b) && (if list_eq_dec Z.eq_dec (snd a) (snd b) then true else false).

Inductive ty :=
| Scalar (w : nat)                              (* integer / pointer: size = alignment = w *)
| Arr (w n : nat)                               (* T[n] of scalars of width w, n > 0 *)
| Struct (nm : tname) (triv : bool) (fields : list (bool * ty)).
   (* triv: all special members defaulted / implicit (no user-provided copy, move, destructor) *)

Record linfo := mkli {
  li_size : nat; li_dsize : nat; li_align : nat;
  li_empty : bool;                               (* std::is_empty *)
  li_empties : list (tname * nat)                (* empty subobjects: (type, offset) *)
}.

Definition round_up (a b : nat) : nat := ((a + b - 1) / b) * b.

Definition shift (o : nat) (es : list (tname * nat)) : list (tname * nat) := map (fun e => (fst e, snd e + o)) es.
Definition conflict (a b : list (tname * nat)) : bool :=
  existsb (fun x => existsb (fun y => tname_eqb (fst x) (fst y) && Nat.eqb (snd x) (snd y)) b) a.

(* first offset o, o+step, o+2*step, ... at which the member's empty subobjects do not collide *)
Fixpoint find_off (fuel : nat) (o step : nat) (mine theirs : list (tname * nat)) : nat :=
  match fuel with
  | O => o
  | S f => if conflict (shift o mine) theirs then find_off f (o + step) step mine theirs else o
  end.

Definition place (c : linfo) (nua : bool) (d : linfo) : linfo :=
  if nua && li_empty d then
    let o := if conflict (li_empties d) (li_empties c) then find_off (S (length (li_empties c))) (li_dsize c) (li_align d) (li_empties d) (li_empties c) else 0 in
    mkli (Nat.max (li_size c) (o + li_size d)) (li_dsize c) (Nat.max (li_align c) (li_align d)) (li_empty c)
         (li_empties c ++ shift o (li_empties d))
  else
    let o := find_off (S (length (li_empties c))) (round_up (li_dsize c) (li_align d)) (li_align d) (li_empties d) (li_empties c) in
    let adv := if nua then li_dsize d else li_size d in
    mkli (Nat.max (li_size c) (o + adv)) (o + adv) (Nat.max (li_align c) (li_align d)) false
         (li_empties c ++ shift o (li_empties d)).

Definition finish (nm : tname) (c : linfo) : linfo :=
  let sz := round_up (Nat.max (li_size c) (li_dsize c)) (li_align c) in
  let sz := if Nat.eqb sz 0 then 1 else sz in
  mkli sz (li_dsize c) (li_align c) (li_empty c) (if li_empty c then (nm, 0) :: li_empties c else li_empties c).

Definition li_init : linfo := mkli 0 0 1 true [].

Fixpoint layout (t : ty) : linfo :=
  match t with
  | Scalar w => mkli w w w false []
  | Arr w n => mkli (w * n) (w * n) w false []
  | Struct nm _ fs =>
      let fix go (fs : list (bool * ty)) (acc : linfo) : linfo :=
        match fs with
        | [] => acc
        | (nua, ft) :: fs' => go fs' (place acc nua (layout ft))
        end in
      finish nm (go fs li_init)
  end.

Definition sizeof (t : ty) : nat := li_size (layout t).
Definition is_empty (t : ty) : bool := li_empty (layout t).
(* the storage a type costs: nothing when it is an empty class *)
Definition storage (t : ty) : nat := if is_empty t then 0 else sizeof t.

Fixpoint triv_copyable (t : ty) : bool :=
  match t with
  | Scalar _ | Arr _ _ => true
  | Struct _ triv fs =>
      let fix all (fs : list (bool * ty)) : bool :=
        match fs with [] => true | (_, ft) :: fs' => triv_copyable ft && all fs' end in
      triv && all fs
  end.

(* ---- the library's classes (attribute configuration) ---------------------------------------------- *)
Definition pat_code (pat : list (option Z)) : list Z := map (fun p => match p with Some v => v | None => (-1)%Z end) pat.
Definition ndyn (pat : list (option Z)) : nat := length (filter (fun p => match p with None => true | Some _ => false end) pat).
Definition tcode (t : ity) : Z := match t with I8 => 0 | U8 => 1 | I16 => 2 | U16 => 3 | I32 => 4 | U32 => 5 | I64 => 6 | U64 => 7 end%Z.
Definition width (t : ity) : nat := match t with I8 | U8 => 1 | I16 | U16 => 2 | I32 | U32 => 4 | I64 | U64 => 8 end.

(* possibly_empty_array<I, n>:  T vals[n]{}  /  nothing for n = 0 *)
Definition c_pea (t : ity) (n : nat) : ty :=
  Struct (1, [tcode t; Z.of_nat n]) true (match n with O => [] | _ => [(false, Arr (width t) n)] end).
(* maybe_static_array<I, size_t, dynamic_extent, Values...>: [[nua]] possibly_empty_array<I, #dynamic> m_dyn_vals *)
Definition c_msa (t : ity) (pat : list (option Z)) : ty :=
  Struct (2, tcode t :: pat_code pat) true [(true, c_pea t (ndyn pat))].
(* extents<I, Extents...>: [[nua]] vals_t m_vals *)
Definition c_extents (t : ity) (pat : list (option Z)) : ty :=
  Struct (3, tcode t :: pat_code pat) true [(true, c_msa t pat)].
(* layout_left / layout_right ::mapping<E>: [[nua]] extents_type __extents *)
Definition c_left (t : ity) (pat : list (option Z)) : ty := Struct (4, tcode t :: pat_code pat) true [(true, c_extents t pat)].
Definition c_right (t : ity) (pat : list (option Z)) : ty := Struct (5, tcode t :: pat_code pat) true [(true, c_extents t pat)].
(* __compressed_pair<T1, T2> (attribute form): [[nua]] T1; [[nua]] T2.  The name is derived from the members' names. *)
Definition ty_name (x : ty) : list Z :=
  match x with Scalar w => [100; Z.of_nat w]%Z | Arr w n => [101; Z.of_nat w; Z.of_nat n]%Z | Struct nm _ _ => (Z.of_nat (fst nm) :: Z.of_nat (length (snd nm)) :: snd nm)%Z end.
Definition c_pair (a b : ty) : ty := Struct (6, ty_name a ++ ty_name b) true [(true, a); (true, b)].
(* layout_stride::mapping<E>: [[nua]] __compressed_pair<extents_type, possibly_empty_array<I, rank>> *)
Definition c_stride (t : ity) (pat : list (option Z)) : ty :=
  Struct (7, tcode t :: pat_code pat) true [(true, c_pair (c_extents t pat) (c_pea t (length pat)))].
(* layout_left_padded<pv>::mapping<E> / right: two unmarked members
     maybe_static_array<I, size_t, dynamic_extent, S> padded_stride;  extents_type exts;
   S = 0 for rank <= 1; otherwise the static padded stride when both pv and the padded extent are static,
   else dynamic.  `sdyn` says whether the padded stride is a run-time value. *)
Definition c_padded (right : bool) (t : ity) (pat : list (option Z)) (pv : option Z) (spad : option Z) : ty :=
  Struct ((if right then 9 else 8), tcode t :: (match pv with Some v => v | None => (-1)%Z end) :: pat_code pat) true
         [(false, c_msa t [spad]); (false, c_extents t pat)].
(* accessors: default_accessor<T> is an empty class; a stateful accessor holds one scalar *)
Definition c_default_accessor (el : Z) : ty := Struct (10, [el]) true [].
Definition c_state_accessor (w : nat) : ty := Struct (11, [Z.of_nat w]) true [(false, Scalar w)].
(* mdspan: __compressed_pair<data_handle_type, __compressed_pair<mapping_type, accessor_type>> __members{} *)
Definition c_mdspan (handle mapping accessor : ty) : ty :=
  Struct (12, ty_name handle ++ ty_name mapping ++ ty_name accessor) true [(false, c_pair handle (c_pair mapping accessor))].

(* the mapping class of each layout: 0 left, 1 right, 2 stride, 3 left_padded<pv>, 4 right_padded<pv> *)
Definition c_mapping (lay : nat) (t : ity) (pat : list (option Z)) (pv : option Z) : ty :=
  match lay with
  | 0 => c_left t pat
  | 1 => c_right t pat
  | 2 => c_stride t pat
  | 3 => c_padded false t pat pv (static_padded_stride (length pat) pv (hd None pat))
  | _ => c_padded true t pat pv (static_padded_stride (length pat) pv (last pat None))
  end.
(* accessor kinds of the correspondence check: 0 default_accessor, 1 stateful (int), 2 stateful (char), 3 empty user accessor *)
Definition c_accessor (k : nat) : ty :=
  match k with 0 => c_default_accessor 0 | 1 => c_state_accessor 4 | 2 => c_state_accessor 1 | _ => Struct (13, []) true [] end.
