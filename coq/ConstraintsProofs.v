(* ConstraintsProofs.v — C16: the decision functions transcribed from the headers agree with the rules of
   the specification, and the semantic reading of "implicit": an implicit conversion has no run-time
   precondition and preserves every value. *)
From Coq Require Import ZArith List Bool Lia.
From MdspanVerif Require Import MachInt ListAux Layouts LayoutSpec LayoutProofs LayoutTheorems FlagProofs Extents ExtentsProofs Convert ConvertProofs Constraints.
Import ListNotations.
Local Open Scope Z_scope.

(* ---- extents: the rules as propositions ---- *)
(* equal rank, and equal static extents wherever both are static *)
Fixpoint compat_spec (s d : pattern) : Prop :=
  match s, d with
  | [], [] => True
  | a :: s', b :: d' => (match a, b with Some x, Some y => x = y | _, _ => True end) /\ compat_spec s' d'
  | _, _ => False
  end.
(* a dynamic extent becomes static *)
Fixpoint dyn_static_spec (s d : pattern) : Prop :=
  match s, d with
  | a :: s', b :: d' => (a = None /\ b <> None) \/ dyn_static_spec s' d'
  | _, _ => False
  end.

Lemma compat_iff s : forall d, compatible_pat s d = true <-> compat_spec s d.
Proof.
  unfold compatible_pat. induction s as [|a s IH]; intros [|b d]; cbn [length combine forallb compat_spec Nat.eqb andb]; try tauto;
    try (split; [discriminate|tauto]).
  specialize (IH d). rewrite andb_true_iff in *. cbn [Nat.eqb] in *.
  destruct a as [x|], b as [y|]; rewrite ?andb_true_iff, ?Z.eqb_eq; cbn [andb]; intuition.
Qed.
Lemma dyn_static_iff s : forall d, dyn_to_static s d = true <-> dyn_static_spec s d.
Proof.
  unfold dyn_to_static. induction s as [|a s IH]; intros [|b d]; cbn [combine existsb dyn_static_spec]; try (split; [discriminate|tauto]).
  rewrite orb_true_iff, IH. cbn [fst snd]. destruct a as [x|], b as [y|]; cbn [is_dyn negb andb]; intuition; try discriminate; try congruence; left; split; [reflexivity|discriminate].
Qed.

(* extents conversion needs equal rank and compatible static extents, and is explicit when a dynamic extent
   becomes static or the index range narrows *)
Theorem ext_rules s d : ext_same s d = false ->
  (ext_constructible s d = true <-> compat_spec (x_pat s) (x_pat d)) /\
  (ext_explicit s d = true <-> dyn_static_spec (x_pat s) (x_pat d) \/ imax (x_t d) < imax (x_t s)) /\
  (ext_convertible true s d = true <-> ext_constructible s d = true /\ ext_explicit s d = false).
Proof.
  intros Hs. unfold ext_constructible, ext_convertible, ext_explicit, ext_compatible. rewrite Hs. cbn [orb negb].
  split; [apply compat_iff|]. split.
  - rewrite orb_true_iff, dyn_static_iff, Z.ltb_lt. tauto.
  - rewrite andb_true_iff, negb_true_iff. tauto.
Qed.

(* ---- the semantic content of "implicit" for extents ---- *)
Definition pat_rep (t : ity) (pat : pattern) : Prop :=
  Forall (fun p => match p with Some v => 0 <= v <= imax t | None => True end) pat.

Lemma imax_pos t : 1 <= imax t. Proof. destruct t; cbn; lia. Qed.
Lemma imin_nonpos t : imin t <= 0. Proof. destruct t; cbn; lia. Qed.

(* every value of the source type satisfies the precondition of the conversion: nothing can go wrong *)
Theorem ext_implicit_total ts tt : imax ts <= imax tt -> forall spat tpat dv,
  compatible_pat spat tpat = true -> dyn_to_static spat tpat = false -> pat_rep ts spat ->
  Forall (fun v => 0 <= v <= imax ts) dv ->
  conv_pre tt tpat (fill ts spat dv).
Proof.
  intros Hmax. induction spat as [|a spat IH]; intros [|b tpat] dv Hc Hd Hr Hv; rewrite compat_iff in Hc; cbn [compat_spec] in Hc;
    try contradiction; [exact I|].
  - destruct Hc as [Hab Hc]. rewrite <- compat_iff in Hc.
    unfold dyn_to_static in Hd. cbn [combine existsb fst snd] in Hd. apply orb_false_iff in Hd. destruct Hd as [Hd1 Hd].
    inversion Hr as [|? ? Ha Hr']; subst.
    pose proof (imin_nonpos tt) as Hmin.
    destruct a as [x|]; cbn [fill conv_pre].
    + rewrite wrap_small by lia. split; [unfold in_range; apply andb_true_iff; rewrite !Z.leb_le; lia|]. split.
      * destruct b as [y|]; auto.
      * apply IH; auto.
    + destruct b as [y|]; [cbn in Hd1; discriminate|].
      destruct dv as [|v dv].
      * split; [unfold in_range; apply andb_true_iff; rewrite !Z.leb_le; pose proof (imax_pos tt); lia|]. split; [exact I|apply IH; auto].
      * inversion Hv as [|? ? Hv0 Hv']; subst. split; [unfold in_range; apply andb_true_iff; rewrite !Z.leb_le; lia|]. split; [exact I|apply IH; auto].
Qed.

(* conversely: where a dynamic extent becomes static there is a value of the source type that violates
   the precondition — the conversion is rightly explicit *)
Theorem dyn_to_static_partial ts tt : forall spat tpat,
  compatible_pat spat tpat = true -> dyn_to_static spat tpat = true ->
  exists dv, length dv = ndyn spat /\ Forall (fun v => 0 <= v <= imax ts) dv /\ ~ conv_pre tt tpat (fill ts spat dv).
Proof.
  induction spat as [|a spat IH]; intros [|b tpat] Hc Hd; try discriminate.
  rewrite compat_iff in Hc. cbn [compat_spec] in Hc. destruct Hc as [Hab Hc]. rewrite <- compat_iff in Hc.
  unfold dyn_to_static in Hd. cbn [combine existsb fst snd] in Hd. apply orb_true_iff in Hd.
  pose proof (imax_pos ts) as Hp.
  destruct a as [x|].
  - destruct Hd as [Hd|Hd]; [cbn in Hd; discriminate|].
    destruct (IH tpat Hc Hd) as (dv & Hl & Hv & Hn). exists dv. unfold ndyn in *. cbn [filter is_dyn]. split; [exact Hl|]. split; [exact Hv|].
    cbn [fill conv_pre]. tauto.
  - destruct b as [y|].
    + (* the offending position: pick a value different from the static extent *)
      exists ((if y =? 0 then 1 else 0) :: repeat 0 (ndyn spat)). unfold ndyn. cbn [filter is_dyn length]. rewrite repeat_length. split; [reflexivity|]. split.
      * constructor; [destruct (y =? 0); lia|]. apply Forall_forall. intros v Hv. apply repeat_spec in Hv. subst. lia.
      * cbn [fill conv_pre]. intros (_ & Hy & _). destruct (Z.eqb_spec y 0); lia.
    + destruct Hd as [Hd|Hd]; [cbn in Hd; discriminate|].
      destruct (IH tpat Hc Hd) as (dv & Hl & Hv & Hn). exists (0 :: dv). unfold ndyn in *. cbn [filter is_dyn length]. split; [lia|]. split; [constructor; [lia|exact Hv]|].
      cbn [fill conv_pre]. tauto.
Qed.

(* ---- mappings ---- *)
(* layout_left <-> layout_right conversion exists only for rank <= 1 *)
Theorem left_right_only_rank_le_1 c s d e :
  (m_lay s = LR /\ m_lay d = LL) \/ (m_lay s = LL /\ m_lay d = LR) ->
  map_ctor c s d = Some e -> (length (x_pat (m_ext d)) <= 1)%nat /\ ext_constructible (m_ext s) (m_ext d) = true.
Proof.
  unfold map_ctor. intros [[-> ->]|[-> ->]];
    destruct (ext_constructible (m_ext s) (m_ext d)); cbn [andb]; try discriminate;
    destruct (Nat.leb_spec (length (x_pat (m_ext d))) 1); try discriminate; auto.
Qed.
Theorem left_right_exists_rank_le_1 c s d :
  (m_lay s = LR /\ m_lay d = LL) \/ (m_lay s = LL /\ m_lay d = LR) ->
  (length (x_pat (m_ext d)) <= 1)%nat -> ext_constructible (m_ext s) (m_ext d) = true ->
  map_ctor c s d = Some (negb (ext_convertible c (m_ext s) (m_ext d))).
Proof.
  unfold map_ctor. intros [[-> ->]|[-> ->]] Hr ->; cbn [andb]; apply Nat.leb_le in Hr; rewrite Hr; reflexivity.
Qed.
(* layout_stride -> layout_left / layout_right is explicit exactly for rank > 0 *)
Theorem stride_to_left_right_explicit c s d e : m_lay s = LS -> (m_lay d = LL \/ m_lay d = LR) ->
  map_ctor c s d = Some e -> e = (0 <? length (x_pat (m_ext d)))%nat.
Proof.
  unfold map_ctor. intros -> [-> | ->]; destruct (ext_constructible (m_ext s) (m_ext d)); intros H; try discriminate; injection H as <-; reflexivity.
Qed.
(* same-layout conversions follow the extents *)
Theorem same_layout_follows_extents c s d : (m_lay s = LL /\ m_lay d = LL) \/ (m_lay s = LR /\ m_lay d = LR) \/ (m_lay s = LS /\ m_lay d = LS) ->
  map_same s d = false ->
  map_constructible c s d = ext_constructible (m_ext s) (m_ext d) /\
  map_convertible c s d = ext_convertible c (m_ext s) (m_ext d).
Proof.
  intros H Hs. unfold map_constructible, map_convertible, map_ctor. rewrite Hs. cbn [orb].
  assert (Himp : ext_convertible c (m_ext s) (m_ext d) = true -> ext_constructible (m_ext s) (m_ext d) = true).
  { unfold ext_convertible, ext_constructible. destruct (ext_same (m_ext s) (m_ext d)); cbn [orb]; auto. rewrite andb_true_iff. tauto. }
  assert (H17 : c = false -> ext_convertible c (m_ext s) (m_ext d) = ext_constructible (m_ext s) (m_ext d)).
  { intros ->. unfold ext_convertible, ext_constructible. cbn [negb orb]. rewrite andb_true_r. reflexivity. }
  destruct H as [[-> ->]|[[-> ->]|[-> ->]]];
    destruct (ext_constructible (m_ext s) (m_ext d)) eqn:Ec; (split; [reflexivity|]);
    destruct (ext_convertible c (m_ext s) (m_ext d)) eqn:Ev; cbn [negb]; try reflexivity;
    try (specialize (Himp eq_refl); discriminate);
    destruct c; cbn [negb orb]; try reflexivity; specialize (H17 eq_refl); congruence.
Qed.

(* an implicit layout_left -> layout_left (right -> right) conversion is total and value preserving:
   for every valid mapping value of the source type the converting constructor yields the same mapping,
   valid in the target's index type *)
Theorem left_implicit_total ts tt spat tpat dv (right : bool) :
  let es := fill ts spat dv in
  let m := if right then MRight es else MLeft es in
  ext_compatible (mkE ts spat) (mkE tt tpat) = true -> ext_explicit (mkE ts spat) (mkE tt tpat) = false ->
  pat_rep ts spat -> Forall (fun v => 0 <= v <= imax ts) dv -> valid ts m ->
  conv_mapping ts m (mkmt tt tpat (if right then KRight else KLeft) None) = Ok m /\ valid tt m.
Proof.
  cbn zeta. intros Hc He Hr Hv Hval. unfold ext_compatible, ext_explicit in *. cbn [x_t x_pat] in *.
  apply orb_false_iff in He. destruct He as [Hd Hm]. apply Z.ltb_ge in Hm.
  pose proof (ext_implicit_total ts tt Hm spat tpat dv Hc Hd Hr Hv) as Hpre.
  assert (Hvt : valid tt (if right then MRight (fill ts spat dv) else MLeft (fill ts spat dv))).
  { destruct right; cbn [valid] in *; destruct Hval as [Hf Hp]; (split; [eapply Forall_impl; [|exact Hf]; cbn; intros; lia|lia]). }
  split; [|exact Hvt].
  destruct right.
  - apply (conv_correct ts (MRight (fill ts spat dv)) (mkmt tt tpat KRight None) (MRight (fill ts spat dv))); auto; exact I.
  - apply (conv_correct ts (MLeft (fill ts spat dv)) (mkmt tt tpat KLeft None) (MLeft (fill ts spat dv))); auto; exact I.
Qed.

(* ---- accessors and mdspan ---- *)
(* default_accessor<T> converts from default_accessor<U> iff U( * )[] converts to T( * )[] *)
Theorem default_accessor_rule u t :
  acc_convertible (ADefault u) (ADefault t) = true <->
  el_base u = el_base t /\ (el_const u = true -> el_const t = true).
Proof.
  unfold acc_convertible, acc_same, elt_eqb, arrptr_convertible. rewrite orb_true_iff, !andb_true_iff, Nat.eqb_eq, orb_true_iff, negb_true_iff.
  destruct (el_const u), (el_const t); cbn [Bool.eqb]; intuition; try discriminate.
Qed.

Lemma mds_same_parts a b : mds_same a b = true -> map_same (md_map a) (md_map b) = true /\ acc_same (md_acc a) (md_acc b) = true.
Proof. unfold mds_same. apply andb_true_iff. Qed.

(* an mdspan converts iff its mapping and accessor do, and implicitly iff both do implicitly *)
Theorem mdspan_rule c s d :
  (mds_constructible c s d = true <-> map_constructible c (md_map s) (md_map d) = true /\ acc_convertible (md_acc s) (md_acc d) = true) /\
  (mds_convertible true s d = true <-> map_convertible true (md_map s) (md_map d) = true /\ acc_convertible (md_acc s) (md_acc d) = true).
Proof.
  assert (Hsame : forall c, mds_same s d = true -> map_constructible c (md_map s) (md_map d) = true /\ map_convertible c (md_map s) (md_map d) = true /\ acc_convertible (md_acc s) (md_acc d) = true).
  { intros c' H. apply mds_same_parts in H. destruct H as [Hm Ha]. unfold map_constructible, map_convertible, acc_convertible. rewrite Hm, Ha. auto. }
  assert (Hcv : forall c', map_convertible c' (md_map s) (md_map d) = true -> map_constructible c' (md_map s) (md_map d) = true).
  { intros c'. unfold map_convertible, map_constructible. destruct (map_same (md_map s) (md_map d)); cbn [orb]; auto. destruct (map_ctor c' (md_map s) (md_map d)); auto. }
  split.
  - unfold mds_constructible. destruct (mds_same s d) eqn:E; cbn [orb].
    + destruct (Hsame c eq_refl) as (H1 & _ & H3). tauto.
    + rewrite andb_true_iff. tauto.
  - unfold mds_convertible, mds_constructible, mds_explicit. destruct (mds_same s d) eqn:E; cbn [orb negb].
    + destruct (Hsame true eq_refl) as (_ & H2 & H3). tauto.
    + rewrite !andb_true_iff, negb_true_iff, orb_false_iff, !negb_false_iff. specialize (Hcv true). tauto.
Qed.

(* ---- index and extent arguments: convertible and nothrow-constructible, count = rank() or rank_dynamic() ---- *)
Theorem pack_rules e args : args <> [] ->
  (ext_from_pack e args = true <->
   Forall (fun a => arg_valid a = true) args /\ (length args = length (x_pat e) \/ length args = rankd (x_pat e))).
Proof.
  intros Hne. unfold ext_from_pack, count_ok. destruct args as [|a args]; [congruence|].
  rewrite andb_true_iff, forallb_forall, orb_true_iff, !Nat.eqb_eq, Forall_forall. tauto.
Qed.
Theorem call_rules p args :
  call_ok p args = true <-> length args = length p /\ Forall (fun a => arg_valid a = true) args.
Proof. unfold call_ok. rewrite andb_true_iff, Nat.eqb_eq, forallb_forall, Forall_forall. tauto. Qed.
Theorem mdspan_pack_rules m args :
  mds_from_pack m args = true <->
  Forall (fun a => arg_valid a = true) args /\
  (length args = length (x_pat (m_ext (md_map m))) \/ length args = rankd (x_pat (m_ext (md_map m)))) /\
  map_from_extents (m_lay (md_map m)) = true /\ acc_default_constructible (md_acc m) = true.
Proof.
  unfold mds_from_pack, count_ok. rewrite !andb_true_iff, forallb_forall, orb_true_iff, !Nat.eqb_eq, Forall_forall. tauto.
Qed.
(* a class whose conversion may throw, a class whose conversion is explicit, and a type without conversion, are never accepted *)
Theorem invalid_args_rejected e a args1 args2 : (a = AClassThrow \/ a = AClassExplicit \/ a = ANone) -> ext_from_pack e (args1 ++ a :: args2) = false.
Proof.
  intros Ha. unfold ext_from_pack. destruct (args1 ++ a :: args2) eqn:E; [destruct args1; discriminate|]. rewrite <- E.
  apply andb_false_iff. left. rewrite forallb_app. cbn [forallb]. destruct Ha as [-> | [-> | ->]]; cbn [arg_valid andb]; apply andb_false_r.
Qed.

(* ---- widening the index type keeps a mapping valid; the implicit same-layout conversions, all three ---- *)
Lemma valid_widen ts tt m : imax ts <= imax tt -> valid ts m -> valid tt m.
Proof.
  intros Hm. destruct m as [es|es|es ss|es ps|es ps]; cbn [valid]; unfold admissible.
  - intros [Hf Hp]. split; [eapply Forall_impl; [|exact Hf]; cbn; intros; lia|lia].
  - intros [Hf Hp]. split; [eapply Forall_impl; [|exact Hf]; cbn; intros; lia|lia].
  - intros (Hl & He & Hs & Hc & Hsp). repeat split; auto; try lia.
    + eapply Forall_impl; [|exact He]; cbn; intros; lia.
    + eapply Forall_impl; [|exact Hs]; cbn; intros; lia.
  - intros [[Hf Hp] Hq]. split; [split; [eapply Forall_impl; [|exact Hf]; cbn; intros; lia|lia]|].
    intros H2. destruct (Hq H2). split; lia.
  - intros [[Hf Hp] Hq]. split; [split; [eapply Forall_impl; [|exact Hf]; cbn; intros; lia|lia]|].
    intros H2. destruct (Hq H2). split; lia.
Qed.

Definition same_kind_target (m : mapping) : option lkind :=
  match m with MLeft _ => Some KLeft | MRight _ => Some KRight | MStride _ _ => Some KStride | _ => None end.

(* an implicit layout_left -> layout_left, layout_right -> layout_right or layout_stride -> layout_stride conversion
   yields, for every valid value of the source type, the same mapping, valid in the target's index type *)
Theorem same_kind_implicit_total ts tt spat tpat dv m k :
  same_kind_target m = Some k -> exts m = fill ts spat dv ->
  ext_compatible (mkE ts spat) (mkE tt tpat) = true -> ext_explicit (mkE ts spat) (mkE tt tpat) = false ->
  pat_rep ts spat -> Forall (fun v => 0 <= v <= imax ts) dv -> valid ts m ->
  conv_mapping ts m (mkmt tt tpat k None) = Ok m /\ valid tt m.
Proof.
  intros Hk He Hc Hx Hr Hv Hval. unfold ext_compatible, ext_explicit in *. cbn [x_t x_pat] in *.
  apply orb_false_iff in Hx. destruct Hx as [Hd Hm]. apply Z.ltb_ge in Hm.
  pose proof (ext_implicit_total ts tt Hm spat tpat dv Hc Hd Hr Hv) as Hpre. rewrite <- He in Hpre.
  pose proof (valid_widen ts tt m Hm Hval) as Hvt. split; [|exact Hvt].
  destruct m as [es|es|es ss|es ps|es ps]; cbn [same_kind_target] in Hk; try discriminate; injection Hk as <-;
    apply (conv_correct ts _ (mkmt tt tpat _ None) _); auto; exact I.
Qed.

(* ---- every valid mapping over a non-empty index space is, with its own strides, a valid layout_stride mapping;
        hence the conversion to layout_stride is total there ---- *)
Lemma span1_le_imax t m : valid t m -> has_zero (exts m) = false -> span1 (dims m) <= imax t.
Proof.
  intros Hv Hz. pose proof (valid_exts_nonneg t m Hv) as Hnn.
  pose proof (has_zero_inbe_exists _ Hnn Hz) as Hin0.
  destruct m as [es|es|es ss|es ps|es ps]; unfold dims; cbn [exts spec_strides valid] in *.
  - pose proof (prodl_span_left es Hnn) as E. rewrite Hz in E. rewrite <- E. destruct Hv as [_ Hb]. pose proof (prodl_le_prod1 es Hnn). lia.
  - pose proof (prodl_span_right es Hnn) as E. rewrite Hz in E. rewrite <- E. destruct Hv as [_ Hb]. pose proof (prodl_le_prod1 es Hnn). lia.
  - destruct Hv as (Hl & He & Hs & Hc & Hsp). rewrite (max1_id_pos es) in Hsp by (apply has_zero_false; auto). exact Hsp.
  - destruct (span_padded_l t es ps (valid_pad_l t es ps Hv)) as (sp & _ & _ & _ & H). destruct (H Hz) as [Hle ->].
    destruct (lpad_prodl_bound t es ps _ (valid_pad_l t es ps Hv) Hin0) as [_ Hb]. unfold dims in Hle. cbn [exts spec_strides] in Hle. lia.
  - destruct (span_padded_r t es ps (valid_pad_r t es ps Hv)) as (sp & _ & _ & _ & H). destruct (H Hz) as [Hle ->].
    destruct (rpad_prodl_bound t es ps _ (valid_pad_r t es ps Hv) Hin0) as [_ Hb]. unfold dims in Hle. cbn [exts spec_strides] in Hle. lia.
Qed.

Theorem valid_as_stride t m : valid t m -> has_zero (exts m) = false -> valid t (MStride (exts m) (spec_strides m)).
Proof.
  intros Hv Hz. pose proof (valid_exts_nonneg t m Hv) as Hnn.
  pose proof (has_zero_inbe_exists _ Hnn Hz) as Hin0.
  destruct (dims_chainable t m _ Hv Hin0) as (Hch & Hap & _ & Hlen).
  pose proof (strides_nonneg_in t m Hv) as Hss. pose proof (valid_exts_in t m Hv) as Hes.
  cbn [valid]. split; [exact Hlen|]. split; [exact Hes|]. split.
  - (* strides are positive: every dimension of a non-empty space has a positive stride *)
    unfold allpos, dims in Hap. unfold nonneg_in in Hss.
    assert (G : forall es ss, length ss = length es -> Forall (fun d => 1 <= fst d /\ 0 < snd d) (combine es ss) ->
                Forall (fun x => 0 <= x <= imax t) ss -> Forall (fun s => 0 < s <= imax t) ss).
    { induction es as [|e es IH]; intros [|s ss] Hl Hc Hr; cbn [length combine] in *; try discriminate; [constructor|].
      inversion Hc as [|? ? [_ Hs] Hc']; subst. inversion Hr as [|? ? Hs2 Hr']; subst. cbn [snd] in Hs. constructor; [lia|]. apply (IH ss); auto. }
    apply (G (exts m) (spec_strides m) Hlen Hap Hss).
  - split; [intros _; exact Hch|].
    rewrite (max1_id_pos (exts m)) by (apply has_zero_false; auto). apply (span1_le_imax t m Hv Hz).
Qed.

Theorem to_stride_total ts tt tpat m : valid ts m -> has_zero (exts m) = false -> imax ts <= imax tt ->
  conv_pre tt tpat (exts m) ->
  conv_mapping ts m (mkmt tt tpat KStride None) = Ok (MStride (exts m) (spec_strides m)) /\
  valid tt (MStride (exts m) (spec_strides m)).
Proof.
  intros Hv Hz Hm Hpre. pose proof (valid_widen ts tt _ Hm (valid_as_stride ts m Hv Hz)) as Hvt. split; [|exact Hvt].
  apply (conv_correct ts m (mkmt tt tpat KStride None) (MStride (exts m) (spec_strides m))); auto; try reflexivity;
    try (destruct m; reflexivity); try exact I.
Qed.
