#!/bin/bash
# Runs kokkos/mdspan's own test suite (the 565-test baseline) on /repo's current tree with the
# verification guard OFF (the guard macro is simply not defined).  Builds in a scratch directory
# outside /repo and /verif and removes it afterwards.
set -u
B=${VERIF_SCRATCH:-$HOME/scratch-baseline-$$}
rm -rf "$B"; mkdir -p "$B"
trap 'rm -rf "$B"' EXIT
cmake -G Ninja -S /repo -B "$B" -DMDSPAN_ENABLE_TESTS=ON -DMDSPAN_USE_SYSTEM_GTEST=ON \
      -DGTest_DIR=/root/miniconda/lib/cmake/GTest \
      -DCMAKE_BUILD_TYPE=RelWithDebInfo -DCMAKE_CXX_FLAGS=-Wno-error > "$B/configure.log" 2>&1 || { tail -30 "$B/configure.log"; exit 2; }
cmake --build "$B" -j16 > "$B/build.log" 2>&1 || { tail -60 "$B/build.log"; exit 2; }
ctest --test-dir "$B" -j8 --timeout 900 --output-junit "$B/junit.xml" > "$B/ctest.log" 2>&1
rc=$?
tail -5 "$B/ctest.log"
python3 - "$B/junit.xml" <<'PY'
import sys, xml.etree.ElementTree as ET
r = ET.parse(sys.argv[1]).getroot()
tot = int(r.get("tests", 0)); fail = int(r.get("failures", 0))
print("ctest entries=%d failures=%d" % (tot, fail))
PY
exit $rc
