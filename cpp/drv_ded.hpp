// drv_ded.hpp — family G (C17): canonical descriptors of deduced types, member types, noexcept flags.
#pragma once
#include "drv_cst.hpp"

namespace drv {

template <class T> struct tnum { static constexpr int v = -9; };
template <> struct tnum<signed char> { static constexpr int v = 0; };
template <> struct tnum<unsigned char> { static constexpr int v = 1; };
template <> struct tnum<short> { static constexpr int v = 2; };
template <> struct tnum<unsigned short> { static constexpr int v = 3; };
template <> struct tnum<int> { static constexpr int v = 4; };
template <> struct tnum<unsigned int> { static constexpr int v = 5; };
template <> struct tnum<long> { static constexpr int v = 6; };
template <> struct tnum<unsigned long> { static constexpr int v = 7; };

template <class T> struct bnum { static constexpr int v = -9; };
template <> struct bnum<int> { static constexpr int v = 0; };
template <> struct bnum<double> { static constexpr int v = 1; };
template <class T> void put_elt(std::vector<i128> &o) { o.push_back(bnum<std::remove_cv_t<T>>::v); o.push_back(std::is_const<T>::value); }

template <class E> struct desc_ext { static void put(std::vector<i128> &o) { o.push_back(-9); } };
template <class I, size_t... X> struct desc_ext<Kokkos::extents<I, X...>> {
  static void put(std::vector<i128> &o) {
    o.push_back(tnum<I>::v); o.push_back((i128)sizeof...(X));
    const size_t xs[sizeof...(X) + 1] = {X..., 0};
    for (size_t k = 0; k < sizeof...(X); ++k) o.push_back(xs[k] == Kokkos::dynamic_extent ? (i128)-1 : (i128)xs[k]);
  }
};
template <class L> struct desc_lay { static void put(std::vector<i128> &o) { o.push_back(-9); o.push_back(-9); } };
template <> struct desc_lay<Kokkos::layout_left> { static void put(std::vector<i128> &o) { o.push_back(0); o.push_back(-1); } };
template <> struct desc_lay<Kokkos::layout_right> { static void put(std::vector<i128> &o) { o.push_back(1); o.push_back(-1); } };
template <> struct desc_lay<Kokkos::layout_stride> { static void put(std::vector<i128> &o) { o.push_back(2); o.push_back(-1); } };
template <size_t P> struct desc_lay<Kokkos::Experimental::layout_left_padded<P>> {
  static void put(std::vector<i128> &o) { o.push_back(3); o.push_back(P == Kokkos::dynamic_extent ? (i128)-1 : (i128)P); } };
template <size_t P> struct desc_lay<Kokkos::Experimental::layout_right_padded<P>> {
  static void put(std::vector<i128> &o) { o.push_back(4); o.push_back(P == Kokkos::dynamic_extent ? (i128)-1 : (i128)P); } };
template <class A> struct desc_acc { static void put(std::vector<i128> &o) { o.push_back(-9); } };
template <class T> struct desc_acc<Kokkos::default_accessor<T>> { static void put(std::vector<i128> &o) { o.push_back(0); put_elt<T>(o); o.push_back(0); } };
template <class T> struct desc_acc<throw_acc<T>> { static void put(std::vector<i128> &o) { o.push_back(1); put_elt<T>(o); o.push_back(2); } };
template <class T> struct desc_acc<value_acc<T>> { static void put(std::vector<i128> &o) { o.push_back(1); put_elt<T>(o); o.push_back(3); } };
template <class T, int Id> struct desc_acc<user_acc<T, Id>> { static void put(std::vector<i128> &o) { o.push_back(1); put_elt<T>(o); o.push_back(Id); } };

template <class T> struct describe { static void put(std::vector<i128> &o) { o.push_back(-9); } };
template <class I, size_t... X> struct describe<Kokkos::extents<I, X...>> {
  static void put(std::vector<i128> &o) { o.push_back(0); desc_ext<Kokkos::extents<I, X...>>::put(o); } };
template <class T, class E, class L, class A> struct describe<Kokkos::mdspan<T, E, L, A>> {
  static void put(std::vector<i128> &o) { o.push_back(2); put_elt<T>(o); desc_lay<L>::put(o); desc_ext<E>::put(o); desc_acc<A>::put(o); } };
// mappings: identified through their nested typedefs
template <class M> void describe_mapping(std::vector<i128> &o) {
  o.push_back(1); desc_lay<typename M::layout_type>::put(o); desc_ext<typename M::extents_type>::put(o);
  o.push_back(std::is_same<M, typename M::layout_type::template mapping<typename M::extents_type>>::value ? 0 : -9);   // really that layout's mapping
}

inline void g_print(long caseno, const std::vector<i128> &r) { Out o; o.field("r", Out::list(r)); std::printf("G %ld %s\n", caseno, o.s.c_str()); }
template <class... B> void g_printv(long caseno, B... b) { g_print(caseno, std::vector<i128>{static_cast<i128>(b)...}); }
template <class T> void g_desc(long caseno) { std::vector<i128> r; describe<std::remove_cv_t<std::remove_reference_t<T>>>::put(r); g_print(caseno, r); }
template <class M> void g_desc_map(long caseno) { std::vector<i128> r; describe_mapping<std::remove_cv_t<std::remove_reference_t<M>>>(r); if (r.back() == 0) r.pop_back(); g_print(caseno, r); }

template <class E> void g_members_ext(long caseno) {
  g_printv(caseno, tnum<typename E::index_type>::v, tnum<typename E::size_type>::v, tnum<typename E::rank_type>::v);
}
template <class M, class E, class L> void g_members_map(long caseno) {
  g_printv(caseno, tnum<typename M::index_type>::v, tnum<typename M::size_type>::v, tnum<typename M::rank_type>::v,
                   std::is_same<typename M::extents_type, E>::value, std::is_same<typename M::layout_type, L>::value);
}
template <class MD, class T, class E, class L, class A> void g_members_mds(long caseno) {
  g_printv(caseno, tnum<typename MD::index_type>::v, tnum<typename MD::size_type>::v, tnum<typename MD::rank_type>::v,
                   std::is_same<typename MD::extents_type, E>::value, std::is_same<typename MD::layout_type, L>::value,
                   std::is_same<typename MD::accessor_type, A>::value, std::is_same<typename MD::mapping_type, typename L::template mapping<E>>::value,
                   std::is_same<typename MD::element_type, T>::value, std::is_same<typename MD::value_type, std::remove_cv_t<T>>::value,
                   std::is_same<typename MD::data_handle_type, typename A::data_handle_type>::value, std::is_same<typename MD::reference, typename A::reference>::value);
}

template <class ARR, class T, class E, class L> void g_members_arr(long caseno) {
  using C = typename ARR::container_type;
  g_printv(caseno, tnum<typename ARR::index_type>::v, tnum<typename ARR::size_type>::v, tnum<typename ARR::rank_type>::v,
                   std::is_same<typename ARR::extents_type, E>::value, std::is_same<typename ARR::layout_type, L>::value,
                   std::is_same<typename ARR::mdspan_type, Kokkos::mdspan<T, E, L>>::value, std::is_same<typename ARR::mapping_type, typename L::template mapping<E>>::value,
                   std::is_same<typename ARR::element_type, T>::value, std::is_same<typename ARR::value_type, std::remove_cv_t<T>>::value,
                   std::is_same<typename ARR::pointer, typename C::pointer>::value && std::is_same<typename ARR::const_mdspan_type, Kokkos::mdspan<const T, E, L>>::value,
                   std::is_same<typename ARR::reference, typename C::reference>::value);
}

// noexcept tables -------------------------------------------------------------------------------------
template <class E> void g_noexcept_ext(long caseno) {
  using I = typename E::index_type; const E e{}; (void)e;
  g_printv(caseno, noexcept(E::rank()), noexcept(E::rank_dynamic()), noexcept(E::static_extent(0)), noexcept(e.extent(0)), noexcept(e == e), noexcept(e != e),
                   std::is_nothrow_default_constructible<E>::value, std::is_nothrow_copy_constructible<E>::value,
                   std::is_nothrow_constructible<E, std::array<I, E::rank()>>::value, std::is_nothrow_constructible<E, const std::array<I, E::rank_dynamic()> &>::value);
}
template <class M> constexpr bool ne_stride(std::true_type) { return noexcept(std::declval<const M &>().stride(0)); }
template <class M> constexpr bool ne_stride(std::false_type) { return true; }   // stride() needs rank() > 0
template <class M, size_t... K> void g_noexcept_map_impl(long caseno, std::index_sequence<K...>) {
  using I = typename M::index_type; using E = typename M::extents_type;
  const M &m = *static_cast<const M *>(nullptr); (void)m;   // unevaluated operands only
  g_printv(caseno, noexcept(m.extents()), noexcept(m.required_span_size()), noexcept(m(((void)K, I(0))...)), noexcept(M::is_always_unique()), noexcept(M::is_always_exhaustive()),
                   noexcept(M::is_always_strided()), noexcept(m.is_unique()), noexcept(m.is_exhaustive()), noexcept(m.is_strided()), ne_stride<M>(std::integral_constant<bool, (M::extents_type::rank() > 0)>{}), noexcept(m == m),
                   std::is_nothrow_copy_constructible<M>::value, std::is_nothrow_copy_assignable<M>::value, (int)sizeof(E) > 0);
}
template <class M> void g_noexcept_map(long caseno) { g_noexcept_map_impl<M>(caseno, std::make_index_sequence<M::extents_type::rank()>{}); }
// construction / conversion of the standard (C++23) layouts
template <class M, class S> void g_noexcept_conv(long caseno) {
  g_printv(caseno, std::is_constructible<M, const S &>::value ? (int)std::is_nothrow_constructible<M, const S &>::value : 1);
}
template <class M> void g_noexcept_ctor(long caseno) {
  using E = typename M::extents_type;
  g_printv(caseno, std::is_default_constructible<M>::value ? (int)std::is_nothrow_default_constructible<M>::value : 1,
                   std::is_constructible<M, const E &>::value ? (int)std::is_nothrow_constructible<M, const E &>::value : 1);
}
template <class MD> void g_noexcept_mds(long caseno) {
  MD &a = *static_cast<MD *>(nullptr); const MD &c = a; (void)c;
  g_printv(caseno, noexcept(c.size()), noexcept(c.empty()), noexcept(c.extent(0)), noexcept(MD::rank()), noexcept(MD::rank_dynamic()), noexcept(MD::static_extent(0)),
                   noexcept(c.extents()), noexcept(c.data_handle()), noexcept(c.mapping()), noexcept(c.accessor()), noexcept(swap(a, a)));
}

} // namespace drv
