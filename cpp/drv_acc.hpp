// drv_acc.hpp — family A (element access, C03) and shared pieces for family P (view operations, C11):
// user accessors (non-pointer data handle, call log, proxy reference), a user layout policy.
#pragma once
#include "drv_ext.hpp"
#include "drv_map.hpp"
#include "drv_conv.hpp"
#include <vector>
#include <array>
#include <sys/mman.h>

namespace drv {

// ---- accessors ------------------------------------------------------------------------------------
template <class T> struct handle_t {
  T *p = nullptr; int tag = 0;
  handle_t() noexcept = default;
  handle_t(T *q, int t) noexcept : p(q), tag(t) {}
  template <class U, class = std::enable_if_t<std::is_convertible<U (*)[], T (*)[]>::value>>
  handle_t(const handle_t<U> &o) noexcept : p(o.p), tag(o.tag) {}
};

struct LogRec { long tag, id; long long off; };
inline std::vector<LogRec> &acc_log() { static std::vector<LogRec> l; return l; }

// stateful accessor with a non-pointer data handle; records every access(handle, offset)
template <class T> struct tag_accessor {
  using offset_policy = tag_accessor; using element_type = T; using reference = T &; using data_handle_type = handle_t<T>;
  int id = 0;
  tag_accessor() noexcept = default;
  explicit tag_accessor(int i) noexcept : id(i) {}
  template <class U, class = std::enable_if_t<std::is_convertible<U (*)[], T (*)[]>::value>>
  tag_accessor(const tag_accessor<U> &o) noexcept : id(o.id) {}
  reference access(data_handle_type h, size_t i) const noexcept { acc_log().push_back({h.tag, id, (long long)i}); return h.p[i]; }
  data_handle_type offset(data_handle_type h, size_t i) const noexcept { return {h.p + i, h.tag}; }
};
template <class T, class U> handle_t<T> conv_handle(handle_t<U> h) { return {h.p, h.tag}; }

// proxy reference
template <class T> struct proxy_ref {
  T *p;
  operator T() const { return *p; }
  const proxy_ref &operator=(T v) const { *p = v; return *this; }
};
template <class T> struct proxy_accessor {
  using offset_policy = proxy_accessor; using element_type = T; using reference = proxy_ref<T>; using data_handle_type = T *;
  reference access(data_handle_type p, size_t i) const noexcept { return {p + i}; }
  data_handle_type offset(data_handle_type p, size_t i) const noexcept { return p + i; }
};

// element identity of whatever access() returned, relative to base
template <class T, class B> long long ident(T &r, const B *base) { return (long long)(reinterpret_cast<const char *>(&r) - reinterpret_cast<const char *>(base)) / (long long)sizeof(B); }
template <class T, class B> long long ident(proxy_ref<T> r, const B *base) { return (long long)(r.p - base); }

// ---- a user-defined layout policy (column major, written independently of layout_left) -----------
struct layout_user {
  template <class Extents> class mapping {
  public:
    using extents_type = Extents; using index_type = typename Extents::index_type; using size_type = typename Extents::size_type;
    using rank_type = typename Extents::rank_type; using layout_type = layout_user;
    constexpr mapping() noexcept = default;
    constexpr mapping(const Extents &e) noexcept : ext_(e) {}
    constexpr const Extents &extents() const noexcept { return ext_; }
    constexpr index_type required_span_size() const noexcept { index_type v = 1; for (rank_type r = 0; r < Extents::rank(); ++r) v *= ext_.extent(r); return v; }
    template <class... I, class = std::enable_if_t<sizeof...(I) == Extents::rank()>>
    constexpr index_type operator()(I... i) const noexcept {
      index_type idx[sizeof...(I) + 1] = {static_cast<index_type>(i)..., 0};
      index_type off = 0, s = 1;
      for (rank_type r = 0; r < Extents::rank(); ++r) { off += idx[r] * s; s *= ext_.extent(r); }
      return off;
    }
    static constexpr bool is_always_unique() noexcept { return true; }
    static constexpr bool is_always_exhaustive() noexcept { return true; }
    static constexpr bool is_always_strided() noexcept { return true; }
    static constexpr bool is_unique() noexcept { return true; }
    static constexpr bool is_exhaustive() noexcept { return true; }
    static constexpr bool is_strided() noexcept { return true; }
    constexpr index_type stride(rank_type k) const noexcept { index_type s = 1; for (rank_type r = 0; r < k; ++r) s *= ext_.extent(r); return s; }
    template <class OE> friend constexpr bool operator==(const mapping &a, const mapping<OE> &b) noexcept { return a.extents() == b.extents(); }
  private:
    Extents ext_{};
  };
};

// ---- the access forms ------------------------------------------------------------------------------
template <class Md, class U, size_t... I>
decltype(auto) f_paren_pack(const Md &m, const std::array<U, sizeof...(I)> &a, std::index_sequence<I...>) {
#if MDSPAN_USE_PAREN_OPERATOR
  return m(a[I]...);
#else
  return m[a];   // unreachable: guarded by the caller
#endif
}
template <class Md, class U, size_t... I>
decltype(auto) f_bracket_pack(const Md &m, const std::array<U, sizeof...(I)> &a, std::index_sequence<I...>) {
#if MDSPAN_USE_BRACKET_OPERATOR
  return m[a[I]...];
#else
  return m[a];
#endif
}

template <class Md, class U, class B>
void access_forms(Out &o, const Md &md, const std::vector<std::vector<i128>> &pts, const B *base) {
  constexpr size_t R = Md::rank();
  std::vector<i128> dir, ppk, par, psp, bpk, bar, bsp, b1, lg;
  for (auto &p : pts) {
    std::array<U, R> a{}; for (size_t k = 0; k < R; ++k) a[k] = elem_of<U>::make(p[k]);
    std::array<typename Md::index_type, R> ai{}; for (size_t k = 0; k < R; ++k) ai[k] = static_cast<typename Md::index_type>(p[k]);
    { auto &&r = md.accessor().access(md.data_handle(), call_map(md.mapping(), ai, std::make_index_sequence<R>{})); dir.push_back(ident(r, base)); }
    size_t l0 = acc_log().size();
#if MDSPAN_USE_PAREN_OPERATOR
    { auto &&r = f_paren_pack(md, a, std::make_index_sequence<R>{}); ppk.push_back(ident(r, base)); }
    { auto &&r = md(a); par.push_back(ident(r, base)); }
#ifdef __cpp_lib_span
    { auto &&r = md(std::span<U, R>(a.data(), R)); psp.push_back(ident(r, base)); }
#endif
#endif
#if MDSPAN_USE_BRACKET_OPERATOR
    { auto &&r = f_bracket_pack(md, a, std::make_index_sequence<R>{}); bpk.push_back(ident(r, base)); }
#else
    if constexpr (R == 1) { auto &&r = md[a[0]]; b1.push_back(ident(r, base)); }
#endif
    { auto &&r = md[a]; bar.push_back(ident(r, base)); }
#ifdef __cpp_lib_span
    { auto &&r = md[std::span<U, R>(a.data(), R)]; bsp.push_back(ident(r, base)); }
#endif
    if (acc_log().size() > l0) lg.push_back(acc_log().back().off);
  }
  o.field("dir", Out::list(dir));
#if MDSPAN_USE_PAREN_OPERATOR
  o.field("ppk", Out::list(ppk)); o.field("par", Out::list(par));
#ifdef __cpp_lib_span
  o.field("psp", Out::list(psp));
#endif
#endif
#if MDSPAN_USE_BRACKET_OPERATOR
  o.field("bpk", Out::list(bpk));
#else
  if (R == 1) o.field("b1", Out::list(b1));
#endif
  o.field("bar", Out::list(bar));
#ifdef __cpp_lib_span
  o.field("bsp", Out::list(bsp));
#endif
  if (!lg.empty()) o.field("lg", Out::list(lg));
}

template <class Md, size_t... I> decltype(auto) md_any(const Md &m, const std::array<typename Md::index_type, sizeof...(I)> &a, std::index_sequence<I...>) {
#if MDSPAN_USE_BRACKET_OPERATOR
  return m[a[I]...];
#else
  return m(a[I]...);
#endif
}

// ACC: 0 default_accessor, 1 tag_accessor (non-pointer handle, logging), 2 proxy_accessor
template <class ET, class M, int ACC> struct ViewOf;
template <class ET, class M> struct ViewOf<ET, M, 0> {
  using A = Kokkos::default_accessor<ET>; using type = Kokkos::mdspan<ET, typename M::extents_type, typename M::layout_type, A>;
  static type make(ET *p, const M &m) { return type(p, m); }
};
template <class ET, class M> struct ViewOf<ET, M, 1> {
  using A = tag_accessor<ET>; using type = Kokkos::mdspan<ET, typename M::extents_type, typename M::layout_type, A>;
  static type make(ET *p, const M &m) { return type(handle_t<ET>{p, 7}, m, A(3)); }
};
template <class ET, class M> struct ViewOf<ET, M, 2> {
  using A = proxy_accessor<ET>; using type = Kokkos::mdspan<ET, typename M::extents_type, typename M::layout_type, A>;
  static type make(ET *p, const M &m) { return type(p, m, A()); }
};

struct Pod { int a; int b; };
template <class T> struct val_of { static T make(int k) { return static_cast<T>(k); } static long long get(const T &v) { return (long long)v; } };
template <> struct val_of<Pod> { static Pod make(int k) { return Pod{k, -k}; } static long long get(const Pod &v) { return v.a; } };

// prog <mapping value tokens> nidx idx...
template <class ET, class M, int LAY, int ACC, class U> void run_acc(long caseno, Toks &tk) {
  using VT = std::remove_const_t<ET>;
  tk.next();
  std::printf("A %ld ", caseno); std::fflush(stdout);
  const M m = read_mapping<M, LAY>(tk);
  auto pts = read_points(m, tk);
  const long long span = (long long)to_i128(m.required_span_size());
  const long long pad = 8;
  std::vector<VT> buf((size_t)(span + 2 * pad), val_of<VT>::make(-1));
  VT *base = buf.data() + pad;
  auto md = ViewOf<ET, M, ACC>::make(base, m);
  Out o;
  access_forms<decltype(md), U>(o, md, pts, base);
  // writes through the view (non-const element types): point k gets the value 100 + k
  if constexpr (!std::is_const<ET>::value) {
    constexpr size_t R = M::extents_type::rank();
    int k = 0;
    for (auto &p : pts) {
      std::array<typename M::index_type, R> a{}; for (size_t q = 0; q < R; ++q) a[q] = static_cast<typename M::index_type>(p[q]);
      md_any(md, a, std::make_index_sequence<R>{}) = val_of<VT>::make(100 + k);
      ++k;
    }
    if (span + 2 * pad <= 96) { std::vector<i128> h; for (auto &c : buf) h.push_back(val_of<VT>::get(c)); o.field("heap", Out::list(h)); }
    // read back through the view
    std::vector<i128> rb;
    for (auto &p : pts) {
      std::array<typename M::index_type, R> a{}; for (size_t q = 0; q < R; ++q) a[q] = static_cast<typename M::index_type>(p[q]);
      VT v = md_any(md, a, std::make_index_sequence<R>{}); rb.push_back(val_of<VT>::get(v));
    }
    o.field("rb", Out::list(rb));
  }
  std::printf("%s\n", o.s.c_str());
}

// prog <mapping value tokens> nidx idx... : element type unsigned char over a lazily committed (MAP_NORESERVE) region,
// spans above 2^31 elements; only element identities are taken (no page is touched except by the one write at the end)
template <class M, int LAY, int ACC, class U> void run_acc_big(long caseno, Toks &tk) {
  using ET = unsigned char;
  tk.next();
  std::printf("A %ld ", caseno); std::fflush(stdout);
  const M m = read_mapping<M, LAY>(tk);
  auto pts = read_points(m, tk);
  const unsigned long long span = (unsigned long long)to_i128(m.required_span_size());
  const size_t pad = 1 << 16;
  const size_t len = (size_t)span + 2 * pad;
  void *mem = mmap(nullptr, len, PROT_READ | PROT_WRITE, MAP_PRIVATE | MAP_ANONYMOUS | MAP_NORESERVE, -1, 0);
  if (mem == MAP_FAILED) { std::printf("skip=1\n"); return; }
  ET *base = static_cast<ET *>(mem) + pad;
  auto md = ViewOf<ET, M, ACC>::make(base, m);
  Out o;
  access_forms<decltype(md), U>(o, md, pts, base);
  if (!pts.empty()) {       // a write through the view at the last point lands in that element
    constexpr size_t R = M::extents_type::rank();
    std::array<typename M::index_type, R> a{}; for (size_t q = 0; q < R; ++q) a[q] = static_cast<typename M::index_type>(pts.back()[q]);
    const long long off = (long long)to_i128(call_map(m, a, std::make_index_sequence<R>{}));
    md_any(md, a, std::make_index_sequence<R>{}) = ET(77);
    o.field("wr", base[off] == ET(77) ? "1" : "0");
  }
  munmap(mem, len);
  std::printf("%s\n", o.s.c_str());
}

} // namespace drv
