// drv_dbg.hpp — family K: layout_stride -> layout_left/right conversion in builds with and without
// NDEBUG; a wrong stride must terminate the program (std::abort) in the former only.
#pragma once
#include "drv_map.hpp"
namespace drv {
// prog <src stride mapping tokens> <tgt type tokens>
template <class S, class T> void run_dbgconv(long caseno, Toks &tk) {
  tk.next();
  std::printf("K %ld ", caseno); std::fflush(stdout);
  const S s = read_mapping<S, 2>(tk);
  const T t(s);
  std::vector<i128> ev; for (size_t k = 0; k < T::extents_type::rank(); ++k) ev.push_back(to_i128(t.extents().extent(k)));
  std::printf("done=1 ext=%s\n", Out::list(ev).c_str());
}
} // namespace drv
