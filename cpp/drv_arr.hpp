// drv_arr.hpp — family R (C12): straight-line programs over mdarrays: the constructors, copy, move,
// assignment, writes through the array and through views; after every operation the state of every
// live array is printed.
#pragma once
#include "drv_acc.hpp"
#include "drv_sub.hpp"
#include <mdspan/mdarray.hpp>
#include <memory_resource>

namespace drv {
namespace KEx = Kokkos::Experimental;

template <class A, size_t... I> decltype(auto) arr_at(A &a, const std::vector<i128> &ix, std::index_sequence<I...>) {
  using T = typename A::index_type;
#if MDSPAN_USE_BRACKET_OPERATOR
  return a[static_cast<T>(ix[I])...];
#else
  return a(static_cast<T>(ix[I])...);
#endif
}

template <class A> void dump_arr(std::vector<i128> &v, A &a) {
  const A &ca = a;
  v.push_back((i128)a.container().size());
  v.push_back(to_i128(a.size()));
  bool ok = true;
  if (a.container().size() > 0) {
    ok = ok && (a.data() == a.container().data()) && (ca.data() == ca.container().data());
    auto mv = a.to_mdspan();
    ok = ok && (mv.data_handle() == a.data()) && (mv.mapping() == a.mapping());
    typename A::const_mdspan_type cmv = ca;            // conversion operator (const)
    typename A::mdspan_type mv2 = a;                    // conversion operator (non-const)
    ok = ok && (cmv.data_handle() == ca.data()) && (cmv.mapping() == a.mapping()) && (mv2.data_handle() == a.data()) && (mv2.mapping() == a.mapping());
    auto cmv2 = ca.to_mdspan();                         // to_mdspan() const
    ok = ok && (cmv2.data_handle() == ca.data()) && (cmv2.mapping() == a.mapping());
    auto mv3 = a.to_mdspan(Kokkos::default_accessor<typename A::element_type>());   // with an accessor argument, non-const and const
    auto cmv3 = ca.to_mdspan(Kokkos::default_accessor<const typename A::element_type>());
    ok = ok && (mv3.data_handle() == a.data()) && (mv3.mapping() == a.mapping()) && (cmv3.data_handle() == ca.data()) && (cmv3.mapping() == a.mapping());
    static_assert(std::is_same<decltype(cmv2), typename A::const_mdspan_type>::value && std::is_same<decltype(mv), typename A::mdspan_type>::value, "to_mdspan types");
    ok = ok && (a.is_unique() == a.mapping().is_unique()) && (a.is_exhaustive() == a.mapping().is_exhaustive()) && (a.is_strided() == a.mapping().is_strided())
            && (A::is_always_unique() == A::mapping_type::is_always_unique()) && (A::is_always_exhaustive() == A::mapping_type::is_always_exhaustive());
  }
  v.push_back(ok ? 1 : 0);
  for (size_t k = 0; k < A::rank(); ++k) v.push_back(to_i128(a.extent(k)));
  v.push_back(-7);                                     // separator
  if (a.container().size() <= 48) for (auto &x : a.container()) v.push_back(x);
  v.push_back(-9);
}
inline void dump_arrs(std::vector<i128> &) {}
template <class A, class... Rest> void dump_arrs(std::vector<i128> &v, A &a, Rest &...rest) { dump_arr(v, a); dump_arrs(v, rest...); }
template <class... As> void dumpA(Out &o, int step, As &...as) {
  std::vector<i128> v; dump_arrs(v, as...);
  o.field(("o" + std::to_string(step)).c_str(), Out::list(v));
}

// containers
template <class C> struct mk_ctr {                   // size-constructible: n elements 1000, 1001, ...
  static C make(size_t n) { C c(n); for (size_t i = 0; i < n; ++i) c[i] = 1000 + (int)i; return c; }
};
template <class T, size_t N> struct mk_ctr<std::array<T, N>> {
  static std::array<T, N> make(size_t) { std::array<T, N> c{}; for (size_t i = 0; i < N; ++i) c[i] = 1000 + (int)i; return c; }
};

} // namespace drv
