// drv_common.hpp — shared pieces of the correspondence drivers: token parsing, canonical printing.
// The drivers read the same case file as the extracted Coq model and print the same result lines.
#pragma once
#include <cassert>
#include <cstdio>
#include <cstdlib>
#include <cstring>
#include <string>
#include <vector>
#include <array>
#include <utility>
#include <type_traits>
#include <iostream>
#include <fstream>
#include <sstream>

namespace drv {

using i128 = __int128;

inline i128 parse_i128(const std::string &s) {
  size_t p = 0; bool neg = false;
  if (s[p] == '-') { neg = true; ++p; }
  i128 v = 0;
  for (; p < s.size(); ++p) v = v * 10 + (s[p] - '0');
  return neg ? -v : v;
}
inline std::string str_i128(i128 v) {
  if (v == 0) return "0";
  bool neg = v < 0; if (neg) v = -v;
  std::string r;
  while (v > 0) { r.insert(r.begin(), char('0' + int(v % 10))); v /= 10; }
  if (neg) r.insert(r.begin(), '-');
  return r;
}
template <class T> inline i128 to_i128(T v) { return static_cast<i128>(v); }

struct Toks {
  std::vector<std::string> a; size_t p = 0;
  const std::string &next() { return a.at(p++); }
  i128 next_i() { return parse_i128(next()); }
  long next_l() { return (long)parse_i128(next()); }
  bool done() const { return p >= a.size(); }
};

struct Out {
  std::string s;
  void field(const char *label, const std::string &v) { if (!s.empty()) s += ' '; s += label; s += '='; s += v; }
  template <class It> static std::string list(It b, It e) {
    if (b == e) return "-";
    std::string r; bool first = true;
    for (; b != e; ++b) { if (!first) r += ','; first = false; r += str_i128(to_i128(*b)); }
    return r;
  }
  static std::string list(const std::vector<i128> &v) { return list(v.begin(), v.end()); }
};

// read the case file, call f(caseno, family, toks) per line
template <class F> int for_each_case(const char *path, F f) {
  std::ifstream in(path);
  if (!in) { std::fprintf(stderr, "cannot open %s\n", path); return 2; }
  std::string line; long caseno = 0;
  setvbuf(stdout, nullptr, _IOLBF, 0);
  while (std::getline(in, line)) {
    std::istringstream ls(line); Toks tk; std::string w;
    while (ls >> w) tk.a.push_back(w);
    if (tk.a.empty()) continue;
    std::string fam = tk.next();
    f(caseno, fam, tk);
    ++caseno;
  }
  return 0;
}

} // namespace drv
