// drv_pool.hpp — family P (C11): straight-line programs of mdspan construction / copy / move / assign /
// swap / conversion; after every operation the three components of every live view are printed.
#pragma once
#include "drv_acc.hpp"

namespace drv {

// a user layout whose mapping is an EMPTY class: row-major over all-static extents, nothing stored (under the [[no_unique_address]] emulation the
// library's own mappings are never empty - they hold an extents object - so only such a mapping reaches the pair specialisations for an empty first member)
struct layout_static_right {
  template <class E> class mapping {
    static_assert(E::rank_dynamic() == 0, "all-static extents only");
  public:
    using extents_type = E; using index_type = typename E::index_type; using size_type = typename E::size_type;
    using rank_type = typename E::rank_type; using layout_type = layout_static_right;
    constexpr mapping() noexcept = default;
    constexpr mapping(const E &) noexcept {}
    template <class OE, class = std::enable_if_t<std::is_constructible<E, OE>::value>> constexpr mapping(const mapping<OE> &) noexcept {}
    const E &extents() const noexcept { static const E e{}; return e; }
    template <class... I, class = std::enable_if_t<sizeof...(I) == E::rank()>> constexpr index_type operator()(I... i) const noexcept {
      const index_type ix[sizeof...(I) + 1] = {static_cast<index_type>(i)..., 0};
      index_type off = 0; for (size_t r = 0; r < E::rank(); ++r) off = off * static_cast<index_type>(E::static_extent(r)) + ix[r];
      return off;
    }
    constexpr index_type required_span_size() const noexcept { index_type p = 1; for (size_t r = 0; r < E::rank(); ++r) p *= static_cast<index_type>(E::static_extent(r)); return p; }
    static constexpr bool is_always_unique() noexcept { return true; }
    static constexpr bool is_always_exhaustive() noexcept { return true; }
    static constexpr bool is_always_strided() noexcept { return true; }
    static constexpr bool is_unique() noexcept { return true; }
    static constexpr bool is_exhaustive() noexcept { return true; }
    static constexpr bool is_strided() noexcept { return true; }
    constexpr index_type stride(rank_type r) const noexcept { index_type p = 1; for (size_t q = E::rank(); q > r + 1; --q) p *= static_cast<index_type>(E::static_extent(q - 1)); return p; }
    template <class OE> friend bool operator==(const mapping &a, const mapping<OE> &b) noexcept { return a.extents() == b.extents(); }
  };
};

template <class T> long long handle_off(T *p, const int *base) { return (long long)(p - base); }
template <class T> long long handle_off(handle_t<T> h, const int *base) { return (long long)(h.p - base); }
template <class A> long long acc_id(const A &) { return 0; }
template <class T> long long acc_id(const tag_accessor<T> &a) { return a.id; }
template <class T> long long handle_tag(T *) { return 0; }
template <class T> long long handle_tag(handle_t<T> h) { return h.tag; }

template <class Md> void dump_one(std::vector<i128> &v, const Md &m, const int *base) {
  constexpr size_t R = Md::rank();
  v.push_back(handle_off(m.data_handle(), base));
  v.push_back(handle_tag(m.data_handle()));
  v.push_back(acc_id(m.accessor()));
  for (size_t k = 0; k < R; ++k) v.push_back(to_i128(m.extent(k)));
  std::vector<i128> st; strides_of(m.mapping(), st, R, std::integral_constant<bool, (R > 0)>{});
  for (auto s : st) v.push_back(s);
}
inline void dump_all(std::vector<i128> &, const int *) {}
template <class Md, class... Rest> void dump_all(std::vector<i128> &v, const int *base, const Md &m, const Rest &...rest) {
  dump_one(v, m, base); dump_all(v, base, rest...);
}
template <class... Mds> void dump(Out &o, int step, const int *base, long checksum, const Mds &...ms) {
  std::vector<i128> v; dump_all(v, base, ms...);
  v.push_back(checksum);
  o.field(("o" + std::to_string(step)).c_str(), Out::list(v));
}
inline long buf_checksum(const std::vector<int> &b) { unsigned long s = 0; for (size_t i = 0; i < b.size(); ++i) s = (s * 31u + (unsigned long)(long)b[i]) % 1000003u; return (long)s; }

template <class A> struct make_acc { static A make(int) { return A(); } };
template <class T> struct make_acc<tag_accessor<T>> { static tag_accessor<T> make(int h) { return tag_accessor<T>(10 + h); } };
template <class H> struct make_handle;
template <class T> struct make_handle<T *> { static T *make(int *base, int h) { return base + h; } };
template <class T> struct make_handle<handle_t<T>> { static handle_t<T> make(int *base, int h) { return handle_t<T>{base + h, 20 + h}; } };

} // namespace drv
