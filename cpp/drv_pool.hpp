// drv_pool.hpp — family P (C11): straight-line programs of mdspan construction / copy / move / assign /
// swap / conversion; after every operation the three components of every live view are printed.
#pragma once
#include "drv_acc.hpp"

namespace drv {

template <class T> long long handle_off(T *p, const int *base) { return (long long)(p - base); }
template <class T> long long handle_off(handle_t<T> h, const int *base) { return (long long)(h.p - base); }
template <class A> long long acc_id(const A &) { return 0; }
template <class T> long long acc_id(const tag_accessor<T> &a) { return a.id; }
template <class T> long long handle_tag(T *) { return 0; }
template <class T> long long handle_tag(handle_t<T> h) { return h.tag; }

template <class Md> void dump_one(std::vector<i128> &v, const Md &m, const int *base) {
  constexpr size_t R = Md::rank();
  v.push_back(handle_off(m.data_handle(), base));
  v.push_back(handle_tag(m.data_handle()));
  v.push_back(acc_id(m.accessor()));
  for (size_t k = 0; k < R; ++k) v.push_back(to_i128(m.extent(k)));
  std::vector<i128> st; strides_of(m.mapping(), st, R, std::integral_constant<bool, (R > 0)>{});
  for (auto s : st) v.push_back(s);
}
inline void dump_all(std::vector<i128> &, const int *) {}
template <class Md, class... Rest> void dump_all(std::vector<i128> &v, const int *base, const Md &m, const Rest &...rest) {
  dump_one(v, m, base); dump_all(v, base, rest...);
}
template <class... Mds> void dump(Out &o, int step, const int *base, long checksum, const Mds &...ms) {
  std::vector<i128> v; dump_all(v, base, ms...);
  v.push_back(checksum);
  o.field(("o" + std::to_string(step)).c_str(), Out::list(v));
}
inline long buf_checksum(const std::vector<int> &b) { unsigned long s = 0; for (size_t i = 0; i < b.size(); ++i) s = (s * 31u + (unsigned long)(long)b[i]) % 1000003u; return (long)s; }

template <class A> struct make_acc { static A make(int) { return A(); } };
template <class T> struct make_acc<tag_accessor<T>> { static tag_accessor<T> make(int h) { return tag_accessor<T>(10 + h); } };
template <class H> struct make_handle;
template <class T> struct make_handle<T *> { static T *make(int *base, int h) { return base + h; } };
template <class T> struct make_handle<handle_t<T>> { static handle_t<T> make(int *base, int h) { return handle_t<T>{base + h, 20 + h}; } };

} // namespace drv
