// drv_sub.hpp — family S: submdspan over a real buffer; chains of slicings; prints per level the
// result type facts (rank, static extents, layout), extents, strides, mapping offset, and for every
// element its address and the address of the source element it must alias.
#pragma once
#include "drv_map.hpp"
#include <tuple>
#include <memory>

namespace drv {

// ---- slice readers: each consumes its tokens; compile-time components are in the type -----------
// 0 u v : run-time index of integral type U
template <class U> U rd_idx(Toks &tk) { tk.next(); tk.next(); return static_cast<U>(tk.next_i()); }
// 1 v : integral_constant index
template <class IC> IC rd_ic(Toks &tk) { tk.next(); tk.next(); return IC{}; }
// 2|3 b e : pair / tuple of run-time values
template <class P> P rd_pair(Toks &tk) { tk.next(); auto b = tk.next_i(); auto e = tk.next_i();
  using A = std::tuple_element_t<0, P>; using B = std::tuple_element_t<1, P>; return P{static_cast<A>(b), static_cast<B>(e)}; }
// 4 b e : pair of integral_constants
template <class P> P rd_pairc(Toks &tk) { tk.next(); tk.next(); tk.next(); return P{}; }
// 5 : full_extent
inline Kokkos::full_extent_t rd_full(Toks &tk) { tk.next(); return Kokkos::full_extent; }
// 6 mask o x s : strided_slice; constant components are default-constructed integral_constants
template <class C> C comp_of(i128 v, std::true_type) { (void)v; return C{}; }
template <class C> C comp_of(i128 v, std::false_type) { return static_cast<C>(v); }
template <class T> struct is_ic : std::false_type {};
template <class T, T v> struct is_ic<std::integral_constant<T, v>> : std::true_type {};
template <class O, class X, class St> Kokkos::strided_slice<O, X, St> rd_strided(Toks &tk) {
  tk.next(); tk.next(); auto o = tk.next_i(); auto x = tk.next_i(); auto s = tk.next_i();
  return Kokkos::strided_slice<O, X, St>{comp_of<O>(o, is_ic<O>{}), comp_of<X>(x, is_ic<X>{}), comp_of<St>(s, is_ic<St>{})};
}

// ---- slice introspection (driver-side, independent of the library's detail:: helpers) ------------
template <class S> struct sl_traits { static constexpr bool index = true;            // integral / integral_constant
  static i128 first(const S &s) { return to_i128(static_cast<long long>(s)); } static i128 step(const S &) { return 1; } };
template <> struct sl_traits<Kokkos::full_extent_t> { static constexpr bool index = false;
  static i128 first(const Kokkos::full_extent_t &) { return 0; } static i128 step(const Kokkos::full_extent_t &) { return 1; } };
template <class A, class B> struct sl_traits<std::pair<A, B>> { static constexpr bool index = false;
  static i128 first(const std::pair<A, B> &s) { return to_i128(static_cast<long long>(s.first)); } static i128 step(const std::pair<A, B> &) { return 1; } };
template <class A, class B> struct sl_traits<std::tuple<A, B>> { static constexpr bool index = false;
  static i128 first(const std::tuple<A, B> &s) { return to_i128(static_cast<long long>(std::get<0>(s))); } static i128 step(const std::tuple<A, B> &) { return 1; } };
template <class O, class X, class St> struct sl_traits<Kokkos::strided_slice<O, X, St>> { static constexpr bool index = false;
  static i128 first(const Kokkos::strided_slice<O, X, St> &s) { return to_i128(static_cast<long long>(s.offset)); }
  static i128 step(const Kokkos::strided_slice<O, X, St> &s) { return to_i128(static_cast<long long>(s.stride)); } };

template <class Md, size_t... I>
decltype(auto) md_at(const Md &m, const std::vector<i128> &ix, std::index_sequence<I...>) {
  using T = typename Md::index_type;
#if MDSPAN_USE_BRACKET_OPERATOR
  return m[static_cast<T>(ix[I])...];
#else
  return m(static_cast<T>(ix[I])...);
#endif
}

template <class L> int layout_code() {
  if (std::is_same<L, Kokkos::layout_left>::value) return 0;
  if (std::is_same<L, Kokkos::layout_right>::value) return 1;
  if (std::is_same<L, Kokkos::layout_stride>::value) return 2;
  return 9;
}

// an accessor over interleaved storage: element i lives at p[2*i] and offset(p, i) is p + 2*i (its own offset_policy).  A sub-view whose
// handle is formed by plain pointer arithmetic instead of accessor.offset() starts at the wrong place.  Reported addresses are divided by
// the accessor's scale (a non-multiple is reported as an impossible negative number), so the model needs no notion of it.
template <class T> struct scaled_acc {
  using offset_policy = scaled_acc; using element_type = T; using reference = T &; using data_handle_type = T *;
  constexpr scaled_acc() noexcept = default;
  constexpr reference access(data_handle_type p, size_t i) const noexcept { return p[2 * i]; }
  constexpr data_handle_type offset(data_handle_type p, size_t i) const noexcept { return p + 2 * i; }
};
template <class A> struct acc_scale { static constexpr long value = 1; };
template <class T> struct acc_scale<scaled_acc<T>> { static constexpr long value = 2; };
template <class A> i128 norm_addr(i128 d) { const i128 sc = acc_scale<A>::value; return (d % sc == 0) ? d / sc : -(i128(1) << 40) - d; }

// report one level: `prev` is the view that was sliced, `sub` the result, `slices` the specifiers
template <class Prev, class Sub, class... Sl>
void report_level(Out &o, const int *base, int level, const Prev &prev, const Sub &sub, i128 map_offset, const Sl &...slices) {
  constexpr size_t R = Sub::rank(); constexpr size_t PR = Prev::rank();
  std::string L = std::to_string(level);
  std::vector<i128> ev, sv, st;
  for (size_t k = 0; k < R; ++k) {
    ev.push_back(to_i128(sub.extent(k)));
    sv.push_back(Sub::static_extent(k) == Kokkos::dynamic_extent ? -1 : to_i128(Sub::static_extent(k)));
  }
  strides_of(sub.mapping(), st, R, std::integral_constant<bool, (R > 0)>{});
  o.field(("rk" + L).c_str(), str_i128((i128)R));
  o.field(("ly" + L).c_str(), str_i128(layout_code<typename Sub::layout_type>()));
  o.field(("se" + L).c_str(), Out::list(sv));
  o.field(("e" + L).c_str(), Out::list(ev));
  o.field(("st" + L).c_str(), Out::list(st));
  o.field(("of" + L).c_str(), str_i128(map_offset));
  o.field(("sp" + L).c_str(), str_i128(to_i128(sub.mapping().required_span_size())));
  o.field(("h" + L).c_str(), str_i128(norm_addr<typename Sub::accessor_type>((i128)(sub.data_handle() - base))));
  // index type, element type and the accessor's offset_policy are carried over: reported in the field "ac" (0 = all three hold)
  // element addresses: of the result, and of the source element each must alias
  bool idxs[] = {sl_traits<Sl>::index..., false};
  i128 firsts[] = {sl_traits<Sl>::first(slices)..., 0};
  i128 steps[] = {sl_traits<Sl>::step(slices)..., 0};
  i128 n = 1; for (size_t k = 0; k < R; ++k) n *= to_i128(sub.extent(k));
  std::vector<i128> ad, sa;
  if (n > 0 && n <= 400) {
    std::vector<i128> j(R, 0);
    for (;;) {
      ad.push_back(norm_addr<typename Sub::accessor_type>((i128)(&md_at(sub, j, std::make_index_sequence<R>{}) - base)));
      std::vector<i128> pi(PR, 0); size_t m = 0;
      for (size_t k = 0; k < PR; ++k) { if (idxs[k]) pi[k] = firsts[k]; else { pi[k] = firsts[k] + j[m] * steps[k]; ++m; } }
      sa.push_back(norm_addr<typename Prev::accessor_type>((i128)(&md_at(prev, pi, std::make_index_sequence<PR>{}) - base)));
      long k = (long)R - 1;
      for (; k >= 0; --k) { if (j[k] + 1 < to_i128(sub.extent(k))) { j[k]++; break; } j[k] = 0; }
      if (k < 0) break;
    }
  }
  o.field(("ad" + L).c_str(), Out::list(ad));
  o.field(("sa" + L).c_str(), Out::list(sa));
  // the accessor of the result is the source accessor's offset_policy (here: default_accessor<int> in both cases)
  { int ac = 0;
    if (!std::is_same<typename Sub::accessor_type, typename Prev::accessor_type::offset_policy>::value) ac += 1;
    if (!std::is_same<typename Sub::index_type, typename Prev::index_type>::value) ac += 2;
    if (!std::is_same<typename Sub::element_type, typename Prev::element_type>::value) ac += 4;
    o.field(("ac" + L).c_str(), std::to_string(ac)); }
}

// source context: a buffer of required_span_size() ints (at least 1) and an mdspan over it.  Shapes near
// the representability boundary get no storage: only addresses are formed, nothing is dereferenced.
// an accessor whose offset_policy is NOT itself (like an over-aligned accessor: a sub-view loses the guarantee)
template <class T> struct aligned_acc {
  using offset_policy = Kokkos::default_accessor<T>; using element_type = T; using reference = T &; using data_handle_type = T *;
  constexpr aligned_acc() noexcept = default;
  constexpr operator Kokkos::default_accessor<T>() const noexcept { return {}; }   // submdspan builds offset_policy(src.accessor())
  constexpr reference access(data_handle_type p, size_t i) const noexcept { return p[i]; }
  constexpr typename offset_policy::data_handle_type offset(data_handle_type p, size_t i) const noexcept { return p + i; }
};
template <class M, int ACC = 0> struct SubCtx {
  using E = typename M::extents_type; using LT = typename M::layout_type;
  using A = std::conditional_t<ACC == 0, Kokkos::default_accessor<int>, std::conditional_t<ACC == 1, aligned_acc<int>, scaled_acc<int>>>;
  std::vector<int> buf;
  Kokkos::mdspan<int, E, LT, A> md;
  static size_t alloc_size(const M &m) { i128 sp = to_i128(m.required_span_size()); return (sp > 0 && sp <= (i128(1) << 20)) ? (size_t)sp : 1; }
  explicit SubCtx(const M &m) : buf(alloc_size(m) * (size_t)acc_scale<A>::value, 0), md(buf.data(), m, A()) {}
};

} // namespace drv
