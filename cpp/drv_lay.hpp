// drv_lay.hpp — family L (C18): sizeof / is_empty / is_trivially_copyable of extents, the mapping and an
// mdspan for one instantiation; compared with the object-layout model.
#pragma once
#include "drv_common.hpp"
#include <mdspan/mdspan.hpp>
#include <mdspan/mdarray.hpp>

namespace drv {

// accessors of the layout check: pointer data handle; empty, or one scalar of state
template <class T> struct acc_int {
  using offset_policy = acc_int; using element_type = T; using reference = T &; using data_handle_type = T *;
  int s;
  constexpr reference access(data_handle_type p, size_t i) const noexcept { return p[i]; }
  constexpr data_handle_type offset(data_handle_type p, size_t i) const noexcept { return p + i; }
};
template <class T> struct acc_char {
  using offset_policy = acc_char; using element_type = T; using reference = T &; using data_handle_type = T *;
  char c;
  constexpr reference access(data_handle_type p, size_t i) const noexcept { return p[i]; }
  constexpr data_handle_type offset(data_handle_type p, size_t i) const noexcept { return p + i; }
};
template <class T> struct acc_empty {
  using offset_policy = acc_empty; using element_type = T; using reference = T &; using data_handle_type = T *;
  constexpr reference access(data_handle_type p, size_t i) const noexcept { return p[i]; }
  constexpr data_handle_type offset(data_handle_type p, size_t i) const noexcept { return p + i; }
};

template <class E, class M, class A> void run_layout(long caseno) {
  using MD = Kokkos::mdspan<double, E, typename M::layout_type, A>;
  static_assert(std::is_same<typename MD::mapping_type, M>::value, "mapping type");
  Out o;
  std::vector<i128> sz{(i128)sizeof(E), (i128)std::is_empty<E>::value, (i128)sizeof(M), (i128)std::is_empty<M>::value,
                       (i128)sizeof(MD), (i128)std::is_empty<MD>::value};
  std::vector<i128> tc{(i128)std::is_trivially_copyable<E>::value, (i128)std::is_trivially_copyable<M>::value,
                       (i128)std::is_trivially_copyable<A>::value, (i128)std::is_trivially_copyable<MD>::value};
  o.field("sz", Out::list(sz)); o.field("tc", Out::list(tc));
  std::printf("L %ld %s\n", caseno, o.s.c_str());
}

} // namespace drv
