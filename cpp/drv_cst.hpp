// drv_cst.hpp — family Q (C16): compile-time queries — is_constructible / is_convertible / invocability
// of the constructors, conversions and call operators for generated type pairs and argument lists.
#pragma once
#include "drv_common.hpp"
#include <mdspan/mdspan.hpp>
#include <mdspan/mdarray.hpp>
#include <array>
#if defined(__cpp_lib_span)
#include <span>
#endif

namespace drv {

// index-argument classes
struct cls_nt {       // converts to every integer type, noexcept
  template <class T, class = std::enable_if_t<std::is_integral<T>::value>> constexpr operator T() const noexcept { return T(1); }
};
struct cls_throw {    // converts to every integer type, may throw
  template <class T, class = std::enable_if_t<std::is_integral<T>::value>> operator T() const { return T(1); }
};
struct cls_expl {     // EXPLICIT noexcept conversion to every integer type: index_type is nothrow-constructible from it, but it is not convertible
  template <class T, class = std::enable_if_t<std::is_integral<T>::value>> explicit constexpr operator T() const noexcept { return T(1); }
};
struct cls_none {};

// a user accessor: no default constructor, no converting constructor
template <class T, int Id> struct user_acc {
  using offset_policy = user_acc; using element_type = T; using reference = T &; using data_handle_type = T *;
  explicit constexpr user_acc(int) noexcept {}
  constexpr reference access(data_handle_type p, size_t i) const noexcept { return p[i]; }
  constexpr data_handle_type offset(data_handle_type p, size_t i) const noexcept { return p + i; }
};

// a user accessor whose copy operations may throw (mdspan's observers and swap are noexcept regardless)
template <class T> struct throw_acc {
  using offset_policy = throw_acc; using element_type = T; using reference = T &; using data_handle_type = T *;
  explicit throw_acc(int) {}
  throw_acc(const throw_acc &) {}
  throw_acc &operator=(const throw_acc &) { return *this; }
  reference access(data_handle_type p, size_t i) const noexcept { return p[i]; }
  data_handle_type offset(data_handle_type p, size_t i) const noexcept { return p + i; }
};

// a user accessor whose reference is a prvalue (like linalg's scaled accessor): mdspan::reference must be taken from it
template <class T> struct value_acc {
  using offset_policy = value_acc; using element_type = T; using reference = std::remove_cv_t<T>; using data_handle_type = const T *;
  explicit constexpr value_acc(int) noexcept {}
  constexpr reference access(data_handle_type p, size_t i) const noexcept { return p[i]; }
  constexpr data_handle_type offset(data_handle_type p, size_t i) const noexcept { return p + i; }
};

template <class... Ts> struct voider { using type = void; };
// m[args...] (multidimensional subscript) or m(args...)
template <class, class M, class... Args> struct can_index_impl : std::false_type {};
#if MDSPAN_USE_BRACKET_OPERATOR
template <class M, class... Args>
struct can_index_impl<typename voider<decltype(std::declval<const M &>().operator[](std::declval<Args>()...))>::type, M, Args...> : std::true_type {};   // member-call syntax: g++ would otherwise fall back to the comma operator
#else
template <class M, class... Args>
struct can_index_impl<typename voider<decltype(std::declval<const M &>()(std::declval<Args>()...))>::type, M, Args...> : std::true_type {};
#endif
template <class M, class... Args> using can_index = can_index_impl<void, M, Args...>;
// m[x] with one argument (array / span): operator[] exists in every mode
template <class, class M, class A> struct can_sub1_impl : std::false_type {};
template <class M, class A>
struct can_sub1_impl<typename voider<decltype(std::declval<const M &>()[std::declval<A>()])>::type, M, A> : std::true_type {};
template <class M, class A> using can_sub1 = can_sub1_impl<void, M, A>;
// mapping(args...)
template <class, class M, class... Args> struct can_call_impl : std::false_type {};
template <class M, class... Args>
struct can_call_impl<typename voider<decltype(std::declval<const M &>()(std::declval<Args>()...))>::type, M, Args...> : std::true_type {};
template <class M, class... Args> using can_call = can_call_impl<void, M, Args...>;

inline void q_print(long caseno, std::initializer_list<int> v) {
  std::vector<i128> r; for (int x : v) r.push_back(x);
  Out o; o.field("r", Out::list(r)); std::printf("Q %ld %s\n", caseno, o.s.c_str());
}

template <class D, class S> void q_pair(long caseno) {
  q_print(caseno, {std::is_constructible<D, const S &>::value, std::is_convertible<const S &, D>::value});
}
template <class T, class... Args> void q_ctor(long caseno) { q_print(caseno, {std::is_constructible<T, Args...>::value}); }
template <class E, class A, size_t N> void q_ext_arr(long caseno) {
  using AR = std::array<A, N>;
#if defined(__cpp_lib_span)
  using SP = std::span<A, N>;
  q_print(caseno, {std::is_constructible<E, const AR &>::value, std::is_convertible<const AR &, E>::value,
                   std::is_constructible<E, const SP &>::value, std::is_convertible<const SP &, E>::value});
#else
  q_print(caseno, {std::is_constructible<E, const AR &>::value, std::is_convertible<const AR &, E>::value, -1, -1});
#endif
}
template <class MD, class A, size_t N> void q_mds_arr(long caseno) {
  using H = typename MD::data_handle_type; using AR = std::array<A, N>;
#if defined(__cpp_lib_span)
  q_print(caseno, {std::is_constructible<MD, H, const AR &>::value, std::is_constructible<MD, H, std::span<A, N>>::value});
#else
  q_print(caseno, {std::is_constructible<MD, H, const AR &>::value, -1});
#endif
}
template <class MD> void q_mds_parts(long caseno) {
  using H = typename MD::data_handle_type;
  q_print(caseno, {std::is_constructible<MD, H, const typename MD::extents_type &>::value,
                   std::is_constructible<MD, H, const typename MD::mapping_type &>::value,
                   std::is_constructible<MD, H, const typename MD::mapping_type &, const typename MD::accessor_type &>::value});
}
template <class MD, class... Args> void q_call(long caseno) {
  q_print(caseno, {can_call<typename MD::mapping_type, Args...>::value, can_index<MD, Args...>::value});
}
template <class MD, class A, size_t N> void q_index_arr(long caseno) {
#if defined(__cpp_lib_span)
  q_print(caseno, {can_sub1<MD, const std::array<A, N> &>::value, can_sub1<MD, std::span<A, N>>::value});
#else
  q_print(caseno, {can_sub1<MD, const std::array<A, N> &>::value, -1});
#endif
}

} // namespace drv
