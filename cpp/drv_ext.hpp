// drv_ext.hpp — family X: extents construction paths, conversion, comparison.
#pragma once
#include "drv_common.hpp"
#include <mdspan/mdspan.hpp>
#ifdef __cpp_lib_span
#include <span>
#endif

namespace drv {

// a class type convertible to an index type (nothrow), as allowed for index / extent arguments
template <class T> struct ConvTo {
  T v;
  ConvTo() noexcept : v() {}
  ConvTo(T x) noexcept : v(x) {}
  operator T() const noexcept { return v; }
};
template <class U> struct elem_of { static U make(i128 x) { return static_cast<U>(x); } };
template <class T> struct elem_of<ConvTo<T>> { static ConvTo<T> make(i128 x) { return ConvTo<T>(static_cast<T>(x)); } };

template <class E> void print_ext(long caseno, const E &e) {
  constexpr size_t R = E::rank();
  Out o;
  std::vector<i128> rk{to_i128(E::rank()), to_i128(E::rank_dynamic())}, se, ex;
  for (size_t k = 0; k < R; ++k) {
    se.push_back(E::static_extent(k) == Kokkos::dynamic_extent ? -1 : to_i128(E::static_extent(k)));
    ex.push_back(to_i128(e.extent(k)));
  }
  o.field("rk", Out::list(rk)); o.field("sext", Out::list(se)); o.field("ext", Out::list(ex));
  std::printf("X %ld %s\n", caseno, o.s.c_str());
}

template <class E, class U, size_t... I> E make_pack(const std::array<U, sizeof...(I)> &a, std::index_sequence<I...>) { return E(a[I]...); }

// kind 0: prog 0 t R pat*R path U mode n v*n
template <class E, int PATH, class U, size_t N> void run_ext_ctor(long caseno, Toks &tk) {
  constexpr size_t R = E::rank();
  tk.next(); tk.next(); tk.next(); tk.next(); for (size_t k = 0; k < R; ++k) tk.next();
  tk.next(); tk.next(); tk.next(); long n = tk.next_l();
  if ((size_t)n != N) { std::printf("X %ld arity-mismatch\n", caseno); return; }
  std::array<U, N> a{}; for (size_t k = 0; k < N; ++k) a[k] = elem_of<U>::make(tk.next_i());
  if (PATH == 0) { E e = make_pack<E, U>(a, std::make_index_sequence<N>{}); print_ext(caseno, e); }
  else if (PATH == 1) { E e(a); print_ext(caseno, e); }
  else {
#ifdef __cpp_lib_span
    std::span<U, N> s(a.data(), N); E e(s); print_ext(caseno, e);
#else
    std::printf("X %ld skip\n", caseno);
#endif
  }
}

template <class E> E from_all(Toks &tk) {
  using T = typename E::index_type; constexpr size_t R = E::rank();
  std::array<T, R> a{}; for (size_t k = 0; k < R; ++k) a[k] = static_cast<T>(tk.next_i());
  return E(a);
}
// kind 1: prog 1 ts R pats*R tt patt*R vals*R
template <class ES, class ET> void run_ext_conv(long caseno, Toks &tk) {
  constexpr size_t R = ES::rank();
  tk.next(); tk.next(); tk.next(); tk.next(); for (size_t k = 0; k < R; ++k) tk.next();
  tk.next(); for (size_t k = 0; k < R; ++k) tk.next();
  ES s = from_all<ES>(tk);
  ET t(s);
  print_ext(caseno, t);
}
// kind 2: prog 2 ta Ra pata.. tb Rb patb.. valsa.. valsb..
template <class EA, class EB> void run_ext_cmp(long caseno, Toks &tk) {
  tk.next(); tk.next(); tk.next(); tk.next(); for (size_t k = 0; k < EA::rank(); ++k) tk.next();
  tk.next(); tk.next(); for (size_t k = 0; k < EB::rank(); ++k) tk.next();
  EA a = from_all<EA>(tk); EB b = from_all<EB>(tk);
  std::printf("X %ld eq=%d ne=%d\n", caseno, (a == b) ? 1 : 0, (a != b) ? 1 : 0);
}

// ---- kind 3: views over user layouts ---------------------------------------------------------------------
// every multi-index maps to offset 0 (required_span_size 1): a valid, non-unique mapping whose index space may be larger than any span;
// the six observers answer fixed bits of CODE: is_unique bit 0, is_exhaustive bit 1, is_strided bit 2, is_always_unique bit 3,
// is_always_exhaustive bit 4, is_always_strided bit 5
template <unsigned CODE> struct layout_bits {
  template <class E> class mapping {
  public:
    using extents_type = E; using index_type = typename E::index_type; using size_type = typename E::size_type;
    using rank_type = typename E::rank_type; using layout_type = layout_bits;
    constexpr mapping() noexcept = default;
    constexpr mapping(const E &e) noexcept : e_(e) {}
    constexpr const E &extents() const noexcept { return e_; }
    template <class... I, class = std::enable_if_t<sizeof...(I) == E::rank()>> constexpr index_type operator()(I...) const noexcept { return 0; }
    constexpr index_type required_span_size() const noexcept { return 1; }
    constexpr bool is_unique() const noexcept { return (CODE >> 0) & 1; }
    constexpr bool is_exhaustive() const noexcept { return (CODE >> 1) & 1; }
    constexpr bool is_strided() const noexcept { return (CODE >> 2) & 1; }
    static constexpr bool is_always_unique() noexcept { return (CODE >> 3) & 1; }
    static constexpr bool is_always_exhaustive() noexcept { return (CODE >> 4) & 1; }
    static constexpr bool is_always_strided() noexcept { return (CODE >> 5) & 1; }
    constexpr index_type stride(rank_type) const noexcept { return 0; }
    template <class OE> friend constexpr bool operator==(const mapping &a, const mapping<OE> &b) noexcept { return a.extents() == b.extents(); }
  private:
    E e_{};
  };
};
// layout j answers, for observer k, bit j of k + 1
constexpr unsigned bits_code(unsigned j) { unsigned c = 0; for (unsigned k = 0; k < 6; ++k) if (((k + 1) >> j) & 1) c |= 1u << k; return c; }
template <class E, unsigned J> void view_flags(std::string &f, const E &e) {
  using L = layout_bits<bits_code(J)>;
  int dummy = 0;
  const Kokkos::mdspan<int, E, L> v(&dummy, typename L::template mapping<E>(e));
  f += v.is_unique() ? '1' : '0'; f += v.is_exhaustive() ? '1' : '0'; f += v.is_strided() ? '1' : '0';
  f += v.is_always_unique() ? '1' : '0'; f += v.is_always_exhaustive() ? '1' : '0'; f += v.is_always_strided() ? '1' : '0';
}
// prog 3 t R pat*R vals*R
template <class E> void run_ext_view(long caseno, Toks &tk) {
  constexpr size_t R = E::rank();
  tk.next(); tk.next(); tk.next(); tk.next(); for (size_t k = 0; k < R; ++k) tk.next();
  const E e = from_all<E>(tk);
  using L = layout_bits<0>;
  int dummy = 0;
  const Kokkos::mdspan<int, E, L> v(&dummy, typename L::template mapping<E>(e));
  Out o;
  o.field("sz", str_i128(to_i128(v.size())));
  o.field("emp", v.empty() ? "1" : "0");
  std::vector<i128> ex; for (size_t k = 0; k < R; ++k) ex.push_back(to_i128(v.extent(k)));
  o.field("ext", Out::list(ex));
  std::string f; view_flags<E, 0>(f, e); view_flags<E, 1>(f, e); view_flags<E, 2>(f, e);
  o.field("fw", f);
  std::printf("X %ld %s\n", caseno, o.s.c_str());
}

} // namespace drv
