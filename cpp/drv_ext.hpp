// drv_ext.hpp — family X: extents construction paths, conversion, comparison.
#pragma once
#include "drv_common.hpp"
#include <mdspan/mdspan.hpp>
#ifdef __cpp_lib_span
#include <span>
#endif

namespace drv {

// a class type convertible to an index type (nothrow), as allowed for index / extent arguments
template <class T> struct ConvTo {
  T v;
  ConvTo() noexcept : v() {}
  ConvTo(T x) noexcept : v(x) {}
  operator T() const noexcept { return v; }
};
template <class U> struct elem_of { static U make(i128 x) { return static_cast<U>(x); } };
template <class T> struct elem_of<ConvTo<T>> { static ConvTo<T> make(i128 x) { return ConvTo<T>(static_cast<T>(x)); } };

template <class E> void print_ext(long caseno, const E &e) {
  constexpr size_t R = E::rank();
  Out o;
  std::vector<i128> rk{to_i128(E::rank()), to_i128(E::rank_dynamic())}, se, ex;
  for (size_t k = 0; k < R; ++k) {
    se.push_back(E::static_extent(k) == Kokkos::dynamic_extent ? -1 : to_i128(E::static_extent(k)));
    ex.push_back(to_i128(e.extent(k)));
  }
  o.field("rk", Out::list(rk)); o.field("sext", Out::list(se)); o.field("ext", Out::list(ex));
  std::printf("X %ld %s\n", caseno, o.s.c_str());
}

template <class E, class U, size_t... I> E make_pack(const std::array<U, sizeof...(I)> &a, std::index_sequence<I...>) { return E(a[I]...); }

// kind 0: prog 0 t R pat*R path U mode n v*n
template <class E, int PATH, class U, size_t N> void run_ext_ctor(long caseno, Toks &tk) {
  constexpr size_t R = E::rank();
  tk.next(); tk.next(); tk.next(); tk.next(); for (size_t k = 0; k < R; ++k) tk.next();
  tk.next(); tk.next(); tk.next(); long n = tk.next_l();
  if ((size_t)n != N) { std::printf("X %ld arity-mismatch\n", caseno); return; }
  std::array<U, N> a{}; for (size_t k = 0; k < N; ++k) a[k] = elem_of<U>::make(tk.next_i());
  if (PATH == 0) { E e = make_pack<E, U>(a, std::make_index_sequence<N>{}); print_ext(caseno, e); }
  else if (PATH == 1) { E e(a); print_ext(caseno, e); }
  else {
#ifdef __cpp_lib_span
    std::span<U, N> s(a.data(), N); E e(s); print_ext(caseno, e);
#else
    std::printf("X %ld skip\n", caseno);
#endif
  }
}

template <class E> E from_all(Toks &tk) {
  using T = typename E::index_type; constexpr size_t R = E::rank();
  std::array<T, R> a{}; for (size_t k = 0; k < R; ++k) a[k] = static_cast<T>(tk.next_i());
  return E(a);
}
// kind 1: prog 1 ts R pats*R tt patt*R vals*R
template <class ES, class ET> void run_ext_conv(long caseno, Toks &tk) {
  constexpr size_t R = ES::rank();
  tk.next(); tk.next(); tk.next(); tk.next(); for (size_t k = 0; k < R; ++k) tk.next();
  tk.next(); for (size_t k = 0; k < R; ++k) tk.next();
  ES s = from_all<ES>(tk);
  ET t(s);
  print_ext(caseno, t);
}
// kind 2: prog 2 ta Ra pata.. tb Rb patb.. valsa.. valsb..
template <class EA, class EB> void run_ext_cmp(long caseno, Toks &tk) {
  tk.next(); tk.next(); tk.next(); tk.next(); for (size_t k = 0; k < EA::rank(); ++k) tk.next();
  tk.next(); tk.next(); for (size_t k = 0; k < EB::rank(); ++k) tk.next();
  EA a = from_all<EA>(tk); EB b = from_all<EB>(tk);
  std::printf("X %ld eq=%d ne=%d\n", caseno, (a == b) ? 1 : 0, (a != b) ? 1 : 0);
}

} // namespace drv
