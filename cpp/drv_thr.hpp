// drv_thr.hpp — family T (C19): real threads sharing one const mdspan (and, in the mdarray variant, one
// const mdarray); each thread runs its own list of actions — element writes / reads through the shared
// view, through a private copy, or through sub-views created inside the thread; observer calls; copies.
// Prints the final buffer, one read log per thread, and the number of observer calls whose result
// differed from what the main thread saw before the threads started.
#pragma once
#include "drv_acc.hpp"
#include "drv_sub.hpp"
#include <mdspan/mdarray.hpp>
#include <thread>
#include <atomic>
#include <memory>

namespace drv {

struct Act { int kind; int der; int form; std::vector<i128> idx; long long x; };
// kinds: 0 write, 1 read, 2 observe, 3 copy, 4 create sub-view `der` without accessing it

// nthreads { nact { kind der form nidx idx... x } }
inline std::vector<std::vector<Act>> read_thread_progs(Toks &tk) {
  std::vector<std::vector<Act>> ps((size_t)tk.next_i());
  for (auto &p : ps) {
    p.resize((size_t)tk.next_i());
    for (auto &a : p) {
      a.kind = (int)tk.next_i(); a.der = (int)tk.next_i(); a.form = (int)tk.next_i();
      a.idx.resize((size_t)tk.next_i());
      for (auto &i : a.idx) i = tk.next_i();
      a.x = (long long)tk.next_i();
    }
  }
  return ps;
}

// everything the const observers of a view report
template <class V> std::vector<long long> observe(const V &v) {
  std::vector<long long> o;
  constexpr size_t R = V::rank();
  o.push_back((long long)R); o.push_back((long long)V::rank_dynamic());
  for (size_t r = 0; r < R; ++r) { o.push_back((long long)to_i128(v.extent(r))); o.push_back((long long)to_i128(v.extents().extent(r))); }
  std::vector<i128> st; strides_of(v.mapping(), st, R, std::integral_constant<bool, (R > 0)>{});
  for (auto s : st) o.push_back((long long)s);
  for (size_t r = 0; r < R; ++r) o.push_back((long long)to_i128(v.stride(r)));
  o.push_back((long long)to_i128(v.mapping().required_span_size()));
  o.push_back((long long)v.size()); o.push_back(v.empty());
  o.push_back(v.is_unique()); o.push_back(v.is_exhaustive()); o.push_back(v.is_strided());
  o.push_back(v.mapping().is_unique()); o.push_back(v.mapping().is_exhaustive());
  return o;
}

// the const members of a shared const mdarray
template <class Arr> std::vector<long long> observe_arr(const Arr &a) {
  std::vector<long long> o;
  constexpr size_t R = Arr::rank();
  o.push_back((long long)to_i128(a.size())); o.push_back((long long)a.container().size()); o.push_back(a.data() != nullptr || a.container().size() == 0);
  for (size_t r = 0; r < R; ++r) { o.push_back((long long)to_i128(a.extent(r))); o.push_back((long long)to_i128(a.stride(r))); }
  o.push_back(a.is_unique()); o.push_back(a.is_exhaustive()); o.push_back(a.is_strided());
  o.push_back((long long)to_i128(a.mapping().required_span_size()));
  auto v = a.to_mdspan();
  o.push_back((long long)v.size()); o.push_back(v.data_handle() == a.data());
  if (a.container().size() > 0) o.push_back((long long)a.container()[a.container().size() - 1]);
  return o;
}

template <class V, size_t... I>
decltype(auto) elem_form(const V &v, const Act &a, std::index_sequence<I...> seq) {
  using T = typename V::index_type;
  constexpr size_t R = sizeof...(I);
  std::array<T, R> ar{static_cast<T>(a.idx[I])...};
  switch (a.form) {
  case 1: return v[ar];
#ifdef __cpp_lib_span
  case 2: return v[std::span<const T, R>(ar.data(), R)];
#endif
  default: return md_at(v, a.idx, seq);
  }
}
template <class V> decltype(auto) elem(const V &v, const Act &a) { return elem_form(v, a, std::make_index_sequence<V::rank()>{}); }

// a read through the shared const mdarray (C19_const_mdarray_cell): a(i...) is container()[mapping()(i...)], the same
// cell the view returned by to_mdspan() designates; the container was filled with 5000 + offset
template <class Arr, class M, size_t... I>
bool arr_read_ok(const Arr &arr, const M &m, const Act &a, std::index_sequence<I...> seq) {
  using T = typename M::index_type;
  if (a.idx.size() != sizeof...(I)) return true;
  const long long o = (long long)to_i128(m(static_cast<T>(a.idx[I])...));
  const int &r = md_at(arr, a.idx, seq);
  const auto v = arr.to_mdspan();
  return r == (int)(5000 + o) && &r == arr.container().data() + o && &md_at(v, a.idx, seq) == &r;
}

struct Gate {
  std::atomic<int> ready{0}; std::atomic<bool> go{false};
  void arrive_and_wait() { ready.fetch_add(1); while (!go.load(std::memory_order_acquire)) std::this_thread::yield(); }
};

// xorshift: seeded per thread, decides where to yield / spin
struct Jit { unsigned long long s; unsigned next() { s ^= s << 13; s ^= s >> 7; s ^= s << 17; return (unsigned)(s >> 11); } };

template <class Body> void run_threads(size_t n, long long seed, Body body) {
  Gate g; std::vector<std::thread> th;
  for (size_t t = 0; t < n; ++t)
    th.emplace_back([&, t] { Jit j{(unsigned long long)seed * 2654435761ull + t * 40503ull + 88172645463325252ull}; g.arrive_and_wait(); body((int)t, j); });
  while (g.ready.load() < (int)n) std::this_thread::yield();
  g.go.store(true, std::memory_order_release);
  for (auto &t : th) t.join();
}
inline void jitter(Jit &j) { unsigned r = j.next() % 8; if (r == 0) std::this_thread::yield(); else if (r < 3) for (volatile int k = 0; k < (int)(j.next() % 200); ++k) {} }

} // namespace drv
