// drv_conv.hpp — family V: mapping conversions (source value -> target type), equality, inequality.
#pragma once
#include "drv_map.hpp"

namespace drv {

template <class A, class B, class = void> struct has_eq : std::false_type {};
template <class A, class B>
struct has_eq<A, B, std::void_t<decltype(std::declval<const A &>() == std::declval<const B &>())>> : std::true_type {};
template <class A, class B, class = void> struct has_ne : std::false_type {};
template <class A, class B>
struct has_ne<A, B, std::void_t<decltype(std::declval<const A &>() != std::declval<const B &>())>> : std::true_type {};

template <class A, class B> std::string eq_str(const A &a, const B &b) {
  if constexpr (has_eq<A, B>::value) return (a == b) ? "1" : "0"; else return "-";
}
template <class A, class B> std::string ne_str(const A &a, const B &b) {
  if constexpr (has_ne<A, B>::value) return (a != b) ? "1" : "0"; else return "-";
}

// offsets of a list of multi-indices (or of the whole index space when nidx < 0), for one or two mappings
template <class M> std::vector<i128> all_offsets(const M &m, const std::vector<std::vector<i128>> &pts) {
  using T = typename M::index_type; constexpr size_t R = M::extents_type::rank();
  std::vector<i128> out; std::array<T, R> ix{};
  for (auto &p : pts) { for (size_t k = 0; k < R; ++k) ix[k] = static_cast<T>(p[k]); out.push_back(to_i128(call_map(m, ix, std::make_index_sequence<R>{}))); }
  return out;
}
template <class M> std::vector<std::vector<i128>> read_points(const M &m, Toks &tk) {
  constexpr size_t R = M::extents_type::rank();
  long nidx = tk.next_l();
  std::vector<std::vector<i128>> pts;
  if (nidx < 0) {
    bool empty = false; for (size_t k = 0; k < R; ++k) if (m.extents().extent(k) == 0) empty = true;
    if (empty) return pts;
    std::vector<i128> ix(R, 0);
    for (;;) {
      pts.push_back(ix);
      long k = (long)R - 1;
      for (; k >= 0; --k) { if (ix[k] + 1 < to_i128(m.extents().extent(k))) { ix[k]++; break; } ix[k] = 0; }
      if (k < 0) break;
    }
  } else {
    for (long n = 0; n < nidx; ++n) { std::vector<i128> ix(R); for (size_t k = 0; k < R; ++k) ix[k] = tk.next_i(); pts.push_back(ix); }
  }
  return pts;
}
template <class M> void mapping_fields(Out &o, const M &m, const char *pfx) {
  constexpr size_t R = M::extents_type::rank();
  std::vector<i128> ev, sv;
  for (size_t k = 0; k < R; ++k) ev.push_back(to_i128(m.extents().extent(k)));
  strides_of(m, sv, R, std::integral_constant<bool, (R > 0)>{});
  o.field((std::string(pfx) + "ext").c_str(), Out::list(ev));
  o.field((std::string(pfx) + "span").c_str(), str_i128(to_i128(m.required_span_size())));
  o.field((std::string(pfx) + "st").c_str(), Out::list(sv));
}

// kind 0: prog 0 <src mapping tokens> <tgt type tokens: ity lay pv R pat*R> nidx idx...
template <class S, int SLAY, class T> void run_conv(long caseno, Toks &tk) {
  tk.next(); tk.next();
  std::printf("V %ld ", caseno); std::fflush(stdout);
  const S s = read_mapping<S, SLAY>(tk);
  tk.next(); tk.next(); tk.next(); long r = tk.next_l(); for (long k = 0; k < r; ++k) tk.next();
  const T t(s);
  auto pts = read_points(s, tk);
  Out o;
  mapping_fields(o, t, "");
  o.field("offs", Out::list(all_offsets(t, pts)));
  o.field("soffs", Out::list(all_offsets(s, pts)));
  o.field("eqts", eq_str(t, s)); o.field("nets", ne_str(t, s));
  o.field("eqst", eq_str(s, t)); o.field("nest", ne_str(s, t));
  { const T c(t); o.field("cp", eq_str(c, t)); }
  if constexpr (std::is_constructible<S, const T &>::value) { const S b(t); o.field("rt", eq_str(b, s)); }
  else o.field("rt", "-");
  std::printf("%s\n", o.s.c_str());
}

// kind 1: prog 1 <A mapping tokens> <B mapping tokens> nidx idx...
template <class A, int ALAY, class B, int BLAY> void run_cmp(long caseno, Toks &tk) {
  tk.next(); tk.next();
  std::printf("V %ld ", caseno); std::fflush(stdout);
  const A a = read_mapping<A, ALAY>(tk);
  const B b = read_mapping<B, BLAY>(tk);
  Out o;
  o.field("eq", eq_str(a, b)); o.field("ne", ne_str(a, b));
  o.field("exteq", (a.extents() == b.extents()) ? "1" : "0");
  mapping_fields(o, a, "a"); mapping_fields(o, b, "b");
  if (A::extents_type::rank() == B::extents_type::rank() && a.extents() == b.extents()) {
    auto pts = read_points(a, tk);
    o.field("aoffs", Out::list(all_offsets(a, pts)));
    if constexpr (A::extents_type::rank() == B::extents_type::rank()) o.field("boffs", Out::list(all_offsets(b, pts)));
  } else { o.field("aoffs", "-"); o.field("boffs", "-"); }
  std::printf("%s\n", o.s.c_str());
}

} // namespace drv
