// drv_map.hpp — family M: one layout mapping instantiation, constructed from run-time values; prints
// extents, required_span_size, stride(r), strides(), the six flags and the offsets of the index space.
#pragma once
#include "drv_common.hpp"
#include <mdspan/mdspan.hpp>
#if MDSPAN_HAS_CXX_17
#include <mdspan/mdarray.hpp>
#endif

namespace drv {

template <class M, size_t... I>
auto call_map(const M &m, const std::array<typename M::index_type, sizeof...(I)> &ix, std::index_sequence<I...>) {
  return m(ix[I]...);
}

// C++14-compatible replacements for `if constexpr`
template <class M, class V> void strides_of(const M &m, V &v, size_t R, std::true_type) { for (size_t k = 0; k < R; ++k) v.push_back(to_i128(m.stride(k))); }
template <class M, class V> void strides_of(const M &, V &, size_t, std::false_type) {}
template <class M> std::string strides_member(const M &m, std::true_type) { auto s = m.strides(); return Out::list(s.begin(), s.end()); }
template <class M> std::string strides_member(const M &, std::false_type) { return "-"; }

template <class M, int LAY> struct MakeMap;
template <class M> struct MakeMap<M, 0> { // left / right: from extents
  template <class E, class S> static M make(const E &e, const S &, i128, int) { return M(e); }
};
template <class M> struct MakeMap<M, 2> { // stride: extents + strides
  template <class E, class S> static M make(const E &e, const S &s, i128, int) { return M(e, s); }
};
template <class M> struct MakeMap<M, 3> { // padded: extents [+ run-time padding value]
  template <class E, class S> static M make(const E &e, const S &s, i128 dpv, int ctor) {
    using T = typename M::index_type;
    if (ctor == 4) return M(Kokkos::layout_stride::mapping<E>(e, s));   // converted from a layout_stride mapping
    return ctor == 2 ? M(e, static_cast<T>(dpv)) : M(e);
  }
};

template <class E> constexpr bool static_prod_small() {
  unsigned long long p = 1;
  for (size_t r = 0; r < E::rank(); ++r) {
    const size_t s = E::static_extent(r);
    if (s != Kokkos::dynamic_extent) { if (s > 4096) return false; p *= (s == 0 ? 1 : s); if (p > 4096) return false; }
  }
  return true;
}

// mapping value tokens:  ity layout pv R pat*R ctor e*R [s*R | dpv]
template <class M, int LAY> M read_mapping(Toks &tk) {
  using T = typename M::index_type;
  using E = typename M::extents_type;
  constexpr size_t R = E::rank();
  tk.next(); long lay = tk.next_l(); tk.next(); long r = tk.next_l();
  if ((size_t)r != R) { std::printf("rank-mismatch\n"); std::exit(3); }
  for (size_t k = 0; k < R; ++k) tk.next();
  int ctor = (int)tk.next_l();
  std::array<T, R> ev{}; for (size_t k = 0; k < R; ++k) ev[k] = static_cast<T>(tk.next_i());
  std::array<T, R> sv{};
  if (lay == 2 || ctor == 4) for (size_t k = 0; k < R; ++k) sv[k] = static_cast<T>(tk.next_i());
  i128 dpv = 0; if (ctor == 2) dpv = tk.next_i();
  if (ctor == 3) return M();                       // default construction: the values on the line are what it must yield
  E e(ev);
  constexpr int MK = (LAY == 0 || LAY == 1) ? 0 : (LAY == 2 ? 2 : 3);
  return MakeMap<M, MK>::make(e, sv, dpv, ctor);
}

// inst <mapping value tokens> nidx (idx*R)*nidx      (tokens after the family tag)
template <class M, int LAY> void run_map(long caseno, Toks &tk) {
  using T = typename M::index_type;
  using E = typename M::extents_type;
  constexpr size_t R = E::rank();
  tk.next();
  std::printf("M %ld ", caseno); std::fflush(stdout);   // case id first: a sanitizer trap is attributed
  const M m = read_mapping<M, LAY>(tk);
  long nidx = tk.next_l();

  Out o;
  { std::vector<i128> v; for (size_t k = 0; k < R; ++k) v.push_back(to_i128(m.extents().extent(k))); o.field("ext", Out::list(v)); }
  o.field("span", str_i128(to_i128(m.required_span_size())));
  { std::vector<i128> v;
    strides_of(m, v, R, std::integral_constant<bool, (R > 0)>{});
    o.field("st", Out::list(v)); }
  o.field("strides", strides_member(m, std::integral_constant<bool, (LAY >= 2)>{}));
  { std::string f;
    f += m.is_unique() ? '1' : '0'; f += m.is_exhaustive() ? '1' : '0'; f += m.is_strided() ? '1' : '0';
    f += M::is_always_unique() ? '1' : '0'; f += M::is_always_exhaustive() ? '1' : '0'; f += M::is_always_strided() ? '1' : '0';
    o.field("fl", f); }
  { // the same observers through an mdspan over this mapping (never dereferenced)
    using L = typename M::layout_type;
    Kokkos::mdspan<int, E, L> sp(static_cast<int *>(nullptr), m);
    std::string f;
    f += sp.is_unique() ? '1' : '0'; f += sp.is_exhaustive() ? '1' : '0'; f += sp.is_strided() ? '1' : '0';
    f += sp.is_always_unique() ? '1' : '0'; f += sp.is_always_exhaustive() ? '1' : '0'; f += sp.is_always_strided() ? '1' : '0';
    o.field("mfl", f);
#if MDSPAN_HAS_CXX_17
    { // and through an mdarray over this mapping (an instance only when its storage is small)
      using ARR = Kokkos::Experimental::mdarray<int, E, L>;
      std::string a = "xxx";
      const i128 spn = to_i128(m.required_span_size());
      // the instance is only instantiated for types whose static extents alone stay small (clang 14 crashes in C++2b on
      // mdarray over extents<unsigned long, 7, 4294967295>)
      constexpr bool small_type = static_prod_small<E>();
      if constexpr (small_type) if (spn >= 0 && spn <= 4096) {
        const ARR arr(m);
        a.clear(); a += arr.is_unique() ? '1' : '0'; a += arr.is_exhaustive() ? '1' : '0'; a += arr.is_strided() ? '1' : '0';
      }
      a += ARR::is_always_unique() ? '1' : '0'; a += ARR::is_always_exhaustive() ? '1' : '0'; a += ARR::is_always_strided() ? '1' : '0';
      o.field("afl", a);
    }
#endif
    o.field("sz", str_i128(to_i128(sp.size())));
    o.field("emp", sp.empty() ? "1" : "0");
    std::vector<i128> me, ms, se;
    for (size_t k = 0; k < R; ++k) { me.push_back(to_i128(sp.extent(k))); se.push_back(sp.static_extent(k) == Kokkos::dynamic_extent ? -1 : to_i128(sp.static_extent(k))); }
    strides_of(sp, ms, R, std::integral_constant<bool, (R > 0)>{});
    o.field("mext", Out::list(me)); o.field("mst", Out::list(ms));
    std::vector<i128> rk{to_i128(sp.rank()), to_i128(sp.rank_dynamic())};
    o.field("rk", Out::list(rk)); o.field("sext", Out::list(se));
    static_assert(std::is_same<typename decltype(sp)::size_type, std::make_unsigned_t<T>>::value, "size_type");
  }
  { std::vector<i128> offs;
    std::array<T, R> ix{};
    if (nidx < 0) {
      bool empty = false; for (size_t k = 0; k < R; ++k) if (m.extents().extent(k) == 0) empty = true;
      if (!empty) {
        for (;;) {
          offs.push_back(to_i128(call_map(m, ix, std::make_index_sequence<R>{})));
          long k = (long)R - 1;
          for (; k >= 0; --k) {
            if (to_i128(ix[k]) + 1 < to_i128(m.extents().extent(k))) { ix[k] = static_cast<T>(ix[k] + 1); break; }
            ix[k] = 0;
          }
          if (k < 0) break;
        }
      }
    } else {
      for (long n = 0; n < nidx; ++n) {
        for (size_t k = 0; k < R; ++k) ix[k] = static_cast<T>(tk.next_i());
        offs.push_back(to_i128(call_map(m, ix, std::make_index_sequence<R>{})));
      }
    }
    o.field("offs", Out::list(offs)); }
  std::printf("%s\n", o.s.c_str());
}

} // namespace drv
