#!/bin/bash
# Builds the framework offline from files on disk: the Coq development (full .vo build) and the
# extracted OCaml model driver.  C++ drivers are generated and built by the checks themselves,
# against /repo's current working tree.
set -e
cd "$(dirname "$0")"
cd coq && coq_makefile -f _CoqProject -o Makefile && timeout 3000 make -j16 && cd ..
python3 -c "
import sys; sys.path.insert(0,'harness')
from common import build_model
exe, log = build_model()
print('model driver:', exe)
sys.exit(0 if exe else 1)"
